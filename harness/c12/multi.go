package main

import (
	"bytes"
	"encoding/json"
	"fmt"
	"io"
	"net"
	"net/http"
	"net/http/httptest"
	"strconv"
	"strings"
	"sync"
	"sync/atomic"
	"syscall"
	"time"

	"bufio"

	"github.com/fabiolb/fabio/config"
	"github.com/fabiolb/fabio/proxy"
	"github.com/fabiolb/fabio/proxy/tcp"
	"github.com/fabiolb/fabio/route"
	"verif/harness/hx"
)

// c12.multi — routes with SEVERAL targets, each with its own allow=/deny= options (every registered service
// instance brings its own urlprefix options) and its own upstream which is up or down, behind the real HTTPProxy,
// tcp.Proxy, tcp.SNIProxy and tcp.DynamicProxy. The listeners are made by fabio's own proxy.ListenTCP, plain or
// with the PROXY protocol switched on; in the latter case the client announces an arbitrary source address in a
// PROXY v1 header, which is then the peer the rules have to judge (real sockets, peers from the whole address
// universe). Lookups hand out the targets round robin (the k-th lookup of a case returns target k mod n), every
// upstream counts for itself: an upstream may be contacted only if the rules of ITS target admit the peer.

type multiTarget struct {
	Allow    string `json:"allow"`
	Deny     string `json:"deny"`
	Up       string `json:"up"`       // "live" | "dead" (nobody listens: the dial is refused)
	Redirect string `json:"redirect"` // table mode, http: the redirect= option
}

type multiIn struct {
	Proto   string        `json:"proto"` // http | tcp | sni | dyn
	PP      bool          `json:"pp"`    // listener with the PROXY protocol, client sends a PROXY v1 header
	Src     string        `json:"src"`   // the source address the header claims
	Port    int           `json:"port"`  // … and its port
	Via     string        `json:"via"`   // v4 | v6: how the client reaches the listener
	Targets []multiTarget `json:"targets"`
	XFF     []string      `json:"xff"`
	// Table: the targets are installed with `route add … opts "…"` commands through route.NewTable, and the proxies
	// look them up the way main.go wires it: Table.Lookup (HTTP: matcher, glob cache, the per-request copy of a
	// redirect target) resp. Table.LookupHost, with the real round-robin picker. Otherwise the harness hands out the
	// targets of the case round robin itself.
	Table bool   `json:"table"`
	Kind  string `json:"kind"` // http only: "" | "ws" (Upgrade: websocket — raw dial) | "sse" (Accept: text/event-stream)
}

const multiSlots = 3

type multiEnv struct {
	hits    [multiSlots]atomic.Int64
	httpUp  [multiSlots]string // URLs
	tlsUp   [multiSlots]string // host:port
	echoUp  [multiSlots]string
	dead    [multiSlots]string // host:port nobody listens on (bound, never listening: the port stays ours)
	ports   map[string]string
	mu      sync.Mutex
	targets []*route.Target
	cursor  int
	table   route.Table // table mode (nil otherwise)
	picks   []int       // which target each lookup of the case returned (len(targets) = none)
	globs   *route.GlobCache
}

var (
	menv     *multiEnv
	menvOnce sync.Once
	menvErr  error
)

// lookup hands out the targets of the case round robin, like the rr picker of the routing table — or, in table
// mode, asks the real table as main.go does. Every answer is recorded: the lookup sequence is the oracle the
// model's `lk` is instantiated with.
func (e *multiEnv) lookup(req *http.Request, host string) *route.Target {
	e.mu.Lock()
	defer e.mu.Unlock()
	var t *route.Target
	if e.table != nil {
		if req != nil {
			t = e.table.Lookup(req, "", route.Picker["rr"], route.Matcher["prefix"], e.globs, false)
		} else {
			t = e.table.LookupHost(host, route.Picker["rr"])
		}
		idx := len(e.targets)
		if t != nil {
			if n, err := strconv.Atoi(strings.TrimPrefix(t.Service, "svc")); err == nil && n >= 0 && n < len(e.targets) {
				idx = n
			} else {
				idx = -1
			}
		}
		e.picks = append(e.picks, idx)
		return t
	}
	if len(e.targets) == 0 {
		e.picks = append(e.picks, 0)
		return nil
	}
	i := e.cursor % len(e.targets)
	e.cursor++
	e.picks = append(e.picks, i)
	return e.targets[i]
}

func deadAddr() (string, error) {
	fd, err := syscall.Socket(syscall.AF_INET, syscall.SOCK_STREAM, 0)
	if err != nil {
		return "", err
	}
	if err := syscall.Bind(fd, &syscall.SockaddrInet4{Addr: [4]byte{127, 0, 0, 1}}); err != nil {
		return "", err
	}
	sa, err := syscall.Getsockname(fd)
	if err != nil {
		return "", err
	}
	s4, ok := sa.(*syscall.SockaddrInet4)
	if !ok {
		return "", fmt.Errorf("unexpected socket address %T", sa)
	}
	return "127.0.0.1:" + strconv.Itoa(s4.Port), nil // fd stays open for the life of the process
}

func setupMulti() (*multiEnv, error) {
	e := &multiEnv{ports: map[string]string{}}
	for i := 0; i < multiSlots; i++ {
		i := i
		count := func(c net.Conn, s http.ConnState) {
			if s == http.StateNew {
				e.hits[i].Add(1)
			}
		}
		h := http.HandlerFunc(func(w http.ResponseWriter, r *http.Request) {
			e.hits[i].Add(1)
			io.WriteString(w, "OK")
		})
		hs := httptest.NewUnstartedServer(h)
		hs.Config.ConnState = count
		hs.Start()
		e.httpUp[i] = hs.URL + "/"
		ts := httptest.NewUnstartedServer(h)
		ts.Config.ConnState = count
		ts.StartTLS()
		e.tlsUp[i] = ts.Listener.Addr().String()
		l, err := net.Listen("tcp", "127.0.0.1:0")
		if err != nil {
			return nil, err
		}
		e.echoUp[i] = l.Addr().String()
		go func() {
			for {
				c, err := l.Accept()
				if err != nil {
					return
				}
				e.hits[i].Add(1)
				go func() {
					defer c.Close()
					line, err := bufio.NewReader(c).ReadString('\n')
					if err == nil {
						io.WriteString(c, "pong:"+line)
					}
				}()
			}
		}()
	}
	for i := range e.dead {
		var err error
		if e.dead[i], err = deadAddr(); err != nil {
			return nil, err
		}
		if c, err := net.DialTimeout("tcp", e.dead[i], time.Second); err == nil {
			c.Close()
			return nil, fmt.Errorf("the address meant to refuse connections accepts them")
		}
	}
	e.globs = route.NewGlobCache(16)

	hp := &proxy.HTTPProxy{
		Config:    config.Proxy{},
		Transport: &http.Transport{DisableKeepAlives: true},
		Lookup:    func(r *http.Request) *route.Target { return e.lookup(r, "") },
	}
	lk := func(host string) *route.Target { return e.lookup(nil, host) }
	handlers := map[string]tcp.Handler{
		"tcp": &tcp.Proxy{Lookup: lk, DialTimeout: 10 * time.Second},
		"sni": &tcp.SNIProxy{Lookup: lk, DialTimeout: 10 * time.Second},
		"dyn": &tcp.DynamicProxy{Lookup: lk, DialTimeout: 10 * time.Second},
	}
	for _, pp := range []bool{false, true} {
		suffix := ""
		if pp {
			suffix = "+pp"
		}
		cfg := config.Listen{Addr: ":0", ProxyProto: pp, ProxyHeaderTimeout: 3 * time.Second}
		ln, addr, err := proxy.VerifC12Listen(cfg)
		if err != nil {
			return nil, err
		}
		_, e.ports["http"+suffix], _ = net.SplitHostPort(addr)
		go (&http.Server{Handler: hp}).Serve(ln)
		for name, h := range handlers {
			ln, addr, err := proxy.VerifC12Listen(cfg)
			if err != nil {
				return nil, err
			}
			_, e.ports[name+suffix], _ = net.SplitHostPort(addr)
			go (&tcp.Server{Handler: h}).Serve(ln)
		}
	}
	return e, nil
}

func runMulti(raw json.RawMessage) (interface{}, error) {
	var in multiIn
	if err := json.Unmarshal(raw, &in); err != nil {
		return nil, err
	}
	menvOnce.Do(func() { menv, menvErr = setupMulti() })
	if menvErr != nil {
		return nil, menvErr
	}
	e := menv
	key := in.Proto
	if in.PP {
		key += "+pp"
	}
	if _, ok := e.ports[key]; !ok {
		return nil, fmt.Errorf("unknown proto %q", in.Proto)
	}
	if len(in.Targets) > multiSlots {
		return nil, fmt.Errorf("at most %d targets", multiSlots)
	}
	for _, l := range in.XFF {
		if strings.ContainsAny(l, "\r\n\x00") {
			return nil, fmt.Errorf("header value not sendable")
		}
	}
	var srcIP net.IP
	if in.PP {
		if srcIP = net.ParseIP(in.Src); srcIP == nil || in.Port < 1 || in.Port > 65535 {
			return nil, fmt.Errorf("the PROXY header needs a source address and port")
		}
	}
	tgts := make([]*route.Target, len(in.Targets))
	var tbl route.Table
	var cmds strings.Builder
	for i, mt := range in.Targets {
		var up string
		switch {
		case mt.Up != "live" && in.Proto == "http":
			up = "http://" + e.dead[i] + "/"
		case mt.Up != "live":
			up = "tcp://" + e.dead[i]
		case in.Proto == "http":
			up = e.httpUp[i]
		case in.Proto == "sni":
			up = "tcp://" + e.tlsUp[i]
		default:
			up = "tcp://" + e.echoUp[i]
		}
		if !in.Table {
			tgts[i] = route.VerifC12AddTarget(up, mkOpts(mt.Allow, mt.Deny))
			continue
		}
		var opts []string
		for _, kv := range [][2]string{{"allow", mt.Allow}, {"deny", mt.Deny}, {"redirect", mt.Redirect}} {
			if strings.ContainsAny(kv[1], " \t\r\n\"=") {
				return nil, fmt.Errorf("option value %q cannot be written in a route command", kv[1])
			}
			if kv[1] != "" && (kv[0] != "redirect" || in.Proto == "http") {
				opts = append(opts, kv[0]+"="+kv[1])
			}
		}
		src := ":" + e.ports[key] // tcp, dyn: the port of the listener
		switch in.Proto {
		case "http":
			src = "/"
		case "sni":
			src = "c12.test/"
		}
		fmt.Fprintf(&cmds, "route add svc%d %s %s", i, src, up)
		if len(opts) > 0 {
			fmt.Fprintf(&cmds, " opts \"%s\"", strings.Join(opts, " "))
		}
		cmds.WriteString("\n")
	}
	if in.Table {
		var err error
		if tbl, err = route.NewTable(bytes.NewBufferString(cmds.String())); err != nil {
			return nil, fmt.Errorf("route table: %v", err)
		}
	}
	e.mu.Lock()
	e.targets, e.cursor, e.table, e.picks = tgts, 0, tbl, nil
	e.mu.Unlock()

	var before [multiSlots]int64
	for i := range before {
		before[i] = e.hits[i].Load()
	}
	host := "127.0.0.1"
	if in.Via == "v6" {
		host = "::1"
	}
	addr := net.JoinHostPort(host, e.ports[key])
	c, err := dialClient(addr)
	if err != nil {
		return nil, fmt.Errorf("dial proxy %s: %v", addr, err)
	}
	defer c.Close()
	c.SetDeadline(time.Now().Add(20 * time.Second))
	peer := c.LocalAddr().String()
	var tcpIP net.IP
	if in.PP {
		fam := "TCP4"
		if srcIP.To4() == nil {
			fam = "TCP6"
		}
		dst := "127.0.0.1"
		if fam == "TCP6" {
			dst = "::1"
		}
		if _, err := fmt.Fprintf(c, "PROXY %s %s %s %d %s\r\n", fam, in.Src, dst, in.Port, e.ports[key]); err != nil {
			return nil, err
		}
		// what the proxies are told about the peer: RemoteAddr() of the connection is this *net.TCPAddr, the
		// RemoteAddr of an HTTP request its String()
		ta := &net.TCPAddr{IP: srcIP, Port: in.Port}
		peer, tcpIP = ta.String(), srcIP
	} else {
		h, _, _ := net.SplitHostPort(peer)
		tcpIP = net.ParseIP(h)
	}
	var extra http.Header
	switch in.Kind {
	case "ws":
		extra = http.Header{"Upgrade": {"websocket"}, "Connection": {"Upgrade"}}
	case "sse":
		extra = http.Header{"Accept": {"text/event-stream"}}
	}
	outcome, err := exchange(c, in.Proto, in.XFF, credIn{Mode: "none"}, extra)
	if err != nil {
		return nil, err
	}
	if strings.HasPrefix(outcome, "error:") {
		outcome = "error" // the websocket handler has hijacked the connection: a failed dial ends it without an answer
	}
	if outcome != "200" && outcome != "echo" {
		time.Sleep(2 * time.Millisecond)
	}
	hits := make([]int64, len(in.Targets))
	refs := make([]refOut, len(in.Targets))
	for i, mt := range in.Targets {
		if hits[i] = e.hits[i].Load() - before[i]; hits[i] > 1 {
			hits[i] = 1
		}
		refs[i] = refEval(mt.Allow, mt.Deny, peer, in.XFF, tcpIP, true)
	}
	e.mu.Lock()
	picks := append([]int{}, e.picks...)
	e.mu.Unlock()
	for _, p := range picks {
		if p < 0 {
			return nil, fmt.Errorf("the table returned a target that is not of this case")
		}
	}
	return map[string]interface{}{"peer": peer, "outcome": outcome, "hits": hits, "refs": refs, "picks": picks}, nil
}

// compactRule: a list whose items hold no blanks (it has to fit into the opts "…" of a route command).
func compactRule(r *hx.Rand, with string, bad bool) string {
	n := 1 + r.Intn(3)
	items := make([]string, n)
	for i := range items {
		items[i] = r.Pick([]string{"ip", "IP", "Ip"}) + ":" + r.Pick(goodBlocks)
	}
	if with != "" {
		items[r.Intn(n)] = "ip:" + with
	}
	if bad {
		items[r.Intn(n)] = r.Pick([]string{"ip:127.0.0.1/33", "foo:127.0.0.1", "ip:bad", "127.0.0.1", "ip:", "ip:fe80::1%eth0", ""})
	}
	return strings.Join(items, ",")
}

func genMulti(r *hx.Rand) multiIn {
	in := multiIn{Proto: r.Pick([]string{"http", "tcp", "tcp", "sni", "dyn"}), Via: r.Pick([]string{"v4", "v4", "v6"}), XFF: []string{}}
	in.PP = r.Chance(2, 3)
	in.Table = r.Chance(1, 2)
	peer := "127.0.0.1"
	if in.Via == "v6" {
		peer = "::1"
	}
	if in.PP {
		in.Src, in.Port = r.Pick(addrs), r.Range(1024, 65000)
		peer = in.Src
	}
	n := []int{1, 2, 2, 2, 3, 3}[r.Intn(6)]
	if r.Chance(1, 40) {
		n = 0
	}
	for i := 0; i < n; i++ {
		var t multiTarget
		switch {
		case in.Table:
			switch r.Intn(6) {
			case 0:
			case 1:
				t.Allow = compactRule(r, "", true)
				if r.Chance(1, 3) {
					t.Allow, t.Deny = "", t.Allow
				}
			case 2:
				t.Allow = compactRule(r, peer, false)
			case 3:
				t.Allow = compactRule(r, "", false)
			case 4:
				t.Deny = compactRule(r, peer, false)
			default:
				t.Deny = compactRule(r, "", false)
			}
			if in.Proto == "http" && r.Chance(1, 4) {
				t.Redirect = r.Pick([]string{"301", "302", "308", "+307", "200", "abc"})
			}
		case in.PP:
			switch r.Intn(5) {
			case 0, 1:
				t.Allow, t.Deny = genOpts(r)
			case 2: // an allow list with the announced source among its blocks
				t.Allow = genRule(r, 0, 1) + "," + r.Pick(typesGood) + ":" + in.Src
			case 3: // a deny list naming it
				t.Deny = r.Pick(typesGood) + ":" + in.Src + "," + genRule(r, 0, 1)
			default:
				t.Deny = genRule(r, 1, 8)
			}
		default:
			switch r.Intn(8) {
			case 0:
			case 1:
				t.Allow = r.Pick(gateBad)
			case 2, 3, 4:
				t.Allow = r.Pick(gateAllow)
			default:
				t.Deny = r.Pick(gateDeny)
			}
		}
		t.Up = r.Pick([]string{"live", "live", "dead"})
		in.Targets = append(in.Targets, t)
	}
	if in.Proto == "http" {
		in.Kind = r.Pick([]string{"", "", "", "ws", "sse"})
	}
	if in.Proto == "http" && r.Chance(1, 2) {
		if in.PP {
			in.XFF = genXFF(r, net.JoinHostPort(in.Src, "1"))
		} else {
			in.XFF = gateXFF[r.Intn(len(gateXFF))]
		}
	}
	return in
}

func init() {
	hx.Register(&hx.Stream{
		Name: "c12.multi",
		Corpus: []interface{}{
			// the instance which admits the client is down, the next one is up but denies it: nobody is contacted
			multiIn{Proto: "tcp", Via: "v4", XFF: []string{}, Targets: []multiTarget{{Allow: "ip:127.0.0.0/8", Up: "dead"}, {Deny: "ip:127.0.0.0/8", Up: "live"}}},
			multiIn{Proto: "dyn", Via: "v4", XFF: []string{}, Targets: []multiTarget{{Up: "dead"}, {Allow: "ip:10.0.0.0/8", Up: "live"}}},
			multiIn{Proto: "sni", Via: "v6", XFF: []string{}, Targets: []multiTarget{{Deny: "ip:10.0.0.0/8", Up: "dead"}, {Deny: "ip:::1", Up: "live"}, {Up: "live"}}},
			multiIn{Proto: "http", Via: "v4", XFF: []string{}, Targets: []multiTarget{{Allow: "ip:127.0.0.1", Up: "dead"}, {Allow: "ip:bad", Up: "live"}}},
			multiIn{Proto: "http", Kind: "ws", Via: "v4", XFF: []string{}, Targets: []multiTarget{{Allow: "ip:127.0.0.1", Up: "dead"}, {Deny: "ip:127.0.0.1", Up: "live"}}},
			multiIn{Proto: "http", Kind: "ws", Via: "v4", XFF: []string{}, Targets: []multiTarget{{Deny: "ip:127.0.0.1", Up: "live"}}},
			multiIn{Proto: "http", Kind: "sse", Via: "v6", XFF: []string{"9.9.9.9"}, Targets: []multiTarget{{Deny: "ip:9.9.9.9", Up: "live"}}},
			// through the real table: route commands, Table.Lookup / LookupHost, rr picker
			multiIn{Proto: "tcp", Table: true, Via: "v4", XFF: []string{}, Targets: []multiTarget{{Allow: "ip:127.0.0.0/8", Up: "dead"}, {Deny: "ip:127.0.0.0/8", Up: "live"}}},
			multiIn{Proto: "sni", Table: true, Via: "v4", XFF: []string{}, Targets: []multiTarget{{Deny: "ip:127.0.0.1", Up: "live"}}},
			multiIn{Proto: "dyn", Table: true, PP: true, Src: "10.1.2.3", Port: 4000, Via: "v6", XFF: []string{}, Targets: []multiTarget{{Allow: "ip:10.0.0.0/8,ip:bad", Up: "live"}}},
			multiIn{Proto: "http", Table: true, Via: "v4", XFF: []string{}, Targets: []multiTarget{{Allow: "ip:10.0.0.0/8", Redirect: "301", Up: "live"}}},
			multiIn{Proto: "http", Table: true, Via: "v4", XFF: []string{}, Targets: []multiTarget{{Allow: "ip:127.0.0.0/8", Redirect: "+307", Up: "live"}}},
			multiIn{Proto: "http", Table: true, Via: "v6", XFF: []string{"9.9.9.9"}, Targets: []multiTarget{{Deny: "ip:9.9.9.9", Redirect: "308", Up: "dead"}, {Up: "live"}}},
			// PROXY protocol: the announced source is the peer
			multiIn{Proto: "tcp", PP: true, Src: "10.1.2.3", Port: 40000, Via: "v4", XFF: []string{}, Targets: []multiTarget{{Allow: "ip:10.0.0.0/8", Up: "live"}}},
			multiIn{Proto: "tcp", PP: true, Src: "9.9.9.9", Port: 40000, Via: "v4", XFF: []string{}, Targets: []multiTarget{{Allow: "ip:10.0.0.0/8", Up: "live"}}},
			multiIn{Proto: "http", PP: true, Src: "::ffff:10.1.2.3", Port: 40000, Via: "v6", XFF: []string{"10.9.9.9", "9.9.9.9"}, Targets: []multiTarget{{Allow: "ip:10.0.0.0/8", Up: "live"}}},
			multiIn{Proto: "http", PP: true, Src: "2001:db8::5", Port: 4, Via: "v4", XFF: []string{}, Targets: []multiTarget{{Deny: "ip:2001:db8::/32", Up: "live"}, {Up: "live"}}},
			multiIn{Proto: "sni", PP: true, Src: "192.168.0.7", Port: 40000, Via: "v4", XFF: []string{}, Targets: []multiTarget{{Deny: "ip:192.168.0.0/24,ip:bad", Up: "live"}}},
			multiIn{Proto: "dyn", PP: true, Src: "fe80::1", Port: 40000, Via: "v4", XFF: []string{}, Targets: []multiTarget{{Allow: "ip:fe80::/10", Up: "dead"}, {Deny: "ip:fe80::/64", Up: "live"}}},
		},
		Gen: func(r *hx.Rand, i int) interface{} { return genMulti(r) },
		Run: runMulti,
	})
}
