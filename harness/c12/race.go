package main

import (
	"bufio"
	"bytes"
	"encoding/hex"
	"encoding/json"
	"fmt"
	"io"
	"log"
	"net"
	"net/http"
	"os"
	"os/exec"
	"runtime"
	"strings"
	"sync"
	"sync/atomic"

	"github.com/fabiolb/fabio/route"
	"verif/harness/hx"
)

// c12.race — the first requests for a target that has just been built arrive at the same time (the routing table
// is rebuilt on every change in the registry while traffic flows). A fresh target is made through the real
// addTarget for every round; workers are released together and ask AccessDeniedHTTP (even workers) and
// AccessDeniedTCP (odd workers) once each. Whatever the interleaving, every one of them has to get the decision a
// single request gets: the counts of admitted and denied answers are compared with the model's sequential decision,
// and an admitted answer has to be justified by the independent reference.

type raceIn struct {
	Allow   string    `json:"allow"`
	Deny    string    `json:"deny"`
	Remote  string    `json:"remote"`
	XFF     []string  `json:"xff"`
	TCP     tcpPeerIn `json:"tcp"`
	Workers int       `json:"workers"`
	Rounds  int       `json:"rounds"`
}

// The workers run in a child process (this binary, started with C12_RACE_CHILD=1 and kept for the following
// cases): unsynchronised access to the rule map can end in a Go runtime fatal error ("concurrent map read and map
// write"), which cannot be recovered in-process. A child that dies with such a message is an observation
// ({"crashed": "…"}: the requests got no decision), anything else a harness error.

type raceChild struct {
	cmd    *exec.Cmd
	stdin  io.WriteCloser
	stdout *bufio.Reader
	stderr *bytes.Buffer
}

var (
	raceMu sync.Mutex
	raceCh *raceChild
)

func init() {
	if os.Getenv("C12_RACE_CHILD") != "1" {
		return
	}
	log.SetOutput(io.Discard)
	sc := bufio.NewScanner(os.Stdin)
	sc.Buffer(make([]byte, 1<<20), 1<<26)
	out := bufio.NewWriter(os.Stdout)
	for sc.Scan() {
		res, err := runRaceInproc(append([]byte(nil), sc.Bytes()...))
		if err != nil {
			res = map[string]interface{}{"harness_error": err.Error()}
		}
		b, _ := json.Marshal(res)
		out.Write(b)
		out.WriteByte('\n')
		out.Flush()
	}
	os.Exit(0)
}

func startRaceChild() (*raceChild, error) {
	exe, err := os.Executable()
	if err != nil {
		return nil, err
	}
	cmd := exec.Command(exe)
	cmd.Env = append(os.Environ(), "C12_RACE_CHILD=1")
	c := &raceChild{cmd: cmd, stderr: &bytes.Buffer{}}
	cmd.Stderr = c.stderr
	if c.stdin, err = cmd.StdinPipe(); err != nil {
		return nil, err
	}
	so, err := cmd.StdoutPipe()
	if err != nil {
		return nil, err
	}
	c.stdout = bufio.NewReaderSize(so, 1<<20)
	if err := cmd.Start(); err != nil {
		return nil, err
	}
	return c, nil
}

func runRace(raw json.RawMessage) (interface{}, error) {
	var in raceIn
	if err := json.Unmarshal(raw, &in); err != nil {
		return nil, err
	}
	if err := in.check(); err != nil {
		return nil, err
	}
	line, err := json.Marshal(in) // one line, whatever the spelling of the input was
	if err != nil {
		return nil, err
	}
	raceMu.Lock()
	defer raceMu.Unlock()
	if raceCh == nil {
		if raceCh, err = startRaceChild(); err != nil {
			return nil, err
		}
	}
	c := raceCh
	var answer []byte
	if _, err = c.stdin.Write(append(line, '\n')); err == nil {
		answer, err = c.stdout.ReadBytes('\n')
	}
	if err == nil {
		var out map[string]interface{}
		if err := json.Unmarshal(answer, &out); err != nil {
			return nil, err
		}
		if m, ok := out["harness_error"].(string); ok {
			return nil, fmt.Errorf("%s", m)
		}
		return out, nil
	}
	// the child is gone
	c.stdin.Close()
	c.cmd.Wait()
	raceCh = nil
	for _, l := range strings.Split(c.stderr.String(), "\n") {
		if strings.HasPrefix(l, "fatal error:") || strings.HasPrefix(l, "panic:") {
			return map[string]interface{}{"crashed": l}, nil
		}
	}
	return nil, fmt.Errorf("worker process ended: %v: %.300s", err, c.stderr.String())
}

func (in raceIn) check() error {
	if in.Workers < 1 || in.Workers > 16 || in.Rounds < 1 || in.Rounds > 200 {
		return fmt.Errorf("workers 1..16, rounds 1..200")
	}
	if in.TCP.Kind == "tcp" {
		b, err := hex.DecodeString(in.TCP.IP)
		if err != nil || (len(b) != 0 && len(b) != 4 && len(b) != 16) {
			return fmt.Errorf("bad tcp ip %q", in.TCP.IP)
		}
	}
	return nil
}

func runRaceInproc(raw json.RawMessage) (interface{}, error) {
	var in raceIn
	if err := json.Unmarshal(raw, &in); err != nil {
		return nil, err
	}
	if err := in.check(); err != nil {
		return nil, err
	}
	var conn net.Conn
	var tcpIP net.IP
	isTCP := in.TCP.Kind == "tcp"
	if isTCP {
		b, err := hex.DecodeString(in.TCP.IP)
		if err != nil || (len(b) != 0 && len(b) != 4 && len(b) != 16) {
			return nil, fmt.Errorf("bad tcp ip %q", in.TCP.IP)
		}
		if len(b) > 0 {
			tcpIP = net.IP(b)
		}
		conn = fakeConn{remote: &net.TCPAddr{IP: tcpIP, Port: 4711}}
	} else {
		conn = fakeConn{remote: fakeAddr{}}
	}
	opts := mkOpts(in.Allow, in.Deny)
	var httpDenied, httpAdmitted, tcpDenied, tcpAdmitted atomic.Int64
	for round := 0; round < in.Rounds; round++ {
		t := route.VerifC12AddTarget("tcp://127.0.0.1:1", opts) // a fresh target, as the table builds it
		var start atomic.Int32
		var ready, done sync.WaitGroup
		ready.Add(in.Workers)
		done.Add(in.Workers)
		for w := 0; w < in.Workers; w++ {
			w := w
			req := &http.Request{Method: "GET", RemoteAddr: in.Remote, Header: http.Header{}}
			for _, l := range in.XFF {
				req.Header.Add("X-Forwarded-For", l)
			}
			go func() {
				defer done.Done()
				ready.Done()
				for start.Load() == 0 {
					runtime.Gosched()
				}
				if w%2 == 0 {
					if t.AccessDeniedHTTP(req) {
						httpDenied.Add(1)
					} else {
						httpAdmitted.Add(1)
					}
				} else {
					if t.AccessDeniedTCP(conn) {
						tcpDenied.Add(1)
					} else {
						tcpAdmitted.Add(1)
					}
				}
			}()
		}
		ready.Wait()
		start.Store(1)
		done.Wait()
	}
	return map[string]interface{}{
		"http": map[string]int64{"denied": httpDenied.Load(), "admitted": httpAdmitted.Load()},
		"tcp":  map[string]int64{"denied": tcpDenied.Load(), "admitted": tcpAdmitted.Load()},
		"ref":  refEval(in.Allow, in.Deny, in.Remote, in.XFF, tcpIP, isTCP),
	}, nil
}

// longRule: a list of 1…120 well-formed items (the longer the list, the longer the target is under construction).
func longRule(r *hx.Rand) string {
	n := []int{1, 3, 10, 40, 120}[r.Intn(5)]
	items := make([]string, n)
	for i := range items {
		items[i] = r.Pick(typesGood) + ":" + r.Pick(goodBlocks)
	}
	return strings.Join(items, ",")
}

func genRace(r *hx.Rand) raceIn {
	in := raceIn{Remote: genRemote(r), TCP: genTCPPeer(r), Workers: r.Range(2, 4), Rounds: r.Range(4, 12)}
	in.XFF = genXFF(r, in.Remote)
	switch r.Intn(10) {
	case 0:
		in.Allow, in.Deny = genOpts(r) // incl. malformed, both, none
	case 1, 2, 3, 4:
		in.Allow = longRule(r)
	default:
		in.Deny = longRule(r)
	}
	return in
}

func init() {
	hx.Register(&hx.Stream{
		Name: "c12.race",
		Corpus: []interface{}{
			raceIn{Deny: "ip:192.168.0.0/24,ip:192.168.1.0/24,ip:192.168.2.0/24,ip:10.0.0.0/8", Remote: "10.1.2.3:40000", XFF: []string{}, TCP: tcpPeerIn{"tcp", "0a010203"}, Workers: 4, Rounds: 40},
			raceIn{Allow: "ip:192.168.0.0/24,ip:10.0.0.0/8", Remote: "9.9.9.9:1", XFF: []string{}, TCP: tcpPeerIn{"tcp", "09090909"}, Workers: 4, Rounds: 40},
			raceIn{Allow: "ip:10.0.0.0/8", Remote: "10.1.2.3:1", XFF: []string{"10.2.2.2", "9.9.9.9"}, TCP: tcpPeerIn{"nontcp", ""}, Workers: 3, Rounds: 40},
			raceIn{Allow: "ip:10.0.0.0/33", Remote: "10.1.2.3:1", XFF: []string{}, TCP: tcpPeerIn{"tcp", "0a010203"}, Workers: 4, Rounds: 40},
		},
		Gen: func(r *hx.Rand, i int) interface{} { return genRace(r) },
		Run: runRace,
	})
}
