package main

import "verif/harness/hx"

func main() { hx.Main() }
