package main

import (
	"bytes"
	"crypto/tls"
	"encoding/hex"
	"encoding/json"
	"errors"
	"fmt"
	"io"
	"log"
	"net"
	"os"
	"strconv"
	"sync"
	"sync/atomic"
	"time"

	"github.com/fabiolb/fabio/proxy/tcp"
	"github.com/fabiolb/fabio/route"
	"verif/harness/hx"
)

func init() { log.SetOutput(io.Discard) }

// Waiting. A scenario never sleeps to "let things happen": every wait ends on an observed event.
//   - hardT bounds the waits for events that MUST happen whatever the code under test does with the bytes
//     (the upstream has accepted, the proxy has come back for more input, a writer goroutine is done, ServeTCP has
//     returned, an endpoint has seen the end of its stream). Hitting it is a harness error (`harness_error`, never a
//     verdict): the machine is starved or the proxy hangs.
//   - softT(attempt) bounds the waits for bytes the specification says must arrive before the closing phase may
//     begin. Hitting it is not an error — the missing bytes show in the observation — but such a case is measured
//     again in a fresh run (up to three attempts, the bound doubling each time), so a starved scheduler cannot turn
//     into a verdict while a deterministic loss fails every attempt.
const hardT = 20 * time.Second
const waitT = 3 * time.Second // socket-level timeouts (dial, handshake reads)

func softT(attempt int) time.Duration {
	if lossSeen >= lossPatience {
		return 400 * time.Millisecond
	}
	return 2 * time.Second << uint(attempt-1)
}

// A case that loses bytes deterministically runs into the count-based bound on every attempt (2 s + 4 s, the same
// observation twice ends the re-measuring). A tree that loses bytes does so in many cases: after `lossPatience` such
// cases the process stops paying for patience (one attempt, 400 ms) — by then the run has its failing inputs, and a
// candidate of the shrinker is re-run in a fresh process before it is reported.
const lossPatience = 2

var (
	lossSeen int
	softHits int // count-based waits that ran into their bound (one case at a time per process)
)

func maxAttempts() int {
	if lossSeen >= lossPatience {
		return 1
	}
	return 3
}

func softWait(attempt int, abort <-chan struct{}, f func() bool) {
	if waitFor(softT(attempt), abort, f) == wTimeout {
		softHits++
	}
}

const (
	wOK = iota
	wAborted
	wTimeout
)

func waitFor(d time.Duration, abort <-chan struct{}, f func() bool) int {
	dl := time.Now().Add(d)
	for i := 0; ; i++ {
		if f() {
			return wOK
		}
		if abort != nil {
			select {
			case <-abort:
				if f() {
					return wOK
				}
				return wAborted
			default:
			}
		}
		if time.Now().After(dl) {
			return wTimeout
		}
		if i < 200 {
			time.Sleep(50 * time.Microsecond)
		} else {
			time.Sleep(time.Millisecond)
		}
	}
}

func waitUntil(d time.Duration, abort <-chan struct{}, f func() bool) bool {
	return waitFor(d, abort, f) == wOK
}

func chanClosed(c <-chan struct{}) func() bool {
	return func() bool {
		select {
		case <-c:
			return true
		default:
			return false
		}
	}
}

// ---- instrumented endpoint: records everything it receives ----

type endpoint struct {
	mu   sync.Mutex
	conn net.Conn
	recv []byte
	end  string // "" while open, "eof", "err"
	slow bool   // a slow consumer: small receive buffer, 16 KiB reads with a short sleep after each
}

// burstByte is the i-th byte of the large final burst (position dependent, so loss, duplication and
// reordering all show).
func burstByte(i int, seed int) byte { return byte(i%251) + byte(i/65521) + byte(seed) }

func burstChunk(from, n, seed int) []byte {
	b := make([]byte, n)
	for i := range b {
		b[i] = burstByte(from+i, seed)
	}
	return b
}

// burstCheck: how many bytes of the burst arrived and whether they are exactly its first `len(got)` bytes.
func burstCheck(got []byte, seed int) (int, bool) {
	for i, x := range got {
		if x != burstByte(i, seed) {
			return len(got), false
		}
	}
	return len(got), true
}

func (e *endpoint) attach(c net.Conn) {
	e.mu.Lock()
	e.conn = c
	e.mu.Unlock()
	slow := e.slow
	if tc, ok := c.(*net.TCPConn); ok && slow {
		tc.SetReadBuffer(32 * 1024)
	}
	go func() {
		buf := make([]byte, 64*1024)
		if slow {
			buf = make([]byte, 16*1024)
		}
		for {
			n, err := c.Read(buf)
			if slow {
				time.Sleep(150 * time.Microsecond)
			}
			e.mu.Lock()
			e.recv = append(e.recv, buf[:n]...)
			if err != nil {
				if err == io.EOF {
					e.end = "eof"
				} else {
					e.end = "err"
				}
				e.mu.Unlock()
				return
			}
			e.mu.Unlock()
		}
	}()
}

func (e *endpoint) n() int {
	e.mu.Lock()
	defer e.mu.Unlock()
	return len(e.recv)
}
func (e *endpoint) ended() bool {
	e.mu.Lock()
	defer e.mu.Unlock()
	return e.end != ""
}
func (e *endpoint) snapshot() ([]byte, string) {
	e.mu.Lock()
	defer e.mu.Unlock()
	return append([]byte(nil), e.recv...), e.end
}
func (e *endpoint) c() net.Conn {
	e.mu.Lock()
	defer e.mu.Unlock()
	return e.conn
}

// listenRetry: loopback listener on a free port; under heavy connection churn (tens of thousands of sockets
// in TIME_WAIT) bind can fail transiently, so retry for a while.
func listenRetry() (*net.TCPListener, error) {
	var err error
	for i := 0; i < 200; i++ {
		var l net.Listener
		l, err = net.Listen("tcp", "127.0.0.1:0")
		if err == nil {
			return l.(*net.TCPListener), nil
		}
		time.Sleep(time.Duration(5+i) * time.Millisecond)
	}
	return nil, err
}

// The upstream listeners are kept for the life of the process and used round-robin (one case at a time per
// process, so a listener serves at most one connection per case): no bind per case, and the outbound
// connections spread over many destination ports.
var (
	upPool     []*net.TCPListener
	upPoolNext int
)

const upPoolSize = 48

// upstream is a one-connection loopback endpoint with an instrumented reader.
type upstream struct {
	l        *net.TCPListener
	ep       endpoint
	accepted chan struct{}
	exited   chan struct{}
}

func newUpstream() (*upstream, error) { return newUpstreamFunc(nil, false) }

func newUpstreamSlow(slow bool) (*upstream, error) { return newUpstreamFunc(nil, slow) }

// newUpstreamFunc: `greet` (optional) runs on the accepted connection before the recorder is attached; if it
// returns false the connection does not count as accepted.
func newUpstreamFunc(greet func(net.Conn, *endpoint) bool, slow bool) (*upstream, error) {
	l, err := pickListener()
	if err != nil {
		return nil, err
	}
	return upstreamOn(l, greet, slow), nil
}

func pickListener() (*net.TCPListener, error) {
	if len(upPool) < upPoolSize {
		l, err := listenRetry()
		if err != nil {
			return nil, err
		}
		upPool = append(upPool, l)
	}
	l := upPool[upPoolNext%len(upPool)]
	upPoolNext++
	return l, nil
}

// upstreamOn arms a one-connection endpoint on a listener of the pool (a case that runs an earlier connection
// through the same handler first arms the same listener twice, one after the other).
func upstreamOn(l *net.TCPListener, greet func(net.Conn, *endpoint) bool, slow bool) *upstream {
	// nothing may be pending from an earlier case (a connection that completed in the backlog after that case's
	// endpoint had stopped accepting would be taken for this case's). The deadline lies shortly in the future:
	// with a deadline that has already passed Accept fails at once without looking at the backlog.
	l.SetDeadline(time.Now().Add(300 * time.Microsecond))
	for {
		c, err := l.Accept()
		if err != nil {
			break
		}
		c.Close()
	}
	l.SetDeadline(time.Time{})
	u := &upstream{l: l, accepted: make(chan struct{}), exited: make(chan struct{})}
	u.ep.slow = slow
	go func() {
		defer close(u.exited)
		c, err := l.Accept()
		if err != nil {
			return
		}
		if greet != nil && !greet(c, &u.ep) {
			return
		}
		u.ep.attach(c)
		close(u.accepted)
	}()
	return u
}

func (u *upstream) addr() string { return u.l.Addr().String() }

func (u *upstream) isAccepted() bool {
	select {
	case <-u.accepted:
		return true
	default:
		return false
	}
}

func (u *upstream) close() {
	u.l.SetDeadline(time.Now()) // unblocks a pending Accept
	<-u.exited
	u.l.SetDeadline(time.Time{})
	if c := u.ep.c(); c != nil {
		c.Close()
	}
}

func writeSegs(c net.Conn, segs [][]byte, paced bool) {
	gap := time.Duration(0)
	if paced {
		gap = time.Millisecond
	}
	writeSegsGap(c, segs, gap)
}

func writeSegsGap(c net.Conn, segs [][]byte, gap time.Duration) {
	for _, s := range segs {
		if len(s) == 0 {
			continue
		}
		if _, err := c.Write(s); err != nil {
			return
		}
		if gap > 0 {
			time.Sleep(gap)
		}
	}
}

// ---- the case ----

type tunIn struct {
	Path      string   `json:"path"`      // tcp | sni | dyn
	Transport string   `json:"transport"` // script: scripted in-memory client conn handed to ServeTCP; tcp: real client through tcp.Server
	Pxy       bool     `json:"pxy"`
	Raddr     addrJ    `json:"raddr"` // script transport: what in.RemoteAddr()/LocalAddr() report
	Laddr     addrJ    `json:"laddr"`
	Host      string   `json:"host"`     // sni: server name the route is configured for
	Routed    bool     `json:"routed"`   // false: the table has no matching route
	DynRoute  string   `json:"dynroute"` // dyn: "full" (ip:port route) | "port"
	Csegs     []segJ   `json:"csegs"`    // client segments, optionally a terminal {"e":"eof"|"err"}
	Usegs     []string `json:"usegs"`    // upstream segments (hex)
	Order     string   `json:"order"`    // client | upstream | halfclose | halfidle
	Reply     []string `json:"reply"`    // halfclose/halfidle: what the upstream sends after it has seen EOF
	Paced     bool     `json:"paced"`    // tcp transport: 1 ms between client writes
	DialMs    int      `json:"dial_ms,omitempty"`   // configured DialTimeout in ms (0: generous default)
	PauseMs   int      `json:"pause_ms,omitempty"`  // the client pauses this long after its first `hold` segments
	Hold      int      `json:"hold,omitempty"`      // number of leading client segments sent before the pause
	Burst     int      `json:"burst,omitempty"`     // a final client burst of this many bytes (pattern burstByte)
	BurstSeed int      `json:"burst_seed,omitempty"`
	SlowUp    bool     `json:"slowup,omitempty"`    // the upstream is a slow consumer
	// The handler object is long-lived: an earlier connection (other addresses, own short stream) goes through the
	// same handler instance before the measured one.
	Warm *warmJ `json:"warm,omitempty"`
	// tcp transport: the listener's read/write timeouts (tcp.Server.ReadTimeout/WriteTimeout, the `rt=`/`wt=`
	// listener options) and a steady trickle: `cgap_ms`/`ugap_ms` between the client's / the upstream's segments.
	// Every single gap is well below the timeout, the whole exchange lasts several timeouts.
	// script transport: full-duplex overlap — the client's segments from index `hold` on are released at the moment
	// the proxy begins to write upstream data to the client, and that write takes its bytes only after `wdelay_us`
	Duplex   bool `json:"duplex,omitempty"`
	WdelayUs int  `json:"wdelay_us,omitempty"`
	RtMs   int `json:"rt_ms,omitempty"`
	WtMs   int `json:"wt_ms,omitempty"`
	CgapMs int `json:"cgap_ms,omitempty"`
	UgapMs int `json:"ugap_ms,omitempty"`
}

type warmJ struct {
	Raddr addrJ  `json:"raddr"`
	Laddr addrJ  `json:"laddr"`
	Data  string `json:"data"` // hex: the whole client stream of the earlier connection (sni: hello included)
}

type tunOut struct {
	Up       string `json:"up"` // everything the upstream received
	Cl       string `json:"cl"` // everything the client received
	Accepted bool   `json:"accepted"`
	UpEnd    string `json:"upend"`
	BurstGot int    `json:"burst_got"` // bytes received behind the expected head (PROXY line + segments)
	BurstOK  bool   `json:"burst_ok"`  // ... and they are exactly the first burst_got bytes of the burst
	Attempts int    `json:"attempts"`  // how often the case was measured (an unexpected outcome is re-measured)
	expected bool   // the harness's own comparison with the specification, only used to decide on a re-measurement
	Lookup   string `json:"lookup"` // what the proxy's Lookup call returned: none (not called) | miss | hit
	Served   bool   `json:"served"` // ServeTCP returned / client connection ended within the bound
	EofSeen  bool   `json:"eof_seen"` // orders in which the client finishes first: the upstream saw EOF while it was still open
	Raddr    string `json:"raddr"`  // in.RemoteAddr().String()
	Laddr    string `json:"laddr"`
	// the earlier connection through the same handler (input field `warm`)
	WarmUp     string `json:"warm_up,omitempty"` // what the upstream received on it
	WarmLookup string `json:"warm_lookup,omitempty"`
	WarmRaddr  string `json:"warm_raddr,omitempty"`
	WarmLaddr  string `json:"warm_laddr,omitempty"`
}

func decodeHexes(hs []string) ([][]byte, int, error) {
	var out [][]byte
	n := 0
	for _, h := range hs {
		b, err := hex.DecodeString(h)
		if err != nil {
			return nil, 0, err
		}
		out = append(out, b)
		n += len(b)
	}
	return out, n, nil
}

// helloComplete: pacing only — does the client stream start with a complete, acceptable ClientHello
// record header (so that the proxy will dial)? The verdict never depends on it.
func helloComplete(s []byte) bool {
	if len(s) < 9 || s[0] != 0x16 || s[5] != 1 {
		return false
	}
	rec := int(s[3])<<8 | int(s[4])
	hs := int(s[6])<<16 | int(s[7])<<8 | int(s[8])
	return rec > 0 && rec <= 16384 && hs > 0 && hs <= rec-4 && len(s) >= hs+9
}

// runTunnel measures a case; an outcome that is not the expected one (or a harness timeout) is measured again in
// a fresh run, at most three attempts. A deterministic failure fails every attempt; `attempts` is recorded.
func runTunnel(raw json.RawMessage) (interface{}, error) {
	var out, prev tunOut
	var err error
	hits0 := softHits
	for a, n := 1, maxAttempts(); a <= n; a++ {
		var o interface{}
		o, err = runTunnelOnce(raw, a)
		if err != nil {
			if _, timeout := err.(harnessTimeout); timeout {
				continue
			}
			return nil, err // malformed input
		}
		out = o.(tunOut)
		out.Attempts = a
		if out.expected {
			break
		}
		if a >= 2 && out.Up == prev.Up && out.Cl == prev.Cl && out.BurstGot == prev.BurstGot && out.WarmUp == prev.WarmUp {
			break // the same observation twice: not the scheduler
		}
		prev = out
	}
	if err != nil {
		return nil, err
	}
	if !out.expected && softHits > hits0 {
		lossSeen++
	}
	return out, nil
}

type harnessTimeout string

func (h harnessTimeout) Error() string { return "harness timeout waiting for " + string(h) }

func runTunnelOnce(raw json.RawMessage, attempt int) (interface{}, error) {
	if os.Getenv("C09_TIMING") != "" {
		t0 := time.Now()
		defer func() {
			if d := time.Since(t0); d > 100*time.Millisecond {
				fmt.Fprintf(os.Stderr, "slow case %v: %.300s\n", d, string(raw))
			}
		}()
	}
	var in tunIn
	if err := json.Unmarshal(raw, &in); err != nil {
		return nil, err
	}
	evs, err := segsToEvs(in.Csegs)
	if err != nil {
		return nil, err
	}
	var cstream []byte
	var cchunks [][]byte
	terminal := 0
	for _, e := range evs {
		if e.kind != 0 {
			terminal = e.kind
			break
		}
		cstream = append(cstream, e.data...)
		cchunks = append(cchunks, e.data)
	}
	usegs, ulen, err := decodeHexes(in.Usegs)
	if err != nil {
		return nil, err
	}
	reply, _, err := decodeHexes(in.Reply)
	if err != nil {
		return nil, err
	}
	if in.Order != "client" && in.Order != "upstream" && in.Order != "halfclose" && in.Order != "halfidle" {
		return nil, errors.New("bad order")
	}
	rlen := 0
	for _, x := range reply {
		rlen += len(x)
	}

	if in.Burst < 0 || in.Burst > 64<<20 || in.PauseMs < 0 || in.PauseMs > 2000 || in.DialMs < 0 || in.Hold < 0 {
		return nil, errors.New("burst/pause/dial out of range")
	}
	if in.RtMs < 0 || in.WtMs < 0 || in.CgapMs < 0 || in.UgapMs < 0 || in.CgapMs > 500 || in.UgapMs > 500 ||
		(in.RtMs > 0 && 3*in.CgapMs > in.RtMs) || (in.WtMs > 0 && 3*in.UgapMs > in.WtMs) ||
		(in.RtMs > 0 && in.RtMs < 100) || (in.WtMs > 0 && in.WtMs < 100) {
		// a gap is at most a third of the timeout: no single read or write comes near its deadline
		return nil, errors.New("timeouts/gaps out of range")
	}
	var wstream []byte
	if in.Warm != nil {
		if wstream, err = hex.DecodeString(in.Warm.Data); err != nil {
			return nil, err
		}
	}
	// the burst goes out after the scripted segments, before the terminal event
	var burstChunks [][]byte
	for off := 0; off < in.Burst; off += 256 * 1024 {
		n := in.Burst - off
		if n > 256*1024 {
			n = 256 * 1024
		}
		burstChunks = append(burstChunks, burstChunk(off, n, in.BurstSeed))
	}
	if len(burstChunks) > 0 {
		var nevs []rEv
		k := 0
		for k < len(evs) && evs[k].kind == 0 {
			nevs = append(nevs, evs[k])
			k++
		}
		for _, b := range burstChunks {
			nevs = append(nevs, rEv{0, b})
		}
		evs = append(nevs, evs[k:]...)
	}
	hold := -1
	if in.PauseMs > 0 && in.Hold < len(cchunks) {
		hold = in.Hold
	}
	duplex := in.Duplex && in.Transport == "script" && in.PauseMs == 0 && in.Hold < len(cchunks) && in.WdelayUs >= 0 && in.WdelayUs <= 20000
	if duplex && in.Path == "sni" {
		// the tunnel must be established by the segments that are not held back
		var head []byte
		for _, c := range cchunks[:in.Hold] {
			head = append(head, c...)
		}
		duplex = helloComplete(head)
	}
	if duplex {
		hold = in.Hold
	}
	dialT := waitT
	if in.DialMs > 0 {
		dialT = time.Duration(in.DialMs) * time.Millisecond
	}

	upl, err := pickListener()
	if err != nil {
		return nil, err
	}
	upAddr := upl.Addr().String()

	// proxy listener for the tcp transport (needed before the table: the route names its port)
	var pl net.Listener
	laddr, raddr := in.Laddr.tcpAddr(), in.Raddr.tcpAddr()
	if in.Transport == "tcp" {
		pl, err = listenRetry()
		if err != nil {
			return nil, err
		}
		defer pl.Close()
		laddr = pl.Addr().(*net.TCPAddr)
	} else if in.Transport != "script" {
		return nil, errors.New("bad transport")
	}

	// route table
	var src string
	switch in.Path {
	case "tcp":
		src = ":" + strconv.Itoa(laddr.Port)
	case "dyn":
		if in.DynRoute == "full" {
			src = laddr.String()
		} else {
			src = ":" + strconv.Itoa(laddr.Port)
		}
	case "sni":
		if in.Host == "" {
			return nil, errors.New("no host")
		}
		src = in.Host + "/"
	default:
		return nil, errors.New("bad path")
	}
	if !in.Routed {
		if in.Path == "sni" {
			src = "unrouted.invalid/"
		} else {
			src = ":1"
		}
	}
	opts := "proto=tcp"
	if in.Pxy {
		opts += " pxyproto=true"
	}
	srcs := []string{src}
	if in.Warm != nil && in.Routed && in.Path != "sni" {
		// the earlier connection arrives on its own local address: same target
		wsrc := ":" + strconv.Itoa(in.Warm.Laddr.Port)
		if in.Path == "dyn" && in.DynRoute == "full" {
			wsrc = in.Warm.Laddr.tcpAddr().String()
		}
		if wsrc != src {
			srcs = append(srcs, wsrc)
		}
	}
	var defs bytes.Buffer
	for _, sr := range srcs {
		defs.WriteString("route add svc " + sr + " tcp://" + upAddr + ` opts "` + opts + `"` + "\n")
	}
	tbl, err := route.NewTable(&defs)
	if err != nil {
		return nil, err
	}
	var warmLookup, mainLookup atomic.Int32 // 0 not called, 1 miss, 2 hit
	var lookupState atomic.Pointer[atomic.Int32]
	lookupState.Store(&mainLookup)
	lookup := func(h string) *route.Target {
		t := tbl.LookupHost(h, route.Picker["rr"])
		st := lookupState.Load()
		if t != nil {
			st.Store(2)
		} else if st.Load() == 0 {
			st.Store(1)
		}
		return t
	}
	var h tcp.Handler
	switch in.Path {
	case "tcp":
		h = &tcp.Proxy{Lookup: lookup, DialTimeout: dialT}
	case "dyn":
		h = &tcp.DynamicProxy{Lookup: lookup, DialTimeout: dialT}
	case "sni":
		h = &tcp.SNIProxy{Lookup: lookup, DialTimeout: dialT}
	}

	var herr error
	must := func(what string, st int) {
		if st == wTimeout && herr == nil {
			herr = harnessTimeout(what)
		}
	}

	// the earlier connection through the same handler instance: a scripted client sends its stream and finishes
	var warmOut tunOut
	if in.Warm != nil {
		lookupState.Store(&warmLookup)
		wu := upstreamOn(upl, nil, false)
		wsc := newScriptConn([]rEv{{0, wstream}, {1, nil}}, in.Warm.Laddr.tcpAddr(), in.Warm.Raddr.tcpAddr())
		wsc.release()
		wdone := make(chan struct{})
		go func() {
			defer close(wdone)
			defer func() { recover() }()
			h.ServeTCP(wsc)
		}()
		// routed: the upstream reads the client's stream to its end, then finishes too (a handler that passes the
		// client's EOF on waits for that); not routed: ServeTCP simply returns
		waitFor(hardT, wdone, func() bool { return warmLookup.Load() == 2 })
		if warmLookup.Load() == 2 {
			// dialled (the listener is listening): accepted, and read to the end
			if waitFor(hardT, wdone, wu.isAccepted) == wOK {
				// (told or not — that is judged on the measured connection — the upstream then finishes)
				waitFor(softT(attempt), nil, wu.ep.ended)
				if c, ok := wu.ep.c().(*net.TCPConn); ok {
					c.CloseWrite()
				}
			}
		}
		must("the earlier connection to be served", waitFor(hardT, nil, chanClosed(wdone)))
		wsc.Close()
		wu.close()
		if herr != nil {
			return nil, herr
		}
		wb, _ := wu.ep.snapshot()
		warmOut.WarmUp = hx2(wb)
		warmOut.WarmLookup = []string{"none", "miss", "hit"}[warmLookup.Load()]
		warmOut.WarmRaddr, warmOut.WarmLaddr = wsc.RemoteAddr().String(), wsc.LocalAddr().String()
		lookupState.Store(&mainLookup)
	}
	up := upstreamOn(upl, nil, in.SlowUp)
	defer up.close()

	// client side
	var sc *scriptConn
	var cc net.Conn
	var cep endpoint
	done := make(chan struct{})
	hdone := done // the handler has returned (tcp transport: its own channel, `done` stays open there)
	var hdoneOnce sync.Once
	var srv *tcp.Server
	cwritten := make(chan struct{}) // tcp transport: the client has written all its segments
	clientRecv := func() int { return cep.n() }
	if in.Transport == "script" {
		sc = newScriptConn(evs, laddr, raddr)
		sc.hold = hold
		if duplex {
			sc.unholdOnWrite, sc.wdelay = true, time.Duration(in.WdelayUs)*time.Microsecond
		}
		clientRecv = sc.nWritten
		go func() {
			defer close(done)
			defer func() { recover() }()
			h.ServeTCP(sc)
		}()
	} else {
		hdone = make(chan struct{})
		inner := h
		srv = &tcp.Server{Handler: tcp.HandlerFunc(func(c net.Conn) error {
			defer hdoneOnce.Do(func() { close(hdone) })
			return inner.ServeTCP(c)
		}), ReadTimeout: time.Duration(in.RtMs) * time.Millisecond, WriteTimeout: time.Duration(in.WtMs) * time.Millisecond}
		go srv.Serve(pl)
		defer srv.Close()
		cc, err = net.DialTimeout("tcp", pl.Addr().String(), waitT)
		if err != nil {
			return nil, err
		}
		defer cc.Close()
		raddr = cc.LocalAddr().(*net.TCPAddr)
		cep.attach(cc)
		go func() {
			defer close(cwritten)
			if hold >= 0 {
				writeSegs(cc, cchunks[:hold], in.Paced)
				time.Sleep(time.Duration(in.PauseMs) * time.Millisecond)
				writeSegs(cc, cchunks[hold:], in.Paced)
			} else if in.CgapMs > 0 {
				writeSegsGap(cc, cchunks, time.Duration(in.CgapMs)*time.Millisecond)
			} else {
				writeSegs(cc, cchunks, in.Paced)
			}
			writeSegs(cc, burstChunks, false)
		}()
	}
	expectTunnel := in.Routed && (in.Path != "sni" || helloComplete(cstream))

	// phase A, upstream side
	uwritten := make(chan struct{})
	giveUp := make(chan struct{})
	defer close(giveUp)
	go func() {
		defer close(uwritten)
		select {
		case <-up.accepted:
			writeSegsGap(up.ep.c(), usegs, time.Duration(in.UgapMs)*time.Millisecond)
		case <-done:
		case <-giveUp:
		}
	}()

	// Barrier before the closing phase: everything sent so far has arrived, established without guessing
	// at delays. Client→upstream: the scripted connection knows when the proxy has taken every segment and
	// has come back for more (so its writes to the upstream are done); nothing sent earlier can be cut off
	// by what follows. (Real client sockets finish by FIN, which follows the data.) Upstream→client: the
	// client has counted the bytes.
	if sc == nil {
		must("the client's writes", waitFor(hardT, nil, chanClosed(cwritten)))
	}
	if sc != nil && hold >= 0 {
		must("the proxy to take the first segments", waitFor(hardT, done, sc.drained))
	}
	if sc != nil {
		if duplex {
			// the held segments go out when the proxy starts writing upstream data to the client; when the
			// upstream has written everything (or nothing) they go out at the latest
			if expectTunnel && in.Hold > 0 && waitFor(hardT, done, up.isAccepted) == wOK {
				<-uwritten
			}
			sc.unhold()
		} else if hold >= 0 {
			// the client is silent for a while (longer than the configured dial timeout), then goes on
			time.Sleep(time.Duration(in.PauseMs) * time.Millisecond)
			sc.unhold()
		}
		if expectTunnel {
			must("the upstream to accept", waitFor(hardT, done, up.isAccepted))
		}
		must("the proxy to take every client segment", waitFor(hardT, done, func() bool { return sc.drained() && sc.nPulled() >= len(cstream)+in.Burst }))
	} else if expectTunnel {
		must("the upstream to accept", waitFor(hardT, done, up.isAccepted))
	}
	if up.isAccepted() {
		must("the upstream's writes", waitFor(hardT, nil, chanClosed(uwritten)))
	}
	if sc == nil && in.Order == "upstream" && expectTunnel {
		// (corpus/replay only) real client socket and the upstream finishing first: count bytes
		expUp := len(cstream)
		if in.Pxy {
			expUp += len(fmt.Sprintf("PROXY TCP4 %s %s %d %d\r\n", raddr.IP, laddr.IP, raddr.Port, laddr.Port))
		}
		softWait(attempt, nil, func() bool { return up.ep.n() >= expUp })
	}
	if expectTunnel && in.Order != "upstream" {
		// the client is about to finish: what the upstream has sent must have arrived first (bytes still in
		// flight towards a side that has finished may legitimately be dropped). When the upstream finishes first
		// its FIN follows its data, nothing to wait for.
		softWait(attempt, done, func() bool { return clientRecv() >= ulen })
	}

	served := true
	halfIdleStuck := false
	clientEnded := func() bool {
		if sc != nil {
			select {
			case <-done:
				return true
			default:
				return false
			}
		}
		return cep.ended()
	}
	finishClient := func() { // client finishes sending: FIN after the data (the client keeps reading)
		if sc != nil {
			if terminal == 0 {
				sc.mu.Lock()
				sc.evs = append(sc.evs, rEv{1, nil})
				sc.mu.Unlock()
			}
			sc.release()
		} else {
			cc.(*net.TCPConn).CloseWrite()
		}
	}
	finishUpstream := func() { // FIN after the data; the endpoint keeps reading until the proxy closes
		if c, ok := up.ep.c().(*net.TCPConn); ok {
			c.CloseWrite()
		}
	}
	// When the client has finished the upstream must learn it (EOF behind the client's last byte). That is an event
	// the code under test owes, not the harness: soft bound (longer behind a large burst towards a slow consumer),
	// reported as `eof_seen`, re-measured like a missing byte. An upstream that was not told gives up and finishes.
	eofSeen := true
	upSawEnd := func() {
		if waitFor(softT(attempt)+time.Duration(in.Burst>>20)*time.Second, nil, up.ep.ended) != wOK {
			softHits++
			eofSeen = false
		}
	}
	switch in.Order {
	case "client":
		finishClient()
		if up.isAccepted() {
			upSawEnd()
			finishUpstream()
		}
	case "upstream":
		if up.isAccepted() {
			finishUpstream()
		} else {
			finishClient()
		}
	case "halfclose":
		finishClient()
		if up.isAccepted() {
			upSawEnd()
			writeSegs(up.ep.c(), reply, false)
			finishUpstream()
		}
	case "halfidle":
		// the client half-closes, the upstream answers and then stays idle without finishing; once the reply has
		// arrived the server closes the client connection (what Server.Shutdown/Close do): the handler has to end
		finishClient()
		if up.isAccepted() {
			upSawEnd()
			writeSegs(up.ep.c(), reply, false)
			softWait(attempt, hdone, func() bool { return clientRecv() >= ulen+rlen })
		}
		if sc != nil {
			sc.Close()
		} else {
			srv.Close()
		}
		if waitFor(softT(attempt), nil, chanClosed(hdone)) != wOK {
			halfIdleStuck = true
		}
	}
	st := wOK
	if halfIdleStuck {
		st = wTimeout // the handler outlives its client connection: an observation, reported as served=false
	} else {
		st = waitFor(hardT, nil, clientEnded)
		must("the proxy to end the client's connection", st)
	}
	served = st == wOK
	if sc != nil {
		sc.Close()
	} else {
		cc.Close()
	}
	if up.isAccepted() && !halfIdleStuck {
		must("the upstream to see its connection end", waitFor(hardT, nil, up.ep.ended))
	}
	if herr != nil {
		return nil, herr
	}
	upb, upend := up.ep.snapshot()
	var clb []byte
	if sc != nil {
		clb = sc.written()
	} else {
		clb, _ = cep.snapshot()
	}
	// split what the upstream received into the head (PROXY line + scripted segments) and the burst behind it
	headLen := len(cstream)
	if in.Pxy {
		headLen += len(fmt.Sprintf("PROXY TCP4 %s %s %d %d\r\n", raddr.IP, laddr.IP, raddr.Port, laddr.Port))
	}
	if in.Burst == 0 || headLen > len(upb) {
		headLen = len(upb)
	}
	bgot, bok := burstCheck(upb[headLen:], in.BurstSeed)
	upb = upb[:headLen]
	// the harness's own reading of the specification, only to decide whether to measure again
	wantCl := []byte{}
	for _, u := range usegs {
		wantCl = append(wantCl, u...)
	}
	if in.Order == "halfclose" || in.Order == "halfidle" {
		for _, u := range reply {
			wantCl = append(wantCl, u...)
		}
	}
	wantUp := []byte{}
	if in.Pxy {
		fam := 6
		if raddr.IP.To4() != nil {
			fam = 4
		}
		rh, _, _ := net.SplitHostPort(raddr.String())
		lh, _, _ := net.SplitHostPort(laddr.String())
		wantUp = []byte(fmt.Sprintf("PROXY TCP%d %s %s %d %d\r\n", fam, rh, lh, raddr.Port, laddr.Port))
	}
	wantUp = append(wantUp, cstream...)
	// no target looked up: nothing may have reached either end. (Twice in ~200 000 cases under load a case that
	// is not tunnelled observed bytes — a connection that is not this case's on the pooled listener; like every
	// unexpected observation it is measured again, a proxy that really dials without a target fails every attempt.)
	expected := !expectTunnel && !up.isAccepted() && len(upb) == 0 && len(clb) == 0
	if mainLookup.Load() == 2 {
		expected = bytes.Equal(upb, wantUp) && bytes.Equal(clb, wantCl) && bgot == in.Burst && bok && served && eofSeen
	}
	if in.Warm != nil && warmLookup.Load() == 2 {
		wb, _ := hex.DecodeString(warmOut.WarmUp)
		expected = expected && bytes.HasSuffix(wb, wstream) && (in.Pxy || len(wb) == len(wstream))
	}
	res := warmOut
	res.expected, res.Up, res.Cl, res.Accepted, res.UpEnd, res.Served = expected, hx2(upb), hx2(clb), up.isAccepted(), upend, served
	res.BurstGot, res.BurstOK, res.EofSeen = bgot, bok, eofSeen
	res.Lookup = []string{"none", "miss", "hit"}[mainLookup.Load()]
	res.Raddr, res.Laddr = raddr.String(), laddr.String()
	return res, nil
}

// ---- ClientHello capture from crypto/tls ----

var (
	helloMu    sync.Mutex
	helloCache = map[string][]byte{}
)

// clientHello returns the first TLS record a crypto/tls client sends for the given server name.
func clientHello(host string, variant int) []byte {
	key := host + "#" + strconv.Itoa(variant)
	helloMu.Lock()
	defer helloMu.Unlock()
	if b, ok := helloCache[key]; ok {
		return b
	}
	cfg := &tls.Config{ServerName: host, InsecureSkipVerify: true}
	switch variant {
	case 1:
		cfg.MaxVersion = tls.VersionTLS12
	case 2:
		cfg.NextProtos = []string{"h2", "http/1.1"}
	case 3:
		cfg.MaxVersion = tls.VersionTLS12
		cfg.CipherSuites = []uint16{tls.TLS_ECDHE_RSA_WITH_AES_128_GCM_SHA256}
		cfg.CurvePreferences = []tls.CurveID{tls.X25519}
	}
	a, b := net.Pipe()
	go func() {
		tls.Client(a, cfg).Handshake()
		a.Close()
	}()
	hdr := make([]byte, 5)
	b.SetReadDeadline(time.Now().Add(hardT))
	if _, err := io.ReadFull(b, hdr); err != nil {
		b.Close()
		return nil
	}
	body := make([]byte, int(hdr[3])<<8|int(hdr[4]))
	if _, err := io.ReadFull(b, body); err != nil {
		b.Close()
		return nil
	}
	b.Close()
	rec := append(hdr, body...)
	helloCache[key] = rec
	return rec
}

var sniHosts = []string{"a.example", "tls.fabio.test", "x.y.z.example.org"}

// segmentations of a client stream; for sni `hl` is the length of the hello at its start (0 otherwise).
func segment(r *hx.Rand, s []byte, hl int) ([][]byte, string) {
	if len(s) == 0 {
		return nil, "empty"
	}
	kind := r.Intn(8)
	if hl == 0 && kind >= 5 {
		kind = r.Intn(5)
	}
	switch kind {
	case 0:
		return [][]byte{s}, "one"
	case 1: // 1-byte segments at the start, the rest in one
		k := r.Range(1, 40)
		if k > len(s) {
			k = len(s)
		}
		var out [][]byte
		for i := 0; i < k; i++ {
			out = append(out, s[i:i+1])
		}
		if k < len(s) {
			out = append(out, s[k:])
		}
		return out, "bytes"
	case 2, 3:
		return cut(r, s, r.Range(1, 6)), "random"
	case 4: // a cut inside the first 9 bytes
		k := r.Range(1, 8)
		if k >= len(s) {
			return [][]byte{s}, "one"
		}
		return append([][]byte{s[:k]}, cut(r, s[k:], r.Intn(3))...), "header-split"
	case 5: // hello alone, then the rest
		if hl >= len(s) {
			return [][]byte{s}, "one"
		}
		return append([][]byte{s[:hl]}, cut(r, s[hl:], r.Intn(3))...), "hello-aligned"
	case 6: // hello + trailing bytes in one segment
		if hl >= len(s) {
			return [][]byte{s}, "one"
		}
		k := hl + r.Range(1, len(s)-hl)
		out := [][]byte{s[:k]}
		if k < len(s) {
			out = append(out, cut(r, s[k:], r.Intn(3))...)
		}
		return out, "hello+trailing"
	default: // hello split just before its end, the end travelling with trailing bytes
		if hl >= len(s) || hl < 12 {
			return [][]byte{s}, "one"
		}
		k := hl - r.Range(1, 10)
		return [][]byte{s[:k], s[k:]}, "hello-tail+trailing"
	}
}

func hexes(segs [][]byte) []string {
	out := []string{}
	for _, s := range segs {
		out = append(out, hx2(s))
	}
	return out
}

func genTunnelWith(r *hx.Rand, order string) tunIn {
	in := tunIn{Path: []string{"tcp", "sni", "dyn"}[r.Intn(3)], Transport: "script", Routed: !r.Chance(1, 25),
		Pxy: r.Chance(1, 2), Order: order, DynRoute: "port", Reply: []string{}}
	if order != "upstream" && r.Chance(3, 10) {
		// real client socket through tcp.Server: the client finishes by FIN, which follows its data, so no
		// barrier is needed in its direction (for "upstream first" only the scripted client can tell that
		// the proxy has forwarded everything)
		in.Transport = "tcp"
		in.Paced = r.Chance(1, 2)
	}
	v6 := r.Chance(1, 4)
	in.Raddr, in.Laddr = genAddr(r, v6), genAddr(r, v6)
	in.Raddr.Zone, in.Laddr.Zone = "", ""
	in.Laddr.Port = r.Range(2, 65535)
	if in.Path == "dyn" && !v6 && r.Chance(1, 2) {
		in.DynRoute = "full"
	}
	payload := patBytes(r, size(r))
	stream := payload
	hl := 0
	if in.Path == "sni" {
		in.Host = r.Pick(sniHosts)
		hello := clientHello(in.Host, r.Intn(4))
		switch r.Intn(30) {
		case 0: // truncated hello
			hello = hello[:r.Range(1, len(hello)-1)]
			payload = nil
		case 1: // not a handshake record
			hello = append([]byte{0x17}, hello[1:]...)
		}
		hl = len(hello)
		stream = append(append([]byte(nil), hello...), payload...)
	}
	segs, _ := segment(r, stream, hl)
	in.Csegs = chunks(segs)
	if order != "upstream" {
		if order == "client" && r.Chance(1, 8) {
			in.Csegs = append(in.Csegs, segJ{E: "err"})
		} else {
			in.Csegs = append(in.Csegs, segJ{E: "eof"})
		}
	}
	in.Usegs = hexes(cut(r, patBytes(r, size(r)), r.Intn(3)))
	if order == "halfclose" || order == "halfidle" {
		in.Reply = hexes(cut(r, patBytes(r, r.Range(1, 40)), r.Intn(2)))
	}
	switch {
	case order == "client" && r.Chance(1, 100):
		// the client finishes first with a large final burst while the upstream consumes slowly
		in.Burst = r.Range(2<<20, 8<<20)
		in.BurstSeed = r.Intn(256)
		in.SlowUp = true
		if in.Csegs[len(in.Csegs)-1].E == "err" {
			in.Csegs[len(in.Csegs)-1].E = "eof"
		}
	case len(segs) > 0 && r.Chance(1, 100):
		// a small configured dial timeout, and a client that goes on sending long after it
		in.DialMs = r.Range(250, 350) // small, but far above what a loopback connect takes even on a loaded machine
		in.PauseMs = 3*in.DialMs/2 + 30 // a lower bound: a loaded machine only makes the client later
		in.Hold = r.Intn(len(segs))
		in.Pxy = !r.Chance(1, 3)
	case in.Transport == "script" && len(segs) >= 2 && r.Chance(1, 8):
		// full-duplex overlap; every other time with an upstream segment larger than the copy buffer
		in.Duplex = true
		in.WdelayUs = r.Range(200, 3000)
		in.Hold = r.Range(1, len(segs)-1)
		if hl > 0 {
			n, k := 0, 0
			for k < len(segs) && n < hl {
				n += len(segs[k])
				k++
			}
			if k >= len(segs) {
				in.Duplex = false
			} else if in.Hold < k {
				in.Hold = k
			}
		}
		if r.Chance(1, 2) {
			in.Usegs = hexes(append(cut(r, patBytes(r, r.Range(1, 3000)), r.Intn(2)), patBytes(r, r.Range(32*1024+1, 70*1024))))
		}
	case r.Chance(1, 6):
		in.Warm = genWarm(r, &in)
	case in.Transport == "tcp" && order == "client" && r.Chance(1, 40):
		genTrickle(r, &in, stream[:hl])
	}
	return in
}

// genWarm: an earlier connection through the same handler instance, arriving on other addresses (a listener
// bound to a wildcard address accepts on every local address of the host; a handler object serves them all).
func genWarm(r *hx.Rand, in *tunIn) *warmJ {
	v6 := r.Chance(1, 4) && !(in.Path == "dyn" && in.DynRoute == "full")
	w := &warmJ{Raddr: genAddr(r, v6), Laddr: genAddr(r, v6)}
	w.Raddr.Zone, w.Laddr.Zone = "", ""
	w.Laddr.Port = r.Range(2, 65535)
	if r.Chance(1, 2) {
		w.Laddr.Port = in.Laddr.Port
	}
	data := patBytes(r, r.Range(1, 20))
	if in.Path == "sni" {
		data = append(append([]byte(nil), clientHello(in.Host, r.Intn(4))...), data...)
	}
	w.Data = hx2(data)
	return w
}

func trickleSegs(r *hx.Rand, n int) [][]byte {
	var out [][]byte
	for i := 0; i < n; i++ {
		out = append(out, patBytes(r, r.Range(1, 30)))
	}
	return out
}

// genTrickle: the listener has a read and/or write timeout T and both sides send a steady trickle of small
// segments, every gap at most T/3, for more than two timeouts in all.
func genTrickle(r *hx.Rand, in *tunIn, hello []byte) {
	T := r.Range(150, 250)
	gap := r.Range(T/5, T/3)
	n := 2*T/gap + 2
	mode := r.Intn(3) // 0: write timeout, 1: read timeout, 2: both
	if mode != 1 {
		in.WtMs, in.UgapMs = T, gap
		in.Usegs = hexes(trickleSegs(r, n))
	}
	if mode != 0 {
		in.RtMs, in.CgapMs = T, gap
		// the client's trickle outlasts the upstream's: the connection is never idle before the client finishes
		segs := trickleSegs(r, n+2)
		if len(hello) > 0 {
			segs = append([][]byte{hello}, segs...)
		}
		in.Csegs = append(chunks(segs), segJ{E: "eof"})
	}
}

// genHalfClose: are the half-close orders generated? While D14 was a recorded finding they lived in the corpus
// only (a known failing class must not eat the budget); since the repair they are ordinary closing orders.
const genHalfClose = true

func genTunnel(r *hx.Rand, i int) interface{} {
	if genHalfClose {
		return genTunnelWith(r, []string{"client", "client", "client", "upstream", "upstream", "upstream", "halfclose", "halfclose", "halfidle"}[r.Intn(9)])
	}
	return genTunnelWith(r, []string{"client", "upstream"}[r.Intn(2)])
}

func tunnelCorpus() []interface{} {
	var out []interface{}
	hello := clientHello("a.example", 0)
	a4 := addrJ{IP: "1.2.3.4", Port: 5555}
	l4 := addrJ{IP: "10.0.0.1", Port: 7000}
	// D13: ClientHello + 22 trailing bytes in one segment, then TAIL
	trailing := []byte("0123456789abcdefghijkl")
	for _, tr := range []string{"script", "tcp"} {
		out = append(out, tunIn{Path: "sni", Transport: tr, Routed: true, Host: "a.example", Raddr: a4, Laddr: l4, DynRoute: "port",
			Csegs: []segJ{{C: hx2(append(append([]byte(nil), hello...), trailing...))}, {C: hx2([]byte("TAIL"))}, {E: "eof"}},
			Usegs: []string{hx2([]byte("srv"))}, Order: "client", Reply: []string{}, Paced: true})
	}
	// D14: client sends HELLO, half-closes; the upstream replies REPLY after EOF
	for _, p := range []string{"tcp", "sni", "dyn"} {
		for _, tr := range []string{"script", "tcp"} {
			cs := []segJ{{C: hx2([]byte("HELLO"))}, {E: "eof"}}
			if p == "sni" {
				cs = []segJ{{C: hx2(hello)}, {C: hx2([]byte("HELLO"))}, {E: "eof"}}
			}
			out = append(out, tunIn{Path: p, Transport: tr, Routed: true, Host: "a.example", Raddr: a4, Laddr: l4, DynRoute: "port",
				Csegs: cs, Usegs: []string{}, Order: "halfclose", Reply: []string{hx2([]byte("REPLY"))}, Paced: true})
		}
	}
	// late client data: configured dial timeout 300 ms, PROXY option, the client goes on after 500 ms
	for _, p := range []string{"tcp", "sni", "dyn"} {
		cs := []segJ{{C: hx2([]byte("early"))}, {C: hx2([]byte("late-1"))}, {C: hx2([]byte("late-2"))}, {E: "eof"}}
		hold := 1
		if p == "sni" {
			cs = append([]segJ{{C: hx2(hello)}}, cs...)
			hold = 2
		}
		for _, tr := range []string{"script", "tcp"} {
			out = append(out, tunIn{Path: p, Transport: tr, Routed: true, Pxy: true, Host: "a.example", Raddr: a4, Laddr: l4, DynRoute: "port",
				Csegs: cs, Usegs: []string{hx2([]byte("srv"))}, Order: "client", Reply: []string{}, DialMs: 300, PauseMs: 500, Hold: hold})
		}
	}
	// the client finishes first with a large final burst, the upstream consumes slowly
	for i, p := range []string{"tcp", "tcp", "sni", "dyn"} {
		cs := []segJ{{C: hx2([]byte("head"))}, {E: "eof"}}
		if p == "sni" {
			cs = append([]segJ{{C: hx2(hello)}}, cs...)
		}
		tr := "script"
		if i == 1 {
			tr = "tcp"
		}
		out = append(out, tunIn{Path: p, Transport: tr, Routed: true, Pxy: i%2 == 0, Host: "a.example", Raddr: a4, Laddr: l4, DynRoute: "port",
			Csegs: cs, Usegs: []string{}, Order: "client", Reply: []string{}, Burst: (3 + i) << 20, BurstSeed: 7 * i, SlowUp: true})
	}
	// the handler has served a connection that arrived on another local address (and port) before
	for i, p := range []string{"tcp", "sni", "dyn", "tcp"} {
		cs := []segJ{{C: hx2([]byte("second"))}, {E: "eof"}}
		wd := []byte("first")
		if p == "sni" {
			cs = append([]segJ{{C: hx2(hello)}}, cs...)
			wd = append(append([]byte(nil), hello...), wd...)
		}
		w := &warmJ{Raddr: addrJ{IP: "192.168.1.254", Port: 4000 + i}, Laddr: addrJ{IP: "10.0.0.2", Port: 7000 + i/3}, Data: hx2(wd)}
		out = append(out, tunIn{Path: p, Transport: []string{"script", "tcp"}[i/3], Routed: true, Pxy: true, Host: "a.example", Raddr: a4, Laddr: l4, DynRoute: "port",
			Csegs: cs, Usegs: []string{hx2([]byte("srv"))}, Order: "client", Reply: []string{}, Warm: w})
	}
	// listener timeouts (rt=/wt=) and a steady trickle that lasts several timeouts
	for i, p := range []string{"tcp", "sni", "dyn"} {
		var cs []segJ
		if p == "sni" {
			cs = append(cs, segJ{C: hx2(hello)})
		}
		var us []string
		for k := 0; k < 12; k++ {
			cs = append(cs, segJ{C: hx2([]byte(fmt.Sprintf("c%02d.", k)))})
			if k < 10 {
				us = append(us, hx2([]byte(fmt.Sprintf("message %04d\n", k))))
			}
		}
		cs = append(cs, segJ{E: "eof"})
		t := tunIn{Path: p, Transport: "tcp", Routed: true, Pxy: i == 1, Host: "a.example", Raddr: a4, Laddr: l4, DynRoute: "port",
			Csegs: cs, Usegs: us, Order: "client", Reply: []string{}}
		if i != 2 {
			t.WtMs, t.UgapMs = 200, 50
		}
		if i != 0 {
			t.RtMs, t.CgapMs = 200, 50
		}
		out = append(out, t)
	}
	// PROXY line, IPv6 client
	out = append(out, tunIn{Path: "tcp", Transport: "script", Routed: true, Pxy: true, Raddr: addrJ{IP: "2001:db8::1", Port: 9}, Laddr: addrJ{IP: "::1", Port: 443},
		DynRoute: "port", Csegs: []segJ{{C: "00"}, {E: "eof"}}, Usegs: []string{"ff"}, Order: "client", Reply: []string{}})
	return out
}

func init() {
	hx.Register(&hx.Stream{Name: "c09.tunnel", Gen: genTunnel, Run: runTunnel, Corpus: tunnelCorpus()})
}
