package main

import (
	"encoding/hex"
	"errors"
	"io"
	"net"
	"os"
	"sync"
	"time"
)

// scriptConn is an in-memory net.Conn whose Read side delivers exactly the scripted segments: every Read
// returns (a prefix of) the next segment, never more, so the segmentation is under the harness's control.
// The terminal event (EOF or error) is held back until release() is called. Everything the other side
// writes is recorded. Write results can be scripted as well (used by the copyBuffer stream).

type rEv struct {
	kind int // 0 chunk, 1 eof, 2 err
	data []byte
}

type wEv struct {
	kind int // 0 full, 1 short n, 2 fail n
	n    int
}

var errScripted = errors.New("scripted connection error")
var errScriptedWrite = errors.New("scripted write error")

type scriptConn struct {
	mu       sync.Mutex
	cond     *sync.Cond
	evs      []rEv
	pos, off int
	released bool // terminal event may be delivered
	closed   bool
	rdl      time.Time
	timer    *time.Timer
	wrote    []byte
	wscript  []wEv
	wcalls   int
	pulled   int // bytes handed out by Read
	waiting  bool // a Read is blocked with every scripted segment handed out
	hold     int  // index of the first event that is held back until unhold() (-1: none)
	coalesce bool // deliver the last bytes before a terminal event together with its error: (n > 0, err)
	laddr    net.Addr
	raddr    net.Addr
	done     chan struct{} // closed by Close (what tcp.Server's connection wrapper offers as Done())
	// full-duplex overlap: a Write releases the held segments when it begins and takes the bytes only after
	// `wdelay` (a write blocked on a full socket buffer copies the rest of its data when space frees up) — the
	// other direction reads the client's next segments while this one still has its data staged
	wdelay        time.Duration
	unholdOnWrite bool
}

func newScriptConn(evs []rEv, laddr, raddr net.Addr) *scriptConn {
	c := &scriptConn{evs: evs, laddr: laddr, raddr: raddr, hold: -1, done: make(chan struct{})}
	c.cond = sync.NewCond(&c.mu)
	return c
}

// unhold lets the events from index `hold` on be delivered (the client resumes sending after a pause).
func (c *scriptConn) unhold() {
	c.mu.Lock()
	c.hold = -1
	c.mu.Unlock()
	c.cond.Broadcast()
}

func (c *scriptConn) release() {
	c.mu.Lock()
	c.released = true
	c.mu.Unlock()
	c.cond.Broadcast()
}

func (c *scriptConn) Read(p []byte) (int, error) {
	c.mu.Lock()
	defer c.mu.Unlock()
	for {
		if c.closed {
			return 0, net.ErrClosed
		}
		if !c.rdl.IsZero() && !time.Now().Before(c.rdl) {
			return 0, os.ErrDeadlineExceeded
		}
		if len(p) == 0 {
			return 0, nil
		}
		for c.pos < len(c.evs) && c.evs[c.pos].kind == 0 && c.off >= len(c.evs[c.pos].data) {
			c.pos++
			c.off = 0
		}
		if c.pos < len(c.evs) && !(c.hold >= 0 && c.pos >= c.hold) {
			ev := c.evs[c.pos]
			switch ev.kind {
			case 0:
				n := copy(p, ev.data[c.off:])
				c.off += n
				c.pulled += n
				if c.coalesce && c.released && c.off >= len(ev.data) && c.pos+1 < len(c.evs) && c.evs[c.pos+1].kind != 0 {
					// the io.Reader contract allows the final bytes to come with the error (crypto/tls does it
					// when close_notify arrives with the last record)
					c.pos++
					c.off = 0
					if c.evs[c.pos].kind == 1 {
						return n, io.EOF
					}
					return n, errScripted
				}
				return n, nil
			case 1:
				if c.released {
					return 0, io.EOF
				}
			default:
				if c.released {
					return 0, errScripted
				}
			}
		}
		// every segment has been handed out and the reader has come back for more: whatever it did with
		// the previous segments (e.g. write them to the other connection) is done
		c.waiting = true
		c.cond.Wait()
		c.waiting = false
	}
}

// drained: the other side has consumed every scripted segment and is blocked in Read again.
func (c *scriptConn) drained() bool {
	c.mu.Lock()
	defer c.mu.Unlock()
	return c.waiting
}

func (c *scriptConn) Write(p []byte) (int, error) {
	c.mu.Lock()
	defer c.mu.Unlock()
	if c.closed {
		return 0, net.ErrClosed
	}
	if c.unholdOnWrite && c.hold >= 0 && len(p) > 0 {
		c.hold = -1
		c.cond.Broadcast()
	}
	if c.wdelay > 0 && len(p) > 0 {
		c.mu.Unlock()
		time.Sleep(c.wdelay)
		c.mu.Lock()
		if c.closed {
			return 0, net.ErrClosed
		}
	}
	n, err := len(p), error(nil)
	if c.wcalls < len(c.wscript) {
		w := c.wscript[c.wcalls]
		switch w.kind {
		case 1:
			if w.n < n {
				n = w.n
			}
		case 2:
			if w.n < n {
				n = w.n
			}
			err = errScriptedWrite
		}
	}
	c.wcalls++
	c.wrote = append(c.wrote, p[:n]...)
	return n, err
}

// Done: closed when the connection is closed, like the connections tcp.Server hands to its handler.
func (c *scriptConn) Done() <-chan struct{} { return c.done }

func (c *scriptConn) Close() error {
	c.mu.Lock()
	if !c.closed {
		close(c.done)
	}
	c.closed = true
	c.mu.Unlock()
	c.cond.Broadcast()
	return nil
}

func (c *scriptConn) isClosed() bool {
	c.mu.Lock()
	defer c.mu.Unlock()
	return c.closed
}

func (c *scriptConn) written() []byte {
	c.mu.Lock()
	defer c.mu.Unlock()
	return append([]byte(nil), c.wrote...)
}

func (c *scriptConn) nWritten() int {
	c.mu.Lock()
	defer c.mu.Unlock()
	return len(c.wrote)
}

func (c *scriptConn) nPulled() int {
	c.mu.Lock()
	defer c.mu.Unlock()
	return c.pulled
}

func (c *scriptConn) LocalAddr() net.Addr  { return c.laddr }
func (c *scriptConn) RemoteAddr() net.Addr { return c.raddr }

func (c *scriptConn) SetDeadline(t time.Time) error {
	c.SetReadDeadline(t)
	return nil
}

func (c *scriptConn) SetReadDeadline(t time.Time) error {
	c.mu.Lock()
	c.rdl = t
	if c.timer != nil {
		c.timer.Stop()
		c.timer = nil
	}
	if !t.IsZero() {
		d := time.Until(t)
		if d < 0 {
			d = 0
		}
		c.timer = time.AfterFunc(d, func() { c.cond.Broadcast() })
	}
	c.mu.Unlock()
	c.cond.Broadcast()
	return nil
}

func (c *scriptConn) SetWriteDeadline(t time.Time) error { return nil }

// ---- JSON forms ----

// segJ is one read event: {"c": "<hex>"} or {"e": "eof"|"err"}.
type segJ struct {
	C string `json:"c,omitempty"`
	E string `json:"e,omitempty"`
}

func segsToEvs(ss []segJ) ([]rEv, error) {
	var out []rEv
	for _, s := range ss {
		switch s.E {
		case "":
			b, err := hex.DecodeString(s.C)
			if err != nil {
				return nil, err
			}
			out = append(out, rEv{0, b})
		case "eof":
			out = append(out, rEv{1, nil})
		case "err":
			out = append(out, rEv{2, nil})
		default:
			return nil, errors.New("bad read event")
		}
	}
	return out, nil
}

type wJ struct {
	K string `json:"k"`
	N int    `json:"n"`
}

func wsToEvs(ws []wJ) ([]wEv, error) {
	var out []wEv
	for _, w := range ws {
		if w.N < 0 {
			return nil, errors.New("negative write count")
		}
		switch w.K {
		case "full":
			out = append(out, wEv{0, 0})
		case "short":
			out = append(out, wEv{1, w.N})
		case "fail":
			out = append(out, wEv{2, w.N})
		default:
			return nil, errors.New("bad write event")
		}
	}
	return out, nil
}

func hx2(b []byte) string { return hex.EncodeToString(b) }
