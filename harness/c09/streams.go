package main

import (
	"bufio"
	"encoding/json"
	"errors"
	"io"
	"net"

	gkm "github.com/go-kit/kit/metrics"

	"github.com/fabiolb/fabio/proxy/tcp"
	"verif/harness/hx"
)

// ---- helpers shared by the generators ----

// patBytes returns n arbitrary bytes.
func patBytes(r *hx.Rand, n int) []byte { return r.Bytes(n) }

// cut splits b at random positions into at most k+1 non-empty segments.
func cut(r *hx.Rand, b []byte, k int) [][]byte {
	if len(b) == 0 {
		return nil
	}
	cuts := map[int]bool{}
	for i := 0; i < k; i++ {
		cuts[r.Range(1, len(b))] = true
	}
	var out [][]byte
	last := 0
	for i := 1; i < len(b); i++ {
		if cuts[i] {
			out = append(out, b[last:i])
			last = i
		}
	}
	return append(out, b[last:])
}

func chunks(segs [][]byte) []segJ {
	out := []segJ{}
	for _, s := range segs {
		out = append(out, segJ{C: hx2(s)})
	}
	return out
}

func size(r *hx.Rand) int {
	switch r.Intn(20) {
	case 0:
		return 0
	case 1:
		return r.Range(32*1024-2, 32*1024+2)
	case 2:
		return r.Range(32*1024+1, 70*1024)
	case 3, 4:
		return r.Range(100, 5000)
	default:
		return r.Range(1, 40)
	}
}

type counter struct{ v float64 }

func (c *counter) With(...string) gkm.Counter { return c }
func (c *counter) Add(d float64)              { c.v += d }

// ---- c09.copy: copyBuffer on scripted reader/writer ----

type copyIn struct {
	Reads    []segJ `json:"reads"`
	Writes   []wJ   `json:"writes"`
	Coalesce bool   `json:"coalesce,omitempty"` // the reader returns its last bytes together with EOF/error
}

type copyOut struct {
	Written string `json:"written"`
	Counter int    `json:"counter"`
	Err     string `json:"err"`
}

func hasTerminal(evs []rEv) bool {
	for _, e := range evs {
		if e.kind != 0 {
			return true
		}
	}
	return false
}

func runCopy(raw json.RawMessage) (interface{}, error) {
	var in copyIn
	if err := json.Unmarshal(raw, &in); err != nil {
		return nil, err
	}
	evs, err := segsToEvs(in.Reads)
	if err != nil {
		return nil, err
	}
	ws, err := wsToEvs(in.Writes)
	if err != nil {
		return nil, err
	}
	if !hasTerminal(evs) {
		evs = append(evs, rEv{1, nil}) // an exhausted script reads as EOF (as in the model)
	}
	src := newScriptConn(evs, nil, nil)
	src.coalesce = in.Coalesce
	src.release()
	dst := newScriptConn(nil, nil, nil)
	dst.wscript = ws
	ctr := &counter{}
	e := tcp.VerifCopyBuffer(dst, src, ctr)
	out := copyOut{Written: hx2(dst.written()), Counter: int(ctr.v)}
	switch {
	case e == nil:
		out.Err = "none"
	case e == io.ErrShortWrite:
		out.Err = "short"
	case e == errScriptedWrite:
		out.Err = "write"
	case e == errScripted:
		out.Err = "read"
	default:
		out.Err = "other:" + e.Error()
	}
	return out, nil
}

func genReads(r *hx.Rand) []segJ {
	n := r.Intn(6)
	var out []segJ
	for i := 0; i < n; i++ {
		out = append(out, segJ{C: hx2(patBytes(r, size(r)))})
	}
	switch r.Intn(4) {
	case 0:
		out = append(out, segJ{E: "err"})
	case 1: // nothing: exhausted
	default:
		out = append(out, segJ{E: "eof"})
	}
	if r.Chance(1, 10) { // events after the end are never looked at
		out = append(out, segJ{C: hx2(patBytes(r, 3))})
	}
	if out == nil {
		out = []segJ{}
	}
	return out
}

func genCopy(r *hx.Rand, i int) interface{} {
	in := copyIn{Reads: genReads(r), Writes: []wJ{}, Coalesce: r.Chance(1, 4)}
	if r.Chance(1, 3) {
		k := r.Intn(5)
		for j := 0; j < k; j++ {
			switch r.Intn(6) {
			case 0:
				in.Writes = append(in.Writes, wJ{"short", r.Intn(50)})
			case 1:
				in.Writes = append(in.Writes, wJ{"fail", r.Intn(50)})
			case 2:
				in.Writes = append(in.Writes, wJ{"short", 32 * 1024})
			default:
				in.Writes = append(in.Writes, wJ{"full", 0})
			}
		}
	}
	return in
}

// ---- c09.bufio: bufio.Reader Peek/Read/ReadFull on a scripted connection ----

type bufOp struct {
	Op string `json:"op"` // peek | read | full
	N  int    `json:"n"`
}

type bufIn struct {
	Size  int     `json:"size"`
	Reads []segJ  `json:"reads"`
	Ops   []bufOp `json:"ops"`
}

type bufRes struct {
	D        string `json:"d"`
	E        string `json:"e"`
	Buffered int    `json:"buffered"`
	Pulled   int    `json:"pulled"`
}

func errName(e error) string {
	switch {
	case e == nil:
		return "none"
	case e == io.EOF:
		return "eof"
	case e == io.ErrUnexpectedEOF:
		return "unexpected"
	case e == bufio.ErrBufferFull:
		return "full"
	case e == errScripted:
		return "err"
	}
	return "other:" + e.Error()
}

func runBufio(raw json.RawMessage) (interface{}, error) {
	var in bufIn
	if err := json.Unmarshal(raw, &in); err != nil {
		return nil, err
	}
	if in.Size < 0 || in.Size > 1<<20 || len(in.Ops) > 64 {
		return nil, errors.New("size/ops out of range")
	}
	evs, err := segsToEvs(in.Reads)
	if err != nil {
		return nil, err
	}
	if !hasTerminal(evs) {
		evs = append(evs, rEv{1, nil})
	}
	c := newScriptConn(evs, nil, nil)
	c.release()
	rd := bufio.NewReaderSize(c, in.Size)
	out := []bufRes{}
	for _, op := range in.Ops {
		if op.N < 0 || op.N > 1<<20 {
			return nil, errors.New("n out of range")
		}
		var d []byte
		var e error
		switch op.Op {
		case "peek":
			d, e = rd.Peek(op.N)
			d = append([]byte(nil), d...)
		case "read":
			p := make([]byte, op.N)
			var n int
			n, e = rd.Read(p)
			d = p[:n]
		case "full":
			p := make([]byte, op.N)
			var n int
			n, e = io.ReadFull(rd, p)
			d = p[:n]
		default:
			return nil, errors.New("bad op")
		}
		out = append(out, bufRes{D: hx2(d), E: errName(e), Buffered: rd.Buffered(), Pulled: c.nPulled()})
	}
	return out, nil
}

func genBufio(r *hx.Rand, i int) interface{} {
	sz := []int{16, 16, 20, 64, 4096, 4096}[r.Intn(6)]
	in := bufIn{Size: sz, Ops: []bufOp{}}
	n := r.Range(1, 6)
	for j := 0; j < n; j++ {
		var l int
		switch r.Intn(4) {
		case 0:
			l = r.Range(1, 4)
		case 1:
			l = r.Range(sz-2, sz+2)
		case 2:
			l = r.Range(1, 3*sz)
		default:
			l = r.Range(1, 30)
		}
		in.Reads = append(in.Reads, segJ{C: hx2(patBytes(r, l))})
	}
	if r.Chance(1, 4) {
		in.Reads = append(in.Reads, segJ{E: "err"})
	} else {
		in.Reads = append(in.Reads, segJ{E: "eof"})
	}
	if r.Chance(1, 2) { // the SNIProxy shape: Peek(9) then ReadFull(L)
		in.Ops = append(in.Ops, bufOp{"peek", 9}, bufOp{"full", r.Range(9, 2*sz)})
	}
	k := r.Range(1, 6)
	for j := 0; j < k; j++ {
		op := []string{"peek", "read", "full"}[r.Intn(3)]
		var l int
		switch r.Intn(4) {
		case 0:
			l = r.Intn(10)
		case 1:
			l = r.Range(sz-1, sz+1)
		default:
			l = r.Range(0, 2*sz)
		}
		in.Ops = append(in.Ops, bufOp{op, l})
	}
	return in
}

// ---- c09.pxyhdr: WriteProxyHeader ----

type addrJ struct {
	IP   string `json:"ip"`
	Zone string `json:"zone,omitempty"`
	Port int    `json:"port"`
}

func (a addrJ) tcpAddr() *net.TCPAddr {
	return &net.TCPAddr{IP: net.ParseIP(a.IP), Port: a.Port, Zone: a.Zone}
}

type pxyIn struct {
	Raddr addrJ `json:"raddr"`
	Laddr addrJ `json:"laddr"`
}

type pxyOut struct {
	Line  string `json:"line"` // hex
	Raddr string `json:"raddr"`
	Laddr string `json:"laddr"`
}

func runPxy(raw json.RawMessage) (interface{}, error) {
	var in pxyIn
	if err := json.Unmarshal(raw, &in); err != nil {
		return nil, err
	}
	cin := newScriptConn(nil, in.Laddr.tcpAddr(), in.Raddr.tcpAddr())
	cout := newScriptConn(nil, nil, nil)
	if err := tcp.WriteProxyHeader(cout, cin); err != nil {
		return nil, err
	}
	return pxyOut{Line: hx2(cout.written()), Raddr: cin.RemoteAddr().String(), Laddr: cin.LocalAddr().String()}, nil
}

var v4s = []string{"127.0.0.1", "10.0.0.1", "192.168.1.254", "1.2.3.4", "255.255.255.255", "0.0.0.0", "::ffff:9.8.7.6"}
var v6s = []string{"::1", "2001:db8::1", "fe80::1", "::", "2001:db8:0:0:1:0:0:1", "64:ff9b::1.2.3.4"}

func genAddr(r *hx.Rand, v6 bool) addrJ {
	a := addrJ{Port: []int{0, 1, 80, 443, 7000, 65535, r.Intn(65536)}[r.Intn(7)]}
	if v6 {
		a.IP = r.Pick(v6s)
		if a.IP == "fe80::1" && r.Chance(1, 2) {
			a.Zone = "eth0"
		}
	} else {
		a.IP = r.Pick(v4s)
	}
	return a
}

func genPxy(r *hx.Rand, i int) interface{} {
	v6 := r.Chance(1, 2)
	l6 := v6
	if r.Chance(1, 8) { // mixed families (a scripted conn can produce what a socket cannot)
		l6 = !l6
	}
	return pxyIn{Raddr: genAddr(r, v6), Laddr: genAddr(r, l6)}
}

func init() {
	hx.Register(&hx.Stream{Name: "c09.copy", Gen: genCopy, Run: runCopy, Corpus: []interface{}{
		copyIn{Reads: []segJ{}, Writes: []wJ{}},
		copyIn{Reads: []segJ{{C: "0102"}, {C: "03"}, {E: "eof"}}, Writes: []wJ{}},
		copyIn{Reads: []segJ{{C: "0102"}, {C: "03"}, {E: "eof"}}, Writes: []wJ{}, Coalesce: true},
		copyIn{Reads: []segJ{{C: "0102"}, {E: "err"}}, Writes: []wJ{}, Coalesce: true},
		copyIn{Reads: []segJ{{C: "0102"}, {E: "err"}}, Writes: []wJ{}},
		copyIn{Reads: []segJ{{C: "01020304"}, {C: "05"}}, Writes: []wJ{{"short", 3}}},
		copyIn{Reads: []segJ{{C: "01020304"}, {C: "05"}}, Writes: []wJ{{"full", 0}, {"fail", 0}}},
	}})
	hx.Register(&hx.Stream{Name: "c09.bufio", Gen: genBufio, Run: runBufio, Corpus: []interface{}{
		bufIn{Size: 16, Reads: []segJ{{C: "000102030405060708090a0b0c0d0e0f1011"}, {E: "eof"}}, Ops: []bufOp{{"peek", 9}, {"full", 12}, {"read", 16}, {"read", 16}}},
		bufIn{Size: 16, Reads: []segJ{{C: "0001"}, {E: "err"}}, Ops: []bufOp{{"peek", 9}, {"read", 1}, {"read", 4}, {"read", 4}}},
	}})
	hx.Register(&hx.Stream{Name: "c09.pxyhdr", Gen: genPxy, Run: runPxy, Corpus: []interface{}{
		pxyIn{addrJ{"1.2.3.4", "", 5555}, addrJ{"10.0.0.1", "", 7000}},
		pxyIn{addrJ{"::1", "", 5555}, addrJ{"::1", "", 443}},
	}})
}
