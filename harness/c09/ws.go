package main

import (
	"bytes"
	"encoding/json"
	"errors"
	"io"
	"net"
	"net/http"
	"time"

	"github.com/fabiolb/fabio/config"
	"github.com/fabiolb/fabio/proxy"
	"github.com/fabiolb/fabio/route"
	"verif/harness/hx"
)

// c09.ws: proxy.HTTPProxy with a websocket upgrade. The upstream is a raw TCP endpoint that answers the
// relayed handshake with one write ("HTTP/1.1 101 ..." + optionally the first bytes of its stream) and
// then treats the connection as an opaque byte stream, as the client does once it has read the 101.

type wsIn struct {
	Csegs     []segJ   `json:"csegs"`     // client bytes after the 101 has arrived, optional terminal
	Usegs     []string `json:"usegs"`     // upstream bytes after the 101
	U101Extra []string `json:"u101extra"` // upstream bytes sent in the same write as the 101
	Order     string   `json:"order"`
	Reply     []string `json:"reply"`
	Paced     bool     `json:"paced"`
}

type wsOut struct {
	Up        string `json:"up"`
	Cl        string `json:"cl"`
	Handshake bool   `json:"handshake"` // client read a 101 and the upstream saw the relayed request
	UpEnd     string `json:"upend"`
	Served    bool   `json:"served"`
}

const ws101 = "HTTP/1.1 101 Switching Protocols\r\nUpgrade: websocket\r\nConnection: Upgrade\r\nSec-WebSocket-Accept: s3pPLMBiTxaQ9kYGzzhZRbK+xOo=\r\n\r\n"
const wsReq = "GET /ws HTTP/1.1\r\nHost: ws.example\r\nUpgrade: websocket\r\nConnection: Upgrade\r\nSec-WebSocket-Key: dGhlIHNhbXBsZSBub25jZQ==\r\nSec-WebSocket-Version: 13\r\n\r\n"

// readHeader reads from c until an empty line; returns the header and whatever followed it.
func readHeader(c net.Conn, d time.Duration) (hdr, rest []byte, err error) {
	c.SetReadDeadline(time.Now().Add(d))
	defer c.SetReadDeadline(time.Time{})
	var acc []byte
	buf := make([]byte, 4096)
	for {
		n, e := c.Read(buf)
		acc = append(acc, buf[:n]...)
		if i := bytes.Index(acc, []byte("\r\n\r\n")); i >= 0 {
			return acc[:i+4], acc[i+4:], nil
		}
		if e != nil {
			return acc, nil, e
		}
	}
}

var wsGlobCache = route.NewGlobCache(16)

func runWS(raw json.RawMessage) (interface{}, error) {
	var in wsIn
	if err := json.Unmarshal(raw, &in); err != nil {
		return nil, err
	}
	evs, err := segsToEvs(in.Csegs)
	if err != nil {
		return nil, err
	}
	var cchunks [][]byte
	clen := 0
	for _, e := range evs {
		if e.kind != 0 {
			break
		}
		cchunks = append(cchunks, e.data)
		clen += len(e.data)
	}
	usegs, ulen, err := decodeHexes(in.Usegs)
	if err != nil {
		return nil, err
	}
	extra, xlen, err := decodeHexes(in.U101Extra)
	if err != nil {
		return nil, err
	}
	reply, _, err := decodeHexes(in.Reply)
	if err != nil {
		return nil, err
	}
	if in.Order != "client" && in.Order != "upstream" && in.Order != "halfclose" {
		return nil, errors.New("bad order")
	}

	// upstream: accepts the relayed handshake, answers 101 (+ first bytes) in one write, then records
	up, err := newUpstreamFunc(func(c net.Conn, ep *endpoint) bool {
		hdr, rest, err := readHeader(c, waitT)
		if err != nil || !bytes.HasPrefix(hdr, []byte("GET /ws HTTP/1.1\r\n")) {
			c.Close()
			return false
		}
		first := []byte(ws101)
		for _, x := range extra {
			first = append(first, x...)
		}
		c.Write(first)
		ep.mu.Lock()
		ep.recv = append(ep.recv, rest...)
		ep.mu.Unlock()
		return true
	})
	if err != nil {
		return nil, err
	}
	defer up.close()
	uep := &up.ep

	tbl, err := route.NewTable(bytes.NewBufferString("route add ws ws.example/ws http://" + up.addr()))
	if err != nil {
		return nil, err
	}
	pl, err := listenRetry()
	if err != nil {
		return nil, err
	}
	srv := &http.Server{Handler: &proxy.HTTPProxy{
		Config:    config.Proxy{NoRouteStatus: 404},
		Transport: http.DefaultTransport,
		Lookup: func(r *http.Request) *route.Target {
			return tbl.Lookup(r, "", route.Picker["rr"], route.Matcher["prefix"], wsGlobCache, true)
		},
	}}
	go srv.Serve(pl)
	defer srv.Close()

	cc, err := net.DialTimeout("tcp", pl.Addr().String(), waitT)
	if err != nil {
		return nil, err
	}
	defer cc.Close()
	if _, err := cc.Write([]byte(wsReq)); err != nil {
		return nil, err
	}
	hdr, rest, herr := readHeader(cc, waitT)
	uok := waitUntil(waitT, nil, up.isAccepted)
	if herr != nil || !uok || !bytes.HasPrefix(hdr, []byte("HTTP/1.1 101")) {
		return wsOut{Handshake: false}, nil
	}
	var cep endpoint
	cep.recv = append(cep.recv, rest...)
	cep.attach(cc)
	go writeSegs(cc, cchunks, in.Paced)
	go writeSegs(uep.c(), usegs, false)
	waitUntil(waitT, nil, func() bool { return uep.n() >= clen && cep.n() >= xlen+ulen })

	served := true
	switch in.Order {
	case "client":
		cc.Close()
		served = waitUntil(waitT, nil, uep.ended)
	case "upstream":
		uep.c().Close()
		served = waitUntil(waitT, nil, cep.ended)
	case "halfclose":
		cc.(*net.TCPConn).CloseWrite()
		waitUntil(waitT, nil, uep.ended)
		writeSegs(uep.c(), reply, false)
		uep.c().Close()
		served = waitUntil(waitT, nil, cep.ended)
	}
	cc.Close()
	waitUntil(waitT, nil, uep.ended)
	upb, upend := uep.snapshot()
	clb, _ := cep.snapshot()
	return wsOut{Up: hx2(upb), Cl: hx2(clb), Handshake: true, UpEnd: upend, Served: served}, nil
}

func genWSWith(r *hx.Rand, order string) wsIn {
	in := wsIn{Order: order, Paced: r.Chance(1, 2), Reply: []string{}, U101Extra: []string{}}
	in.Csegs = chunks(cut(r, patBytes(r, size(r)), r.Range(0, 5)))
	if order != "upstream" {
		in.Csegs = append(in.Csegs, segJ{E: "eof"})
	}
	in.Usegs = hexes(cut(r, patBytes(r, size(r)), r.Intn(4)))
	if r.Chance(1, 3) {
		in.U101Extra = []string{hx2(patBytes(r, r.Range(1, 600)))}
	}
	if order == "halfclose" {
		in.Reply = hexes(cut(r, patBytes(r, r.Range(1, 40)), r.Intn(2)))
	}
	return in
}

func genWS(r *hx.Rand, i int) interface{} {
	return genWSWith(r, []string{"client", "upstream"}[r.Intn(2)])
}

func init() {
	_ = io.EOF
	hx.Register(&hx.Stream{Name: "c09.ws", Gen: genWS, Run: runWS, Corpus: []interface{}{
		wsIn{Csegs: []segJ{{C: hx2([]byte("\x81\x05hello"))}, {E: "eof"}}, Usegs: []string{hx2([]byte("\x81\x05world"))}, U101Extra: []string{}, Order: "client", Reply: []string{}},
		wsIn{Csegs: []segJ{{C: hx2([]byte("\x81\x05hello"))}}, Usegs: []string{}, U101Extra: []string{hx2([]byte("\x81\x02hi"))}, Order: "upstream", Reply: []string{}},
		wsIn{Csegs: []segJ{{C: hx2([]byte("HELLO"))}, {E: "eof"}}, Usegs: []string{}, U101Extra: []string{}, Order: "halfclose", Reply: []string{hx2([]byte("REPLY"))}},
	}})
}
