package main

import (
	"bytes"
	"encoding/json"
	"errors"
	"io"
	"net"
	"net/http"
	"time"

	"github.com/fabiolb/fabio/config"
	"github.com/fabiolb/fabio/proxy"
	"github.com/fabiolb/fabio/route"
	"verif/harness/hx"
)

// c09.ws: proxy.HTTPProxy with a websocket upgrade. The upstream is a raw TCP endpoint that answers the
// relayed handshake with one write ("HTTP/1.1 101 ..." + optionally the first bytes of its stream) and
// then treats the connection as an opaque byte stream, as the client does once it has read the 101.

type wsIn struct {
	Csegs     []segJ   `json:"csegs"`     // client bytes after the 101 has arrived, optional terminal
	Usegs     []string `json:"usegs"`     // upstream bytes after the 101
	U101Extra []string `json:"u101extra"` // upstream bytes sent in the same write as the 101
	Order     string   `json:"order"`
	Reply     []string `json:"reply"`
	Paced     bool     `json:"paced"`
	Burst     int      `json:"burst,omitempty"` // a final client burst of this many bytes (pattern burstByte)
	BurstSeed int      `json:"burst_seed,omitempty"`
	SlowUp    bool     `json:"slowup,omitempty"` // the upstream is a slow consumer
}

type wsOut struct {
	Up        string `json:"up"`
	Cl        string `json:"cl"`
	BurstGot  int    `json:"burst_got"`
	BurstOK   bool   `json:"burst_ok"`
	Attempts  int    `json:"attempts"`
	expected  bool
	Handshake bool   `json:"handshake"` // client read a 101 and the upstream saw the relayed request
	UpEnd     string `json:"upend"`
	Served    bool   `json:"served"`
	EofSeen   bool   `json:"eof_seen"`
}

const ws101 = "HTTP/1.1 101 Switching Protocols\r\nUpgrade: websocket\r\nConnection: Upgrade\r\nSec-WebSocket-Accept: s3pPLMBiTxaQ9kYGzzhZRbK+xOo=\r\n\r\n"
const wsReq = "GET /ws HTTP/1.1\r\nHost: ws.example\r\nUpgrade: websocket\r\nConnection: Upgrade\r\nSec-WebSocket-Key: dGhlIHNhbXBsZSBub25jZQ==\r\nSec-WebSocket-Version: 13\r\n\r\n"

// readHeader reads from c until an empty line; returns the header and whatever followed it.
func readHeader(c net.Conn, d time.Duration) (hdr, rest []byte, err error) {
	c.SetReadDeadline(time.Now().Add(d))
	defer c.SetReadDeadline(time.Time{})
	var acc []byte
	buf := make([]byte, 4096)
	for {
		n, e := c.Read(buf)
		acc = append(acc, buf[:n]...)
		if i := bytes.Index(acc, []byte("\r\n\r\n")); i >= 0 {
			return acc[:i+4], acc[i+4:], nil
		}
		if e != nil {
			return acc, nil, e
		}
	}
}

var wsGlobCache = route.NewGlobCache(16)

// runWS measures a case; an outcome that is not the expected one (or a harness timeout) is measured again in a
// fresh run, at most three attempts (see runTunnel).
func runWS(raw json.RawMessage) (interface{}, error) {
	var out, prev wsOut
	var err error
	hits0 := softHits
	for a, n := 1, maxAttempts(); a <= n; a++ {
		var o interface{}
		o, err = runWSOnce(raw, a)
		if err != nil {
			if _, timeout := err.(harnessTimeout); timeout {
				continue
			}
			return nil, err
		}
		out = o.(wsOut)
		out.Attempts = a
		if out.expected {
			break
		}
		if a >= 2 && out.Up == prev.Up && out.Cl == prev.Cl && out.BurstGot == prev.BurstGot {
			break // the same observation twice: not the scheduler
		}
		prev = out
	}
	if err != nil {
		return nil, err
	}
	if !out.expected && softHits > hits0 {
		lossSeen++
	}
	return out, nil
}

func runWSOnce(raw json.RawMessage, attempt int) (interface{}, error) {
	var in wsIn
	if err := json.Unmarshal(raw, &in); err != nil {
		return nil, err
	}
	evs, err := segsToEvs(in.Csegs)
	if err != nil {
		return nil, err
	}
	var cchunks [][]byte
	clen := 0
	for _, e := range evs {
		if e.kind != 0 {
			break
		}
		cchunks = append(cchunks, e.data)
		clen += len(e.data)
	}
	usegs, ulen, err := decodeHexes(in.Usegs)
	if err != nil {
		return nil, err
	}
	extra, xlen, err := decodeHexes(in.U101Extra)
	if err != nil {
		return nil, err
	}
	reply, _, err := decodeHexes(in.Reply)
	if err != nil {
		return nil, err
	}
	if in.Order != "client" && in.Order != "upstream" && in.Order != "halfclose" {
		return nil, errors.New("bad order")
	}
	if in.Burst < 0 || in.Burst > 64<<20 {
		return nil, errors.New("burst out of range")
	}

	// upstream: accepts the relayed handshake, answers 101 (+ first bytes) in one write, then records
	up, err := newUpstreamFunc(func(c net.Conn, ep *endpoint) bool {
		hdr, rest, err := readHeader(c, hardT)
		if err != nil || !bytes.HasPrefix(hdr, []byte("GET /ws HTTP/1.1\r\n")) {
			c.Close()
			return false
		}
		first := []byte(ws101)
		for _, x := range extra {
			first = append(first, x...)
		}
		c.Write(first)
		ep.mu.Lock()
		ep.recv = append(ep.recv, rest...)
		ep.mu.Unlock()
		return true
	}, in.SlowUp)
	if err != nil {
		return nil, err
	}
	defer up.close()
	uep := &up.ep

	tbl, err := route.NewTable(bytes.NewBufferString("route add ws ws.example/ws http://" + up.addr()))
	if err != nil {
		return nil, err
	}
	pl, err := listenRetry()
	if err != nil {
		return nil, err
	}
	srv := &http.Server{Handler: &proxy.HTTPProxy{
		Config:    config.Proxy{NoRouteStatus: 404},
		Transport: http.DefaultTransport,
		Lookup: func(r *http.Request) *route.Target {
			return tbl.Lookup(r, "", route.Picker["rr"], route.Matcher["prefix"], wsGlobCache, true)
		},
	}}
	go srv.Serve(pl)
	defer srv.Close()

	cc, err := net.DialTimeout("tcp", pl.Addr().String(), waitT)
	if err != nil {
		return nil, err
	}
	defer cc.Close()
	if _, err := cc.Write([]byte(wsReq)); err != nil {
		return nil, err
	}
	hdr, rest, hserr := readHeader(cc, hardT)
	if hserr != nil || !bytes.HasPrefix(hdr, []byte("HTTP/1.1 101")) || waitFor(hardT, nil, up.isAccepted) != wOK {
		// a verdict (the handshake relay failed), re-measured by the caller: the handler under test gives the
		// upstream one second to answer, which a starved machine can exceed
		return wsOut{Handshake: false}, nil
	}
	var herr error
	must := func(what string, st int) {
		if st == wTimeout && herr == nil {
			herr = harnessTimeout(what)
		}
	}
	var cep endpoint
	cep.recv = append(cep.recv, rest...)
	cep.attach(cc)
	cwritten := make(chan struct{})
	go func() {
		defer close(cwritten)
		writeSegs(cc, cchunks, in.Paced)
		for off := 0; off < in.Burst; off += 256 * 1024 {
			n := in.Burst - off
			if n > 256*1024 {
				n = 256 * 1024
			}
			if _, err := cc.Write(burstChunk(off, n, in.BurstSeed)); err != nil {
				return
			}
		}
	}()
	uwritten := make(chan struct{})
	go func() {
		defer close(uwritten)
		writeSegs(uep.c(), usegs, false)
	}()
	must("the client's writes", waitFor(2*hardT, nil, chanClosed(cwritten)))
	must("the upstream's writes", waitFor(hardT, nil, chanClosed(uwritten)))
	// Whoever finishes does so by FIN behind its own data, nothing to wait for in that direction; what the
	// OTHER side has sent must have arrived before (bytes in flight towards a side that has finished may
	// legitimately be dropped): a count, re-measured when the bound is hit.
	if in.Order == "upstream" {
		softWait(attempt, nil, func() bool { return uep.n() >= clen+in.Burst })
	} else {
		softWait(attempt, nil, func() bool { return cep.n() >= xlen+ulen })
	}

	finishUpstream := func() {
		if c, ok := uep.c().(*net.TCPConn); ok {
			c.CloseWrite()
		}
	}
	// the client finishes first: the upstream must be told (see runTunnelOnce); soft bound, an observation
	eofSeen := true
	upSawEnd := func() {
		if waitFor(softT(attempt)+time.Duration(in.Burst>>20)*time.Second, nil, uep.ended) != wOK {
			softHits++
			eofSeen = false
		}
	}
	switch in.Order {
	case "client":
		cc.(*net.TCPConn).CloseWrite() // FIN behind the data; the client keeps reading
		upSawEnd()
		finishUpstream()
	case "upstream":
		finishUpstream()
	case "halfclose":
		cc.(*net.TCPConn).CloseWrite()
		upSawEnd()
		writeSegs(uep.c(), reply, false)
		finishUpstream()
	}
	st := waitFor(hardT, nil, cep.ended)
	must("the proxy to end the client's connection", st)
	served := st == wOK
	cc.Close()
	must("the upstream to see its connection end", waitFor(hardT, nil, uep.ended))
	if herr != nil {
		return nil, herr
	}
	upb, upend := uep.snapshot()
	clb, _ := cep.snapshot()
	headLen := clen
	if in.Burst == 0 || headLen > len(upb) {
		headLen = len(upb)
	}
	bgot, bok := burstCheck(upb[headLen:], in.BurstSeed)
	var wantUp, wantCl []byte
	for _, c := range cchunks {
		wantUp = append(wantUp, c...)
	}
	for _, l := range [][][]byte{extra, usegs} {
		for _, u := range l {
			wantCl = append(wantCl, u...)
		}
	}
	if in.Order == "halfclose" {
		for _, u := range reply {
			wantCl = append(wantCl, u...)
		}
	}
	expected := bytes.Equal(upb[:headLen], wantUp) && bytes.Equal(clb, wantCl) && bgot == in.Burst && bok && eofSeen
	return wsOut{EofSeen: eofSeen, expected: expected, Up: hx2(upb[:headLen]), Cl: hx2(clb), BurstGot: bgot, BurstOK: bok, Handshake: true, UpEnd: upend, Served: served}, nil
}

func genWSWith(r *hx.Rand, order string) wsIn {
	in := wsIn{Order: order, Paced: r.Chance(1, 2), Reply: []string{}, U101Extra: []string{}}
	in.Csegs = chunks(cut(r, patBytes(r, size(r)), r.Range(0, 5)))
	if order != "upstream" {
		in.Csegs = append(in.Csegs, segJ{E: "eof"})
	}
	in.Usegs = hexes(cut(r, patBytes(r, size(r)), r.Intn(4)))
	if r.Chance(1, 3) {
		in.U101Extra = []string{hx2(patBytes(r, r.Range(1, 600)))}
	}
	if order == "halfclose" {
		in.Reply = hexes(cut(r, patBytes(r, r.Range(1, 40)), r.Intn(2)))
	}
	if order == "client" && r.Chance(1, 40) {
		in.Burst = r.Range(2<<20, 8<<20)
		in.BurstSeed = r.Intn(256)
		in.SlowUp = true
	}
	return in
}

func genWS(r *hx.Rand, i int) interface{} {
	if genHalfClose {
		return genWSWith(r, []string{"client", "client", "upstream", "upstream", "halfclose"}[r.Intn(5)])
	}
	return genWSWith(r, []string{"client", "upstream"}[r.Intn(2)])
}

func init() {
	_ = io.EOF
	hx.Register(&hx.Stream{Name: "c09.ws", Gen: genWS, Run: runWS, Corpus: []interface{}{
		wsIn{Csegs: []segJ{{C: hx2([]byte("\x81\x05hello"))}, {E: "eof"}}, Usegs: []string{hx2([]byte("\x81\x05world"))}, U101Extra: []string{}, Order: "client", Reply: []string{}},
		wsIn{Csegs: []segJ{{C: hx2([]byte("\x81\x05hello"))}}, Usegs: []string{}, U101Extra: []string{hx2([]byte("\x81\x02hi"))}, Order: "upstream", Reply: []string{}},
		wsIn{Csegs: []segJ{{C: hx2([]byte("HELLO"))}, {E: "eof"}}, Usegs: []string{}, U101Extra: []string{}, Order: "halfclose", Reply: []string{hx2([]byte("REPLY"))}},
		wsIn{Csegs: []segJ{{C: hx2([]byte("\x82\x7f"))}, {E: "eof"}}, Usegs: []string{hx2([]byte("ok"))}, U101Extra: []string{}, Order: "client", Reply: []string{}, Burst: 4 << 20, BurstSeed: 3, SlowUp: true},
		wsIn{Csegs: []segJ{{E: "eof"}}, Usegs: []string{}, U101Extra: []string{}, Order: "client", Reply: []string{}, Burst: 6 << 20, BurstSeed: 9, SlowUp: true},
	}})
}
