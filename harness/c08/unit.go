package main

import (
	"crypto/tls"
	"encoding/json"
	"net/http"
	"net/http/httptest"
	"net/textproto"

	"github.com/fabiolb/fabio/proxy"
	"verif/harness/hx"
)

// c08.unit: the real addHeaders / addResponseHeaders / scheme / localPort on a synthetic *http.Request.

type unitIn struct {
	Wire   []wireHdr `json:"wire"`
	Host   string    `json:"host"`
	Remote string    `json:"remote"`
	TLS    *tlsIn    `json:"tls"`
	Proto  string    `json:"proto"`
	Strip  string    `json:"strip"`
	Cfg    cfgIn     `json:"cfg"`
}

type unitOut struct {
	Err     bool     `json:"err"`
	Hdr     []hdrOut `json:"hdr"`
	Resp    []hdrOut `json:"resp"`
	Scheme0 string   `json:"scheme0"` // scheme(r) before addHeaders
	Port0   string   `json:"port0"`   // localPort(r)
}

var remoteChoices = []string{"1.2.3.4:5555", "1.2.3.4:5555", "10.0.0.7:80", "[::1]:80", "[2001:db8::1]:4711", "[fe80::1%eth0]:443"}
var remoteBad = []string{"1.2.3.4", "", ":80", "[::1]", "::1:80", "[::1]:", "a:b:c", "[::1]x:80", "1.2.3.4:80:90", "host]:80", "[ho[st]:80", "[::1]]:80", "[::1", "[::1]:80:", "x:"}
var hostChoices = []string{"", "foo.com", "foo.com", "foo.com:8080", "foo.com:", ":8080", ":", "1.2.3.4:443", "FOO.com:80", "a:b:c", "client.example:8080"}
var hostV6 = []string{"[::1]:8080", "[::1]", "[2001:db8::1]:443"}
var protoChoices = []string{"HTTP/1.1", "HTTP/1.1", "HTTP/1.0", "HTTP/2.0", "", "http/1.1"}
var tlsChoices = []tlsIn{{0x0303, 0xc02f}, {0x0304, 0x1301}, {0x0301, 0x002f}, {0x0300, 0x000a}, {0x0302, 0}, {0, 0}, {0, 0x1303}, {0xffff, 0xabcd}}

func runUnit(raw json.RawMessage) (interface{}, error) {
	var in unitIn
	if err := json.Unmarshal(raw, &in); err != nil {
		return nil, err
	}
	r := &http.Request{Header: http.Header{}, Host: in.Host, RemoteAddr: in.Remote, Proto: in.Proto}
	for _, w := range in.Wire {
		if w.V == nil {
			r.Header[textproto.CanonicalMIMEHeaderKey(w.K)] = nil
		} else {
			r.Header.Add(w.K, *w.V)
		}
	}
	if in.TLS != nil {
		r.TLS = &tls.ConnectionState{Version: in.TLS.V, CipherSuite: in.TLS.C}
	}
	cfg := in.Cfg.proxy()
	out := unitOut{Scheme0: proxy.VerifC08Scheme(r), Port0: proxy.VerifC08LocalPort(r)}
	if err := proxy.VerifC08AddHeaders(r, cfg, in.Strip); err != nil {
		out.Err = true
		out.Hdr = []hdrOut{}
		out.Resp = []hdrOut{}
		return out, nil
	}
	out.Hdr = canonHeader(r.Header)
	rec := httptest.NewRecorder()
	if err := proxy.VerifC08AddResponseHeaders(rec, r, cfg); err != nil {
		return nil, err
	}
	out.Resp = canonHeader(rec.Header())
	return out, nil
}

func genUnit(r *hx.Rand, i int) interface{} {
	in := unitIn{Cfg: genCfg(r)}
	vals := forgedValues
	if r.Chance(1, 10) {
		vals = append(append([]string{}, forgedValues...), "ü", "proto=ü;", " 7.7.7.7", "7.7.7.7 ")
	}
	in.Wire = genWire(r, in.Cfg, vals, nil)
	if r.Chance(2, 5) { // websocket (or near-websocket) upgrade, lists, repeated lines
		up := genUpgrade(r)
		if r.Chance(1, 16) {
			up[0].V = sp(r.Pick([]string{"", " websocket", "websocket "}))
		}
		for _, u := range up {
			in.Wire = append(in.Wire, u)
			if r.Chance(1, 3) { // shuffle its position
				j := r.Intn(len(in.Wire))
				in.Wire[j], in.Wire[len(in.Wire)-1] = in.Wire[len(in.Wire)-1], in.Wire[j]
			}
		}
	}
	if r.Chance(1, 20) {
		in.Wire = append(in.Wire, genBlankLines(r, r.Pick(managedNames[:7]), false)...)
	}
	if r.Chance(1, 25) {
		in.Wire = append(in.Wire, wireHdr{"X-Forwarded-For", nil})
	}
	for n := r.Intn(8); n >= 6; n-- { // 1/8 one Connection header, 1/8 two
		in.Wire = append(in.Wire, genConnection(r, in.Cfg))
	}
	if r.Chance(1, 60) {
		in.Wire = append(in.Wire, wireHdr{"Connection", nil})
	}
	if r.Chance(1, 14) {
		in.Host = r.Pick(hostV6)
	} else {
		in.Host = r.Pick(hostChoices)
	}
	if r.Chance(1, 7) {
		in.Remote = r.Pick(remoteBad)
	} else {
		in.Remote = r.Pick(remoteChoices)
	}
	if r.Chance(1, 2) {
		t := tlsChoices[r.Intn(len(tlsChoices))]
		in.TLS = &t
	}
	in.Proto = r.Pick(protoChoices)
	if r.Chance(1, 4) {
		in.Strip = r.Pick([]string{"/foo", "/", "/a/b"})
	}
	return in
}

func init() {
	hx.Register(&hx.Stream{
		Name: "c08.unit",
		Corpus: []interface{}{
			unitIn{Remote: "1.2.3.4:5555", Host: "foo.com", Proto: "HTTP/1.1"},
			unitIn{Remote: "1.2.3.4", Host: "foo.com", Proto: "HTTP/1.1"},
			unitIn{Remote: "1.2.3.4:5555", Host: "foo.com", Proto: "HTTP/1.1", Cfg: cfgIn{CIP: "X-Client-Ip", TLSH: "X-Tls", TLSV: "on"},
				Wire: []wireHdr{{"x-client-ip", sp("6.6.6.6")}, {"X-CLIENT-IP", sp("7.7.7.7")}, {"x-tls", sp("on")}}},
			// D12b: `Upgrade: Websocket` is accepted by ServeHTTP as a websocket upgrade
			unitIn{Remote: "1.2.3.4:5555", Host: "foo.com", Proto: "HTTP/1.1", Wire: []wireHdr{{"Upgrade", sp("Websocket")}}},
			unitIn{Remote: "1.2.3.4:5555", Host: "foo.com", Proto: "HTTP/1.1", Wire: []wireHdr{{"Upgrade", sp("websocket")}, {"X-Forwarded-For", sp("9.9.9.9")}},
				TLS: &tlsIn{0x0303, 0xc02f}, Cfg: cfgIn{Age: 31536000, Sub: true}},
		},
		Gen: genUnit,
		Run: runUnit,
	})
}
