package main

import (
	"bufio"
	"bytes"
	"context"
	"crypto/ecdsa"
	"crypto/elliptic"
	"crypto/rand"
	"crypto/tls"
	"crypto/x509"
	"crypto/x509/pkix"
	"encoding/json"
	"encoding/pem"
	"errors"
	"fmt"
	"hash/fnv"
	"math/big"
	"net"
	"net/http"
	"os"
	"os/exec"
	"path/filepath"
	"regexp"
	"strings"
	"sync"
	"syscall"
	"time"

	"github.com/fabiolb/fabio/config"
	"verif/harness/hx"
)

// c08.main: the real fabio executable (package main of the tree under test, built without any tag), started
// the way an operator starts it: the header options on the command line, in the environment (FABIO_<NAME> or
// bare <NAME>) or in a properties file, a static route table with host= / strip= options, one plain and one TLS
// listener (certificate source of type file). A raw-socket client talks to either listener, a recording upstream
// shows what arrives. This drives config.Load for the header options, main.startServers / newHTTPProxy (which
// configuration a listener's proxy runs with), proxy.ListenAndServeHTTP (r.TLS set on the TLS listener only), the
// real route lookup and the real transport - nothing of it is constructed by the harness.

type optIn struct {
	Src string `json:"src"` // arg | env | envbare | file
	K   string `json:"k"`
	V   string `json:"v"`
}

type mainIn struct {
	Opts     []optIn   `json:"opts"`
	Listener string    `json:"listener"` // http | https | https+tcp+sni | http+pxy | https+pxy (pxyproto=true)
	Pxy      string    `json:"pxy"`      // on a pxyproto listener: the client address announced in a PROXY v1 header ("" = no header)
	HostOpt  string    `json:"hostopt"`  // options of the static route the request is sent to
	Strip    string    `json:"strip"`
	Wire     []wireHdr `json:"wire"`
	Host     string    `json:"host"`
	Interim  bool      `json:"interim"` // the upstream sends 103 Early Hints before the final response
	V6       bool      `json:"v6"` // connect over IPv6 loopback when the machine has it (the listeners are bound to all addresses)
	H2       bool      `json:"h2"` // speak HTTP/2 to the TLS listener (its certificate source offers h2)
}

type mainOut struct {
	Started bool     `json:"started"` // fabio came up with this configuration
	Status  int      `json:"status"`
	Reached bool     `json:"reached"`
	UHost   string   `json:"uhost"`
	Hdr     []hdrOut `json:"hdr"`
	STS     []string `json:"sts"`
	Conn    connOut  `json:"conn"`
	Target  string   `json:"target"`
	DefLIP  string   `json:"deflip"` // config.LocalIPString() of this machine (default of proxy.localip)
	Log     string   `json:"log,omitempty"`
}

// the static route table every child is started with: one route per combination of options
var mainRoutes = []struct{ Path, HostOpt, Strip string }{
	{"/r0", "", ""},
	{"/r1", "dst", ""},
	{"/r2", "up.example", ""},
	{"/r3", "", "/r3"},
	{"/r4", "up.example:9000", "/r4"},
	{"/r5", "foo.com", ""},
}

func mainRoutePath(hostOpt, strip string) (string, bool) {
	for _, r := range mainRoutes {
		if r.HostOpt == hostOpt && r.Strip == strip {
			return r.Path, true
		}
	}
	return "", false
}

// ---- the executable ----

var (
	c08BinOnce sync.Once
	c08Bin     string
	c08BinErr  error
)

func c08VerifRoot() string {
	if r := os.Getenv("VERIF_ROOT"); r != "" {
		return r
	}
	return "/verif"
}

func c08Repo() string {
	if r := os.Getenv("VERIF_REPO"); r != "" {
		return r
	}
	return "/repo"
}

// fabioExecutable builds the main package of the tree under test. Started by ./check the harness binary lives in
// a directory of its own per run (.work/C08-<pid>): the executable is built next to it, once per run (shards find
// it under the file lock). Started by hand it is rebuilt on every start into a path keyed by the tree.
func fabioExecutable() (string, error) {
	c08BinOnce.Do(func() {
		repo := c08Repo()
		dir, perRun := "", false
		if exe, err := os.Executable(); err == nil {
			d := filepath.Dir(exe)
			if strings.Contains(d, string(filepath.Separator)+".work"+string(filepath.Separator)) {
				dir, perRun = d, true
			}
		}
		name := "fabio-c08"
		if !perRun {
			dir = filepath.Join(c08VerifRoot(), ".work", "C08")
			h := fnv.New32a()
			h.Write([]byte(repo))
			name = fmt.Sprintf("fabio-c08-%08x", h.Sum32())
		}
		os.MkdirAll(dir, 0o755)
		c08Bin = filepath.Join(dir, name)
		lf, err := os.OpenFile(c08Bin+".lock", os.O_CREATE|os.O_RDWR, 0o644)
		if err != nil {
			c08BinErr = err
			return
		}
		defer lf.Close()
		syscall.Flock(int(lf.Fd()), syscall.LOCK_EX)
		defer syscall.Flock(int(lf.Fd()), syscall.LOCK_UN)
		if perRun {
			if _, err := os.Stat(c08Bin); err == nil {
				return
			}
		}
		tmp := fmt.Sprintf("%s.tmp%d", c08Bin, os.Getpid())
		cmd := exec.Command("go", "build", "-o", tmp, ".")
		cmd.Dir = repo
		cmd.Env = append(os.Environ(), "GOFLAGS=-mod=mod", "GOPROXY=off")
		if out, err := cmd.CombinedOutput(); err != nil {
			os.Remove(tmp)
			c08BinErr = fmt.Errorf("go build %s: %v: %s", repo, err, out)
			return
		}
		c08BinErr = os.Rename(tmp, c08Bin)
	})
	return c08Bin, c08BinErr
}

// ---- certificate for the TLS listener ----

var (
	certOnce          sync.Once
	certDir           string
	certFile, keyFile string
	certErr           error
)

func listenerCert() (string, string, string, error) {
	certOnce.Do(func() {
		// inside the run's own directory when started by ./check (removed with it), else under the system's temp dir
		parent := ""
		if exe, err := os.Executable(); err == nil {
			if d := filepath.Dir(exe); strings.Contains(d, string(filepath.Separator)+".work"+string(filepath.Separator)) {
				parent = d
			}
		}
		certDir, certErr = os.MkdirTemp(parent, "c08-main-")
		if certErr != nil {
			return
		}
		key, err := ecdsa.GenerateKey(elliptic.P256(), rand.Reader)
		if err != nil {
			certErr = err
			return
		}
		tmpl := &x509.Certificate{SerialNumber: big.NewInt(8), Subject: pkix.Name{CommonName: "c08.verif"},
			NotBefore: time.Now().Add(-time.Hour), NotAfter: time.Now().Add(48 * time.Hour),
			KeyUsage: x509.KeyUsageDigitalSignature, ExtKeyUsage: []x509.ExtKeyUsage{x509.ExtKeyUsageServerAuth},
			DNSNames: []string{"localhost"}, IPAddresses: []net.IP{net.ParseIP("127.0.0.1")}}
		der, err := x509.CreateCertificate(rand.Reader, tmpl, tmpl, &key.PublicKey, key)
		if err != nil {
			certErr = err
			return
		}
		kb, err := x509.MarshalECPrivateKey(key)
		if err != nil {
			certErr = err
			return
		}
		certFile, keyFile = filepath.Join(certDir, "cert.pem"), filepath.Join(certDir, "key.pem")
		if certErr = os.WriteFile(certFile, pem.EncodeToMemory(&pem.Block{Type: "CERTIFICATE", Bytes: der}), 0o600); certErr != nil {
			return
		}
		certErr = os.WriteFile(keyFile, pem.EncodeToMemory(&pem.Block{Type: "EC PRIVATE KEY", Bytes: kb}), 0o600)
	})
	return certDir, certFile, keyFile, certErr
}

// ---- child processes, one per configuration ----

type fabioProc struct {
	started  bool
	log      string
	cmd      *exec.Cmd
	exited   chan struct{}
	plain    string // address of the proto=http listener
	secure   string // address of the proto=https listener
	sni      string // address of the proto=https+tcp+sni listener (no SNI route matches: falls through to HTTPS)
	pxy      string // proto=http;pxyproto=true
	pxys     string // proto=https;cs=lst;pxyproto=true
	lastUsed int
}

var (
	procMu   sync.Mutex
	procs    = map[string]*fabioProc{}
	procTick int
)

const maxLiveProcs = 12

func freeLoopbackPorts(n int) ([]int, error) {
	var ls []net.Listener
	defer func() {
		for _, l := range ls {
			l.Close()
		}
	}()
	var ps []int
	for i := 0; i < n; i++ {
		l, err := net.Listen("tcp", "127.0.0.1:0")
		if err != nil {
			return nil, err
		}
		ls = append(ls, l)
		ps = append(ps, l.Addr().(*net.TCPAddr).Port)
	}
	return ps, nil
}

func envName(k string, prefixed bool) string {
	n := strings.ToUpper(strings.ReplaceAll(k, ".", "_"))
	if prefixed {
		return "FABIO_" + n
	}
	return n
}

var propKeyOK = regexp.MustCompile(`^[a-z.]+$`)

// optsRunnable: what the harness can hand to a process without changing its meaning on the way (NUL bytes, line
// breaks in a properties file, '=' handling of the environment).
func optsRunnable(opts []optIn) error {
	for _, o := range opts {
		if !propKeyOK.MatchString(o.K) {
			return errors.New("option name outside the generated universe")
		}
		if strings.ContainsAny(o.V, "\x00\r\n\\${}") || o.V != strings.TrimSpace(o.V) {
			return errors.New("option value cannot be written to every source unchanged")
		}
		for i := 0; i < len(o.V); i++ {
			if o.V[i] < 0x20 || o.V[i] >= 0x7f {
				return errors.New("option value cannot be written to every source unchanged")
			}
		}
		switch o.Src {
		case "arg", "env", "envbare", "file":
		default:
			return errors.New("unknown option source")
		}
	}
	return nil
}

func startFabio(opts []optIn, upstream string) (*fabioProc, error) {
	bin, err := fabioExecutable()
	if err != nil {
		return nil, err
	}
	dir, cert, key, err := listenerCert()
	if err != nil {
		return nil, err
	}
	var routes strings.Builder
	for _, r := range mainRoutes {
		fmt.Fprintf(&routes, "route add svc %s http://%s/", r.Path, upstream)
		var o []string
		if r.HostOpt != "" {
			o = append(o, "host="+r.HostOpt)
		}
		if r.Strip != "" {
			o = append(o, "strip="+r.Strip)
		}
		if len(o) > 0 {
			fmt.Fprintf(&routes, " opts \"%s\"", strings.Join(o, " "))
		}
		routes.WriteString("\n")
	}
	for attempt := 0; ; attempt++ {
		ports, err := freeLoopbackPorts(6)
		if err != nil {
			return nil, err
		}
		p := &fabioProc{plain: fmt.Sprintf("127.0.0.1:%d", ports[0]), secure: fmt.Sprintf("127.0.0.1:%d", ports[1]),
			sni: fmt.Sprintf("127.0.0.1:%d", ports[3]), pxy: fmt.Sprintf("127.0.0.1:%d", ports[4]), pxys: fmt.Sprintf("127.0.0.1:%d", ports[5])}
		anyAddr := func(a string) string { return a[strings.LastIndexByte(a, ':'):] } // ":port": every address, IPv4 and IPv6
		args := []string{"-insecure", "-registry.backend=static", "-registry.static.routes=" + routes.String(),
			"-proxy.addr=" + anyAddr(p.plain) + ";proto=http," + anyAddr(p.secure) + ";proto=https;cs=lst," + anyAddr(p.sni) + ";proto=https+tcp+sni;cs=lst," +
				anyAddr(p.pxy) + ";proto=http;pxyproto=true," + anyAddr(p.pxys) + ";proto=https;cs=lst;pxyproto=true",
			"-proxy.cs=cs=lst;type=file;cert=" + cert + ";key=" + key,
			fmt.Sprintf("-ui.addr=127.0.0.1:%d", ports[2]), "-log.level=WARN", "-proxy.shutdownwait=0s"}
		env := []string{}
		for _, e := range os.Environ() { // nothing of the caller's environment may configure the child
			up := strings.ToUpper(e)
			if strings.HasPrefix(up, "FABIO_") || strings.HasPrefix(up, "PROXY_") || strings.HasPrefix(up, "REGISTRY_") ||
				strings.HasPrefix(up, "UI_") || strings.HasPrefix(up, "LOG_") || strings.HasPrefix(up, "METRICS_") {
				continue
			}
			env = append(env, e)
		}
		var props strings.Builder
		for _, o := range opts {
			switch o.Src {
			case "arg":
				args = append(args, "-"+o.K+"="+o.V)
			case "env":
				env = append(env, envName(o.K, true)+"="+o.V)
			case "envbare":
				env = append(env, envName(o.K, false)+"="+o.V)
			case "file":
				fmt.Fprintf(&props, "%s = %s\n", o.K, o.V)
			}
		}
		if props.Len() > 0 {
			f, err := os.CreateTemp(dir, "fabio-*.properties")
			if err != nil {
				return nil, err
			}
			f.WriteString(props.String())
			f.Close()
			args = append([]string{"-cfg", f.Name()}, args...)
		}
		cmd := exec.Command(bin, args...)
		cmd.Env = env
		cmd.SysProcAttr = &syscall.SysProcAttr{Pdeathsig: syscall.SIGKILL} // the child never outlives the harness
		logb := &bytes.Buffer{}
		cmd.Stdout, cmd.Stderr = logb, logb
		if err := cmd.Start(); err != nil {
			return nil, err
		}
		p.cmd, p.exited = cmd, make(chan struct{})
		go func() { cmd.Wait(); close(p.exited) }()
		up := waitListening(p.plain, false, p.exited) && waitListening(p.secure, true, p.exited) && waitListening(p.sni, true, p.exited) &&
			waitListening(p.pxy, false, p.exited) && waitListening(p.pxys, true, p.exited)
		if up {
			p.started = true
			return p, nil
		}
		cmd.Process.Kill()
		<-p.exited
		p.log = tailOf(logb.String(), 400)
		if attempt < 4 && strings.Contains(logb.String(), "address already in use") {
			continue
		}
		if cmd.ProcessState != nil && cmd.ProcessState.Exited() {
			// fabio looked at its configuration and refused to run: an observable, not a harness failure
			return p, nil
		}
		return nil, fmt.Errorf("fabio did not come up: %s", p.log)
	}
}

func tailOf(s string, n int) string {
	if len(s) > n {
		return s[len(s)-n:]
	}
	return s
}

// waitListening returns once the address accepts a connection - on the TLS listener: completes a handshake, the
// certificate source is loaded after the listener is opened - (true) or the process has ended (false).
func waitListening(addr string, secure bool, exited chan struct{}) bool {
	deadline := time.Now().Add(60 * time.Second)
	for time.Now().Before(deadline) {
		c, err := net.DialTimeout("tcp", addr, time.Second)
		if err == nil && secure {
			tc := tls.Client(c, &tls.Config{InsecureSkipVerify: true})
			tc.SetDeadline(time.Now().Add(5 * time.Second))
			if err = tc.Handshake(); err != nil {
				c.Close()
			}
		}
		if err == nil {
			c.Close()
			return true
		}
		select {
		case <-exited:
			return false
		case <-time.After(15 * time.Millisecond):
		}
	}
	return false
}

func procFor(opts []optIn, upstream string) (*fabioProc, error) {
	kb, _ := json.Marshal(opts)
	key := string(kb)
	procMu.Lock()
	defer procMu.Unlock()
	procTick++
	if p, ok := procs[key]; ok {
		alive := true
		if p.started {
			select {
			case <-p.exited:
				alive = false
			default:
			}
		}
		if alive {
			p.lastUsed = procTick
			return p, nil
		}
		delete(procs, key)
	}
	live := 0
	var oldest string
	for k, p := range procs {
		if p.started {
			live++
			if oldest == "" || p.lastUsed < procs[oldest].lastUsed {
				oldest = k
			}
		}
	}
	if live >= maxLiveProcs {
		procs[oldest].cmd.Process.Kill()
		<-procs[oldest].exited
		delete(procs, oldest)
	}
	p, err := startFabio(opts, upstream)
	if err != nil {
		return nil, err
	}
	p.lastUsed = procTick
	procs[key] = p
	return p, nil
}

var (
	v6Once sync.Once
	v6OK   bool
)

// haveV6 reports whether this machine has an IPv6 loopback address to connect from.
func haveV6() bool {
	v6Once.Do(func() {
		if l, err := net.Listen("tcp6", "[::1]:0"); err == nil {
			l.Close()
			v6OK = true
		}
	})
	return v6OK
}

// dialAddr is the listener's address as the client dials it: 127.0.0.1:port, or [::1]:port for an IPv6 client.
func dialAddr(a string, v6 bool) string {
	if v6 && haveV6() {
		return "[::1]" + a[strings.LastIndexByte(a, ':'):]
	}
	return a
}

func runMain(raw json.RawMessage) (interface{}, error) {
	var in mainIn
	if err := json.Unmarshal(raw, &in); err != nil {
		return nil, err
	}
	for _, w := range in.Wire {
		if w.V == nil || !validName(w.K) || !validValue(*w.V) {
			return nil, errors.New("header line cannot be sent over HTTP")
		}
	}
	if !validValue(in.Host) || strings.ContainsAny(in.Host, " ") {
		return nil, errors.New("host cannot be sent over HTTP")
	}
	if err := optsRunnable(in.Opts); err != nil {
		return nil, err
	}
	path, ok := mainRoutePath(in.HostOpt, in.Strip)
	if !ok {
		return nil, errors.New("no static route with these options")
	}
	addr, secure := "", true
	switch in.Listener {
	case "http":
		secure = false
	case "https", "https+tcp+sni", "http+pxy", "https+pxy":
	default:
		return nil, errors.New("unknown listener")
	}
	pxyLine, pxyRemote, err := proxyHeader(in)
	if err != nil {
		return nil, err
	}
	e := getEnv()
	out := mainOut{Target: e.upURL.Host, DefLIP: config.LocalIPString(), Hdr: []hdrOut{}, STS: []string{}}
	p, err := procFor(in.Opts, e.upURL.Host)
	if err != nil {
		return nil, err
	}
	if !p.started {
		out.Log = p.log
		return out, nil
	}
	out.Started = true
	e.mu.Lock()
	e.reached, e.uhost, e.uhdr, e.conn, e.interim = false, "", nil, connOut{}, in.Interim
	e.mu.Unlock()

	switch in.Listener {
	case "http":
		addr = p.plain
	case "https":
		addr = p.secure
	case "https+tcp+sni":
		addr = p.sni
	case "http+pxy":
		addr, secure = p.pxy, false
	case "https+pxy":
		addr = p.pxys
	}
	if in.H2 {
		if !secure {
			return nil, errors.New("HTTP/2 needs a TLS listener")
		}
		return runMainH2(in, addr, pxyLine, pxyRemote, path, &out)
	}
	tcp, err := net.Dial("tcp", dialAddr(addr, in.V6))
	if err != nil {
		return nil, err
	}
	defer tcp.Close()
	tcp.SetDeadline(time.Now().Add(20 * time.Second))
	if pxyLine != "" { // the PROXY header precedes everything, also the TLS handshake
		if _, err := tcp.Write([]byte(pxyLine)); err != nil {
			return nil, err
		}
	}
	c := tcp
	if secure {
		tc := tls.Client(tcp, &tls.Config{InsecureSkipVerify: true})
		if err := tc.Handshake(); err != nil {
			return nil, err
		}
		st := tc.ConnectionState()
		out.Conn.TLS, out.Conn.TLSV, out.Conn.TLSC = true, st.Version, st.CipherSuite
		c = tc
	}
	// what fabio sees as RemoteAddr is this end of the connection - or, behind a load balancer speaking the PROXY
	// protocol, the client address that balancer announces
	out.Conn.Remote, out.Conn.Proto = tcp.LocalAddr().String(), "HTTP/1.1"
	if pxyRemote != "" {
		out.Conn.Remote = pxyRemote
	}
	c.SetDeadline(time.Now().Add(20 * time.Second))
	resp, err := sendRaw(c, path+"/x", in.Host, in.Wire)
	if err != nil {
		return nil, err
	}
	e.mu.Lock()
	defer e.mu.Unlock()
	out.Status, out.Reached, out.UHost, out.Hdr = resp.StatusCode, e.reached, e.uhost, canonHeader(e.uhdr)
	out.STS = append(out.STS, resp.Header.Values("Strict-Transport-Security")...)
	return out, nil
}

// runMainH2: the same request over HTTP/2 (net/http's client; header names travel in lower case as the protocol
// demands, lines of one name keep their order; Connection / Upgrade cannot be sent).
func runMainH2(in mainIn, addr, pxyLine, pxyRemote, path string, out *mainOut) (interface{}, error) {
	if in.Host == "" {
		return nil, errors.New("HTTP/2 needs an authority")
	}
	req, err := http.NewRequest("GET", "https://"+dialAddr(addr, in.V6)+path+"/x", nil)
	if err != nil {
		return nil, err
	}
	req.Host = in.Host
	for _, w := range in.Wire {
		switch strings.ToLower(w.K) {
		case "connection", "upgrade", "proxy-connection", "keep-alive", "transfer-encoding", "te", "host", "content-length":
			return nil, errors.New("connection-specific header cannot be sent over HTTP/2")
		}
		req.Header.Add(w.K, *w.V)
	}
	local := ""
	tr := &http.Transport{ForceAttemptHTTP2: true, TLSClientConfig: &tls.Config{InsecureSkipVerify: true}, DisableCompression: true,
		DialContext: func(ctx context.Context, network, addr string) (net.Conn, error) {
			c, err := (&net.Dialer{}).DialContext(ctx, network, addr)
			if err == nil {
				local = c.LocalAddr().String()
				if pxyLine != "" {
					_, err = c.Write([]byte(pxyLine))
				}
			}
			return c, err
		}}
	defer tr.CloseIdleConnections()
	cl := &http.Client{Transport: tr, Timeout: 20 * time.Second, CheckRedirect: func(*http.Request, []*http.Request) error { return http.ErrUseLastResponse }}
	resp, err := cl.Do(req)
	if err != nil {
		return nil, err
	}
	resp.Body.Close()
	if resp.TLS == nil || resp.ProtoMajor != 2 {
		return nil, fmt.Errorf("HTTP/2 was not negotiated (%s)", resp.Proto)
	}
	out.Conn = connOut{Remote: local, Proto: resp.Proto, TLS: true, TLSV: resp.TLS.Version, TLSC: resp.TLS.CipherSuite}
	if pxyRemote != "" {
		out.Conn.Remote = pxyRemote
	}
	e := getEnv()
	e.mu.Lock()
	defer e.mu.Unlock()
	out.Status, out.Reached, out.UHost, out.Hdr = resp.StatusCode, e.reached, e.uhost, canonHeader(e.uhdr)
	out.STS = append(out.STS, resp.Header.Values("Strict-Transport-Security")...)
	return *out, nil
}

// proxyHeader renders the PROXY protocol v1 line announcing in.Pxy ("ip:port" or "[ip6]:port") as the client, and
// the RemoteAddr the proxy is then expected to see. Only on the pxyproto listeners.
func proxyHeader(in mainIn) (line, remote string, err error) {
	if in.Pxy == "" {
		return "", "", nil
	}
	if in.Listener != "http+pxy" && in.Listener != "https+pxy" {
		return "", "", errors.New("PROXY header on a listener without pxyproto")
	}
	host, port, err := net.SplitHostPort(in.Pxy)
	if err != nil {
		return "", "", err
	}
	ip := net.ParseIP(host)
	var pn int
	if _, err := fmt.Sscan(port, &pn); err != nil || ip == nil || pn < 1 || pn > 65535 || fmt.Sprint(pn) != port {
		return "", "", errors.New("PROXY source is not an address")
	}
	if ip.To4() != nil {
		return fmt.Sprintf("PROXY TCP4 %s 127.0.0.1 %d 80\r\n", ip.String(), pn), net.JoinHostPort(ip.String(), port), nil
	}
	return fmt.Sprintf("PROXY TCP6 %s ::1 %d 80\r\n", ip.String(), pn), net.JoinHostPort(ip.String(), port), nil
}

// sendRaw writes one HTTP/1.1 request with the header lines exactly as given and reads the response head.
func sendRaw(c net.Conn, path, host string, wire []wireHdr) (*http.Response, error) {
	var b strings.Builder
	b.WriteString("GET " + path + " HTTP/1.1\r\nHost: " + host + "\r\n")
	ws := false
	for _, w := range wire {
		b.WriteString(w.K + ": " + *w.V + "\r\n")
		if strings.EqualFold(w.K, "Upgrade") {
			ws = true
		}
	}
	if ws {
		b.WriteString("Connection: Upgrade\r\n")
	} else {
		b.WriteString("Connection: close\r\n")
	}
	b.WriteString("\r\n")
	if _, err := c.Write([]byte(b.String())); err != nil {
		return nil, err
	}
	resp, err := readFinalResponse(bufio.NewReader(c))
	if err != nil {
		return nil, err
	}
	resp.Body.Close()
	return resp, nil
}

// ---- generator ----

var optSources = []string{"arg", "arg", "env", "envbare", "file", "file"}

// mainConfig builds the idx-th configuration of the universe (independent of the run's seed for idx < 4: the
// plain "everything configured" shapes; the rest is drawn from the seed's PRNG by the caller).
// collides: two purposes under one header name, or a name fabio / net/http/httputil manages itself. Such
// configurations run for model agreement only (class config-collision); a process serves many cases, so the
// share is kept small here.
func collides(c cfgIn) bool {
	reserved := []string{"x-forwarded-for", "x-real-ip", "x-forwarded-proto", "x-forwarded-port", "x-forwarded-host", "x-forwarded-prefix",
		"forwarded", "upgrade", "connection", "proxy-connection", "keep-alive", "proxy-authenticate", "proxy-authorization", "te", "trailer",
		"transfer-encoding"}
	names := []string{strings.ToLower(c.CIP), strings.ToLower(c.TLSH), strings.ToLower(c.ReqID)}
	for i, n := range names {
		if n == "" {
			continue
		}
		if !validName(n) {
			return true
		}
		for _, m := range reserved {
			if n == m && !(i == 0 && (n == "x-forwarded-for" || n == "x-real-ip")) {
				return true
			}
		}
		for j := 0; j < i; j++ {
			if names[j] == n {
				return true
			}
		}
	}
	return false
}

func genMainOpts(r *hx.Rand) []optIn {
	c := genCfg(r)
	for n := 0; n < 3 && collides(c) && r.Chance(3, 4); n++ {
		c = genCfg(r)
	}
	if c.CIP != "" && (!validName(c.CIP) || strings.EqualFold(c.CIP, "Upgrade")) {
		c.CIP = r.Pick(pCipRare)
	}
	if r.Chance(1, 3) {
		c.ReqID = r.Pick([]string{"X-Request-Id", "x-request-id", "X-Client-Ip"})
	}
	var opts []optIn
	add := func(k, v string) {
		opts = append(opts, optIn{Src: r.Pick(optSources), K: k, V: v})
	}
	if c.CIP != "" || r.Chance(1, 6) {
		add("proxy.header.clientip", c.CIP)
	}
	if c.TLSH != "" || r.Chance(1, 6) {
		add("proxy.header.tls", c.TLSH)
	}
	if c.TLSV != "" || r.Chance(1, 6) {
		add("proxy.header.tls.value", c.TLSV)
	}
	if c.ReqID != "" {
		add("proxy.header.requestid", c.ReqID)
	}
	if r.Chance(3, 4) { // otherwise the default: this machine's address
		add("proxy.localip", c.LIP)
	}
	if c.Age != 0 || r.Chance(1, 4) {
		v := fmt.Sprint(c.Age)
		if r.Chance(1, 10) { // other spellings flag.IntVar accepts, and ones it does not
			v = r.Pick([]string{"0x10", "+60", "010", "0b101", "abc", "", "1.5", "99999999999999999999", "-99999999999999999999", "0o17", "08"})
		}
		add("proxy.header.sts.maxage", v)
	}
	boolv := func(b bool) string {
		if r.Chance(1, 8) {
			return r.Pick([]string{"yes", "TRUE", "T", "F", "0", "1", "tRuE", ""})
		}
		if b {
			return r.Pick([]string{"true", "true", "1", "True"})
		}
		return r.Pick([]string{"false", "false", "0"})
	}
	if c.Sub || r.Chance(1, 4) {
		add("proxy.header.sts.subdomains", boolv(c.Sub))
	}
	if c.Pre || r.Chance(1, 4) {
		add("proxy.header.sts.preload", boolv(c.Pre))
	}
	if r.Chance(1, 5) && len(opts) > 0 { // the same option in a second source: precedence arg > FABIO_ env > bare env > file
		o := opts[r.Intn(len(opts))]
		o2 := optIn{Src: r.Pick(optSources), K: o.K, V: o.V}
		if o2.Src != o.Src {
			switch o.K {
			case "proxy.header.clientip", "proxy.header.tls", "proxy.header.requestid":
				o2.V = r.Pick([]string{"X-Other-Source", ""})
			case "proxy.header.tls.value":
				o2.V = "other"
			case "proxy.header.sts.maxage":
				o2.V = "77"
			}
			opts = append(opts, o2)
		}
	}
	if r.Chance(1, 6) { // an unrelated option
		opts = append(opts, optIn{Src: r.Pick(optSources), K: "proxy.noroutestatus", V: "404"})
	}
	return opts
}

const mainUniverse = 10 // configurations (= fabio processes) per run and 4000 cases

// runSeed is the -seed argument of this harness process (the universe of configurations is drawn from it).
func runSeed() uint64 {
	for i, a := range os.Args {
		if a == "-seed" && i+1 < len(os.Args) {
			var n uint64
			fmt.Sscan(os.Args[i+1], &n)
			return n
		}
		if strings.HasPrefix(a, "-seed=") {
			var n uint64
			fmt.Sscan(a[len("-seed="):], &n)
			return n
		}
	}
	return 1
}

func genMain(r *hx.Rand, i int) interface{} {
	// the configuration is one of a small universe drawn from the run's seed, so that a process serves many cases
	cr := hx.NewRand(runSeed()*1000003+r.U64()%mainUniverse+uint64(i/4000)*mainUniverse, "c08.main.cfg")
	in := mainIn{Opts: genMainOpts(cr)}
	c := cfgIn{}
	for _, o := range in.Opts { // names the client forges: whatever any source configures
		switch o.K {
		case "proxy.header.clientip":
			if o.V != "" {
				c.CIP = o.V
			}
		case "proxy.header.tls":
			if o.V != "" {
				c.TLSH = o.V
			}
		case "proxy.header.requestid":
			if o.V != "" {
				c.ReqID = o.V
			}
		}
	}
	if !validName(c.CIP) {
		c.CIP = ""
	}
	if !validName(c.TLSH) {
		c.TLSH = ""
	}
	in.Wire = genWire(r, c, forgedValues, nil)
	if r.Chance(1, 4) {
		in.Wire = append(in.Wire, genUpgrade(r)...)
	}
	if r.Chance(1, 20) {
		in.Wire = append(in.Wire, genBlankLines(r, r.Pick(managedNames[:7]), true)...)
	}
	if r.Chance(1, 6) {
		in.Wire = append(in.Wire, genConnection(r, c))
	}
	if r.Chance(1, 14) {
		in.Host = r.Pick(pHostV6)
	} else {
		in.Host = r.Pick(pHostChoices)
	}
	in.Listener = r.Pick([]string{"http", "http", "http", "https", "https", "https+tcp+sni"})
	in.V6 = r.Chance(1, 4)
	in.Interim = r.Chance(1, 8)
	if r.Chance(1, 5) { // behind a load balancer that speaks the PROXY protocol (or a client talking to that listener directly)
		if in.Listener == "http" {
			in.Listener = "http+pxy"
		} else {
			in.Listener = "https+pxy"
		}
		if r.Chance(3, 4) {
			in.Pxy = r.Pick([]string{"9.8.7.6:5555", "9.8.7.6:5555", "[2001:db8::9]:4711", "10.0.0.7:80", "[::1]:1"})
		}
	}
	if strings.HasPrefix(in.Listener, "https") && r.Chance(1, 3) { // an HTTP/2 client
		in.H2 = true
		var w []wireHdr
		for _, h := range in.Wire {
			switch strings.ToLower(h.K) {
			case "connection", "upgrade":
			default:
				w = append(w, h)
			}
		}
		in.Wire = w
		if in.Host == "" {
			in.Host = "foo.com"
		}
	}
	rt := mainRoutes[r.Intn(len(mainRoutes))]
	if r.Chance(1, 2) {
		rt = mainRoutes[0]
	}
	in.HostOpt, in.Strip = rt.HostOpt, rt.Strip
	return in
}

func init() {
	full := []optIn{{"arg", "proxy.header.clientip", "X-Client-Ip"}, {"file", "proxy.header.tls", "X-Tls"}, {"env", "proxy.header.tls.value", "on"},
		{"envbare", "proxy.header.sts.maxage", "31536000"}, {"arg", "proxy.header.sts.subdomains", "true"}, {"file", "proxy.header.requestid", "X-Request-Id"},
		{"arg", "proxy.localip", "5.6.7.8"}}
	hx.Register(&hx.Stream{
		Name: "c08.main",
		Corpus: []interface{}{
			mainIn{Listener: "http", Host: "foo.com"},
			mainIn{Listener: "https", Host: "foo.com"},
			mainIn{Listener: "http", V6: true, Host: "[::1]:9999", Opts: full, Wire: []wireHdr{{"x-client-ip", sp("::2")}, {"X-Forwarded-For", sp("2001:db8::1")}}},
			mainIn{Listener: "http+pxy", Pxy: "9.8.7.6:5555", Host: "foo.com", Opts: full, Wire: []wireHdr{{"x-client-ip", sp("6.6.6.6")}, {"X-Forwarded-For", sp("6.6.6.6")}}},
			mainIn{Listener: "https+pxy", Pxy: "[2001:db8::9]:4711", Host: "foo.com", Opts: full, Wire: []wireHdr{{"x-real-ip", sp("")}, {"Upgrade", sp("websocket")}}},
			mainIn{Listener: "https+pxy", Host: "foo.com", Opts: full},
			mainIn{Listener: "https+tcp+sni", Host: "foo.com", Opts: full, Wire: []wireHdr{{"x-tls", sp("off")}, {"x-client-ip", sp("6.6.6.6")}}},
			// a plain listener runs with the TLS header configured: that is what removes a forged copy
			mainIn{Listener: "http", Host: "foo.com", Opts: full,
				Wire: []wireHdr{{"x-tls", sp("on")}, {"X-TLS", sp("on")}, {"x-client-ip", sp("6.6.6.6")}, {"X-Forwarded-For", sp("6.6.6.6")}}},
			mainIn{Listener: "https", Host: "client.example:8080", HostOpt: "up.example", Opts: full,
				Wire: []wireHdr{{"x-tls", sp("off")}, {"x-client-ip", sp("6.6.6.6")}, {"Connection", sp("X-Tls, X-Client-Ip")}}},
			mainIn{Listener: "https", Host: "foo.com", Opts: full, Wire: []wireHdr{{"Upgrade", sp("websocket")}, {"X-Forwarded-For", sp("9.9.9.9")}}},
			mainIn{Listener: "https", H2: true, Host: "client.example:8443", HostOpt: "dst", Opts: full,
				Wire: []wireHdr{{"x-tls", sp("off")}, {"x-client-ip", sp("6.6.6.6")}, {"x-forwarded-for", sp("6.6.6.6")}, {"x-forwarded-for", sp("7.7.7.7")}}},
			// precedence: command line over environment over file
			mainIn{Listener: "https", Host: "foo.com", Opts: []optIn{{"file", "proxy.header.tls", "X-File"}, {"env", "proxy.header.tls", "X-Env"},
				{"arg", "proxy.header.tls", "X-Arg"}, {"arg", "proxy.header.tls.value", "1"}}, Wire: []wireHdr{{"X-File", sp("1")}, {"X-Env", sp("1")}}},
			// a value that does not parse: refused on the command line, dropped (zero value) from environment / file
			mainIn{Listener: "https", Host: "foo.com", Opts: []optIn{{"arg", "proxy.header.sts.maxage", "abc"}}},
			mainIn{Listener: "https", Host: "foo.com", Opts: []optIn{{"env", "proxy.header.sts.maxage", "abc"}}},
			mainIn{Listener: "https", Host: "foo.com", Opts: []optIn{{"file", "proxy.header.sts.maxage", "99999999999999999999"}}},
		},
		Gen:         genMain,
		Run:         runMain,
		CaseTimeout: 180 * time.Second,
	})
}
