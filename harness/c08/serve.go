package main

import (
	"compress/gzip"
	"crypto/tls"
	"encoding/json"
	"io"
	"log"
	"net/http"
	"net/http/httptest"
	"net/textproto"
	"net/url"
	"regexp"
	"strings"

	"github.com/fabiolb/fabio/proxy"
	"github.com/fabiolb/fabio/route"
	"verif/harness/hx"
)

// c08.serve: the real HTTPProxy.ServeHTTP called in-process on a synthetic *http.Request (any RemoteAddr incl.
// IPv6 and malformed ones, any TLS state, any r.Proto, header map built like the HTTP server builds it) with a
// recording http.RoundTripper as Transport: no sockets, so the volume of c08.unit, but through the whole of
// ServeHTTP - the exits before addHeaders (no route, redirect route), the error exit of addHeaders, the Host
// override, the response headers, the choice of the forwarding handler, and the real httputil.ReverseProxy
// (hop-by-hop removal, X-Forwarded-For) in front of the recorder. The raw websocket tunnel cannot dial from
// here: that it was chosen shows as its "hijack" error; what it would have written is the request's header map.

type routeIn struct {
	HostOpt      string `json:"hostopt"`
	Strip        string `json:"strip"`
	RedirectCode int    `json:"rcode"`
	RedirectURL  string `json:"rurl"` // "" = nil
}

type serveIn struct {
	Wire   []wireHdr `json:"wire"`
	Host   string    `json:"host"`
	Remote string    `json:"remote"`
	TLS    *tlsIn    `json:"tls"`
	Proto  string    `json:"proto"`
	Route  *routeIn  `json:"route"` // nil: Lookup finds nothing
	Gzip   bool      `json:"gzip"`  // proxy.gzip.contenttype configured
	Cfg    cfgIn     `json:"cfg"`
}

type serveOut struct {
	Kind    string   `json:"kind"` // noroute | redirect | badpeer | tunnel | forward | other:<status>
	Status  int      `json:"status"`
	Reached bool     `json:"reached"`
	UHost   string   `json:"uhost"`
	Hdr     []hdrOut `json:"hdr"`
	STS     []string `json:"sts"`
	Target  string   `json:"target"`
}

type recordingTransport struct {
	reached bool
	host    string
	hdr     http.Header
}

func (t *recordingTransport) RoundTrip(req *http.Request) (*http.Response, error) {
	t.reached = true
	t.host = req.Host
	if t.host == "" {
		t.host = req.URL.Host
	}
	t.hdr = req.Header.Clone()
	return &http.Response{
		StatusCode: 200, Status: "200 OK", Proto: "HTTP/1.1", ProtoMajor: 1, ProtoMinor: 1,
		Header:  http.Header{"Content-Type": []string{"text/plain"}},
		Body:    io.NopCloser(strings.NewReader("ok ok ok ok ok ok ok ok ok ok ok ok ok ok ok ok ok ok ok ok ok ok ok ok ok ok ok ok ok ok")),
		Request: req,
	}, nil
}

const serveTarget = "10.9.8.7:9000"

var gzipTypes = regexp.MustCompile(`^text/.*`)

func runServe(raw json.RawMessage) (interface{}, error) {
	var in serveIn
	if err := json.Unmarshal(raw, &in); err != nil {
		return nil, err
	}
	r := &http.Request{Method: "GET", URL: &url.URL{Path: "/foo/bar"}, Header: http.Header{}, Host: in.Host,
		RemoteAddr: in.Remote, Proto: in.Proto, ProtoMajor: 1, ProtoMinor: 1, Body: http.NoBody}
	for _, w := range in.Wire {
		if w.V == nil {
			r.Header[textproto.CanonicalMIMEHeaderKey(w.K)] = nil
		} else {
			r.Header.Add(w.K, *w.V)
		}
	}
	if in.TLS != nil {
		r.TLS = &tls.ConnectionState{Version: in.TLS.V, CipherSuite: in.TLS.C}
	}
	tr := &recordingTransport{}
	cfg := in.Cfg.proxy()
	if in.Gzip {
		cfg.GZIPContentTypes = gzipTypes
	}
	upURL := &url.URL{Scheme: "http", Host: serveTarget}
	p := &proxy.HTTPProxy{
		Config:    cfg,
		Transport: tr,
		UUID:      func() string { return fixedUUID },
		Lookup: func(*http.Request) *route.Target {
			if in.Route == nil {
				return nil
			}
			t := &route.Target{URL: upURL, Host: in.Route.HostOpt, StripPath: in.Route.Strip, RedirectCode: in.Route.RedirectCode}
			if in.Route.RedirectURL != "" {
				if u, err := url.Parse(in.Route.RedirectURL); err == nil {
					t.RedirectURL = u
				}
			}
			return t
		},
	}
	rec := httptest.NewRecorder()
	p.ServeHTTP(rec, r)
	body := rec.Body.String()
	if rec.Header().Get("Content-Encoding") == "gzip" { // proxy.gzip.contenttype also compresses fabio's own error pages
		if zr, err := gzip.NewReader(strings.NewReader(body)); err == nil {
			if b, err := io.ReadAll(zr); err == nil {
				body = string(b)
			}
		}
	}
	out := serveOut{Status: rec.Code, Reached: tr.reached, Target: serveTarget, Hdr: []hdrOut{},
		STS: append([]string{}, rec.Header().Values("Strict-Transport-Security")...)}
	switch {
	case tr.reached:
		out.Kind = "forward"
		out.UHost = tr.host
		out.Hdr = canonHeader(tr.hdr)
	case rec.Code == 500 && (strings.HasPrefix(body, "hijack error") || strings.HasPrefix(body, "not a hijacker")):
		// newWSHandler was chosen; it would now dial the target and r.Write the request as it stands
		out.Kind = "tunnel"
		out.UHost = r.Host
		if out.UHost == "" {
			out.UHost = r.URL.Host
		}
		out.Hdr = canonHeader(r.Header)
	case rec.Code == 500 && strings.HasPrefix(body, "cannot parse"):
		out.Kind = "badpeer"
	case in.Route == nil:
		out.Kind = "noroute"
	case rec.Code >= 300 && rec.Code < 400 && rec.Header().Get("Location") != "":
		out.Kind = "redirect"
	default:
		out.Kind = "other"
	}
	return out, nil
}

var sHostChoices = []string{"foo.com", "foo.com", "foo.com:8080", "client.example:8080", "client.example", "1.2.3.4:443", "foo.com:", "FOO.com:80", "", ":8080", "a:b:c"}

func genServe(r *hx.Rand, i int) interface{} {
	in := serveIn{Cfg: genCfg(r)}
	if r.Chance(1, 3) {
		in.Cfg.ReqID = r.Pick([]string{"X-Request-Id", "x-request-id", "X-Client-Ip", "Upgrade"})
	}
	vals := forgedValues
	in.Wire = genWire(r, in.Cfg, vals, nil)
	if r.Chance(2, 5) {
		for _, u := range genUpgrade(r) {
			in.Wire = append(in.Wire, u)
			if r.Chance(1, 3) {
				j := r.Intn(len(in.Wire))
				in.Wire[j], in.Wire[len(in.Wire)-1] = in.Wire[len(in.Wire)-1], in.Wire[j]
			}
		}
	}
	if r.Chance(1, 20) {
		in.Wire = append(in.Wire, genBlankLines(r, r.Pick(managedNames[:7]), false)...)
	}
	if r.Chance(1, 30) {
		in.Wire = append(in.Wire, wireHdr{"X-Forwarded-For", nil})
	}
	for n := r.Intn(8); n >= 6; n-- { // 1/8 one Connection header, 1/8 two
		in.Wire = append(in.Wire, genConnection(r, in.Cfg))
	}
	if r.Chance(1, 8) {
		in.Wire = append(in.Wire, wireHdr{caseVariant(r, "Accept"), sp(r.Pick([]string{"text/event-stream", "text/event-stream", "Text/Event-Stream", "text/html"}))})
	}
	in.Gzip = r.Chance(1, 4)
	if in.Gzip && r.Chance(1, 2) {
		in.Wire = append(in.Wire, wireHdr{"Accept-Encoding", sp("gzip")})
	}
	if r.Chance(1, 14) {
		in.Host = r.Pick(hostV6)
	} else {
		in.Host = r.Pick(sHostChoices)
	}
	if r.Chance(1, 10) {
		in.Remote = r.Pick(remoteBad)
	} else {
		in.Remote = r.Pick(remoteChoices)
	}
	if r.Chance(1, 2) {
		t := tlsChoices[r.Intn(len(tlsChoices))]
		in.TLS = &t
	}
	in.Proto = r.Pick(protoChoices)
	switch r.Intn(14) {
	case 0:
		in.Route = nil
	case 1:
		in.Route = &routeIn{RedirectCode: 301 + r.Intn(2), RedirectURL: "http://moved.example/x"}
	case 2: // half a redirect: the code without a URL, or the URL without a code - forwarded normally
		if r.Chance(1, 2) {
			in.Route = &routeIn{RedirectCode: 301}
		} else {
			in.Route = &routeIn{RedirectURL: "http://moved.example/x"}
		}
	default:
		in.Route = &routeIn{}
		switch r.Intn(5) {
		case 2:
			in.Route.HostOpt = "dst"
		case 3:
			in.Route.HostOpt = "up.example"
		case 4:
			in.Route.HostOpt = r.Pick([]string{"up.example:9000", "foo.com"})
		}
		if r.Chance(1, 4) {
			in.Route.Strip = r.Pick([]string{"/foo", "/", "/a/b"})
		}
	}
	return in
}

func init() {
	log.SetOutput(io.Discard) // the proxy logs every refused hijack / unparsable peer
	hx.Register(&hx.Stream{
		Name: "c08.serve",
		Corpus: []interface{}{
			serveIn{Remote: "1.2.3.4:5555", Host: "foo.com", Proto: "HTTP/1.1", Route: &routeIn{}},
			serveIn{Remote: "1.2.3.4", Host: "foo.com", Proto: "HTTP/1.1", Route: &routeIn{}},
			serveIn{Remote: "1.2.3.4:5555", Host: "foo.com", Proto: "HTTP/1.1"},
			serveIn{Remote: "[2001:db8::1]:4711", Host: "client.example:8080", Proto: "HTTP/1.1", TLS: &tlsIn{0x0304, 0x1301},
				Route: &routeIn{HostOpt: "up.example"}, Cfg: cfgIn{CIP: "X-Client-Ip", TLSH: "X-Tls", TLSV: "on", Age: 31536000, ReqID: "X-Request-Id"},
				Wire: []wireHdr{{"x-client-ip", sp("6.6.6.6")}, {"X-TLS", sp("off")}, {"x-forwarded-for", sp("6.6.6.6")},
					{"connection", sp("X-Tls, x-client-ip, X-Forwarded-For")}}},
			// Upgrade as a list / on a second line: reverse proxy, never the tunnel; the peer still ends X-Forwarded-For
			serveIn{Remote: "1.2.3.4:5555", Host: "foo.com", Proto: "HTTP/1.1", Route: &routeIn{},
				Wire: []wireHdr{{"Upgrade", sp("h2c, websocket")}, {"X-Forwarded-For", sp("6.6.6.6")}, {"Connection", sp("Upgrade")}}},
			serveIn{Remote: "1.2.3.4:5555", Host: "foo.com", Proto: "HTTP/1.1", Route: &routeIn{},
				Wire: []wireHdr{{"Upgrade", sp("h2c")}, {"Upgrade", sp("websocket")}, {"X-Forwarded-For", sp("6.6.6.6")}}},
			serveIn{Remote: "1.2.3.4:5555", Host: "foo.com", Proto: "HTTP/1.1", Route: &routeIn{},
				Wire: []wireHdr{{"Upgrade", sp("WebSocket")}, {"X-Forwarded-For", sp("6.6.6.6")}}},
			// forced hypothesis of upstream_xff_last_is_peer: a TLS header called Upgrade (config-collision)
			serveIn{Remote: "1.2.3.4:5", Host: "foo.com", Proto: "HTTP/1.1", TLS: &tlsIn{0x0303, 0xc02f}, Route: &routeIn{},
				Cfg: cfgIn{TLSH: "Upgrade", TLSV: "websocket"}},
			serveIn{Remote: "1.2.3.4:5555", Host: "foo.com", Proto: "HTTP/1.1", TLS: &tlsIn{0x0303, 0xc02f},
				Route: &routeIn{RedirectCode: 301, RedirectURL: "http://moved.example/"}, Cfg: cfgIn{Age: 100}},
		},
		Gen: genServe,
		Run: runServe,
	})
}
