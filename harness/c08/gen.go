package main

import (
	"net/http"
	"sort"
	"strings"

	"github.com/fabiolb/fabio/config"
	"verif/harness/hx"
)

// wireHdr is one header line as the client sent it (any casing, may repeat). V == nil stands for a direct
// assignment of a nil value slice (unit stream only: reaches the "omit X-Forwarded-For" branch).
type wireHdr struct {
	K string  `json:"k"`
	V *string `json:"v"`
}

type tlsIn struct {
	V uint16 `json:"v"`
	C uint16 `json:"c"`
}

type cfgIn struct {
	CIP   string `json:"cip"`
	TLSH  string `json:"tlsh"`
	TLSV  string `json:"tlsv"`
	LIP   string `json:"lip"`
	Age   int    `json:"age"`
	Sub   bool   `json:"sub"`
	Pre   bool   `json:"pre"`
	ReqID string `json:"reqid"`
}

func (c cfgIn) proxy() config.Proxy {
	return config.Proxy{
		ClientIPHeader: c.CIP, TLSHeader: c.TLSH, TLSHeaderValue: c.TLSV, LocalIP: c.LIP, RequestID: c.ReqID,
		STSHeader: config.STSHeader{MaxAge: c.Age, Subdomains: c.Sub, Preload: c.Pre},
	}
}

// hdrOut is one entry of a canonicalised header map (sorted by key; nil and empty value slices coincide).
type hdrOut struct {
	K string   `json:"k"`
	V []string `json:"v"`
}

func canonHeader(h http.Header) []hdrOut {
	out := make([]hdrOut, 0, len(h))
	for k, vs := range h {
		v := append([]string{}, vs...)
		out = append(out, hdrOut{k, v})
	}
	sort.Slice(out, func(i, j int) bool { return out[i].K < out[j].K })
	return out
}

func sp(s string) *string { return &s }

// ---- generator vocabulary (small universes so that collisions are frequent) ----

var managedNames = []string{
	"X-Forwarded-For", "X-Real-Ip", "X-Forwarded-Proto", "X-Forwarded-Port", "X-Forwarded-Host",
	"X-Forwarded-Prefix", "Forwarded", "Upgrade",
}

var cipChoices = []string{"", "", "X-Real-Ip", "X-Forwarded-For", "X-Client-Ip", "X-Client-Ip", "x-client-ip", "X-CLIENT-IP", "Cf-Connecting-Ip"}
var cipRare = []string{"x-real-ip", "x-forwarded-for", "Forwarded", "X-Forwarded-Host", "X-Forwarded-Proto", "Upgrade", "X-Tls", "bad name", "Keep-Alive"}
var tlshChoices = []string{"", "", "X-Tls", "Secure", "x-forwarded-ssl", "X-Tls"}
var tlshRare = []string{"X-Client-Ip", "Forwarded", "X-Forwarded-For", "X-Real-Ip", "Strict-Transport-Security", "Te"}
var tlsvChoices = []string{"on", "true", "", "1"}
var lipChoices = []string{"", "5.6.7.8", "fe80::1"}
var otherNames = []string{"Accept", "User-Agent", "X-Other", "Cookie"}

var forgedValues = []string{
	"6.6.6.6", "", "10.0.0.1, 10.0.0.2", "10.0.0.1,10.0.0.2", "https", "http", "ws", "wss", "on", "true", "off",
	"for=6.6.6.6; proto=https", "for=1.1.1.1;proto=ws;by=2.2.2.2", "for=9.9.9.9", "proto=", "proto=;x", "PROTO=https",
	"8443", "0", "evil.example", "evil.example:81", "websocket", "Websocket", "WebSocket", "WEBSOCKET", "h2c", "/forged",
	"a proto=b proto=c;d",
	// addresses that textually end in / contain a peer address of the universe (1.2.3.4, 10.0.0.7, ::1, 2001:db8::1)
	"11.2.3.4", "9.9.9.9, 210.0.0.7", "2001:db8::1", "1.2.3.4", "7.7.7.7, ::1",
	// a long chain of earlier hops
	"10.1.0.1, 10.1.0.2, 10.1.0.3, 10.1.0.4, 10.1.0.5, 10.1.0.6, 10.1.0.7, 10.1.0.8, 10.1.0.9, 10.1.0.10, 10.1.0.11, 10.1.0.12, 10.1.0.13, 10.1.0.14, 10.1.0.15, 10.1.0.16, 10.1.0.17, 10.1.0.18, 10.1.0.19, 10.1.0.20, 10.1.0.21, 10.1.0.22, 10.1.0.23, 10.1.0.24, 2001:db8:0:0:0:0:0:1",
}

// caseVariant renders a header name in one of several casings.
func caseVariant(r *hx.Rand, name string) string {
	switch r.Intn(5) {
	case 0:
		return name
	case 1:
		return strings.ToLower(name)
	case 2:
		return strings.ToUpper(name)
	default:
		b := []byte(name)
		for i := range b {
			if r.Chance(1, 2) {
				if 'a' <= b[i] && b[i] <= 'z' {
					b[i] -= 32
				} else if 'A' <= b[i] && b[i] <= 'Z' {
					b[i] += 32
				}
			}
		}
		return string(b)
	}
}

func genCfg(r *hx.Rand) cfgIn {
	c := cfgIn{}
	if r.Chance(1, 12) {
		c.CIP = r.Pick(cipRare)
	} else {
		c.CIP = r.Pick(cipChoices)
	}
	if r.Chance(1, 15) {
		c.TLSH = r.Pick(tlshRare)
	} else {
		c.TLSH = r.Pick(tlshChoices)
	}
	c.TLSV = r.Pick(tlsvChoices)
	c.LIP = r.Pick(lipChoices)
	switch r.Intn(6) {
	case 0, 1:
		c.Age = 0
	case 2:
		c.Age = 31536000
	case 3:
		c.Age = 1 + r.Intn(100000)
	case 4:
		c.Age = -r.Intn(3)
	default:
		c.Age = []int{1 << 31, 1<<31 - 1, 1 << 32, 1<<32 + 5, 1 << 40}[r.Intn(5)]
	}
	c.Sub = r.Chance(1, 2)
	c.Pre = r.Chance(1, 2)
	return c
}

// genWire builds the client's header lines: forged copies of the names fabio manages (and of the configured
// names) in several casings, repeated, empty, plus unrelated headers.
func genWire(r *hx.Rand, c cfgIn, values []string, extraNames []string) []wireHdr {
	names := append([]string{}, managedNames[:7]...) // Upgrade is decided by the caller
	if c.CIP != "" {
		names = append(names, c.CIP, c.CIP)
	}
	if c.TLSH != "" {
		names = append(names, c.TLSH, c.TLSH)
	}
	if c.ReqID != "" {
		names = append(names, c.ReqID)
	}
	names = append(names, extraNames...)
	var w []wireHdr
	n := r.Intn(7)
	if r.Chance(1, 10) {
		n = 0
	}
	for i := 0; i < n; i++ {
		var k string
		if r.Chance(1, 8) {
			k = r.Pick(otherNames)
		} else {
			k = caseVariant(r, r.Pick(names))
		}
		w = append(w, wireHdr{k, sp(r.Pick(values))})
		if r.Chance(1, 5) { // repeat the same name in another casing
			w = append(w, wireHdr{caseVariant(r, k), sp(r.Pick(values))})
		}
	}
	if r.Chance(1, 25) { // many lines of one name (5-12), every casing: order and count must survive
		k := r.Pick(names)
		for m := 5 + r.Intn(8); m > 0; m-- {
			w = append(w, wireHdr{caseVariant(r, k), sp(r.Pick(values))})
		}
	}
	return w
}

var upgradeValues = []string{"websocket", "websocket", "Websocket", "WebSocket", "WEBSOCKET"}

// Upgrade is a list header (RFC 7230 section 6.7): the token may be one element of a comma separated list,
// come with blanks, or sit on a second Upgrade line. Every site of the code that asks "is this a websocket
// upgrade" (handler choice in ServeHTTP, X-Forwarded-For in addHeaders, ws/wss in scheme) has to give the same
// answer on all of these.
var upgradeListValues = []string{"websocket, h2c", "h2c, websocket", "h2c,websocket", "WebSocket,foo", "h2c", "websockets",
	"websocket;v=13", "foo, WEBSOCKET , bar", "websocket,", ",websocket"}

// genUpgrade returns the client's Upgrade line(s): mostly one exact token, a share of lists and repeated lines.
func genUpgrade(r *hx.Rand) []wireHdr {
	one := func() wireHdr {
		v := r.Pick(upgradeValues)
		if r.Chance(1, 4) {
			v = r.Pick(upgradeListValues)
		}
		return wireHdr{caseVariant(r, "Upgrade"), sp(v)}
	}
	out := []wireHdr{one()}
	if r.Chance(1, 6) { // a second line: websocket first / second / twice
		out = append(out, one())
	}
	return out
}

// genConnection builds a client Connection header that names headers fabio maintains (any casing) mixed with
// harmless tokens.
func genConnection(r *hx.Rand, c cfgIn) wireHdr {
	names := append([]string{}, managedNames[:7]...)
	if c.CIP != "" {
		names = append(names, c.CIP, c.CIP)
	}
	if c.TLSH != "" {
		names = append(names, c.TLSH, c.TLSH)
	}
	if c.ReqID != "" {
		names = append(names, c.ReqID)
	}
	var toks []string
	for n := 1 + r.Intn(3); n > 0; n-- {
		if r.Chance(1, 4) {
			toks = append(toks, r.Pick([]string{"X-Other", "keep-alive", "", "Cookie", "close", "X-Tlsx", "Upgrade", "upgrade"}))
		} else {
			toks = append(toks, caseVariant(r, r.Pick(names)))
		}
	}
	sep := r.Pick([]string{", ", ",", " , ", ",\t"})
	return wireHdr{caseVariant(r, "Connection"), sp(strings.TrimSpace(strings.Join(toks, sep)))}
}

// genBlankLines: a managed header sent with nothing in it - one or several lines that are empty (or, where the
// request does not travel over a socket, blank). "Present but empty" is a class of its own: Get() returns "",
// the value slice is non-nil, a filter that drops empty values ends with an empty or nil slice.
func genBlankLines(r *hx.Rand, name string, onWire bool) []wireHdr {
	vals := []string{"", "", " ", "\t", "  "}
	if onWire {
		vals = []string{""}
	}
	var out []wireHdr
	for n := 1 + r.Intn(3); n > 0; n-- {
		out = append(out, wireHdr{caseVariant(r, name), sp(r.Pick(vals))})
	}
	return out
}
