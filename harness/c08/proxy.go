package main

import (
	"bufio"
	"crypto/tls"
	"encoding/json"
	"errors"
	"net"
	"net/http"
	"net/http/httptest"
	"net/url"
	"strings"
	"sync"
	"time"

	"github.com/fabiolb/fabio/proxy"
	"github.com/fabiolb/fabio/route"
	"verif/harness/hx"
)

// c08.proxy: a real proxy.HTTPProxy behind a real listener (plain and TLS-terminating) in front of a
// recording upstream. The client is a raw socket so that header names go out exactly as generated
// (any casing, repeated). Observed: the header map and Host the upstream received, the
// Strict-Transport-Security values of the response, and what the proxy saw of the connection.

type proxyIn struct {
	Wire    []wireHdr `json:"wire"`
	Host    string    `json:"host"`    // Host header the client sends
	TLS     bool      `json:"tls"`     // connect to the TLS-terminating front
	Interim bool      `json:"interim"` // the upstream sends an informational response (103 Early Hints) before the final one
	V6      bool      `json:"v6"`      // connect over IPv6 loopback (the peer address is then [::1]:port) when the machine has it
	HostOpt string    `json:"hostopt"` // route option host= ("" | "dst" | literal)
	Strip   string    `json:"strip"`   // route option strip=
	Cfg     cfgIn     `json:"cfg"`
}

type connOut struct {
	Remote string `json:"remote"`
	Proto  string `json:"proto"`
	TLS    bool   `json:"tls"`
	TLSV   uint16 `json:"tlsv"`
	TLSC   uint16 `json:"tlsc"`
}

type proxyOut struct {
	Status  int      `json:"status"`
	Reached bool     `json:"reached"` // the upstream saw a request
	UHost   string   `json:"uhost"`
	Hdr     []hdrOut `json:"hdr"`
	STS     []string `json:"sts"`
	Conn    connOut  `json:"conn"`
	Target  string   `json:"target"` // host:port of the upstream (what host=dst resolves to)
}

const fixedUUID = "f47ac10b-58cc-0372-8567-0e02b2c3d479"

type c08env struct {
	up       *httptest.Server
	front    *httptest.Server
	frontTLS *httptest.Server
	front6, frontTLS6 *httptest.Server // the same handler behind [::1] listeners (nil without IPv6 loopback)
	upURL    *url.URL
	tr       *http.Transport

	mu      sync.Mutex
	cur     *proxy.HTTPProxy
	interim bool
	conn    connOut
	reached bool
	uhost   string
	uhdr    http.Header
}

var (
	envOnce sync.Once
	theEnv  *c08env
)

func isWSUpgrade(h http.Header) bool { return strings.EqualFold(h.Get("Upgrade"), "websocket") }

func getEnv() *c08env {
	envOnce.Do(func() {
		e := &c08env{tr: &http.Transport{}}
		e.up = httptest.NewServer(http.HandlerFunc(func(w http.ResponseWriter, r *http.Request) {
			e.mu.Lock()
			e.reached = true
			e.uhost = r.Host
			e.uhdr = r.Header.Clone()
			interim := e.interim
			e.mu.Unlock()
			if isWSUpgrade(r.Header) {
				if hj, ok := w.(http.Hijacker); ok {
					c, _, err := hj.Hijack()
					if err == nil {
						c.Write([]byte("HTTP/1.1 101 Switching Protocols\r\nUpgrade: websocket\r\nConnection: Upgrade\r\n\r\n"))
						c.Close()
					}
					return
				}
			}
			if interim {
				w.Header().Set("Link", "</style.css>; rel=preload; as=style")
				w.WriteHeader(http.StatusEarlyHints)
			}
			w.Write([]byte("ok"))
		}))
		e.upURL, _ = url.Parse(e.up.URL)
		front := http.HandlerFunc(func(w http.ResponseWriter, r *http.Request) {
			e.mu.Lock()
			p := e.cur
			e.conn = connOut{Remote: r.RemoteAddr, Proto: r.Proto}
			if r.TLS != nil {
				e.conn.TLS, e.conn.TLSV, e.conn.TLSC = true, r.TLS.Version, r.TLS.CipherSuite
			}
			e.mu.Unlock()
			p.ServeHTTP(w, r)
		})
		e.front = httptest.NewServer(front)
		e.frontTLS = httptest.NewTLSServer(front)
		if l6, err := net.Listen("tcp6", "[::1]:0"); err == nil {
			e.front6 = &httptest.Server{Listener: l6, Config: &http.Server{Handler: front}}
			e.front6.Start()
			if l6t, err := net.Listen("tcp6", "[::1]:0"); err == nil {
				e.frontTLS6 = &httptest.Server{Listener: l6t, Config: &http.Server{Handler: front}}
				e.frontTLS6.StartTLS()
			}
		}
		theEnv = e
	})
	return theEnv
}

func runProxy(raw json.RawMessage) (interface{}, error) {
	var in proxyIn
	if err := json.Unmarshal(raw, &in); err != nil {
		return nil, err
	}
	for _, w := range in.Wire {
		if w.V == nil || !validName(w.K) || !validValue(*w.V) {
			return nil, errors.New("header line cannot be sent over HTTP")
		}
	}
	if !validValue(in.Host) || strings.ContainsAny(in.Host, " ") {
		return nil, errors.New("host cannot be sent over HTTP")
	}
	e := getEnv()
	e.mu.Lock()
	e.cur = &proxy.HTTPProxy{
		Config:    in.Cfg.proxy(),
		Transport: e.tr,
		UUID:      func() string { return fixedUUID },
		Lookup: func(r *http.Request) *route.Target {
			return &route.Target{URL: e.upURL, Host: in.HostOpt, StripPath: in.Strip}
		},
	}
	e.reached, e.uhost, e.uhdr, e.conn, e.interim = false, "", nil, connOut{}, in.Interim
	e.mu.Unlock()

	var c net.Conn
	var err error
	plain, secure := e.front, e.frontTLS
	if in.V6 && e.front6 != nil && e.frontTLS6 != nil {
		plain, secure = e.front6, e.frontTLS6
	}
	if in.TLS {
		c, err = tls.Dial("tcp", secure.Listener.Addr().String(), &tls.Config{InsecureSkipVerify: true})
	} else {
		c, err = net.Dial("tcp", plain.Listener.Addr().String())
	}
	if err != nil {
		return nil, err
	}
	defer c.Close()
	c.SetDeadline(time.Now().Add(10 * time.Second))
	var b strings.Builder
	b.WriteString("GET /foo/bar HTTP/1.1\r\nHost: " + in.Host + "\r\n")
	ws := false
	for _, w := range in.Wire {
		b.WriteString(w.K + ": " + *w.V + "\r\n")
		if strings.EqualFold(w.K, "Upgrade") {
			ws = true
		}
	}
	if ws {
		b.WriteString("Connection: Upgrade\r\n")
	} else {
		b.WriteString("Connection: close\r\n")
	}
	b.WriteString("\r\n")
	if _, err := c.Write([]byte(b.String())); err != nil {
		return nil, err
	}
	resp, err := readFinalResponse(bufio.NewReader(c))
	if err != nil {
		return nil, err
	}
	resp.Body.Close()
	e.mu.Lock()
	defer e.mu.Unlock()
	out := proxyOut{Status: resp.StatusCode, Reached: e.reached, UHost: e.uhost, Hdr: canonHeader(e.uhdr),
		STS: append([]string{}, resp.Header.Values("Strict-Transport-Security")...), Conn: e.conn, Target: e.upURL.Host}
	return out, nil
}

// readFinalResponse reads responses until the final one: informational responses (1xx other than 101) precede it.
func readFinalResponse(br *bufio.Reader) (*http.Response, error) {
	for {
		resp, err := http.ReadResponse(br, nil)
		if err != nil {
			return nil, err
		}
		if resp.StatusCode >= 200 || resp.StatusCode == http.StatusSwitchingProtocols {
			return resp, nil
		}
	}
}

func validName(k string) bool {
	if k == "" {
		return false
	}
	for i := 0; i < len(k); i++ {
		c := k[i]
		if !('a' <= c && c <= 'z' || 'A' <= c && c <= 'Z' || '0' <= c && c <= '9' || strings.IndexByte("!#$%&'*+-.^_`|~", c) >= 0) {
			return false
		}
	}
	return true
}

func validValue(v string) bool {
	for i := 0; i < len(v); i++ {
		if (v[i] < 0x20 && v[i] != '\t') || v[i] >= 0x7f {
			return false
		}
	}
	return v == strings.TrimSpace(v)
}

var pHostChoices = []string{"foo.com", "foo.com", "foo.com:8080", "client.example:8080", "client.example", "1.2.3.4:443", "foo.com:", "FOO.com:80", ""}
var pHostV6 = []string{"[::1]:8080", "[::1]"}
var pCipRare = []string{"x-real-ip", "x-forwarded-for", "Forwarded", "X-Forwarded-Host", "X-Forwarded-Proto", "X-Tls"}

func genProxy(r *hx.Rand, i int) interface{} {
	in := proxyIn{Cfg: genCfg(r)}
	if in.Cfg.CIP != "" && (!validName(in.Cfg.CIP) || strings.EqualFold(in.Cfg.CIP, "Upgrade")) {
		in.Cfg.CIP = r.Pick(pCipRare)
	}
	if r.Chance(1, 3) {
		in.Cfg.ReqID = r.Pick([]string{"X-Request-Id", "x-request-id", "X-Client-Ip"})
	}
	in.Wire = genWire(r, in.Cfg, forgedValues, nil)
	if r.Chance(1, 3) {
		in.Wire = append(in.Wire, genUpgrade(r)...)
	}
	if r.Chance(1, 20) {
		in.Wire = append(in.Wire, genBlankLines(r, r.Pick(managedNames[:7]), true)...)
	}
	if r.Chance(1, 6) {
		in.Wire = append(in.Wire, genConnection(r, in.Cfg))
	}
	if r.Chance(1, 14) {
		in.Host = r.Pick(pHostV6)
	} else {
		in.Host = r.Pick(pHostChoices)
	}
	in.TLS = r.Chance(2, 5)
	in.V6 = r.Chance(1, 4)
	in.Interim = r.Chance(1, 8)
	switch r.Intn(5) {
	case 0, 1:
		in.HostOpt = ""
	case 2:
		in.HostOpt = "dst"
	case 3:
		in.HostOpt = "up.example"
	default:
		in.HostOpt = r.Pick([]string{"up.example:9000", "foo.com"})
	}
	if r.Chance(1, 4) {
		in.Strip = r.Pick([]string{"/foo", "/"})
	}
	return in
}

func init() {
	hx.Register(&hx.Stream{
		Name: "c08.proxy",
		Corpus: []interface{}{
			proxyIn{Host: "foo.com"},
			proxyIn{Host: "foo.com", TLS: true, Cfg: cfgIn{TLSH: "X-Tls", TLSV: "on", Age: 31536000, Sub: true, Pre: true}},
			// the upstream answers 103 Early Hints first: the final response still carries what fabio adds
			proxyIn{Host: "foo.com", TLS: true, Interim: true, Cfg: cfgIn{Age: 31536000, Sub: true}},
			// an IPv6 peer: the address goes into the headers without brackets
			proxyIn{Host: "[::1]:8080", V6: true, Cfg: cfgIn{CIP: "X-Client-Ip"}, Wire: []wireHdr{{"x-forwarded-for", sp("2001:db8::1")}}},
			proxyIn{Host: "foo.com", V6: true, TLS: true, Cfg: cfgIn{CIP: "X-Client-Ip"}, Wire: []wireHdr{{"Upgrade", sp("websocket")}, {"x-real-ip", sp("")}}},
			// D12: route option host=up.example must not change what X-Forwarded-Host/-Port say
			proxyIn{Host: "client.example:8080", HostOpt: "up.example"},
			proxyIn{Host: "client.example:8080", HostOpt: "dst"},
			// D12b: capitalised websocket upgrade
			proxyIn{Host: "foo.com", Wire: []wireHdr{{"Upgrade", sp("Websocket")}}},
			proxyIn{Host: "foo.com", Wire: []wireHdr{{"Upgrade", sp("websocket")}, {"x-forwarded-for", sp("9.9.9.9")}}},
			proxyIn{Host: "foo.com", Cfg: cfgIn{CIP: "X-Client-Ip", TLSH: "X-Tls", TLSV: "on"},
				Wire: []wireHdr{{"x-client-ip", sp("6.6.6.6")}, {"X-CLIENT-IP", sp("7.7.7.7")}, {"x-tls", sp("on")}}},
		},
		Gen: genProxy,
		Run: runProxy,
	})
}

// c08.hopbyhop: the same set-up, every case with a Connection header that declares headers of this property
// hop-by-hop (D12d, repaired: httputil.ReverseProxy used to drop what addHeaders had just set).
func genHopByHop(r *hx.Rand, i int) interface{} {
	in := genProxy(r, i).(proxyIn)
	if !hasConnection(in.Wire) {
		in.Wire = append(in.Wire, genConnection(r, in.Cfg))
	}
	return in
}

func hasConnection(w []wireHdr) bool {
	for _, h := range w {
		if strings.EqualFold(h.K, "Connection") {
			return true
		}
	}
	return false
}

func init() {
	hx.Register(&hx.Stream{
		Name: "c08.hopbyhop",
		Corpus: []interface{}{
			proxyIn{Host: "foo.com", TLS: true, Cfg: cfgIn{CIP: "X-Client-Ip", TLSH: "X-Tls", TLSV: "on"},
				Wire: []wireHdr{{"Connection", sp("X-Tls, X-Client-Ip, X-Real-Ip, Forwarded, X-Forwarded-Host")}}},
			proxyIn{Host: "foo.com", Wire: []wireHdr{{"Connection", sp("X-Other")}}},
		},
		Gen: genHopByHop,
		Run: runProxy,
	})
}
