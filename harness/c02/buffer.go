package main

import (
	"bytes"
	"encoding/json"
	"fmt"
	"strings"
	"unicode/utf8"

	"github.com/fabiolb/fabio/route"
	"verif/harness/hx"
)

// c02.buffer — what route.NewTable leaves in the *bytes.Buffer it is handed (round 4).
//
// watchBackend hands NewTable a buffer that lives as long as the process. Parse returns at the first syntax error and
// its bufio.Scanner has then taken out of the buffer only the chunks read so far: the tail of a rejected text stays
// in the buffer (two seeded changes, m4 and m10, broke the loop exactly there). The Lean model (Model/C02Buf.lean)
// has the buffer in the loop's state and a statement-by-statement model of Scanner.Scan on a bytes.Buffer; this
// stream compares `buf.Len()` after the real NewTable with the model's `leftAfterParse` and evaluates on the
// implementation's own output: a text that was ACCEPTED was read to its end (nothing left), never more is left than
// was there, no panic.

type bufferIn struct {
	payload
	Amp *amp `json:"amp,omitempty"`
}

func (in *bufferIn) full() string {
	s := in.String()
	if in.Amp != nil {
		s = in.Amp.expandLines(s)
	}
	return s
}

func runBuffer(raw json.RawMessage) (interface{}, error) {
	var in bufferIn
	if err := json.Unmarshal(raw, &in); err != nil {
		return nil, err
	}
	text := in.full()
	out := map[string]interface{}{"len": len(text)}
	buf := bytes.NewBufferString(text)
	func() {
		defer func() {
			if p := recover(); p != nil {
				out["outcome"] = "panic"
				out["panicText"] = fmt.Sprint(p)
			}
		}()
		t, err := route.NewTable(buf)
		switch {
		case err != nil:
			out["outcome"] = "error"
			out["what"] = loadErr(err)
		case t == nil:
			out["outcome"] = "nil"
		default:
			out["outcome"] = "table"
		}
	}()
	out["left"] = buf.Len()
	// the loop's protocol on the SAME buffer: Reset, write the next text, build — the table must be that of the
	// next text alone, whatever the rejected text left behind
	func() {
		defer func() {
			if p := recover(); p != nil {
				out["reuse"] = "panic: " + fmt.Sprint(p)
			}
		}()
		const next = "route add svc-z z.example/z http://z:1/\n\nroute add svc-y /y http://y:2/ weight 0.25"
		buf.Reset()
		buf.WriteString(next)
		t1, err1 := route.NewTable(buf)
		t2, err2 := route.NewTable(bytes.NewBufferString(next))
		switch {
		case err1 != nil || err2 != nil || t1 == nil || t2 == nil:
			out["reuse"] = "error"
		case t1.String() != t2.String() || buf.Len() != 0:
			out["reuse"] = "differs"
		default:
			out["reuse"] = "same"
		}
	}()
	if in.Hex == "" && utf8.ValidString(text) {
		o := newOracle()
		o.addText(in.String())
		out["oracle"] = map[string]interface{}{"pf": o.pf}
	}
	return out, nil
}

var brokenLines = []string{"p", "route", "route ad svc /x http://a:1/", "route add svc", "route add svc /x", "route weight", "route del",
	"route add svc /x http://a:1/ weight x", "route weight svc /x weight", "rout add svc /x http://a:1/", " x", "route add svc /x http://a:1/ tags a"}

var fineLines = []string{"route add svc-a /a http://a:1/", "route add svc-b foo.com/b http://b:2/ weight 0.5 tags \"a,b\"", "# comment", "", "  ",
	"// other comment", "route del svc-a", "route weight svc-b foo.com/b weight 0.2", "route add svc-c :1234 tcp://c:3", "route add svc-n /n http://n:1/ weight NaN",
	"route add svc-i /i http://i:1/ weight Inf", "route add svc-é /é http://e:1/"}

func genBuffer(r *hx.Rand, i int) interface{} {
	g := hostileGen{r}
	n := 1 + r.Intn(6)
	var ls []string
	for k := 0; k < n; k++ {
		ls = append(ls, r.Pick(fineLines))
	}
	broken := r.Chance(3, 5)
	if broken {
		at := r.Intn(len(ls) + 1)
		ls = append(ls[:at], append([]string{r.Pick(brokenLines)}, ls[at:]...)...)
	}
	sep := "\n"
	if r.Chance(1, 8) {
		sep = "\r\n"
	}
	text := strings.Join(ls, sep)
	if r.Chance(1, 6) {
		text += sep
	}
	c := r.Intn(100)
	switch {
	case c < 12: // short hostile text: everything is read in the first chunk
		return bufferIn{payload: mkPayload(g.text(1+r.Intn(4), 20))}
	case c < 50: // the text in front of several KB of comment lines: an early error leaves most of them unread
		return bufferIn{payload: mkPayload(text), Amp: &amp{Pad: 30 + r.Intn(400)}}
	case c < 70: // several KB in FRONT of the text: an error in the last chunk
		return bufferIn{payload: mkPayload(text), Amp: &amp{Pre: 30 + r.Intn(400), Pad: r.Intn(3) * r.Intn(80)}}
	case c < 92: // a line around the sizes of the scanner's buffer (4096 · 2^k) inserted somewhere, padding behind it
		base := []int{4096, 8192, 16384, 32768, 65536}[r.Intn(5)]
		a := &amp{Long: base - 3 + r.Intn(7), LongAt: r.Intn(n + 1), LongCmd: r.Chance(1, 3), Pad: r.Intn(2) * (20 + r.Intn(300))}
		if r.Chance(1, 3) {
			a.Pre = r.Intn(100)
		}
		return bufferIn{payload: mkPayload(text), Amp: a}
	default: // far beyond the token limit
		return bufferIn{payload: mkPayload(text), Amp: &amp{Long: []int{70000, 131072, 200000}[r.Intn(3)], LongAt: r.Intn(n + 1), LongCmd: r.Chance(1, 2), Pad: r.Intn(200)}}
	}
}

func init() {
	hx.Register(&hx.Stream{Name: "c02.buffer", Gen: genBuffer, Run: runBuffer})
}
