package main

import (
	"encoding/json"
	"strings"

	"verif/harness/hx"
	"verif/harness/rt"
)

// c02.history — sequences of valid and invalid service/manual configuration texts through the REAL
// watchBackend loop (child process, scripted registry backend). After each event: the canonical dump of the
// active table ("active"), and what the real NewTable makes of the concatenated text svccfg+"\n"+mancfg in this
// process ("build": table, error or panic). The driver checks the history logic on these two observables alone
// (spec) and compares "active" with the Lean step machine whose `build` is the model of NewTable (agree).

type histEvent struct {
	Src string `json:"src"` // svc | man
	payload
}

type histIn struct {
	Events []histEvent `json:"events"`
}

func runHistory(raw json.RawMessage) (interface{}, error) {
	var in histIn
	if err := json.Unmarshal(raw, &in); err != nil {
		return nil, err
	}
	c, err := session("watchbackend")
	if err != nil {
		return nil, err
	}
	o := newOracle()
	steps := []interface{}{}
	out := map[string]interface{}{}
	svc, man := "", ""
	for _, e := range in.Events {
		text := e.String()
		op := "svc"
		if e.Src == "man" {
			op, man = "man", text
		} else {
			svc = text
		}
		cmd := map[string]interface{}{"op": op, "n": 2}
		if e.Hex != "" {
			cmd["hex"] = e.Hex
		} else {
			cmd["text"] = e.Text
		}
		reply, cerr := c.call(cmd)
		if cerr != nil {
			out["crash"] = c.crash(cerr)
			break
		}
		var rep struct {
			Table json.RawMessage `json:"table"`
		}
		if err := json.Unmarshal(reply, &rep); err != nil || rep.Table == nil {
			out["crash"] = map[string]interface{}{"badReply": string(reply)}
			break
		}
		full := svc + "\n" + man
		b, _ := buildText(full)
		o.addText(full)
		steps = append(steps, map[string]interface{}{"active": rep.Table, "build": b})
	}
	out["steps"] = steps
	out["oracle"] = o.json()
	return out, nil
}

var invalidLines = []string{
	"route add", "route add svc-a", "route add svc-a /x", "rout add svc-a /x http://a:1/", "route ad svc-a /x http://a:1/", "garbage",
	"route add svc-a /x http://a:1/ weight abc", "route add svc-a /x http://a:1/ weight", "route add svc-a /x http://a:1/ weight 1e999",
	"route add svc-a /x http://a:1/ weight Inf", "route add svc-a /x http://a:1/ weight NaN",
	"route weight svc-a /nomatch weight 0.5", "route weight svc-zz /foo weight 0.5", "route weight /foo weight 0.5",
	"route add svc-a /x http://[::1", "route add svc-a /x http://%zz/", "route add svc-a /[ http://a:1/", "route add svc-a [/ http://a:1/",
	"route add svc-a a[b/ http://a:1/", "route add svc-a /x http://a:1/ tags \"a", "route add svc-a /x http://a:1/ extra", "route del", "route weight",
	"route del svc-a /x http://[::1", "route", "route  ", "x route add svc-a /x http://a:1/",
}

func genValidSvc(r *hx.Rand) ([]rt.Def, string) {
	n := r.Intn(5)
	ds := rt.Small.GenScript(r, n)
	return ds, rt.Text(ds)
}

func genValidMan(r *hx.Rand, svc []rt.Def) string {
	n := r.Intn(4)
	have := append([]rt.Def{}, svc...)
	var ls []string
	for i := 0; i < n; i++ {
		d := rt.Small.GenDef(r, have)
		have = append(have, d)
		ls = append(ls, d.Line())
		if r.Chance(1, 6) {
			ls = append(ls, "# manual override")
		}
	}
	return strings.Join(ls, "\n")
}

func breakText(r *hx.Rand, text string) string {
	bad := r.Pick(invalidLines)
	if text == "" {
		return bad
	}
	ls := strings.Split(text, "\n")
	at := r.Intn(len(ls) + 1)
	out := append([]string{}, ls[:at]...)
	out = append(out, bad)
	out = append(out, ls[at:]...)
	return strings.Join(out, "\n")
}

func genHistory(r *hx.Rand, i int) interface{} {
	n := 2 + r.Intn(7)
	if r.Chance(1, 12) {
		n = 8 + r.Intn(14)
	}
	var in histIn
	var svcDefs []rt.Def
	prev := map[string][]string{}
	g := hostileGen{r}
	for k := 0; k < n; k++ {
		src := "svc"
		if r.Chance(2, 5) {
			src = "man"
		}
		var text string
		c := r.Intn(100)
		switch {
		case c < 55:
			if src == "svc" {
				svcDefs, text = genValidSvc(r)
			} else {
				text = genValidMan(r, svcDefs)
			}
		case c < 82:
			var base string
			if src == "svc" {
				var ds []rt.Def
				ds, base = genValidSvc(r)
				_ = ds
			} else {
				base = genValidMan(r, svcDefs)
			}
			text = breakText(r, base)
		case c < 93 && len(prev[src]) > 0:
			text = r.Pick(prev[src]) // an earlier text of the same source: unchanged or reverted configuration
		case c < 97:
			text = g.text(1+r.Intn(4), 25)
		default:
			text = g.mangleBytes(g.text(1+r.Intn(3), 10))
		}
		prev[src] = append(prev[src], text)
		in.Events = append(in.Events, histEvent{Src: src, payload: mkPayload(text)})
	}
	return in
}

func init() {
	hx.Register(&hx.Stream{Name: "c02.history", Gen: genHistory, Run: runHistory})
}
