package main

import (
	"encoding/hex"
	"encoding/json"
	"strings"
	"unicode/utf8"

	"github.com/fabiolb/fabio/route"
	"verif/harness/hx"
	"verif/harness/rt"
)

// c02.history — sequences of valid and invalid service/manual configuration texts through the REAL
// watchBackend loop (child process, scripted registry backend). After each event: the canonical dump of the
// active table ("active"), and what the real NewTable makes of the concatenated text svccfg+"\n"+mancfg in this
// process ("build": table, error or panic). The driver checks the history logic on these two observables alone
// (spec) and compares "active" with the Lean step machine whose `build` is the model of NewTable (agree).

type histEvent struct {
	Src string `json:"src"` // svc | man
	payload
	// Amp (Long/LongAt/LongCmd/Pad only): the delivered text is the payload with an over-long line inserted and/or
	// padded with comment lines to several KB (amp.expandLines; the driver expands it the same way)
	Amp *amp `json:"amp,omitempty"`
}

func (e *histEvent) full() string {
	if e.Amp == nil {
		return e.String()
	}
	return e.Amp.expandLines(e.String())
}

type histIn struct {
	Events []histEvent `json:"events"`
	// Fmt: log.routes.format of the session (logRoutes runs on the update goroutine after every installation):
	// "" = delta, detail, all, anything else = invalid
	Fmt string `json:"fmt,omitempty"`
	// Via: "" = every event goes through the scripted backend; "static" / "file" = the FIRST event (always a
	// service update) is what the real static / file backend, made by the real initBackend, delivers
	Via string `json:"via,omitempty"`
}

func setPayload(cmd map[string]interface{}, text string) {
	if utf8.ValidString(text) {
		cmd["text"] = text
	} else {
		cmd["hex"] = hex.EncodeToString([]byte(text))
	}
}

func runHistory(raw json.RawMessage) (interface{}, error) {
	return retryHang("watchbackend", func() (interface{}, error) { return runHistoryOnce(raw) })
}

func runHistoryOnce(raw json.RawMessage) (interface{}, error) {
	var in histIn
	if err := json.Unmarshal(raw, &in); err != nil {
		return nil, err
	}
	c, err := sessionRaw("watchbackend")
	if err != nil {
		return nil, err
	}
	o := newOracle()
	steps := []interface{}{}
	out := map[string]interface{}{}
	svc, man := "", ""
	var registered, first json.RawMessage
	fresh := true
	var lastGood route.Table
	for i := range in.Events {
		e := &in.Events[i]
		text := e.full()
		op := "svc"
		if e.Src == "man" && !(i == 0 && in.Via != "") {
			op, man = "man", text
		} else {
			svc = text
		}
		// what the real NewTable makes of the concatenated text in THIS process, the table that must be active once
		// the loop has processed the event, and the requests to be looked up through main.go's closures then
		full := svc + "\n" + man
		b, tbl := buildText(full)
		exp := lastGood
		if tbl != nil {
			exp = tbl
		}
		probes := probesFor(exp, lastGood)
		cmd := map[string]interface{}{"op": op, "n": 2, "probe": probes}
		if fresh {
			// the session starts here: routes format; for via the first update comes from the real backend
			fresh = false
			reset := map[string]interface{}{"op": "reset", "fmt": in.Fmt}
			viaFirst := i == 0 && (in.Via == "static" || in.Via == "file")
			if viaFirst {
				reset["probe"] = probes
				reset["via"] = in.Via
				setPayload(reset, text)
			}
			reply, cerr := c.call(reset)
			if cerr != nil {
				// a child left over from an earlier case that does not answer: start a new one, once (a panic this
				// very text causes happens again there)
				if c, err = sessionRestart("watchbackend"); err != nil {
					return nil, err
				}
				reply, cerr = c.call(reset)
			}
			if cerr != nil {
				out["crash"] = c.crash(cerr)
				break
			}
			if viaFirst {
				cmd = nil
				first = reply
			}
		}
		var reply json.RawMessage
		if cmd != nil {
			setPayload(cmd, text)
			var cerr error
			reply, cerr = c.call(cmd)
			if cerr != nil {
				out["crash"] = c.crash(cerr)
				break
			}
		} else {
			reply = first
		}
		var rep struct {
			Table      json.RawMessage `json:"table"`
			Registered json.RawMessage `json:"registered"`
			Served     json.RawMessage `json:"served"`
		}
		if err := json.Unmarshal(reply, &rep); err != nil || rep.Table == nil {
			out["crash"] = map[string]interface{}{"badReply": string(reply)}
			break
		}
		registered = rep.Registered
		o.addText(full)
		step := map[string]interface{}{"active": rep.Table, "build": b}
		if n, bad := checkServed(exp, probes, rep.Served); n > 0 || len(bad) > 0 {
			sv := map[string]interface{}{"n": n}
			if len(bad) > 0 {
				sv["bad"] = bad
			}
			step["served"] = sv
		}
		lastGood = exp
		if b["table"] != nil {
			if n, ok := parsedDefs(full); ok {
				step["ndefs"] = n
			}
		}
		steps = append(steps, step)
	}
	if registered != nil {
		out["registered"] = registered
	}
	out["steps"] = steps
	out["oracle"] = o.json()
	return out, nil
}

var invalidLines = []string{
	"route add", "route add svc-a", "route add svc-a /x", "rout add svc-a /x http://a:1/", "route ad svc-a /x http://a:1/", "garbage",
	"route add svc-a /x http://a:1/ weight abc", "route add svc-a /x http://a:1/ weight", "route add svc-a /x http://a:1/ weight 1e999",
	"route add svc-a /x http://a:1/ weight Inf", "route add svc-a /x http://a:1/ weight NaN",
	"route weight svc-a /nomatch weight 0.5", "route weight svc-zz /foo weight 0.5", "route weight /foo weight 0.5",
	"route add svc-a /x http://[::1", "route add svc-a /x http://%zz/", "route add svc-a /[ http://a:1/", "route add svc-a [/ http://a:1/",
	"route add svc-a a[b/ http://a:1/", "route add svc-a /x http://a:1/ tags \"a", "route add svc-a /x http://a:1/ extra", "route del", "route weight",
	"route del svc-a /x http://[::1", "route", "route  ", "x route add svc-a /x http://a:1/",
}

// the small universe of the route streams plus the option ParseAliases looks for
var c02U = func() rt.Universe {
	u := rt.Small
	u.Opts = append(append([][]string{}, u.Opts...), []string{"register", "alias-a"}, []string{"register", "alias-b"}, []string{"register", ""})
	return u
}()

func genValidSvc(r *hx.Rand) ([]rt.Def, string) {
	n := r.Intn(5)
	ds := c02U.GenScript(r, n)
	return ds, rt.Text(ds)
}

func genValidMan(r *hx.Rand, svc []rt.Def) string {
	n := r.Intn(4)
	have := append([]rt.Def{}, svc...)
	var ls []string
	for i := 0; i < n; i++ {
		d := c02U.GenDef(r, have)
		have = append(have, d)
		ls = append(ls, d.Line())
		if r.Chance(1, 6) {
			ls = append(ls, "# manual override")
		}
	}
	return strings.Join(ls, "\n")
}

func breakText(r *hx.Rand, text string) string {
	bad := r.Pick(invalidLines)
	if text == "" {
		return bad
	}
	ls := strings.Split(text, "\n")
	at := r.Intn(len(ls) + 1)
	out := append([]string{}, ls[:at]...)
	out = append(out, bad)
	out = append(out, ls[at:]...)
	return strings.Join(out, "\n")
}

// brokenFirst puts a line with a SYNTAX error in front of a text (the parser stops there and leaves the rest of the
// text unread).
func brokenFirst(r *hx.Rand, text string) string {
	bad := r.Pick([]string{"route add", "route add svc-a", "garbage", "route add svc-a /x http://a:1/ weight abc", "route del", "rout add svc-a /x http://a:1/", "route weight"})
	if text == "" {
		return bad
	}
	return bad + "\n" + text
}

func genHistory(r *hx.Rand, i int) interface{} {
	n := 2 + r.Intn(7)
	if r.Chance(1, 12) {
		n = 8 + r.Intn(14)
	}
	var in histIn
	in.Fmt = r.Pick([]string{"", "", "", "delta", "detail", "detail", "all", "all", "bogus", "DETAIL"})
	if c := r.Intn(100); c < 10 {
		in.Via = "static"
	} else if c < 18 {
		in.Via = "file"
	}
	var svcDefs []rt.Def
	prev := map[string][]string{}
	g := hostileGen{r}
	for k := 0; k < n; k++ {
		src := "svc"
		if r.Chance(2, 5) && !(k == 0 && in.Via != "") {
			src = "man"
		}
		valid := func() string {
			if src == "svc" {
				var t string
				svcDefs, t = genValidSvc(r)
				return t
			}
			return genValidMan(r, svcDefs)
		}
		var text string
		var a *amp
		c := r.Intn(100)
		switch {
		case c < 50:
			text = valid()
		case c < 74:
			var base string
			if src == "svc" {
				_, base = genValidSvc(r)
			} else {
				base = genValidMan(r, svcDefs)
			}
			text = breakText(r, base)
		case c < 78:
			// several KB: a valid text, or one whose FIRST line is a syntax error, padded with comment lines
			a = &amp{Pad: 70 + r.Intn(200)}
			if r.Chance(2, 3) {
				if src == "svc" {
					_, text = genValidSvc(r)
				} else {
					text = genValidMan(r, svcDefs)
				}
				text = brokenFirst(r, text)
			} else {
				text = valid()
			}
		case c < 82:
			// a line around / beyond the scanner's limit somewhere in an otherwise valid text
			text = valid()
			a = &amp{Long: []int{65534, 65535, 65536, 65537, 70000, 140000}[r.Intn(6)], LongAt: r.Intn(4), LongCmd: r.Chance(1, 3)}
		case c < 93 && len(prev[src]) > 0:
			text = r.Pick(prev[src]) // an earlier text of the same source: unchanged or reverted configuration
		case c < 97:
			text = g.text(1+r.Intn(4), 25)
		default:
			text = g.mangleBytes(g.text(1+r.Intn(3), 10))
		}
		if a == nil {
			prev[src] = append(prev[src], text)
		}
		in.Events = append(in.Events, histEvent{Src: src, payload: mkPayload(text), Amp: a})
	}
	return in
}

func init() {
	hx.Register(&hx.Stream{Name: "c02.history", Gen: genHistory, Run: runHistory})
}
