package main

import (
	"bufio"
	"encoding/json"
	"errors"
	"fmt"
	"hash/fnv"
	"io"
	"os"
	"os/exec"
	"path/filepath"
	"strings"
	"sync"
	"syscall"
	"time"
)

// The streams c02.history and c02.custom talk to a child process: /repo's main package built with -tags
// verif (hook /repo/verif_c02_main.go), which runs the REAL watchBackend loop. A panic of the update
// goroutine kills the child, exactly as it kills fabio; the harness then reports {"panic": true}.

func verifRoot() string {
	if r := os.Getenv("VERIF_ROOT"); r != "" {
		return r
	}
	return "/verif"
}

func repoRoot() string {
	if r := os.Getenv("VERIF_REPO"); r != "" {
		return r
	}
	return "/repo"
}

var (
	binOnce sync.Once
	binPath string
	binErr  error
)

// fabioBin builds /repo's main package (or the scratch tree named by VERIF_REPO) with the verif tag.
//
// The binary must be the tree under test of THIS run. tools/check copies the harness binary into a directory of
// its own per run (.work/C02-<pid>) and removes it afterwards: the child binary is built next to the harness
// binary, once per run (the shards of a run find it under the file lock). Started from anywhere else (bin/fvh-c02
// by hand, --replay) the binary is rebuilt on every start (incremental: the Go build cache) into a path keyed by
// the tree. A first version kept ONE binary in .work/C02 "until the check wipes it" — the check stopped wiping
// it, and every later run, including the runs against scratch trees with a seeded change, drove the update loops
// of whatever tree had been built first (design/C02.md, "False alarms corrected / missed alarms", round 3).
func fabioBin() (string, error) {
	binOnce.Do(func() {
		repo := repoRoot()
		dir, perRun := "", false
		if exe, err := os.Executable(); err == nil {
			d := filepath.Dir(exe)
			if strings.Contains(d, string(filepath.Separator)+".work"+string(filepath.Separator)) {
				dir, perRun = d, true
			}
		}
		name := "fabio-verif-c02"
		if !perRun {
			dir = filepath.Join(verifRoot(), ".work", "C02")
			h := fnv.New32a()
			h.Write([]byte(repo))
			name = fmt.Sprintf("fabio-verif-c02-%08x", h.Sum32())
		}
		os.MkdirAll(dir, 0o755)
		binPath = filepath.Join(dir, name)
		lf, err := os.OpenFile(binPath+".lock", os.O_CREATE|os.O_RDWR, 0o644)
		if err != nil {
			binErr = err
			return
		}
		defer lf.Close()
		syscall.Flock(int(lf.Fd()), syscall.LOCK_EX)
		defer syscall.Flock(int(lf.Fd()), syscall.LOCK_UN)
		if perRun {
			if _, err := os.Stat(binPath); err == nil {
				return
			}
		}
		tmp := fmt.Sprintf("%s.tmp%d", binPath, os.Getpid())
		cmd := exec.Command("go", "build", "-tags", "verif", "-o", tmp, ".")
		cmd.Dir = repo
		cmd.Env = append(os.Environ(), "GOFLAGS=-mod=mod", "GOPROXY=off")
		if out, err := cmd.CombinedOutput(); err != nil {
			os.Remove(tmp)
			binErr = fmt.Errorf("go build -tags verif %s: %v: %s", repo, err, out)
			return
		}
		binErr = os.Rename(tmp, binPath)
	})
	return binPath, binErr
}

type child struct {
	mode   string
	cmd    *exec.Cmd
	stdin  io.WriteCloser
	rd     *bufio.Reader
	stderr *tailBuf
	uses   int
}

type tailBuf struct {
	mu sync.Mutex
	b  []byte
}

func (t *tailBuf) Write(p []byte) (int, error) {
	t.mu.Lock()
	defer t.mu.Unlock()
	t.b = append(t.b, p...)
	if len(t.b) > 8192 {
		t.b = t.b[len(t.b)-8192:]
	}
	return len(p), nil
}

func (t *tailBuf) String() string {
	t.mu.Lock()
	defer t.mu.Unlock()
	return string(t.b)
}

var children = map[string]*child{}

func startChild(mode string) (*child, error) {
	bin, err := fabioBin()
	if err != nil {
		return nil, err
	}
	c := &child{mode: mode, stderr: &tailBuf{}}
	c.cmd = exec.Command(bin)
	c.cmd.Env = append(os.Environ(), "FABIO_VERIF_DRIVER="+mode)
	c.cmd.Stderr = c.stderr
	if c.stdin, err = c.cmd.StdinPipe(); err != nil {
		return nil, err
	}
	so, err := c.cmd.StdoutPipe()
	if err != nil {
		return nil, err
	}
	c.rd = bufio.NewReaderSize(so, 1<<20)
	if err := c.cmd.Start(); err != nil {
		return nil, err
	}
	return c, nil
}

func (c *child) kill() {
	c.stdin.Close()
	c.cmd.Process.Kill()
	c.cmd.Wait()
	delete(children, c.mode)
}

// callPatience: how long a command may take before the child counts as hung. A case that ends in "hang" is measured
// again ONCE in a fresh child with three times the patience (retryHang) before it is reported: on a machine at load
// 200 a single update with a 64 KiB line and a detailed routes diff took longer than a minute.
var callPatience = 60 * time.Second

// retryHang runs a case again with a longer patience when its first run ended in a hang of the child.
func retryHang(mode string, run func() (interface{}, error)) (interface{}, error) {
	out, err := run()
	m, ok := out.(map[string]interface{})
	if err != nil || !ok {
		return out, err
	}
	c, ok := m["crash"].(map[string]interface{})
	if !ok || c["hang"] != true {
		return out, err
	}
	old := callPatience
	callPatience = 3 * old
	defer func() { callPatience = old }()
	if ch := children[mode]; ch != nil {
		ch.kill()
		delete(children, mode)
	}
	return run()
}

var errChildDied = errors.New("child died")
var errChildHung = errors.New("child hung")

// call sends one command and reads one reply line.
func (c *child) call(cmd map[string]interface{}) (json.RawMessage, error) {
	b, _ := json.Marshal(cmd)
	b = append(b, '\n')
	if _, err := c.stdin.Write(b); err != nil {
		return nil, errChildDied
	}
	type res struct {
		line []byte
		err  error
	}
	ch := make(chan res, 1)
	go func() {
		l, err := c.rd.ReadBytes('\n')
		ch <- res{l, err}
	}()
	select {
	case r := <-ch:
		if r.err != nil {
			return nil, errChildDied
		}
		return json.RawMessage(r.line), nil
	case <-time.After(callPatience):
		return nil, errChildHung
	}
}

// sessionRaw returns a child in the given mode WITHOUT resetting its loop: the caller sends its own "reset" (with
// the options of the session) as the first command and calls sessionRestart when that fails.
func sessionRaw(mode string) (*child, error) {
	c := children[mode]
	if c != nil && c.uses >= 40 {
		c.kill()
		c = nil
	}
	if c != nil {
		c.uses++
		return c, nil
	}
	return sessionRestart(mode)
}

func sessionRestart(mode string) (*child, error) {
	if c := children[mode]; c != nil {
		c.kill()
	}
	c, err := startChild(mode)
	if err != nil {
		return nil, err
	}
	children[mode] = c
	return c, nil
}

// session returns a child in the given mode with a freshly reset loop.
func session(mode string) (*child, error) {
	c := children[mode]
	if c != nil && c.uses >= 40 {
		// every replaced session leaves a blocked goroutine (and, for the custom backend, an open connection)
		// behind in the child: start over with a fresh process now and then
		c.kill()
		c = nil
	}
	if c != nil {
		c.uses++
		if _, err := c.call(map[string]interface{}{"op": "reset"}); err == nil {
			return c, nil
		}
		c.kill()
	}
	c, err := startChild(mode)
	if err != nil {
		return nil, err
	}
	children[mode] = c
	return c, nil
}

// crash describes how the child ended: the observable of "the process crashed".
func (c *child) crash(err error) map[string]interface{} {
	if err == errChildHung {
		c.kill()
		return map[string]interface{}{"hang": true}
	}
	c.stdin.Close()
	c.cmd.Wait()
	delete(children, c.mode)
	tail := c.stderr.String()
	first := ""
	for _, l := range strings.Split(tail, "\n") {
		if strings.HasPrefix(l, "panic:") || strings.HasPrefix(l, "fatal error:") {
			first = l
			break
		}
	}
	if len(tail) > 400 {
		tail = tail[len(tail)-400:]
	}
	return map[string]interface{}{"panic": true, "panicText": first, "stderr": tail, "cause": err.Error()}
}
