package main

import (
	"encoding/json"
	"fmt"
	"net/http"
	"net/url"
	"sort"
	"strings"

	"github.com/fabiolb/fabio/route"
)

// "served" (round 4): what a REQUEST sees. After every update / poll the child looks a few probe requests up through
// the REAL lookup closures of main.go (newHTTPProxy(...).Lookup, lookupHostFn, lookupHostMatcher) — the wiring between
// the listeners and the cell that no other stream executes. The harness holds the table that must be active then (the
// real NewTable / NewTableCustom of the last good text / document, built in this process) and judges every answer
// against it: the target must belong to the route that table selects for the probe (round-robin state differs between
// the two processes, so any target of that route is allowed), and no answer where that table has none.

type probe struct {
	Host string `json:"host"`
	Path string `json:"path"`
}

// probesFor derives probe requests from the routes of the given tables (the one that must be active now and the one
// that was active before: a stale answer is then distinguishable) plus two that match nothing.
func probesFor(tables ...route.Table) []probe {
	seen := map[probe]bool{}
	var out []probe
	add := func(p probe) {
		if !seen[p] && len(out) < 10 {
			seen[p] = true
			out = append(out, p)
		}
	}
	for _, t := range tables {
		hk := make([]string, 0, len(t))
		for h := range t {
			hk = append(hk, h)
		}
		sort.Strings(hk)
		for i, h := range hk {
			if i >= 3 {
				break
			}
			host := h
			if strings.HasPrefix(host, "*") {
				host = "x" + strings.TrimPrefix(host, "*")
			}
			if host == "" {
				host = "any.example"
			}
			for j, r := range t[h] {
				if j >= 2 {
					break
				}
				add(probe{Host: host, Path: r.Path + "x"})
			}
			add(probe{Host: strings.ToUpper(host), Path: "/"})
		}
	}
	add(probe{Host: "nomatch.example", Path: "/nomatch"})
	add(probe{Host: ":1234", Path: ""})
	return out
}

var servedGlobCache = route.NewGlobCache(1000)

// jsonCanon: a string as it arrives after a trip through encoding/json (every invalid byte becomes U+FFFD) — the
// child's answers made that trip.
func jsonCanon(s string) string {
	b, err := json.Marshal(s)
	if err != nil {
		return s
	}
	var o string
	if json.Unmarshal(b, &o) != nil {
		return s
	}
	return o
}

func tkey(t *route.Target) string {
	u := ""
	if t.URL != nil {
		u = t.URL.String()
	}
	return jsonCanon(t.Service) + "\x00" + jsonCanon(u)
}

// siblings: the targets of the route `tg` was picked from. Lookup hands out a COPY of a redirect target, so the
// route is found by the target's service and URL (routes that hold an equal target are all taken: the comparison
// below is by service and URL anyway).
func siblings(t route.Table, tg *route.Target) []*route.Target {
	var out []*route.Target
	k := tkey(tg)
	for _, rs := range t {
		for _, r := range rs {
			hit := false
			for _, x := range r.Targets {
				if x == tg || tkey(x) == k {
					hit = true
				}
			}
			if hit {
				out = append(out, r.Targets...)
			}
		}
	}
	if len(out) == 0 {
		out = []*route.Target{tg}
	}
	return out
}

func gotKey(v interface{}) (string, bool) {
	a, ok := v.([]interface{})
	if !ok || len(a) != 2 {
		return "", false
	}
	s, _ := a[0].(string)
	u, _ := a[1].(string)
	return s + "\x00" + u, true
}

// checkServed judges the child's answers against the table that must be active. bad = list of mismatches.
func checkServed(exp route.Table, ps []probe, served json.RawMessage) (n int, bad []interface{}) {
	defer func() {
		if p := recover(); p != nil {
			bad = append(bad, map[string]interface{}{"what": "lookup on the expected table panicked", "panic": fmt.Sprint(p)})
		}
	}()
	var got []map[string]interface{}
	if served == nil || json.Unmarshal(served, &got) != nil {
		return 0, nil
	}
	if exp == nil {
		exp = route.Table{}
	}
	pick := route.Picker["rr"]
	for i, p := range ps {
		if i >= len(got) {
			bad = append(bad, map[string]interface{}{"probe": p, "what": "no answer"})
			continue
		}
		n++
		judge := func(kind string, want *route.Target, gotV interface{}) {
			gk, some := gotKey(gotV)
			switch {
			case want == nil && !some:
			case want == nil && some:
				bad = append(bad, map[string]interface{}{"probe": p, "closure": kind, "got": gotV, "want": nil})
			case want != nil && !some:
				bad = append(bad, map[string]interface{}{"probe": p, "closure": kind, "got": nil, "want": want.Service})
			default:
				for _, x := range siblings(exp, want) {
					if tkey(x) == gk {
						return
					}
				}
				bad = append(bad, map[string]interface{}{"probe": p, "closure": kind, "got": gotV, "want": want.Service})
			}
		}
		req := &http.Request{Host: p.Host, URL: &url.URL{Path: p.Path}, Header: http.Header{}}
		judge("http", exp.Lookup(req, "", pick, route.Matcher["prefix"], servedGlobCache, false), got[i]["http"])
		wh := exp.LookupHost(p.Host, pick)
		judge("host", wh, got[i]["host"])
		// lookupHostMatcher: true iff the target is a tcp target; every target of the selected route may have been picked
		allowed := map[bool]bool{}
		if wh == nil {
			allowed[false] = true
		} else {
			for _, x := range siblings(exp, wh) {
				proto, ok := x.Opts["proto"]
				if !ok && x.URL != nil {
					proto = x.URL.Scheme
				}
				allowed[proto == "tcp"] = true
			}
		}
		if m, ok := got[i]["match"].(bool); !ok || !allowed[m] {
			bad = append(bad, map[string]interface{}{"probe": p, "closure": "match", "got": got[i]["match"]})
		}
	}
	return n, bad
}
