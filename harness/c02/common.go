package main

import (
	"bytes"
	"encoding/hex"
	"fmt"
	"regexp"
	"strconv"
	"strings"
	"unicode/utf8"

	"github.com/fabiolb/fabio/route"
)

// ---- canonical observables (same shapes as the c05 streams) ------------------------------------------

var reLineErr = regexp.MustCompile(`^line (\d+): (.*)$`)

func errClass(err error) string {
	s := err.Error()
	switch s {
	case "route: prefix must not be empty":
		return "invalidPrefix"
	case "route: target must not be empty":
		return "invalidTarget"
	case "route: no target match":
		return "noMatch"
	case "route: invalid weight":
		return "invalidWeight"
	}
	switch {
	case strings.HasPrefix(s, "route: invalid target"):
		return "badURL"
	case strings.HasPrefix(s, "route: invalid command"):
		return "invalidCommand"
	case strings.HasPrefix(s, "route: invalid host"):
		return "badGlob"
	case strings.HasPrefix(s, "route: no route definitions"), strings.Contains(s, "nil"):
		return "nilDefs"
	}
	return "badGlob"
}

// loadErr maps an error of route.NewTable to a small enum (line numbers kept for the log only).
func loadErr(err error) map[string]interface{} {
	s := err.Error()
	if m := reLineErr.FindStringSubmatch(s); m != nil {
		n, _ := strconv.Atoi(m[1])
		if strings.Contains(m[2], "token too long") {
			return map[string]interface{}{"kind": "tooLong", "line": n}
		}
		what := "other"
		switch m[2] {
		case "syntax error: 'route' expected":
			what = "routeExpected"
		case "syntax error: 'route add' invalid":
			what = "addInvalid"
		case "syntax error: 'route del' invalid":
			what = "delInvalid"
		case "syntax error: 'route weight' invalid":
			what = "weightInvalid"
		case "syntax error: weight value invalid":
			what = "weightValue"
		}
		return map[string]interface{}{"kind": "syn", "line": n, "what": what}
	}
	return map[string]interface{}{"kind": "table", "what": errClass(err)}
}

// buildText runs the real NewTable on a text; a panic becomes {"panic": true, "panicText": …}.
func buildText(text string) (out map[string]interface{}, t route.Table) {
	defer func() {
		if p := recover(); p != nil {
			out = map[string]interface{}{"panic": true, "panicText": fmt.Sprint(p)}
			t = nil
		}
	}()
	t, err := route.VerifNewTable(text)
	if err != nil {
		return map[string]interface{}{"error": loadErr(err)}, nil
	}
	return map[string]interface{}{"table": route.VerifDump(t, false)}, t
}

// parsedDefs: how many definitions the real route.Parse makes of a text it accepts (the observable of "the table
// was built from the COMPLETE text": the driver compares it with the number of command lines it counts itself).
func parsedDefs(text string) (n int, ok bool) {
	defer func() {
		if recover() != nil {
			n, ok = 0, false
		}
	}()
	defs, err := route.Parse(bytes.NewBufferString(text))
	if err != nil {
		return 0, false
	}
	return len(defs), true
}

// payload is a text that may not be valid UTF-8: it travels as "text" when it is, as "hex" otherwise.
type payload struct {
	Text string `json:"text,omitempty"`
	Hex  string `json:"hex,omitempty"`
}

func mkPayload(s string) payload {
	if utf8.ValidString(s) {
		return payload{Text: s}
	}
	return payload{Hex: hex.EncodeToString([]byte(s))}
}

func (p payload) String() string {
	if p.Hex != "" {
		b, _ := hex.DecodeString(p.Hex)
		return string(b)
	}
	return p.Text
}

// ---- oracles for the model's parameters (strconv.ParseFloat, url.Parse+String, glob.Compile) ---------------

func isReSpace(c byte) bool { return c == '\t' || c == '\n' || c == '\f' || c == '\r' || c == ' ' }

func reTokens(s string) []string {
	var out []string
	i := 0
	for i < len(s) {
		for i < len(s) && isReSpace(s[i]) {
			i++
		}
		j := i
		for j < len(s) && !isReSpace(s[j]) {
			j++
		}
		if j > i {
			out = append(out, s[i:j])
		}
		i = j
	}
	return out
}

type oracle struct {
	pf, urls, globs map[string]interface{}
}

func newOracle() *oracle {
	return &oracle{pf: map[string]interface{}{}, urls: map[string]interface{}{}, globs: map[string]interface{}{}}
}

func (o *oracle) json() map[string]interface{} {
	return map[string]interface{}{"pf": o.pf, "url": o.urls, "glob": o.globs}
}

func (o *oracle) addToken(tok string) {
	if len(tok) > 4096 || !utf8.ValidString(tok) {
		return
	}
	if _, ok := o.pf[tok]; ok {
		return
	}
	if f, err := strconv.ParseFloat(tok, 64); err == nil {
		o.pf[tok] = route.VerifRat(f)
	} else {
		o.pf[tok] = nil
	}
	o.addURL(tok)
	o.addSrc(tok)
}

func (o *oracle) addURL(s string) {
	if n, ok := route.VerifNormURL(s); ok {
		o.urls[s] = n
		if n != s {
			if n2, ok2 := route.VerifNormURL(n); ok2 {
				o.urls[n] = n2
			} else {
				o.urls[n] = nil
			}
		}
	} else {
		o.urls[s] = nil
	}
}

func (o *oracle) addSrc(s string) {
	h, p := route.VerifHostpath(s)
	o.globs[p] = route.VerifGlobOK(p)
	h = strings.ToLower(h)
	o.globs[h] = route.VerifGlobOK(h)
}

// addText evaluates the oracles on every token of a configuration text that can reach them.
func (o *oracle) addText(text string) {
	for _, tok := range reTokens(text) {
		o.addToken(tok)
		if tr := strings.TrimSpace(tok); tr != tok && tr != "" {
			o.addToken(tr)
		}
	}
}
