package main

import (
	"encoding/json"
	"fmt"
	"sort"
	"strings"

	"github.com/fabiolb/fabio/route"
	"verif/harness/hx"
	"verif/harness/rt"
)

// c02.custom — sequences of answers of a custom-backend endpoint (JSON documents, `null`, wrong types, decode
// errors, non-200, dropped connections) through the REAL custom backend + watchBackend (child process; the
// endpoint is served by the child from the script). After each poll: the canonical dump of the active table,
// what encoding/json makes of the document when decoded into a FRESH *[]route.RouteDef in this process
// ("decoded"), and what the real NewTableCustom makes of that ("build").

type poll struct {
	Status int  `json:"status,omitempty"` // 0 = 200
	Drop   bool `json:"drop,omitempty"`
	payload
}

type customIn struct {
	Polls []poll `json:"polls"`
}

func defJSON(d *route.RouteDef) map[string]interface{} {
	opts := [][]string{}
	keys := make([]string, 0, len(d.Opts))
	for k := range d.Opts {
		keys = append(keys, k)
	}
	sort.Strings(keys)
	for _, k := range keys {
		opts = append(opts, []string{k, d.Opts[k]})
	}
	tags := append([]string{}, d.Tags...)
	return map[string]interface{}{"cmd": string(d.Cmd), "service": d.Service, "src": d.Src, "dst": d.Dst,
		"weight": route.VerifRat(d.Weight), "tags": tags, "opts": opts}
}

func buildCustom(defs *[]route.RouteDef) (out map[string]interface{}, tbl route.Table) {
	defer func() {
		if p := recover(); p != nil {
			out = map[string]interface{}{"panic": true, "panicText": fmt.Sprint(p)}
			tbl = nil
		}
	}()
	t, err := route.NewTableCustom(defs)
	if err != nil {
		return map[string]interface{}{"error": map[string]interface{}{"kind": "table", "what": errClass(err)}}, nil
	}
	return map[string]interface{}{"table": route.VerifDump(t, false)}, t
}

// runCustom retries a case whose child process failed for reasons of the test bed (no free port for the scripted
// endpoint), not of the code under test.
func runCustom(raw json.RawMessage) (interface{}, error) {
	var out interface{}
	var err error
	for try := 0; try < 4; try++ {
		out, err = retryHang("custombackend", func() (interface{}, error) { return runCustomOnce(raw) })
		if m, ok := out.(map[string]interface{}); ok {
			if c, ok := m["crash"].(map[string]interface{}); ok {
				if se, _ := c["stderr"].(string); strings.Contains(se, "verif c02:") {
					continue
				}
			}
		}
		break
	}
	return out, err
}

func runCustomOnce(raw json.RawMessage) (interface{}, error) {
	var in customIn
	if err := json.Unmarshal(raw, &in); err != nil {
		return nil, err
	}
	c, err := session("custombackend")
	if err != nil {
		return nil, err
	}
	o := newOracle()
	steps := []interface{}{}
	out := map[string]interface{}{}
	var lastGood route.Table
	for _, p := range in.Polls {
		body := p.String()
		cmd := map[string]interface{}{"op": "poll", "status": p.Status, "drop": p.Drop}
		if p.Hex != "" {
			cmd["hex"] = p.Hex
		} else {
			cmd["body"] = p.Text
		}
		// what the document means, decoded into a fresh variable
		step := map[string]interface{}{}
		var tbl route.Table
		switch {
		case p.Drop || (p.Status != 0 && p.Status != 200):
			step["decoded"] = map[string]interface{}{"httpError": true}
		default:
			var routes *[]route.RouteDef
			if derr := json.NewDecoder(strings.NewReader(body)).Decode(&routes); derr != nil {
				step["decoded"] = map[string]interface{}{"decodeError": true}
			} else if routes == nil {
				step["decoded"] = map[string]interface{}{"null": true}
				step["build"], _ = buildCustom(nil)
			} else {
				ds := []interface{}{}
				for i := range *routes {
					d := &(*routes)[i]
					ds = append(ds, defJSON(d))
					if d.Dst != "" {
						o.addURL(d.Dst)
					}
					if d.Src != "" {
						o.addSrc(d.Src)
					}
				}
				step["decoded"] = map[string]interface{}{"defs": ds}
				step["build"], tbl = buildCustom(routes)
			}
		}
		// the table that must be active after this poll, and the requests looked up through main.go's closures then
		exp := lastGood
		if tbl != nil {
			exp = tbl
		}
		probes := probesFor(exp, lastGood)
		cmd["probe"] = probes
		reply, cerr := c.call(cmd)
		if cerr != nil {
			out["crash"] = c.crash(cerr)
			step["active"] = nil
			steps = append(steps, step)
			break
		}
		var rep struct {
			Table  json.RawMessage `json:"table"`
			Served json.RawMessage `json:"served"`
		}
		if err := json.Unmarshal(reply, &rep); err != nil || rep.Table == nil {
			out["crash"] = map[string]interface{}{"badReply": string(reply)}
			break
		}
		step["active"] = rep.Table
		if n, bad := checkServed(exp, probes, rep.Served); n > 0 || len(bad) > 0 {
			sv := map[string]interface{}{"n": n}
			if len(bad) > 0 {
				sv["bad"] = bad
			}
			step["served"] = sv
		}
		lastGood = exp
		steps = append(steps, step)
	}
	out["steps"] = steps
	out["oracle"] = o.json()
	return out, nil
}

var badDocs = []string{
	`null`, `null`, `[]`, `{}`, `[1,2]`, `"x"`, `0`, `true`, `[null]`, `[[]]`, `[{}]`, `[{"cmd":5}]`, `[{"cmd":"route add","weight":"0.5"}]`,
	`[{"cmd":"route add","service":"a","src":"/x","dst":"http://a:1/","weight":1e999}]`, `[{"cmd":"route add","service":"a","src":"/x","dst":"http://a:1/","tags":"a"}]`,
	`[{"cmd":"route add","service":"a","src":"/x","dst":"http://a:1/","opts":["a"]}]`, `[{"cmd":"route add","service":"a","src":"/x","dst":"http://a:1/"`, ``, ` `, `nul`, `[`,
	`[{"cmd":"route add","service":"a","src":"","dst":"http://a:1/"}]`, `[{"cmd":"route add","service":"a","src":"/x","dst":""}]`, `[{"cmd":"route frob","service":"a","src":"/x","dst":"http://a:1/"}]`,
	`[{"cmd":"route add","service":"a","src":"/x","dst":"http://[::1"}]`, `[{"cmd":"route add","service":"a","src":"[/x","dst":"http://a:1/"}]`, `[{"cmd":"route add","service":"a","src":"/[","dst":"http://a:1/"}]`,
	`[{"cmd":"route weight","service":"a","src":"/nomatch","weight":0.5}]`, `[{"cmd":"route add","service":"a","src":"/x","dst":"http://a:1/","weight":1e308},{"cmd":"route add","service":"b","src":"/x","dst":"http://b:1/","weight":1e308},{"cmd":"route add","service":"c","src":"/x","dst":"http://c:1/","weight":1e308}]`,
	`[{"cmd":"route add","service":"a","src":"/x","dst":"http://a:1/","weight":5e-324},{"cmd":"route add","service":"b","src":"/x","dst":"http://b:1/"}]`,
	`[{"cmd":"route add","service":"a","src":"/x","dst":"http://a:1/","weight":-1e308}]`, `[{"CMD":"route add","Service":"a","SRC":"/x","dst":"http://a:1/"}]`,
	`[{"cmd":"route add","service":"a","src":"/x","dst":"http://a:1/"}] trailing`, `[{"cmd":"route add","service":"a","src":"/x","dst":"http://a:1/","opts":null,"tags":null}]`,
}

// docOf renders a script as a JSON document the way a custom backend would; zero-valued optional fields are
// omitted with probability 1/2 each (so that successive documents differ in which keys they carry).
func docOf(r *hx.Rand, ds []rt.Def) string {
	arr := []map[string]interface{}{}
	for i := range ds {
		d := ds[i].RouteDef()
		m := map[string]interface{}{"cmd": string(d.Cmd)}
		put := func(k string, v interface{}, zero bool) {
			if !zero || r.Chance(1, 2) {
				m[k] = v
			}
		}
		put("service", d.Service, d.Service == "")
		put("src", d.Src, d.Src == "")
		put("dst", d.Dst, d.Dst == "")
		put("weight", d.Weight, d.Weight == 0)
		put("tags", d.Tags, len(d.Tags) == 0)
		put("opts", d.Opts, len(d.Opts) == 0)
		arr = append(arr, m)
	}
	b, _ := json.Marshal(arr)
	return string(b)
}

func genCustom(r *hx.Rand, i int) interface{} {
	n := 2 + r.Intn(5)
	var in customIn
	var docs []string
	for k := 0; k < n; k++ {
		c := r.Intn(100)
		switch {
		case c < 60:
			ds := rt.Small.GenScript(r, 1+r.Intn(4))
			// only adds most of the time: a script that fails is less interesting here than one that differs
			doc := docOf(r, ds)
			docs = append(docs, doc)
			in.Polls = append(in.Polls, poll{payload: mkPayload(doc)})
		case c < 80:
			in.Polls = append(in.Polls, poll{payload: mkPayload(r.Pick(badDocs))})
		case c < 86 && len(docs) > 0:
			in.Polls = append(in.Polls, poll{payload: mkPayload(r.Pick(docs))})
		case c < 91:
			// a status other than 200 — half of the time around a VALID NEW document (the body of a failed poll
			// must not be installed), otherwise with an empty body
			p := poll{Status: []int{500, 404, 204, 201, 202, 206, 299, 301, 304, 400, 503}[r.Intn(11)]}
			if r.Chance(1, 2) {
				p.payload = mkPayload(docOf(r, rt.Small.GenScript(r, 1+r.Intn(3))))
			}
			in.Polls = append(in.Polls, p)
		case c < 94:
			in.Polls = append(in.Polls, poll{Drop: true})
		default:
			g := hostileGen{r}
			in.Polls = append(in.Polls, poll{payload: mkPayload(hostileDoc(g, 1+r.Intn(3)))})
		}
	}
	return in
}

// hostileDoc: a JSON definition list whose fields come from the hostile pools.
func hostileDoc(g hostileGen, n int) string {
	arr := []map[string]interface{}{}
	for i := 0; i < n; i++ {
		m := map[string]interface{}{
			"cmd":     g.r.Pick([]string{"route add", "route add", "route add", "route del", "route weight", "", "add"}),
			"service": g.pick(hostileServices, []string{"svc-a", "svc-b"}, 20),
			"src":     g.src(40),
			"dst":     g.pick(hostileURLs, plainURLs, 40),
		}
		if g.r.Chance(1, 2) {
			m["weight"] = json.RawMessage(g.r.Pick([]string{"0.5", "1", "0", "-1", "1e308", "-1e308", "5e-324", "1e-320", "1e-400", "0.1", "2", "9999999999", "-0"}))
		}
		if g.r.Chance(1, 3) {
			m["tags"] = []string{g.r.Pick(hostileTags)}
		}
		if g.r.Chance(1, 2) {
			kv := strings.SplitN(g.r.Pick(hostileOpts), "=", 2)
			v := ""
			if len(kv) == 2 {
				v = kv[1]
			}
			m["opts"] = map[string]string{kv[0]: v}
		}
		arr = append(arr, m)
	}
	b, _ := json.Marshal(arr)
	return string(b)
}

func init() {
	hx.Register(&hx.Stream{Name: "c02.custom", Gen: genCustom, Run: runCustom})
}
