package main

import (
	"encoding/json"
	"fmt"
	"net/http"
	"net/url"
	"reflect"
	"strings"
	"sync"
	"sync/atomic"

	"github.com/fabiolb/fabio/route"
	"verif/harness/hx"
)

// c02.swap — one writer publishes freshly built tables, alternating between two configurations A and B with
// disjoint target sets (and some routes only in A or only in B), interleaved with SetTable(nil); 16–32 readers do
// what fabio's request paths do: `route.GetTable().Lookup(…)` (HTTP) and `route.GetTable().LookupHost(…)` (TCP/SNI). Every answer must belong wholly to the table the
// reader loaded: the route it names must be the route that table prescribes for the request and the target must
// be one of that route's targets (service name and URL host both name table, route and target). Per reader the
// loaded tables must appear in publication order; readers that also sample the writer's counters must see a
// table published within the window of their load. The -race build of the harness runs this stream.
//
// Deliberately outside this stream (owned by C06, unrepaired on this tree and reported by the race detector
// for reasons unrelated to table replacement): rrPicker's plain read of Route.total and a GlobCache shared by
// several goroutines. Readers use the rnd picker and one GlobCache each.

type swapIn struct {
	Readers int    `json:"readers"`
	Iters   int    `json:"iters"`
	Routes  int    `json:"routes"`
	Matcher string `json:"matcher"`
	Nil     bool   `json:"nil"`
}

func swapText(fam string, routes int) string {
	low := strings.ToLower(fam)
	hosts := []string{"", "foo.com", "*.foo.com", "bar.com"}
	var ls []string
	add := func(idx int, src string, n int) {
		for i := 0; i < n; i++ {
			ls = append(ls, fmt.Sprintf("route add %s-r%d-t%d %s http://%s-r%d-t%d.example:1/", fam, idx, i, src, low, idx, i))
		}
	}
	for j := 0; j < routes; j++ {
		add(j, fmt.Sprintf("%s/p%d", hosts[j%len(hosts)], j/len(hosts)), 1+j%3)
	}
	// structural differences: a catch-all in both, a route only in A, one only in B, a nested one only in B
	add(900, "/", 2)
	if fam == "A" {
		add(901, "/onlyA", 2)
		add(902, "foo.com/p0/deep", 1)
	} else {
		add(903, "/onlyB", 3)
		add(904, "bar.com/", 2)
	}
	return strings.Join(ls, "\n")
}

var swapHosts = []string{"foo.com", "x.foo.com", "bar.com", "other.example", "FOO.com:80"}
var swapPaths = []string{"/", "/p0", "/p0/x", "/p0/deep/y", "/p1", "/onlyA/z", "/onlyB", "/P0", "/nothing"}

// nameOf parses "<fam>-r<idx>-t<i>".
func nameOf(s string) (fam string, idx, ti int, ok bool) {
	var f string
	if _, err := fmt.Sscanf(strings.ReplaceAll(s, "-", " "), "%s r%d t%d", &f, &idx, &ti); err != nil {
		return "", 0, 0, false
	}
	return strings.ToUpper(f), idx, ti, true
}

// answer names what a lookup returned: -1 for nil, else the route index; bad != "" when the target is not
// consistent with itself (service and URL name different things).
func answerOf(tg *route.Target) (fam string, idx int, bad string) {
	if tg == nil {
		return "", -1, ""
	}
	f1, i1, t1, ok1 := nameOf(tg.Service)
	host := ""
	if tg.URL != nil {
		host = strings.TrimSuffix(tg.URL.Hostname(), ".example")
	}
	f2, i2, t2, ok2 := nameOf(host)
	if !ok1 || !ok2 || f1 != f2 || i1 != i2 || t1 != t2 {
		return f1, i1, fmt.Sprintf("target names two things: service %q url %q", tg.Service, tg.URL)
	}
	return f1, i1, ""
}

const obsCap = 12000

type obs struct {
	ptr    uintptr
	q      int
	tg     *route.Target
	lo, hi int64 // window of publication numbers (lin readers), -1 otherwise
}

func mkReqOf(host, path string) *http.Request {
	return &http.Request{Host: host, URL: &url.URL{Path: path}, Header: http.Header{}}
}

func runSwap(raw json.RawMessage) (interface{}, error) {
	var in swapIn
	if err := json.Unmarshal(raw, &in); err != nil {
		return nil, err
	}
	if in.Readers < 1 {
		in.Readers = 1
	}
	if in.Readers > 64 {
		in.Readers = 64
	}
	if in.Iters < 1 {
		in.Iters = 1
	}
	if in.Iters > 20000 {
		in.Iters = 20000
	}
	if in.Routes < 1 {
		in.Routes = 1
	}
	if in.Routes > 40 {
		in.Routes = 40
	}
	match := route.Matcher[in.Matcher]
	if match == nil {
		in.Matcher = "prefix"
		match = route.Matcher["prefix"]
	}
	pick := route.Picker["rnd"]
	texts := map[string]string{"A": swapText("A", in.Routes), "B": swapText("B", in.Routes)}

	// hostOnly: the request is looked up with LookupHost (the TCP / SNI listeners' path: lookupHostFn in main.go)
	type reqT struct {
		host, path string
		hostOnly   bool
	}
	var reqs []reqT
	for _, h := range swapHosts {
		for _, p := range swapPaths {
			reqs = append(reqs, reqT{h, p, false})
		}
	}
	for _, h := range []string{"", "bar.com", "foo.com", "BAR.com", "other.example"} {
		reqs = append(reqs, reqT{h, "", true})
	}
	lookup := func(t route.Table, q int, gc *route.GlobCache) *route.Target {
		if reqs[q].hostOnly {
			return t.LookupHost(reqs[q].host, pick)
		}
		return t.Lookup(mkReqOf(reqs[q].host, reqs[q].path), "", pick, match, gc, false)
	}
	// what each configuration prescribes for each request (sequential lookups on a private table)
	expected := map[string][]int{"E": make([]int, len(reqs))}
	for q := range reqs {
		expected["E"][q] = -1
	}
	for fam, text := range texts {
		t, err := route.VerifNewTable(text)
		if err != nil {
			return nil, fmt.Errorf("table %s does not build: %v", fam, err)
		}
		gc := route.NewGlobCache(16)
		exp := make([]int, len(reqs))
		for q := range reqs {
			f, idx, bad := answerOf(lookup(t, q, gc))
			if bad != "" || (idx >= 0 && f != fam) {
				return nil, fmt.Errorf("sequential lookup inconsistent: %s", bad)
			}
			exp[q] = idx
		}
		expected[fam] = exp
	}

	empty := make(route.Table)
	route.SetTable(empty)
	family := map[uintptr]string{reflect.ValueOf(empty).Pointer(): "E"}
	seqOf := map[uintptr]int64{reflect.ValueOf(empty).Pointer(): 0}
	keep := []route.Table{empty}
	var started, published int64
	var done int32
	var wg sync.WaitGroup
	all := make([][]obs, in.Readers)
	var nilSeen int64
	for ri := 0; ri < in.Readers; ri++ {
		wg.Add(1)
		go func(ri int) {
			defer wg.Done()
			gc := route.NewGlobCache(16)
			lin := ri%2 == 0
			var mine []obs
			for k := 0; atomic.LoadInt32(&done) == 0 || k < 50; k++ {
				q := (k*7 + ri) % len(reqs)
				o := obs{q: q, lo: -1, hi: -1}
				if lin {
					o.lo = atomic.LoadInt64(&published)
				}
				// --- the request path of main.go: one GetTable, then Lookup on that snapshot ---
				t := route.GetTable()
				tg := lookup(t, q, gc)
				// ---
				if lin {
					o.hi = atomic.LoadInt64(&started)
				}
				if t == nil {
					atomic.AddInt64(&nilSeen, 1)
					continue
				}
				o.ptr, o.tg = reflect.ValueOf(t).Pointer(), tg
				if len(mine) < obsCap {
					mine = append(mine, o)
				} else {
					mine[obsCap/2+k%(obsCap/2)] = o
				}
			}
			all[ri] = mine
		}(ri)
	}
	var buildErr error
	for i := 0; i < in.Iters; i++ {
		fam := "A"
		if i%2 == 1 {
			fam = "B"
		}
		t, err := route.VerifNewTable(texts[fam])
		if err != nil {
			buildErr = err
			break
		}
		p := reflect.ValueOf(t).Pointer()
		seq := int64(i + 1)
		family[p], seqOf[p] = fam, seq
		keep = append(keep, t)
		atomic.StoreInt64(&started, seq)
		route.SetTable(t)
		atomic.StoreInt64(&published, seq)
		if in.Nil && i%3 == 0 {
			route.SetTable(nil)
		}
	}
	atomic.StoreInt32(&done, 1)
	wg.Wait()
	route.SetTable(make(route.Table))
	if buildErr != nil {
		return nil, buildErr
	}
	_ = keep

	// verification (single-threaded, after the fact)
	counts := map[string]int{"E": 0, "A": 0, "B": 0}
	total := 0
	var mixed []string
	note := func(s string) {
		if len(mixed) < 5 {
			mixed = append(mixed, s)
		}
	}
	nMixed, nOrder, nWindow, nUnknown := 0, 0, 0, 0
	type ans struct {
		fam string
		idx int
		bad string
	}
	cache := map[*route.Target]ans{}
	for ri, mine := range all {
		last := int64(-1)
		ordered := len(mine) < obsCap // the sample of a very long run is not in order
		for _, o := range mine {
			total++
			fam, ok := family[o.ptr]
			if !ok {
				nUnknown++
				note(fmt.Sprintf("reader %d loaded a table that was never published", ri))
				continue
			}
			counts[fam]++
			a, seen := cache[o.tg]
			if !seen {
				a.fam, a.idx, a.bad = answerOf(o.tg)
				cache[o.tg] = a
			}
			f, idx, bad := a.fam, a.idx, a.bad
			want := expected[fam][o.q]
			switch {
			case bad != "":
				nMixed++
				note(bad)
			case idx != want || (idx >= 0 && f != fam):
				nMixed++
				note(fmt.Sprintf("reader %d loaded a table of configuration %s but %s%s was answered with route %s/r%d (that table prescribes r%d)", ri, fam, reqs[o.q].host, reqs[o.q].path, f, idx, want))
			}
			s := seqOf[o.ptr]
			if ordered && s < last {
				nOrder++
				note(fmt.Sprintf("reader %d went back from publication %d to %d", ri, last, s))
			}
			last = s
			if o.lo >= 0 && (s < o.lo || s > o.hi) {
				nWindow++
				note(fmt.Sprintf("reader %d loaded publication %d outside its window [%d,%d]", ri, s, o.lo, o.hi))
			}
		}
	}
	return map[string]interface{}{"lookups": total, "byFamily": counts, "mixed": nMixed, "order": nOrder, "window": nWindow,
		"unknown": nUnknown, "nilTable": nilSeen, "notes": mixed, "matcher": in.Matcher}, nil
}

func genSwap(r *hx.Rand, i int) interface{} {
	return swapIn{Readers: 16 + r.Intn(17), Iters: 60 + r.Intn(100), Routes: 4 + r.Intn(12),
		Matcher: r.Pick([]string{"prefix", "glob", "iprefix"}), Nil: r.Chance(2, 3)}
}

func init() {
	hx.Register(&hx.Stream{Name: "c02.swap", Gen: genSwap, Run: runSwap})
}
