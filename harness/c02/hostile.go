package main

import (
	"strings"

	"verif/harness/hx"
)

// Grammar of hostile route commands: every field is drawn from a pool that mixes ordinary values with values
// that made (or could make) table construction or lookup panic.

var hostileWeights = []string{
	"Inf", "+Inf", "-Inf", "inf", "Infinity", "NaN", "nan", "-NaN", "1e308", "1.7976931348623157e308", "-1e308",
	"5e-324", "1e-320", "4.9e-324", "2.2250738585072014e-308", "-0", "0", "-5e-324", "1e-400", "1e309", "1e999",
	"0x1p-1074", "0x1.fffffffffffffp1023", "0.1", "0.5", "1", "2", "1e-5", "0.00001", "0.99999999999999999",
	"9999999999", strings.Repeat("9", 400), "0." + strings.Repeat("0", 400) + "1", strings.Repeat("1", 310) + ".5",
	"1e", "e1", ".", "-", "+", "1_0", "0x", "１", "1e+", "١",
}

var hostileHosts = []string{
	"", "", "foo.com", "Foo.COM", "*.foo.com", "[", "a[b", "[a-]", "[a-z", "[!a]", "[^a]", "[]", "[]]", "{", "{a,b", "{a,b}", "{a,{b,c}}",
	"}", "\\", "a\\", "\\*", "*", "**", "***", "?", "*?*", "a*b?c", "*.", ".*", "[a-z]*.com", "{foo,bar}.com:8080",
	"foo.com:80", "foo.com:443", "foo.com:", ":", "::", "[::1]", "[::1]:80", "[::1", "::1]", "a:b:c", ":80", ":0", ":99999",
	"x" + strings.Repeat("y", 300), strings.Repeat("*", 40), strings.Repeat("{a,", 20), strings.Repeat("[", 30), "é.com", "ß.de", " ", "a\x00b", "\x00",
	"%zz", "a%20b", "foo.com.", "-", "..",
}

var hostilePaths = []string{
	"/", "/", "/foo", "/[", "/a[b", "/[a-]", "/[!a]", "/[]", "/{", "/{a,b", "/{a,b}", "/}", "/\\", "/a\\", "/*", "/**", "/?", "/*/", "/**/x",
	"/" + strings.Repeat("*", 30), "/" + strings.Repeat("{a,", 15), "/" + strings.Repeat("a", 500), "/%zz", "/%2F", "/é", "/\x00", "/a\x00b",
	"//", "/./", "/../", "/#", "/?q", "/$path", "/foo/",
}

var hostileURLs = []string{
	"http://a:1/", "http://a:1", "https://b:2/x", "tcp://c:3", "http://[::1]:4/", "http://[::1", "http://::1]:4/", "http://a]:1/", "http://[a:1/",
	"http://%zz/", "http://a:1/%zz", "http://a:1/%", "://a", ":", "::", "//", "///", "http://", "http:", "http:/a", "a", "/", "?", "#",
	"http://a:b/", "http://a:99999/", "http://a:-1/", "http://[fe80::1%25en0]:1/", "http://[fe80::1%en0]:1/", "http://user:pass@a:1/", "http://user:p%zz@a/",
	"h\x7fttp://a/", "http://a:1/\x7f", "http://a:1/\x00", "1http://a/", "http://a:1/?q=%zz", "http://a:1/#%zz", "mailto:x@y", "http://a:1/$path",
	"https://red.example/$path", "http://" + strings.Repeat("a", 300) + ":1/", "unix:///tmp/sock", "http://[::ffff:1.2.3.4]:80/",
}

var hostileOpts = []string{
	"strip=/foo", "strip=", "strip", "prepend=/x", "host=dst", "host=", "proto=https", "proto=tcp", "proto=grpc", "proto=", "tlsskipverify=true", "tlsskipverify=x",
	"redirect=301", "redirect=999999999999999999999", "redirect=abc", "redirect=-1", "redirect=0", "redirect=299", "redirect=400", "redirect=", "pxyproto=true", "pxyproto=1",
	"allow=ip:1.2.3.4", "allow=ip:1.2.3.4/99", "allow=ip:zzz", "allow=ip:", "allow=", "allow=foo:bar", "deny=ip:::1/200", "deny=ip:10.0.0.0/8,ip:fe80::/10", "allow=ip:1.2.3.4 deny=ip:1.2.3.4",
	"auth=basic", "auth=", "register=x", "register=", "a=b=c", "=", "=x", "x=", "==", "\x00=\x00", "k=\"", "é=ü",
}

var hostileTags = []string{"a", "b", "a,b", "", ",", ",,", " a , b ", "\\", "a\\,b", "é", "\x00", strings.Repeat("t", 300), "a b", "'"}

var hostileServices = []string{"svc-a", "svc-b", "s", "é", "\x00", "a\x00", strings.Repeat("s", 300), "weight", "tags", "opts", "route", "\\", "\"", "a\"b"}

type hostileGen struct{ r *hx.Rand }

func (g hostileGen) pick(pool, plain []string, hostilePct int) string {
	if g.r.Intn(100) < hostilePct {
		return g.r.Pick(pool)
	}
	return g.r.Pick(plain)
}

var plainHosts = []string{"", "", "foo.com", "bar.com", "*.foo.com"}
var plainPaths = []string{"/", "/foo", "/foo/bar", "/bar"}
var plainURLs = []string{"http://a:1/", "http://b:2/", "https://c:3/x", "http://d:4/"}
var plainWeights = []string{"", "", "0.1", "0.5", "1"}

func (g hostileGen) src(pct int) string {
	h := g.pick(hostileHosts, plainHosts, pct)
	if strings.HasPrefix(h, ":") && g.r.Chance(2, 3) {
		return h
	}
	return h + g.pick(hostilePaths, plainPaths, pct)
}

// line renders one hostile command; pct = share of hostile picks per field.
func (g hostileGen) line(pct int, have []string) string {
	r := g.r
	var b strings.Builder
	k := r.Intn(10)
	switch {
	case k < 7 || len(have) == 0:
		b.WriteString("route add " + g.pick(hostileServices, []string{"svc-a", "svc-b", "svc-c"}, pct/2) + " " + g.src(pct) + " " + g.pick(hostileURLs, plainURLs, pct))
		if w := g.pick(hostileWeights, plainWeights, pct); w != "" {
			b.WriteString(" weight " + w)
		}
		if r.Chance(1, 3) {
			b.WriteString(` tags "` + g.pick(hostileTags, []string{"a", "b", "a,b"}, pct) + `"`)
		}
		if r.Chance(1, 2) {
			n := 1 + r.Intn(3)
			var os []string
			for i := 0; i < n; i++ {
				os = append(os, g.pick(hostileOpts, []string{"strip=/foo", "proto=https", "host=dst"}, pct+20))
			}
			b.WriteString(` opts "` + strings.Join(os, " ") + `"`)
		}
	case k < 8:
		// aim at a route AND a service that exist most of the time: the three-argument form only reaches the
		// target comparison (and whatever the dst went through before it) for a target of that service
		svc := r.Pick([]string{"svc-a", "svc-b", "svc-c"})
		s := g.src(pct)
		if len(have) > 0 && r.Chance(2, 3) {
			h := r.Pick(have)
			if i := strings.IndexByte(h, '\x01'); i >= 0 {
				svc, s = h[:i], h[i+1:]
			}
		}
		b.WriteString("route del " + svc)
		if r.Chance(2, 3) {
			b.WriteString(" " + s)
			if r.Chance(2, 3) {
				hp := pct
				if hp < 50 {
					hp = 50
				}
				b.WriteString(" " + g.pick(hostileURLs, plainURLs, hp))
			}
		} else if r.Chance(1, 2) {
			b.WriteString(` tags "` + g.pick(hostileTags, []string{"a", "b"}, pct) + `"`)
		}
	default:
		s := g.src(pct)
		svc := r.Pick([]string{"svc-a", "svc-b", "svc-c"})
		if len(have) > 0 && r.Chance(4, 5) {
			h := r.Pick(have)
			if i := strings.IndexByte(h, '\x01'); i >= 0 {
				svc, s = h[:i], h[i+1:]
			}
		}
		b.WriteString("route weight ")
		if r.Chance(2, 3) {
			b.WriteString(svc + " ")
		}
		b.WriteString(s + " weight " + g.pick(hostileWeights, []string{"0.1", "0.5", "1", "0"}, pct+30))
		if r.Chance(1, 3) {
			b.WriteString(` tags "` + g.pick(hostileTags, []string{"a", "b"}, pct) + `"`)
		}
	}
	return b.String()
}

// srcOf extracts "<service>\x01<src>" of a "route add" line (for later del/weight commands to aim at).
func srcOf(line string) string {
	f := strings.Fields(line)
	if len(f) >= 5 && f[0] == "route" && f[1] == "add" {
		return f[2] + "\x01" + f[3]
	}
	return ""
}

// text renders a hostile configuration text of n commands.
func (g hostileGen) text(n, pct int) string {
	var ls, have []string
	for i := 0; i < n; i++ {
		l := g.line(pct, have)
		if s := srcOf(l); s != "" {
			have = append(have, s)
		}
		ls = append(ls, l)
	}
	sep := "\n"
	if g.r.Chance(1, 10) {
		sep = "\r\n"
	}
	return strings.Join(ls, sep)
}

// mangleBytes sprinkles NUL bytes / invalid UTF-8 / control bytes into a text.
func (g hostileGen) mangleBytes(s string) string {
	b := []byte(s)
	n := 1 + g.r.Intn(3)
	for i := 0; i < n && len(b) > 0; i++ {
		p := g.r.Intn(len(b))
		ins := g.r.Pick([]string{"\x00", "\xff", "\xc3", "\xe2\x82", "\xf0\x9f", "\xed\xa0\x80", "\x7f", "\x1b", "\x0b", " ", "\ufeff", "\xc0\xaf"})
		b = append(b[:p], append([]byte(ins), b[p:]...)...)
	}
	return string(b)
}
