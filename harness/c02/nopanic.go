package main

import (
	"crypto/tls"
	"encoding/json"
	"fmt"
	"io"
	"log"
	"net/http"
	"net/url"
	"runtime/debug"
	"sort"
	"strings"
	"time"
	"unicode/utf8"

	"github.com/fabiolb/fabio/route"
	"verif/harness/hx"
)

// c02.nopanic — hostile configuration texts and hostile custom-backend documents → the real NewTable /
// NewTableCustom under recover (outcome ∈ {table, error, panic}); every table that builds is then USED: rendered
// (String, Dump) and hit with lookups over several hosts and paths with all three matchers, both pickers, glob
// cache on and off, trace on and off, plain and TLS. Any panic is the failing observable; the text is the replay.

type amp struct {
	// Targets > 0: the harness prepends that many `route add` lines to one route (Src), weights drawn from W
	Targets int      `json:"targets,omitempty"`
	Src     string   `json:"src,omitempty"`
	W       []string `json:"w,omitempty"`
	// Long > 0: a line of that many bytes (comment, or a route add with a long service name when LongCmd) is
	// inserted before line LongAt
	Long    int  `json:"long,omitempty"`
	LongAt  int  `json:"longAt,omitempty"`
	LongCmd bool `json:"longCmd,omitempty"`
	// Pad > 0: that many comment lines (padLine) are appended: a text of several KB whose table is that of the
	// short text (what is left unread in a buffer after an early error is then a sizeable piece of text)
	Pad int `json:"pad,omitempty"`
	// Pre > 0: that many comment lines are put IN FRONT of the text (an error then sits in a late chunk)
	Pre int `json:"pre,omitempty"`
}

const padLine = "# pad pad pad pad pad pad pad pad pad pad pad pad pad pad pad pad"

// expandLines applies Long/LongAt/LongCmd and Pad to a text (the Lean driver does the same: `ampText`).
func (a *amp) expandLines(s string) string {
	if a.Long > 0 {
		n := a.Long
		if n > 1<<21 {
			n = 1 << 21
		}
		long := "#" + strings.Repeat("x", n-1)
		if a.LongCmd {
			long = "route add " + strings.Repeat("s", n) + " /long http://a:1/"
		}
		ls := strings.Split(s, "\n")
		at := a.LongAt
		if at < 0 {
			at = 0
		}
		if at > len(ls) {
			at = len(ls)
		}
		out := append([]string{}, ls[:at]...)
		out = append(out, long)
		out = append(out, ls[at:]...)
		s = strings.Join(out, "\n")
	}
	if a.Pad > 0 {
		n := a.Pad
		if n > 4096 {
			n = 4096
		}
		s += strings.Repeat("\n"+padLine, n)
	}
	if a.Pre > 0 {
		n := a.Pre
		if n > 4096 {
			n = 4096
		}
		s = strings.Repeat(padLine+"\n", n) + s
	}
	return s
}

type nopanicIn struct {
	Kind string `json:"kind"` // text | json
	payload
	Amp *amp `json:"amp,omitempty"`
}

func (in *nopanicIn) full() string {
	s := in.String()
	if in.Amp == nil {
		return s
	}
	a := in.Amp
	var b strings.Builder
	n := a.Targets
	if n > 20000 {
		n = 20000
	}
	for i := 0; i < n; i++ {
		w := ""
		if len(a.W) > 0 {
			w = a.W[i%len(a.W)]
		}
		fmt.Fprintf(&b, "route add svc-%d %s http://t%d.example:%d/", i, a.Src, i, 1000+i%50000)
		if w != "" {
			b.WriteString(" weight " + w)
		}
		b.WriteString("\n")
	}
	b.WriteString(s)
	s = b.String()
	s = a.expandLines(s)
	return s
}

var lookupHosts = []string{"", "foo.com", "FOO.com", "x.foo.com", "foo.com:80", "foo.com:443", "foo.com:8080", "bar.com", "nomatch.example", "[", "a[b", "*", "{", "\\", "[::1]:80", "[::1]", ":80", ":", "é.com", "a\x00b", "foo.com.", strings.Repeat("a", 300)}
var lookupPaths = []string{"/", "", "/foo", "/foo/bar", "/FOO", "/[", "/a[b", "/{a,b}", "/*", "/x/y/z", "/%zz", "/\x00", "//", "/long", "foo", strings.Repeat("/a", 200)}

// useTable renders the table and hits it with lookups; returns the number of lookups and the first panic.
func useTable(t route.Table, r *hx.Rand) (n int, panicText string) {
	try := func(what string, f func()) {
		if panicText != "" {
			return
		}
		defer func() {
			if p := recover(); p != nil {
				panicText = what + ": " + fmt.Sprint(p)
			}
		}()
		f()
	}
	try("Table.String", func() { _ = t.String() })
	try("Table.Dump", func() { _ = t.Dump() })
	// hosts and paths of the table itself (exact, upper-cased, with ports, extended) plus fixed hostile ones
	hosts := append([]string{}, lookupHosts...)
	paths := append([]string{}, lookupPaths...)
	hk := make([]string, 0, len(t))
	for h := range t {
		hk = append(hk, h)
	}
	sort.Strings(hk)
	for i, h := range hk {
		if i >= 6 {
			break
		}
		hosts = append(hosts, h, strings.ToUpper(h), h+":80", "x"+strings.TrimPrefix(h, "*"), literalPrefix(h))
		for j, rt := range t[h] {
			if j >= 4 {
				break
			}
			paths = append(paths, rt.Path, rt.Path+"/more", strings.ToUpper(rt.Path), literalPrefix(rt.Path))
		}
	}
	gc := route.NewGlobCache(8)
	matchers := []string{"prefix", "glob", "iprefix"}
	pickers := []string{"rr", "rnd"}
	k := 0
	for _, h := range hosts {
		for _, p := range paths {
			k++
			// every combination is too many: a deterministic third of them, all for small tables
			if len(hosts)*len(paths) > 600 && (k+r.Intn(3))%3 != 0 {
				continue
			}
			m := matchers[k%3]
			pk := pickers[(k/3)%2]
			req := &http.Request{Host: h, URL: &url.URL{Path: p}, Header: http.Header{}}
			if k%5 == 0 {
				req.TLS = &tls.ConnectionState{}
			}
			if k%7 == 0 {
				req.Header.Set("X-Forwarded-Proto", "https")
			}
			// what the redirect / strip / $path code of a matched target gets to see besides the path
			if k%9 == 0 {
				req.URL.RawQuery = []string{"a=b", "a=b&c=%zz", "%", "q=http://x/$path", ""}[k%5]
			}
			if k%17 == 0 {
				req.URL.RawPath = []string{"/%2F", "/%zz", p + "%2f"}[k%3]
			}
			if k%19 == 0 {
				req.RequestURI = "*"
				req.Method = "OPTIONS"
			}
			trace := ""
			if k%11 == 0 {
				trace = "abcdefghijklmnopqrstuvwxyz"[:k%27]
			}
			globDisabled := k%4 == 0
			try(fmt.Sprintf("Lookup(host=%q path=%q matcher=%s picker=%s globDisabled=%v)", h, p, m, pk, globDisabled), func() {
				tg := t.Lookup(req, trace, route.Picker[pk], route.Matcher[m], gc, globDisabled)
				n++
				if tg != nil && tg.URL == nil {
					panic("target without URL")
				}
			})
			if k%13 == 0 {
				try(fmt.Sprintf("LookupHost(%q)", h), func() { _ = t.LookupHost(h, route.Picker[pk]); n++ })
			}
			if panicText != "" {
				return
			}
		}
	}
	return
}

// literalPrefix is the part of a pattern before its first glob metacharacter: the input on which gobwas/glob's
// matcher for a malformed group ("foo{", "foo{}") panicked (D33).
func literalPrefix(p string) string {
	if i := strings.IndexAny(p, "*?[{\\"); i >= 0 {
		return p[:i]
	}
	return p
}

type skelRoute struct {
	Host    string     `json:"host"`
	Path    string     `json:"path"`
	Targets [][]string `json:"targets"` // service, url
}

func skeleton(t route.Table) []skelRoute {
	out := []skelRoute{}
	for _, h := range route.VerifDump(t, false) {
		for _, r := range h.Routes {
			s := skelRoute{Host: r.Host, Path: r.Path, Targets: [][]string{}}
			for _, tg := range r.Targets {
				s.Targets = append(s.Targets, []string{tg.Service, tg.URL})
			}
			out = append(out, s)
		}
	}
	return out
}

// buildTextWatched is buildText under a watchdog: table construction that does not return within the patience is
// reported as {"hang": true} (the goroutine cannot be stopped; it keeps spinning for the rest of this process).
func buildTextWatched(text string) (map[string]interface{}, route.Table) {
	type res struct {
		b map[string]interface{}
		t route.Table
	}
	ch := make(chan res, 1)
	go func() {
		b, t := buildText(text)
		ch <- res{b, t}
	}()
	select {
	case r := <-ch:
		return r.b, r.t
	case <-time.After(buildPatience):
		return map[string]interface{}{"hang": true}, nil
	}
}

const buildPatience = 15 * time.Second

func runNopanic(raw json.RawMessage) (interface{}, error) {
	var in nopanicIn
	if err := json.Unmarshal(raw, &in); err != nil {
		return nil, err
	}
	// the harness itself must survive a table whose construction tries to allocate without bound
	debug.SetMemoryLimit(3 << 30)
	r := hx.NewRand(uint64(len(raw)), "c02.nopanic.use")
	out := map[string]interface{}{}
	var t route.Table
	switch in.Kind {
	case "json":
		body := in.String()
		var routes *[]route.RouteDef
		if derr := json.NewDecoder(strings.NewReader(body)).Decode(&routes); derr != nil {
			out["outcome"] = "error"
			out["what"] = "decode"
			return out, nil
		}
		// what the document decoded to travels to the model of NewTableCustom (as in c02.custom), with the oracles
		if routes != nil && len(*routes) <= 64 {
			o := newOracle()
			ds := []interface{}{}
			for i := range *routes {
				d := &(*routes)[i]
				ds = append(ds, defJSON(d))
				if d.Dst != "" {
					o.addURL(d.Dst)
				}
				if d.Src != "" {
					o.addSrc(d.Src)
				}
			}
			out["defs"] = ds
			out["oracle"] = o.json()
		} else if routes == nil {
			out["nullDoc"] = true
		}
		func() {
			defer func() {
				if p := recover(); p != nil {
					out["outcome"] = "panic"
					out["panicText"] = fmt.Sprint(p)
				}
			}()
			tt, err := route.NewTableCustom(routes)
			if err != nil {
				out["outcome"] = "error"
				out["what"] = errClass(err)
				return
			}
			t = tt
			out["outcome"] = "table"
		}()
	default:
		text := in.full()
		b, tt := buildTextWatched(text)
		switch {
		case b["hang"] != nil:
			out["outcome"] = "hang"
		case b["panic"] != nil:
			out["outcome"] = "panic"
			out["panicText"] = b["panicText"]
		case b["error"] != nil:
			out["outcome"] = "error"
			out["what"] = b["error"]
		default:
			out["outcome"] = "table"
			t = tt
			if n, ok := parsedDefs(text); ok {
				out["ndefs"] = n
			}
		}
		if in.Amp == nil && in.Hex == "" && utf8.ValidString(text) {
			o := newOracle()
			o.addText(text)
			out["oracle"] = o.json()
		}
	}
	if t != nil {
		nt := 0
		for _, rs := range t {
			for _, rt := range rs {
				nt += len(rt.Targets)
			}
		}
		out["targets"] = nt
		if nt <= 64 {
			out["skeleton"] = skeleton(t)
		}
		n, pt := useTable(t, r)
		out["lookups"] = n
		if pt != "" {
			out["usePanic"] = pt
		}
	}
	return out, nil
}

func genNopanic(r *hx.Rand, i int) interface{} {
	g := hostileGen{r}
	c := r.Intn(100)
	switch {
	case c < 55: // hostile text, a few commands
		return nopanicIn{Kind: "text", payload: mkPayload(g.text(1+r.Intn(5), 8+r.Intn(30)))}
	case c < 65: // one route, several targets, hostile weights only
		n := 2 + r.Intn(6)
		var ls []string
		for k := 0; k < n; k++ {
			l := fmt.Sprintf("route add svc-%d foo.com/x http://t%d:1/", k, k)
			if r.Chance(4, 5) {
				l += " weight " + r.Pick(hostileWeights)
			}
			ls = append(ls, l)
		}
		if r.Chance(1, 2) {
			ls = append(ls, "route weight foo.com/x weight "+r.Pick(hostileWeights)+` tags "a"`, "route weight svc-0 foo.com/x weight "+r.Pick(hostileWeights))
		}
		return nopanicIn{Kind: "text", payload: mkPayload(strings.Join(ls, "\n"))}
	case c < 75: // bytes: NUL, invalid UTF-8, control characters
		return nopanicIn{Kind: "text", payload: mkPayload(g.mangleBytes(g.text(1+r.Intn(4), 15)))}
	case c < 90: // custom backend documents
		if r.Chance(1, 3) {
			return nopanicIn{Kind: "json", payload: mkPayload(r.Pick(badDocs))}
		}
		return nopanicIn{Kind: "json", payload: mkPayload(hostileDoc(g, 1+r.Intn(5)))}
	case c < 96: // over-long lines
		a := &amp{Long: []int{65534, 65535, 65536, 65537, 70000, 200000, 1 << 20}[r.Intn(7)], LongAt: r.Intn(4), LongCmd: r.Chance(1, 2)}
		return nopanicIn{Kind: "text", payload: mkPayload(g.text(1+r.Intn(3), 10)), Amp: a}
	default: // 10^3 – 10^4 targets on one route
		// weighTargets re-runs for every added target and its ring fill is quadratic in the number of one-slot
		// targets, so a route with n weighted targets costs ~n^3 steps (1000: 2 s, 2000: 12 s, 10^4: hours; not a
		// crash, noted in design/C02.md): weighted routes stay at <= 1000 targets, unweighted ones go to 10^4.
		a := &amp{Src: r.Pick([]string{"/big", "foo.com/big", "*.foo.com/"})}
		switch r.Intn(4) {
		case 0, 1:
			a.Targets = []int{1000, 5000, 9999, 10000, 10001}[r.Intn(5)]
		case 2:
			a.Targets = []int{300, 1000}[r.Intn(2)]
			a.W = []string{"", "0.5", "1e-9", "", "5e-324"}
		default:
			a.Targets = []int{300, 1000}[r.Intn(2)]
			a.W = []string{r.Pick(hostileWeights), "", r.Pick(hostileWeights)}
		}
		return nopanicIn{Kind: "text", payload: mkPayload(g.text(r.Intn(3), 10)), Amp: a}
	}
}

func init() {
	log.SetOutput(io.Discard) // the code under test logs every rejected option and every traced lookup
	hx.Register(&hx.Stream{Name: "c02.nopanic", Gen: genNopanic, Run: runNopanic})
}
