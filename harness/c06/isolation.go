package main

// c06.isolation — "the target, redirect location and access decision computed for a request depend only on that
// request and the active table", sequentially and for the whole lookup: a sequence of requests of every kind (glob
// hosts, literal hosts with and without port, upper case, unknown hosts falling through to the catch-all, redirect
// routes, targets with access rules, multi-target routes under rr and rnd) is answered by ONE shared table with
// ONE shared glob cache (smaller than the number of host patterns, so entries are evicted between requests); next
// to every answer the harness records what the SAME request gets from a freshly built table with a fresh cache that
// has seen nothing else. The two must be equal in everything but the load-balancing choice: service, route, status
// of the access gate, redirect code and Location — and the chosen target itself when the route has one target.

import (
	"encoding/json"
	"errors"
	"fmt"
	"strings"

	"github.com/fabiolb/fabio/route"
	"verif/harness/hx"
)

var isoHosts = []string{"x.a.example", "y.a.example", "X.A.Example", "x.b.example", "deep.x.b.example", "x.c.example",
	"x.d.example", "lit.example", "lit.example:80", "LIT.example", "other.org", "a.example", "x.a.example:8080"}
var isoPaths = []string{"/", "/api", "/api/v1", "/red", "/red/x", "/acc", "/rr", "/rr/y", "/API"}

func isoTableText() string {
	var b strings.Builder
	for _, l := range []string{"a", "b", "c", "d"} {
		fmt.Fprintf(&b, "route add svc-%s *.%s.example/ http://%s1:80/\n", l, l, l)
		fmt.Fprintf(&b, "route add api-%s *.%s.example/api http://%sapi:80/\n", l, l, l)
	}
	b.WriteString("route add lit lit.example/ http://lit1:80/\n")
	b.WriteString("route add lit-api lit.example/api http://lit2:80/\n")
	b.WriteString("route add port lit.example:80/ http://lit3:80/\n")
	b.WriteString("route add all / http://all1:80/\n")
	b.WriteString(`route add red /red https://$host$path opts "redirect=302"` + "\n")
	b.WriteString(`route add red-a *.a.example/red https://to.example/$path opts "redirect=301"` + "\n")
	b.WriteString(`route add acc /acc http://acc1:80/ opts "allow=ip:10.0.0.0/8,ip:192.168.0.0/16"` + "\n")
	for _, j := range []int{2, 3, 1} {
		fmt.Fprintf(&b, "route add rr /rr http://rr%d:80/\n", j)
	}
	return b.String()
}

type isoReq struct {
	Host   int `json:"host"`
	Path   int `json:"path"`
	Remote int `json:"remote"` // index into accAddrPool
}

type isoIn struct {
	Cache   int      `json:"cache"`
	GlobOff bool     `json:"globoff"`
	Rnd     bool     `json:"rnd"`
	Reqs    []isoReq `json:"reqs"`
}

type isoAns struct {
	Service  string `json:"service"`
	Target   string `json:"target"` // URL of the target when its route has exactly one, "" otherwise
	Denied   bool   `json:"denied"`
	Code     int    `json:"code"`
	Location string `json:"location"`
}

type isoPair struct {
	Got   isoAns `json:"got"`
	Alone isoAns `json:"alone"`
}

func isoGen(r *hx.Rand, i int) interface{} {
	in := isoIn{Cache: 1 + r.Intn(5), GlobOff: r.Chance(1, 8), Rnd: r.Chance(1, 4)}
	n := 2 + r.Intn(10)
	for j := 0; j < n; j++ {
		if j > 0 && r.Chance(1, 5) {
			in.Reqs = append(in.Reqs, in.Reqs[r.Intn(len(in.Reqs))])
			continue
		}
		in.Reqs = append(in.Reqs, isoReq{Host: r.Intn(len(isoHosts)), Path: r.Intn(len(isoPaths)), Remote: r.Intn(len(accAddrPool))})
	}
	return in
}

type isoSide struct {
	t     route.Table
	cache *route.GlobCache
}

func isoAnswer(s isoSide, in *isoIn, q isoReq) isoAns {
	pick := route.Picker["rr"]
	if in.Rnd {
		pick = route.Picker["rnd"]
	}
	req := accReq{Remote: q.Remote}.build(isoHosts[q.Host], isoPaths[q.Path])
	tg := s.t.Lookup(req, "", pick, route.Matcher["prefix"], s.cache, in.GlobOff)
	if tg == nil {
		return isoAns{}
	}
	a := isoAns{Service: tg.Service, Denied: tg.AccessDeniedHTTP(req), Code: tg.RedirectCode}
	if tg.RedirectURL != nil {
		a.Location = tg.RedirectURL.String()
	}
	single := true
	for _, rs := range s.t {
		for _, r := range rs {
			for _, x := range r.Targets {
				if x.Service == tg.Service && len(r.Targets) > 1 {
					single = false
				}
			}
		}
	}
	if single {
		a.Target = tg.URL.String()
	}
	return a
}

func isoRun(raw json.RawMessage) (interface{}, error) {
	var in isoIn
	if err := json.Unmarshal(raw, &in); err != nil {
		return nil, err
	}
	if in.Cache < 1 || in.Cache > 16 || len(in.Reqs) > 64 {
		return nil, errors.New("out of range")
	}
	mk := func() (isoSide, error) {
		t, err := route.VerifNewTable(isoTableText())
		return isoSide{t, route.NewGlobCache(in.Cache)}, err
	}
	shared, err := mk()
	if err != nil {
		return nil, err
	}
	out := []isoPair{}
	for _, q := range in.Reqs {
		if q.Host < 0 || q.Host >= len(isoHosts) || q.Path < 0 || q.Path >= len(isoPaths) || q.Remote < 0 || q.Remote >= len(accAddrPool) {
			return nil, errors.New("request out of range")
		}
		alone, err := mk()
		if err != nil {
			return nil, err
		}
		out = append(out, isoPair{Got: isoAnswer(shared, &in, q), Alone: isoAnswer(alone, &in, q)})
	}
	return out, nil
}

func init() {
	hx.Register(&hx.Stream{Name: "c06.isolation", Gen: isoGen, Run: isoRun, Corpus: []interface{}{
		isoIn{Cache: 1, Reqs: []isoReq{{0, 0, 0}, {3, 1, 0}, {0, 0, 0}, {7, 1, 6}, {10, 5, 6}, {0, 3, 0}}},
		isoIn{Cache: 2, Rnd: true, Reqs: []isoReq{{5, 6, 0}, {6, 6, 0}, {10, 3, 0}, {2, 4, 0}}},
	}})
}
