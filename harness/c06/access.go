package main

// Access decisions for C06: "the … access decision computed for a request depend[s] only on that request and the
// active table".
//
//   c06.access       sequential: request sequences (remote address, X-Forwarded-For lines) against ONE shared
//                    target carrying allow / deny rules, through Table.Lookup + HTTPProxy.ServeHTTP; next to every
//                    answer what the SAME request gets from a freshly built table that has seen nothing else
//                    (isolation oracle). The Lean model (Model/C06Access.lean) computes the decision from the
//                    rule blocks and the addresses (numeric forms shipped with the case).
//   c06.access-race  (stress.go, kindAccess) G goroutines × L requests from clients in different networks on the
//                    shared targets of one table; per (route, client, xff) class the number of requests and of
//                    403 answers; judged in Lean by the same model.
//
// Rules and addresses come from small pools so that the blocks overlap and the same client meets allow lists,
// deny lists, single blocks, catch-all blocks, IPv6, and rule texts that do not parse (→ deny everybody).

import (
	"encoding/json"
	"errors"
	"math/big"
	"net"
	"net/http"
	"net/http/httptest"
	"strings"

	"github.com/fabiolb/fabio/route"
	"verif/harness/hx"
)

var accBlockPool = []string{"10.0.0.0/8", "172.16.0.0/12", "192.168.0.0/16", "203.0.113.7", "0.0.0.0/0",
	"2001:db8::/32", "10.1.2.0/24", "::/0", "198.51.100.0/25", "fe80::/10", "::ffff:10.0.0.0/104", "2001:DB8::/48"}

// addresses as they appear in RemoteAddr / X-Forwarded-For (canonical spellings; "bogus" does not parse; the zone
// of a link-local address is ignored by fabio)
var accAddrPool = []string{"10.1.2.3", "10.200.0.1", "172.16.5.5", "172.32.0.1", "192.168.1.1", "203.0.113.7",
	"198.51.100.9", "2001:db8::1", "2001:db9::1", "198.51.100.200", "bogus", "fe80::1%eth0",
	// other spellings of addresses above (upper case, IPv4-mapped), the empty string
	"2001:DB8::1", "::ffff:10.1.2.3", "", "2001:db8:1::1"}

type accNum struct {
	Bits int             `json:"bits"` // 32 / 128; 0 = does not parse
	Val  json.RawMessage `json:"val"`
	Plen int             `json:"plen"`
}

func accNumOfIP(ip net.IP, plen int) accNum {
	if ip == nil {
		return accNum{Val: json.RawMessage("0")}
	}
	bits := 128
	if v4 := ip.To4(); v4 != nil {
		ip, bits = v4, 32
	}
	if plen < 0 {
		plen = bits
	}
	return accNum{Bits: bits, Val: json.RawMessage(new(big.Int).SetBytes(ip).String()), Plen: plen}
}

func accBlockNum(s string) accNum {
	if !strings.Contains(s, "/") {
		return accNumOfIP(net.ParseIP(s), -1)
	}
	_, n, err := net.ParseCIDR(s)
	if err != nil {
		return accNum{Val: json.RawMessage("0")}
	}
	ones, size := n.Mask.Size()
	if n.IP.To4() != nil && size == 128 && ones >= 96 {
		ones -= 96 // an IPv4-mapped block: net.IPNet.Contains compares the 4-byte forms
	}
	return accNumOfIP(n.IP, ones)
}

func accAddrNum(s string) accNum {
	if i := strings.IndexByte(s, '%'); i >= 0 {
		s = s[:i]
	}
	return accNumOfIP(net.ParseIP(s), -1)
}

func accPools() map[string]interface{} {
	bs := []accNum{}
	for _, b := range accBlockPool {
		bs = append(bs, accBlockNum(b))
	}
	as := []accNum{}
	for _, a := range accAddrPool {
		as = append(as, accAddrNum(a))
	}
	return map[string]interface{}{"blocks": bs, "addrs": as}
}

// rule kinds: 0 none, 1 allow, 2 deny, 3 allow AND deny on one route (rejected: deny everybody),
// 4 allow with an item that does not parse (deny everybody), 5 deny with an item that does not parse
type accRules struct {
	Kind   int   `json:"kind"`
	Blocks []int `json:"blocks"`
}

func (r accRules) opts() (string, error) {
	var items []string
	for _, b := range r.Blocks {
		if b < 0 || b >= len(accBlockPool) {
			return "", errors.New("block out of range")
		}
		items = append(items, "ip:"+accBlockPool[b])
	}
	list := strings.Join(items, ",")
	switch r.Kind {
	case 0:
		return "", nil
	case 1, 2:
		if list == "" {
			return "", errors.New("empty rule list") // `allow=` is the same as no option
		}
		return []string{"", "allow=", "deny="}[r.Kind] + list, nil
	case 3:
		if list == "" {
			return "", errors.New("empty rule list")
		}
		return "allow=" + list + " deny=" + list, nil
	case 4, 5:
		if list != "" {
			list += ","
		}
		return []string{"allow=", "deny="}[r.Kind-4] + list + "ip:not-an-address", nil
	}
	return "", errors.New("rule kind out of range")
}

type accReq struct {
	Remote int   `json:"remote"` // index into accAddrPool
	NoPort bool  `json:"noport"` // RemoteAddr without a port (SplitHostPort fails)
	XFF    []int `json:"xff"`    // X-Forwarded-For elements
	Lines  int   `json:"lines"`  // > 1: the elements are spread over this many header lines
}

func (q accReq) check() error {
	if q.Remote < 0 || q.Remote >= len(accAddrPool) || len(q.XFF) > 8 || q.Lines < 0 || q.Lines > 4 {
		return errors.New("request out of range")
	}
	for _, x := range q.XFF {
		if x < 0 || x >= len(accAddrPool) {
			return errors.New("xff out of range")
		}
	}
	return nil
}

func (q accReq) build(host, path string) *http.Request {
	req := newRequest(host, path)
	a := accAddrPool[q.Remote]
	if q.NoPort {
		req.RemoteAddr = a
	} else {
		req.RemoteAddr = net.JoinHostPort(a, "4567")
	}
	if len(q.XFF) > 0 {
		lines := q.Lines
		if lines < 1 {
			lines = 1
		}
		if lines > len(q.XFF) {
			lines = len(q.XFF)
		}
		per := (len(q.XFF) + lines - 1) / lines
		for i := 0; i < len(q.XFF); i += per {
			j := i + per
			if j > len(q.XFF) {
				j = len(q.XFF)
			}
			var el []string
			for _, x := range q.XFF[i:j] {
				el = append(el, accAddrPool[x])
			}
			req.Header.Add("X-Forwarded-For", strings.Join(el, ", "))
		}
	}
	return req
}

type accIn struct {
	Rules accRules `json:"rules"`
	Reqs  []accReq `json:"reqs"`
}

type accAns struct {
	Code      int `json:"code"`
	AloneCode int `json:"alone_code"`
	// the other entry points of the gate, asked about the remote address alone: Target.AccessDeniedTCP (TCP / SNI
	// proxies, on a connection) and Target.AccessDeniedAddr (gRPC), on the shared target and on a fresh one
	// the same request on a route that is NOT a redirect (Lookup hands out the shared target itself, not the
	// per-request copy of a redirect target): Table.Lookup + Target.AccessDeniedHTTP, shared table and fresh table
	Direct      bool `json:"direct"`
	AloneDirect bool `json:"alone_direct"`
	TCPDenied   bool `json:"tcp_denied"`
	AddrDenied  bool `json:"addr_denied"`
	AloneDenied bool `json:"alone_denied"`
}

type fakeConn struct {
	net.Conn
	ra net.Addr
}

func (c fakeConn) RemoteAddr() net.Addr { return c.ra }

func (q accReq) tcpAddr() net.Addr {
	a := accAddrPool[q.Remote]
	if i := strings.IndexByte(a, '%'); i >= 0 {
		a = a[:i]
	}
	return &net.TCPAddr{IP: net.ParseIP(a), Port: 4567} // IP == nil for text that does not parse
}

func accGenRules(r *hx.Rand) accRules {
	ru := accRules{Kind: []int{1, 1, 1, 2, 2, 2, 0, 3, 4, 5}[r.Intn(10)]}
	n := 1 + r.Intn(4)
	if ru.Kind >= 4 && r.Chance(1, 2) {
		n = 0
	}
	for j := 0; j < n; j++ {
		ru.Blocks = append(ru.Blocks, r.Intn(len(accBlockPool)))
	}
	return ru
}

func accGenReq(r *hx.Rand) accReq {
	q := accReq{Remote: r.Intn(len(accAddrPool))}
	if r.Chance(1, 25) {
		q.NoPort = true
	}
	if r.Chance(1, 3) {
		n := 1 + r.Intn(3)
		for j := 0; j < n; j++ {
			if r.Chance(1, 4) {
				q.XFF = append(q.XFF, q.Remote) // the client's own address: skipped by the code
			} else {
				q.XFF = append(q.XFF, r.Intn(len(accAddrPool)))
			}
		}
		q.Lines = 1 + r.Intn(2)
	}
	return q
}

func accGen(r *hx.Rand, i int) interface{} {
	in := accIn{Rules: accGenRules(r)}
	n := 2 + r.Intn(8)
	for j := 0; j < n; j++ {
		if j > 0 && r.Chance(1, 6) {
			in.Reqs = append(in.Reqs, in.Reqs[r.Intn(len(in.Reqs))])
		} else {
			in.Reqs = append(in.Reqs, accGenReq(r))
		}
	}
	return in
}

func accRun(raw json.RawMessage) (interface{}, error) {
	var in accIn
	if err := json.Unmarshal(raw, &in); err != nil {
		return nil, err
	}
	if len(in.Reqs) > 64 || len(in.Rules.Blocks) > 8 {
		return nil, errors.New("out of range")
	}
	opts, err := in.Rules.opts()
	if err != nil {
		return nil, err
	}
	def := `route add acc /acc https://to.example/ok opts "redirect=301 ` + opts + `"` + "\n" +
		`route add plain /plain http://up.example:80/ opts "` + opts + `"`
	type side struct {
		h      http.Handler
		t      route.Table
		target *route.Target
	}
	direct := func(s side, q accReq) bool {
		req := q.build("acc.example", "/plain")
		tg := s.t.Lookup(req, "", route.Picker["rr"], route.Matcher["prefix"], route.NewGlobCache(4), true)
		return tg == nil || tg.AccessDeniedHTTP(req)
	}
	mk0 := func() (side, error) {
		t, err := route.VerifNewTable(def)
		if err != nil {
			return side{}, err
		}
		rt := route.VerifC06Route(t, "", "/plain")
		if rt == nil || len(rt.Targets) != 1 || route.VerifC06Route(t, "", "/acc") == nil {
			return side{}, errors.New("route was not added")
		}
		return side{newProxy(func() route.Table { return t }, route.NewGlobCache(4), true), t, rt.Targets[0]}, nil
	}
	sharedSide, err := mk0()
	shared, sharedTarget := sharedSide.h, sharedSide.target
	if err != nil {
		return nil, err
	}
	out := []accAns{}
	for _, q := range in.Reqs {
		if err := q.check(); err != nil {
			return nil, err
		}
		var a accAns
		rec := httptest.NewRecorder()
		shared.ServeHTTP(rec, q.build("acc.example", "/acc"))
		a.Code = rec.Code
		a.Direct = direct(sharedSide, q)
		a.TCPDenied = sharedTarget.AccessDeniedTCP(fakeConn{ra: q.tcpAddr()})
		a.AddrDenied = sharedTarget.AccessDeniedAddr(q.tcpAddr())
		aloneSide, err := mk0()
		if err != nil {
			return nil, err
		}
		alone, aloneTarget := aloneSide.h, aloneSide.target
		a.AloneDirect = direct(aloneSide, q)
		rec = httptest.NewRecorder()
		alone.ServeHTTP(rec, q.build("acc.example", "/acc"))
		a.AloneCode = rec.Code
		a.AloneDenied = aloneTarget.AccessDeniedAddr(q.tcpAddr())
		out = append(out, a)
	}
	return map[string]interface{}{"pools": accPools(), "answers": out}, nil
}

// ---- the table and the request classes of the stress scenario (stress.go, kindAccess) ----

type accRoute struct {
	name  string
	rules accRules
}

var accStressRoutes = []accRoute{
	{"acc-a4", accRules{Kind: 1, Blocks: []int{0, 1, 2, 3}}},
	{"acc-d4", accRules{Kind: 2, Blocks: []int{0, 1, 2, 5}}},
	{"acc-a6", accRules{Kind: 1, Blocks: []int{5, 8, 6, 2, 3, 9}}},
	{"acc-a1", accRules{Kind: 1, Blocks: []int{6}}},
	{"acc-n", accRules{Kind: 0}},
}

// (remote, xff) classes: clients of every block of the lists above, clients outside all of them, with and
// without forwarded addresses
var accStressClients = []accReq{
	{Remote: 0}, {Remote: 1}, {Remote: 2}, {Remote: 3}, {Remote: 4}, {Remote: 5}, {Remote: 6}, {Remote: 7}, {Remote: 8}, {Remote: 9},
	{Remote: 0, XFF: []int{4}, Lines: 1}, {Remote: 4, XFF: []int{6, 0}, Lines: 2}, {Remote: 5, XFF: []int{5, 2}, Lines: 1},
	{Remote: 7, XFF: []int{8}, Lines: 1}, {Remote: 11}, {Remote: 2, XFF: []int{10, 4}, Lines: 1},
}

func accStressTableText() string {
	var b strings.Builder
	for _, r := range accStressRoutes {
		o, _ := r.rules.opts()
		b.WriteString("route add " + r.name + " /" + r.name + " https://to.example/" + r.name + ` opts "redirect=301 ` + o + `"` + "\n")
		// the twin that is not a redirect: Lookup hands out the shared target itself
		b.WriteString("route add " + r.name + "-p /" + r.name + "-p http://up-" + r.name + `:80/ opts "` + o + `"` + "\n")
	}
	return b.String()
}

type accClassOut struct {
	Route  int `json:"route"`
	Client int `json:"client"`
	N      int `json:"n"`
	Denied int `json:"denied"` // answered 403
	Other  int `json:"other"`  // neither 403 nor the redirect
}

func init() {
	hx.Register(&hx.Stream{Name: "c06.access", Gen: accGen, Run: accRun, Corpus: []interface{}{
		accIn{Rules: accRules{Kind: 1, Blocks: []int{0, 1, 2, 3}}, Reqs: []accReq{{Remote: 5}, {Remote: 0}, {Remote: 5}, {Remote: 6}, {Remote: 2}}},
		accIn{Rules: accRules{Kind: 2, Blocks: []int{0, 5}}, Reqs: []accReq{{Remote: 7}, {Remote: 6, XFF: []int{0}, Lines: 1}, {Remote: 6}}},
		accIn{Rules: accRules{Kind: 4}, Reqs: []accReq{{Remote: 0}, {Remote: 10}}},
	}})
}
