package main

// Race-detector stress streams for C06 (checks/C06.json marks them "race": true, so the orchestrator runs
// them from the -race binary).  One case = one scenario: G goroutines × L lookups on ONE shared table /
// glob cache, optionally while another goroutine keeps replacing the active table (route.SetTable).
// The scenario itself runs in a CHILD process of this binary (stream c06.child), so that a crash of the
// real code ("fatal error: concurrent map writes", an unrecovered panic) and the race detector's report on
// stderr become observables of the case instead of the end of the run.
//
// Reported per case: per-goroutine expected-vs-actual mismatches (target / Location), per-route pick
// counts with ring and cursor (the driver compares them with the exact share), the cache internals after
// the run, recovered panics, whether the race detector fired and in which functions.

import (
	"bytes"
	"encoding/json"
	"errors"
	"fmt"
	"net/http"
	"net/http/httptest"
	"net/url"
	"os"
	"os/exec"
	"reflect"
	"regexp"
	"sort"
	"strings"
	"sync"
	"sync/atomic"
	"time"

	"github.com/fabiolb/fabio/admin/api"
	"github.com/fabiolb/fabio/route"
	"verif/harness/hx"
)

// dumpSink keeps the readers' results alive (nothing is optimised away)
var dumpSink atomic.Value

// (l first: the orchestrator's shrinker tries the fields in this order, and halving l makes every later
// candidate cheap)
type stressIn struct {
	L     int `json:"l"`     // lookups per goroutine
	G     int `json:"g"`     // goroutines
	Kind  int `json:"kind"`  // 0 rr (literal host, glob matching off)  1 glob  2 redirect (literal host)  3 mixed (rr + glob)
	Cache int `json:"cache"` // glob cache size
	Swap  int `json:"swap"`  // tables the replacer goroutine cycles through (0/1 = no replacement)
	Seed  int `json:"seed"`
	Rnd   int `json:"rnd"` // 0: picker rr   1: picker rnd (fabio's default strategy)
	// 1: next to the lookups a goroutine does what the rest of fabio does with a PUBLISHED table: main.go logs
	// t.Dump() right after route.SetTable(t) (log.routes.format=detail), the admin API prints
	// route.GetTable().String() and lists the routes as JSON
	Reader int `json:"reader"`
}

const (
	kindRR = iota
	kindGlob
	kindRedirect
	kindMixed
	kindAccess // requests from clients in different networks on targets with allow / deny rules (access.go)
)

var stressLetters = []string{"a", "b", "c", "d", "e", "f", "g", "h"}

func stressTableText() string {
	var b strings.Builder
	for _, l := range stressLetters {
		fmt.Fprintf(&b, "route add svc-%s *.%s.example/ http://%s1:80/\n", l, l, l)
		for _, j := range []int{2, 3, 1} { // registration order is not address order
			fmt.Fprintf(&b, "route add rr-%s *.%s.example/rr http://%sr%d:80/\n", l, l, l, j)
		}
		fmt.Fprintf(&b, "route add rw-%s *.%s.example/rw http://%sw1:80/ weight 0.25\n", l, l, l)
		fmt.Fprintf(&b, "route add rw-%s *.%s.example/rw http://%sw2:80/\n", l, l, l)
	}
	for _, j := range []int{3, 1, 2} {
		fmt.Fprintf(&b, "route add rr rr.example/rr http://r%d:80/\n", j)
	}
	for _, j := range []int{2, 1, 3} { // what LookupHost finds for the host: three targets behind "/"
		fmt.Fprintf(&b, "route add tcp rr.example/ http://t%d:80/\n", j)
	}
	b.WriteString("route add rw rr.example/rw http://w1:80/ weight 0.25\n")
	b.WriteString("route add rw rr.example/rw http://w2:80/\n")
	b.WriteString("route add rw rr.example/rw http://w3:80/\n")
	// a target that must never be chosen: the other one holds 100% of the traffic
	b.WriteString("route add rz rr.example/rz http://z1:80/ weight 1\n")
	b.WriteString("route add rz rr.example/rz http://z2:80/\n")
	b.WriteString(`route add red red.example/ https://to.example$path opts "redirect=301"` + "\n")
	// redirect routes of every template form, reachable from any host (no host in the route)
	b.WriteString(`route add red-p /red-p https://to.example$path opts "redirect=301"` + "\n")
	b.WriteString(`route add red-h /red-h https://$host/ opts "redirect=301"` + "\n")
	b.WriteString(`route add red-hl /red-hl https://$host/login opts "redirect=301"` + "\n")
	b.WriteString(`route add red-b /red-b https://$host$path opts "redirect=301"` + "\n")
	b.WriteString(`route add red-f /red-f https://to.example/fixed opts "redirect=301"` + "\n")
	b.WriteString(accStressTableText())
	return b.String()
}

type targetID struct{ table, route, target int }

type routeRef struct {
	name string
	r    *route.Route
}

type routeOut struct {
	Table  int    `json:"table"`
	Route  string `json:"route"`
	K      int    `json:"k"`
	Cursor uint64 `json:"cursor"`
	Ring   []int  `json:"ring"`
	Counts []int  `json:"counts"`
	Picker string `json:"picker"`
	// the ring (or the order of the targets) differs from what it was when the table was published
	RingChanged bool `json:"ring_changed"`
}

type nullWriter struct {
	h    http.Header
	code int
}

func (w *nullWriter) Header() http.Header         { return w.h }
func (w *nullWriter) Write(b []byte) (int, error) { return len(b), nil }
func (w *nullWriter) WriteHeader(c int)           { w.code = c }

func newRequest(host, path string) *http.Request {
	return &http.Request{Method: "GET", Host: host, URL: &url.URL{Path: path}, Header: http.Header{},
		Proto: "HTTP/1.1", ProtoMajor: 1, ProtoMinor: 1, RemoteAddr: "10.1.2.3:4567", RequestURI: path}
}

func tablePtr(t route.Table) uintptr { return reflect.ValueOf(t).Pointer() }

func checkStressIn(in *stressIn) error {
	if in.Kind < 0 || in.Kind > kindAccess || in.Reader < 0 || in.Reader > 1 || in.G < 1 || in.G > 64 || in.L < 1 || in.L > 2000000 || in.Cache < 1 || in.Cache > 64 || in.Swap < 0 || in.Swap > 16 || in.Rnd < 0 || in.Rnd > 1 {
		return errors.New("out of range")
	}
	return nil
}

// childRun executes one scenario in this process.
func childRun(raw json.RawMessage) (interface{}, error) {
	var in stressIn
	if err := json.Unmarshal(raw, &in); err != nil {
		return nil, err
	}
	if err := checkStressIn(&in); err != nil {
		return nil, err
	}
	nt := in.Swap
	if nt < 1 {
		nt = 1
	}
	text := stressTableText()
	tables := make([]route.Table, nt)
	tindex := map[uintptr]int{}
	ids := map[*route.Target]targetID{}
	var refs [][]routeRef
	for i := range tables {
		t, err := route.VerifNewTable(text)
		if err != nil {
			return nil, err
		}
		tables[i] = t
		tindex[tablePtr(t)] = i
		var rr []routeRef
		hosts := make([]string, 0, len(t))
		for h := range t {
			hosts = append(hosts, h)
		}
		sort.Strings(hosts)
		for _, h := range hosts {
			for _, r := range t[h] {
				for k, tg := range r.Targets {
					ids[tg] = targetID{i, len(rr), k}
				}
				rr = append(rr, routeRef{h + r.Path, r})
			}
		}
		refs = append(refs, rr)
	}
	nroutes := len(refs[0])
	route.SetTable(tables[0])
	cache := route.NewGlobCache(in.Cache)
	globOff := in.Kind == kindRR || in.Kind == kindRedirect || in.Kind == kindAccess
	pickerName := []string{"rr", "rnd"}[in.Rnd]
	pick := route.Picker[pickerName]
	match := route.Matcher["prefix"]
	px := newProxy(route.GetTable, cache, globOff, pickerName)
	// slots: which targets of a route own at least one ring slot (positive weight)
	inRing := map[targetID]bool{}
	ring0 := map[[2]int][]int{} // the ring of every route as it was when the table was built
	targets0 := map[[2]int][]*route.Target{}
	for i := range refs {
		for j, rf := range refs[i] {
			ring0[[2]int{i, j}] = route.VerifC06Ring(rf.r)
			targets0[[2]int{i, j}] = append([]*route.Target(nil), rf.r.Targets...)
			for _, k := range route.VerifC06Ring(rf.r) {
				inRing[targetID{i, j, k}] = true
			}
		}
	}
	// per goroutine, per (route, client class): requests, 403 answers, other answers
	accTally := make([][]accClassOut, in.G)

	var mismatches, panics int64
	var firstMismatch, firstPanic atomic.Value
	counts := make([][][][]int, in.G) // goroutine, table, route, target
	var wg sync.WaitGroup
	stop := make(chan struct{})
	swaps := int64(0)
	var swg sync.WaitGroup
	if nt > 1 {
		swg.Add(1)
		go func() {
			defer swg.Done()
			for i := 1; ; i++ {
				select {
				case <-stop:
					return
				default:
				}
				route.SetTable(tables[i%nt])
				if in.Reader == 1 {
					dumpSink.Store(tables[i%nt].Dump()) // main.go: route.SetTable(t); logRoutes(t, …) → t.Dump()
				}
				atomic.AddInt64(&swaps, 1)
				time.Sleep(50 * time.Microsecond)
			}
		}()
	}
	reads := int64(0)
	if in.Reader == 1 {
		swg.Add(1)
		go func() {
			defer swg.Done()
			defer func() {
				if p := recover(); p != nil {
					atomic.AddInt64(&panics, 1)
					firstPanic.CompareAndSwap(nil, fmt.Sprint("reader: ", p))
				}
			}()
			admin := &api.RoutesHandler{}
			for i := 0; ; i++ {
				select {
				case <-stop:
					return
				default:
				}
				switch i % 4 {
				case 0:
					dumpSink.Store(route.GetTable().Dump())
				case 1:
					dumpSink.Store(route.GetTable().String())
				case 2:
					rec := httptest.NewRecorder()
					admin.ServeHTTP(rec, httptest.NewRequest("GET", "/api/routes", nil))
				default:
					rec := httptest.NewRecorder()
					admin.ServeHTTP(rec, httptest.NewRequest("GET", "/api/routes?raw", nil))
				}
				atomic.AddInt64(&reads, 1)
				time.Sleep(20 * time.Microsecond)
			}
		}()
	}
	// an observer that takes the glob cache's mutex like a lookup in its slow path and looks at the cache WHILE
	// lookups are in flight: the bound of `globcache_inv` holds between any two micro-steps, not only at rest
	var inflightSamples, inflightBad, inflightMax int64
	var firstInflight atomic.Value
	if in.Kind == kindGlob || in.Kind == kindMixed {
		swg.Add(1)
		go func() {
			defer swg.Done()
			for {
				select {
				case <-stop:
					return
				default:
				}
				entries, n, size := route.VerifC06CacheCountLocked(cache)
				atomic.AddInt64(&inflightSamples, 1)
				if int64(entries) > atomic.LoadInt64(&inflightMax) {
					atomic.StoreInt64(&inflightMax, int64(entries))
				}
				if entries > size || n > size || entries != n {
					atomic.AddInt64(&inflightBad, 1)
					firstInflight.CompareAndSwap(nil, fmt.Sprintf("under the mutex: %d map entries, n = %d, size %d", entries, n, size))
				}
				time.Sleep(30 * time.Microsecond)
			}
		}()
	}
	start := make(chan struct{})
	for g := 0; g < in.G; g++ {
		accTally[g] = make([]accClassOut, len(accStressRoutes)*len(accStressClients))
		cnt := make([][][]int, nt)
		for i := range cnt {
			cnt[i] = make([][]int, nroutes)
			for j := range cnt[i] {
				cnt[i][j] = make([]int, len(refs[i][j].r.Targets))
			}
		}
		counts[g] = cnt
		wg.Add(1)
		go func(g int) {
			defer wg.Done()
			rnd := hx.NewRand(uint64(in.Seed)*977+uint64(g), "c06.stress")
			<-start
			for i := 0; i < in.L; i++ {
				func() {
					defer func() {
						if p := recover(); p != nil {
							atomic.AddInt64(&panics, 1)
							firstPanic.CompareAndSwap(nil, fmt.Sprint(p))
						}
					}()
					kind := in.Kind
					if kind == kindMixed {
						kind = rnd.Intn(2)
					}
					switch kind {
					case kindRR, kindGlob:
						var host, path, wantSvc string
						if in.Kind == kindRR {
							host = "rr.example"
							path = []string{"/rr", "/rw", "/rz", "/"}[rnd.Intn(4)]
							wantSvc = path[1:]
							if path == "/" {
								wantSvc = "tcp"
							}
						} else {
							l := stressLetters[rnd.Intn(len(stressLetters))]
							host = fmt.Sprintf("x%d.%s.example", rnd.Intn(4), l)
							if kind == kindRR {
								path = []string{"/rr", "/rw"}[rnd.Intn(2)]
								wantSvc = path[1:] + "-" + l
							} else {
								path = "/p" + l
								wantSvc = "svc-" + l
							}
						}
						req := newRequest(host, path)
						tbl := route.GetTable()
						var tg *route.Target
						switch {
						case in.Kind == kindRR && path == "/":
							// the TCP proxies' entry point (main.go: route.GetTable().LookupHost(host, pick))
							tg = tbl.LookupHost(host, pick)
						case rnd.Intn(8) == 0:
							// a traced request (main.go passes r.Header.Get("trace")): Lookup logs the hosts it matched
							req.Header.Set("trace", "t")
							tg = tbl.Lookup(req, req.Header.Get("trace"), pick, match, cache, globOff)
						default:
							tg = tbl.Lookup(req, "", pick, match, cache, globOff)
						}
						if tg == nil || tg.Service != wantSvc {
							atomic.AddInt64(&mismatches, 1)
							got := "<nil>"
							if tg != nil {
								got = tg.Service
							}
							firstMismatch.CompareAndSwap(nil, "want "+wantSvc+" got "+got)
							return
						}
						if id, ok := ids[tg]; ok {
							if id.table != tindex[tablePtr(tbl)] {
								atomic.AddInt64(&mismatches, 1)
								firstMismatch.CompareAndSwap(nil, "target of another table")
								return
							}
							if !inRing[id] {
								atomic.AddInt64(&mismatches, 1)
								firstMismatch.CompareAndSwap(nil, "picked a target without a ring slot (weight 0): "+tg.URL.String())
								return
							}
							counts[g][id.table][id.route][id.target]++
						} else {
							atomic.AddInt64(&mismatches, 1)
							firstMismatch.CompareAndSwap(nil, "target not in any table: "+tg.Service)
						}
					case kindAccess:
						ri := rnd.Intn(len(accStressRoutes))
						ci := rnd.Intn(len(accStressClients))
						c := &accTally[g][ri*len(accStressClients)+ci]
						c.Route, c.Client = ri, ci
						c.N++
						if rnd.Intn(2) == 0 {
							// the twin route that is not a redirect, asked directly: the shared target itself
							req := accStressClients[ci].build("acc.example", "/"+accStressRoutes[ri].name+"-p")
							tg := route.GetTable().Lookup(req, "", pick, match, cache, globOff)
							switch {
							case tg == nil || tg.Service != accStressRoutes[ri].name+"-p":
								c.Other++
							case tg.AccessDeniedHTTP(req):
								c.Denied++
							}
							return
						}
						req := accStressClients[ci].build("acc.example", "/"+accStressRoutes[ri].name)
						w := &nullWriter{h: http.Header{}}
						px.ServeHTTP(w, req)
						switch {
						case w.code == 403:
							c.Denied++
						case w.code == 301 && w.h.Get("Location") == "https://to.example/"+accStressRoutes[ri].name:
						default:
							c.Other++
						}
					case kindRedirect:
						// every goroutine alternates between two hosts nobody else uses; the five template forms
						// take turns; the expected Location is a function of this request alone
						host := fmt.Sprintf("h%d%c.example", g, "ab"[rnd.Intn(2)])
						var path, want string
						switch rnd.Intn(5) {
						case 0:
							path = fmt.Sprintf("/red-p/g%d/i%d", g, i)
							want = "https://to.example" + path
						case 1:
							path = "/red-h"
							want = "https://" + host + "/"
						case 2:
							path = fmt.Sprintf("/red-hl/i%d", i)
							want = "https://" + host + "/login"
						case 3:
							path = fmt.Sprintf("/red-b/g%d/i%d", g, i)
							want = "https://" + host + path
						default:
							path = "/red-f"
							want = "https://to.example/fixed"
						}
						req := newRequest(host, path)
						w := &nullWriter{h: http.Header{}}
						px.ServeHTTP(w, req)
						if got := w.h.Get("Location"); got != want || w.code != 301 {
							atomic.AddInt64(&mismatches, 1)
							firstMismatch.CompareAndSwap(nil, fmt.Sprintf("%s%s: want %s got %d %s", host, path, want, w.code, got))
						}
					}
				}()
			}
		}(g)
	}
	close(start)
	wg.Wait()
	close(stop)
	swg.Wait()

	out := map[string]interface{}{
		"race_enabled": raceEnabled,
		"lookups":      in.G * in.L,
		"mismatch":     atomic.LoadInt64(&mismatches),
		"panics":       atomic.LoadInt64(&panics),
		"swaps":        atomic.LoadInt64(&swaps),
	}
	if v := firstMismatch.Load(); v != nil {
		out["first_mismatch"] = v
	}
	if v := firstPanic.Load(); v != nil {
		out["first_panic"] = v
	}
	routes := []routeOut{}
	for i := 0; i < nt; i++ {
		for j := 0; j < nroutes; j++ {
			r := refs[i][j].r
			ro := routeOut{Table: i, Route: refs[i][j].name, Cursor: route.VerifC06Cursor(r), Counts: make([]int, len(r.Targets)), Picker: pickerName}
			for g := 0; g < in.G; g++ {
				for k, c := range counts[g][i][j] {
					ro.Counts[k] += c
					ro.K += c
				}
			}
			if ro.K == 0 && ro.Cursor == 0 {
				continue
			}
			ro.Ring = route.VerifC06Ring(r)
			// the ring and the target list of a published table never change
			ro.RingChanged = !reflect.DeepEqual(ro.Ring, ring0[[2]int{i, j}]) || len(r.Targets) != len(targets0[[2]int{i, j}])
			for k, tg := range targets0[[2]int{i, j}] {
				if k < len(r.Targets) && r.Targets[k] != tg {
					ro.RingChanged = true
				}
			}
			ro.Ring = ring0[[2]int{i, j}]
			routes = append(routes, ro)
		}
	}
	out["routes"] = routes
	out["reads"] = atomic.LoadInt64(&reads)
	if in.Kind == kindAccess {
		classes := []accClassOut{}
		for k := 0; k < len(accStressRoutes)*len(accStressClients); k++ {
			c := accClassOut{Route: k / len(accStressClients), Client: k % len(accStressClients)}
			for g := 0; g < in.G; g++ {
				c.N += accTally[g][k].N
				c.Denied += accTally[g][k].Denied
				c.Other += accTally[g][k].Other
			}
			if c.N > 0 {
				classes = append(classes, c)
			}
		}
		rules := []accRules{}
		for _, r := range accStressRoutes {
			rules = append(rules, r.rules)
		}
		out["access"] = map[string]interface{}{"pools": accPools(), "rules": rules, "clients": accStressClients, "classes": classes}
	}
	keys, l, h, n := route.VerifC06CacheDump(cache)
	out["cache"] = map[string]int{"size": in.Cache, "entries": len(keys), "l": len(l), "h": h, "n": n,
		"inflight_samples": int(atomic.LoadInt64(&inflightSamples)), "inflight_bad": int(atomic.LoadInt64(&inflightBad)),
		"inflight_max": int(atomic.LoadInt64(&inflightMax))}
	if v := firstInflight.Load(); v != nil {
		out["first_inflight"] = v
	}
	return out, nil
}

var raceFuncRe = regexp.MustCompile(`github\.com/fabiolb/fabio/([a-z/]+)\.((?:\(\*?[A-Za-z]+\)|[A-Za-z]+)\.)?([A-Za-z]+)\(`)

// stressRun spawns the child and folds its fate into the case output.
func stressRun(kinds ...int) func(json.RawMessage) (interface{}, error) {
	return func(raw json.RawMessage) (interface{}, error) {
		var in stressIn
		if err := json.Unmarshal(raw, &in); err != nil {
			return nil, err
		}
		if err := checkStressIn(&in); err != nil {
			return nil, err
		}
		ok := false
		for _, k := range kinds {
			ok = ok || k == in.Kind
		}
		if !ok {
			return nil, errors.New("kind does not belong to this stream")
		}
		cmd := exec.Command(os.Args[0], "replay", "-stream", "c06.child")
		cmd.Stdin = bytes.NewReader(append(append([]byte{}, raw...), '\n'))
		// GOMAXPROCS=4: real parallelism (the interleavings of D08–D10 reproduce readily with it) without making
		// the run time hostage to the load of a shared machine (16 spinning threads on an oversubscribed box).
		cmd.Env = append(os.Environ(), "GORACE=halt_on_error=0 exitcode=66", "GOMAXPROCS=4")
		var so, se bytes.Buffer
		cmd.Stdout, cmd.Stderr = &so, &se
		done := make(chan error, 1)
		if err := cmd.Start(); err != nil {
			return nil, err
		}
		go func() { done <- cmd.Wait() }()
		select {
		case <-done:
		case <-time.After(5 * time.Minute):
			cmd.Process.Kill()
			<-done
			return nil, errors.New("scenario did not finish within 5 minutes (machine overloaded?)")
		}
		stderr := se.String()
		out := map[string]interface{}{}
		var line struct {
			Impl map[string]interface{} `json:"impl"`
		}
		if err := json.Unmarshal(bytes.TrimSpace(so.Bytes()), &line); err != nil || line.Impl == nil {
			out["crashed"] = true
			out["why"] = lastLines(stderr, 12)
		} else {
			out = line.Impl
			out["crashed"] = false
			if he, bad := out["harness_error"]; bad {
				return nil, fmt.Errorf("child: %v", he)
			}
		}
		race := strings.Contains(stderr, "WARNING: DATA RACE")
		out["race"] = race
		if race {
			seen := map[string]bool{}
			funcs := []string{}
			for _, m := range raceFuncRe.FindAllStringSubmatch(stderr, -1) {
				f := m[1] + "." + strings.Trim(m[2], "(*).") + "." + m[3]
				f = strings.Replace(f, "..", ".", 1)
				if !seen[f] && !strings.HasPrefix(m[3], "Verif") {
					seen[f] = true
					funcs = append(funcs, f)
				}
			}
			sort.Strings(funcs)
			if len(funcs) > 12 {
				funcs = funcs[:12]
			}
			out["race_funcs"] = funcs
			out["race_reports"] = strings.Count(stderr, "WARNING: DATA RACE")
			if i := strings.Index(stderr, "WARNING: DATA RACE"); i >= 0 {
				rep := stderr[i:]
				if j := strings.Index(rep, "=================="); j > 0 {
					rep = rep[:j]
				}
				if len(rep) > 3000 {
					rep = rep[:3000]
				}
				out["first_race_report"] = rep
			}
		}
		return out, nil
	}
}

func lastLines(s string, n int) string {
	ls := strings.Split(strings.TrimSpace(s), "\n")
	if len(ls) > n {
		ls = ls[len(ls)-n:]
	}
	return strings.Join(ls, "\n")
}

// stressGen: the i-th case of a stream. The sizes are fixed per kind so that one case takes ≈ 2–3 s under the
// race detector; the tier decides how many cases run (and the thorough tier gets the long ones: i ≥ 4).
func stressGen(kind int, rndPicker bool) func(r *hx.Rand, i int) interface{} {
	return func(r *hx.Rand, i int) interface{} {
		in := stressIn{Kind: kind, Seed: r.Intn(8)}
		if rndPicker {
			in.Rnd = 1
		}
		in.G = []int{8, 16, 4}[i%3]
		per := map[int]int{kindRR: 160000, kindGlob: 24000, kindRedirect: 64000, kindMixed: 32000, kindAccess: 32000}[kind]
		if i >= 4 {
			per *= 4
		}
		in.L = per / in.G
		in.Cache = 3
		if kind == kindRR {
			in.Cache = 16
		}
		if i%2 == 1 {
			in.Swap = 3
		}
		// the rest of fabio reading the published table next to the lookups: always when tables are replaced
		// (main.go dumps the table it has just published), and on every fourth case without replacement
		if in.Swap > 1 || i%4 == 2 {
			in.Reader = 1
		}
		return in
	}
}

func init() {
	hx.Register(&hx.Stream{Name: "c06.child", Gen: stressGen(kindMixed, false), Run: childRun})
	hx.Register(&hx.Stream{Name: "c06.rr-race", Gen: stressGen(kindRR, false), Run: stressRun(kindRR)})
	hx.Register(&hx.Stream{Name: "c06.glob-race", Gen: stressGen(kindGlob, false), Run: stressRun(kindGlob)})
	hx.Register(&hx.Stream{Name: "c06.redirect-race", Gen: stressGen(kindRedirect, false), Run: stressRun(kindRedirect)})
	hx.Register(&hx.Stream{Name: "c06.mixed-race", Gen: stressGen(kindMixed, false), Run: stressRun(kindMixed)})
	hx.Register(&hx.Stream{Name: "c06.access-race", Gen: stressGen(kindAccess, false), Run: stressRun(kindAccess)})
	// the default strategy `rnd` on the literal-host routes (plain, weighted, zero-weight) and on the glob hosts
	hx.Register(&hx.Stream{Name: "c06.rnd-race", Gen: func(r *hx.Rand, i int) interface{} {
		return stressGen([]int{kindRR, kindMixed}[i%2], true)(r, i/2+i%2)
	}, Run: stressRun(kindRR, kindMixed)})
}
