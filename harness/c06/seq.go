package main

// Sequential correspondence streams for C06: one goroutine, compared exactly with the Lean model
// (Model/C06.lean run under the sequential schedule). They tie the micro-step programs to the code one
// thread at a time; the schedule-universal part is the theorems, the race streams (stress.go) validate it.

import (
	"encoding/json"
	"errors"
	"fmt"
	"io"
	"log"
	"net/http"
	"net/http/httptest"
	"strings"

	"github.com/fabiolb/fabio/proxy"
	"github.com/fabiolb/fabio/route"
	"verif/harness/hx"
)

// ---------------------------------------------------------------------------------------------------------
// c06.globcache: Get over pattern sequences from a universe larger than the cache; after every call the
// cached set (map keys), the ring, head and count.
// ---------------------------------------------------------------------------------------------------------

type gcIn struct {
	Size     int      `json:"size"`
	Universe []string `json:"universe"`
	Ops      []int    `json:"ops"`
}

type gcStep struct {
	OK   bool  `json:"ok"`
	Keys []int `json:"keys"` // universe index+1 of every key of the map, ascending
	L    []int `json:"l"`    // ring: universe index+1, 0 = unused slot
	H    int   `json:"h"`
	N    int   `json:"n"`
}

var gcPatterns = []string{"*.a.com", "*.b.com", "a?c", "*", "x.*.y", "{a,b}.com", "[a-c]z", "foo", "*.foo.*", "b*r", "**", "?"}
var gcBad = []string{"[", "{a", "[a-", "a[b", "\\"}

func gcGen(r *hx.Rand, i int) interface{} {
	in := gcIn{Size: 1 + r.Intn(4)}
	if r.Chance(1, 60) {
		in.Size = 0
	}
	nu := in.Size + 1 + r.Intn(4)
	if r.Chance(1, 5) {
		nu = 1 + r.Intn(in.Size+1)
	}
	perm := append([]string(nil), gcPatterns...)
	for j := len(perm) - 1; j > 0; j-- {
		k := r.Intn(j + 1)
		perm[j], perm[k] = perm[k], perm[j]
	}
	if nu > len(perm) {
		nu = len(perm)
	}
	in.Universe = perm[:nu]
	if r.Chance(1, 4) {
		in.Universe = append(in.Universe, gcBad[r.Intn(len(gcBad))])
	}
	n := 1 + r.Intn(24)
	for j := 0; j < n; j++ {
		if j > 0 && r.Chance(1, 4) { // repeats: fast-path hits
			in.Ops = append(in.Ops, in.Ops[r.Intn(len(in.Ops))])
		} else {
			in.Ops = append(in.Ops, r.Intn(len(in.Universe)))
		}
	}
	return in
}

func gcRun(raw json.RawMessage) (interface{}, error) {
	var in gcIn
	if err := json.Unmarshal(raw, &in); err != nil {
		return nil, err
	}
	if in.Size < 0 || in.Size > 64 || len(in.Universe) > 64 || len(in.Ops) > 4096 {
		return nil, errors.New("out of range")
	}
	idx := map[string]int{}
	for i, p := range in.Universe {
		if p == "" {
			return nil, errors.New("empty pattern")
		}
		if _, dup := idx[p]; dup {
			return nil, errors.New("duplicate pattern")
		}
		idx[p] = i + 1
	}
	compiles := make([]bool, len(in.Universe))
	for i, p := range in.Universe {
		compiles[i] = route.VerifGlobOK(p)
	}
	c := route.NewGlobCache(in.Size)
	steps := []gcStep{}
	for _, op := range in.Ops {
		if op < 0 || op >= len(in.Universe) {
			return nil, errors.New("op out of range")
		}
		g, err := c.Get(in.Universe[op])
		keys, l, h, n := route.VerifC06CacheDump(c)
		st := gcStep{OK: err == nil && g != nil, Keys: []int{}, L: []int{}, H: h, N: n}
		for _, k := range keys {
			st.Keys = append(st.Keys, idx[k])
		}
		sortInts(st.Keys)
		for _, k := range l {
			if k == "" {
				st.L = append(st.L, 0)
			} else {
				st.L = append(st.L, idx[k])
			}
		}
		steps = append(steps, st)
	}
	return map[string]interface{}{"compiles": compiles, "steps": steps}, nil
}

func sortInts(a []int) {
	for i := 1; i < len(a); i++ {
		for j := i; j > 0 && a[j-1] > a[j]; j-- {
			a[j-1], a[j] = a[j], a[j-1]
		}
	}
}

// ---------------------------------------------------------------------------------------------------------
// c06.rr: rrPicker call sequences on one route: the target handed out per call, the cursor afterwards.
// ---------------------------------------------------------------------------------------------------------

type rrIn struct {
	Weights []int  `json:"weights"` // per target: fixed weight in percent, 0 = none
	Start   uint64 `json:"start"`
	Picks   int    `json:"picks"`
}

func rrGen(r *hx.Rand, i int) interface{} {
	in := rrIn{}
	k := 2 + r.Intn(4)
	weighted := r.Chance(1, 3)
	left := 100
	for j := 0; j < k; j++ {
		w := 0
		if weighted && j < k-1 && left > 10 && r.Chance(2, 3) {
			w = 5 * (1 + r.Intn(left/10))
			left -= w
		}
		in.Weights = append(in.Weights, w)
	}
	switch r.Intn(4) {
	case 0:
		in.Start = 0
	case 1:
		in.Start = uint64(r.Intn(50))
	case 2:
		in.Start = uint64(r.Intn(1 << 20))
	default:
		in.Start = r.U64() >> 2
	}
	if weighted && r.Chance(1, 4) {
		// weighted rings have 9997…10000 slots: start a few slots before the end of the ring (some cycles in), so that
		// a handful of picks wraps around it
		l := uint64(9997 + r.Intn(4))
		in.Start = l*uint64(1+r.Intn(3)) - uint64(r.Intn(20))
	}
	in.Picks = r.Intn(40)
	if in.Start > 9000 && in.Start < 31000 {
		in.Picks += 25
	}
	if r.Chance(1, 5) {
		in.Picks = 100 + r.Intn(400)
	}
	if weighted && r.Chance(1, 100) { // weighted rings have about 10⁴ slots: go around at least once sometimes
		in.Picks = 10000 + r.Intn(2500)
	}
	return in
}

func rrTable(weights []int) (route.Table, error) {
	var b strings.Builder
	for j, w := range weights {
		fmt.Fprintf(&b, "route add rr /rr http://t%d:80/", j)
		if w > 0 {
			fmt.Fprintf(&b, " weight %d.%02d", w/100, w%100)
		}
		b.WriteString("\n")
	}
	return route.VerifNewTable(b.String())
}

func rrRun(raw json.RawMessage) (interface{}, error) {
	var in rrIn
	if err := json.Unmarshal(raw, &in); err != nil {
		return nil, err
	}
	if len(in.Weights) < 1 || len(in.Weights) > 8 || in.Picks < 0 || in.Picks > 30000 || in.Start > 1<<62 {
		return nil, errors.New("out of range")
	}
	sum := 0
	for _, w := range in.Weights {
		if w < 0 || w > 100 {
			return nil, errors.New("weight out of range")
		}
		sum += w
	}
	if sum > 100 {
		return nil, errors.New("weights above 100%")
	}
	t, err := rrTable(in.Weights)
	if err != nil {
		return nil, err
	}
	rt := route.VerifC06Route(t, "", "/rr")
	if rt == nil {
		return nil, errors.New("no route")
	}
	ring := route.VerifC06Ring(rt)
	if len(ring) == 0 || len(ring) > 20000 {
		return nil, errors.New("ring size")
	}
	route.VerifC06SetCursor(rt, in.Start)
	seq := make([]int, 0, in.Picks)
	for j := 0; j < in.Picks; j++ {
		seq = append(seq, route.VerifC06RRPick(rt))
	}
	return map[string]interface{}{"ring": ring, "seq": seq, "cursor": route.VerifC06Cursor(rt)}, nil
}

// ---------------------------------------------------------------------------------------------------------
// c06.redirect: a sequence of requests answered by ONE shared redirect target through Table.Lookup +
// HTTPProxy.ServeHTTP. Consecutive requests differ in Host (case, port), path, raw path and query; templates of
// every form ($host only, $path only, both, neither) with strip/prepend. Next to every answer the harness
// records what the SAME request gets from a freshly built table that has seen no other request: the Location
// must be a function of the request alone (redirect_depends_only_on_request), so the two must be equal.
// ---------------------------------------------------------------------------------------------------------

type rdReq struct {
	Host  string `json:"host"`
	Path  string `json:"path"` // may carry percent-escapes (then RawPath differs from Path)
	Query string `json:"query"`
}

type rdIn struct {
	Src     int     `json:"src"`  // 0: "/"   1: "*.example/"
	Tmpl    int     `json:"tmpl"` // index into rdTemplates
	Strip   string  `json:"strip"`
	Prepend string  `json:"prepend"`
	Reqs    []rdReq `json:"reqs"`
}

type rdAns struct {
	Code          int    `json:"code"`
	Location      string `json:"location"`
	AloneCode     int    `json:"alone_code"`
	AloneLocation string `json:"alone_location"`
}

var rdSrcs = []string{"/", "*.example/"}

var rdTemplates = []string{
	"https://to.example$path",     // 0  $path only
	"https://to.example/$path",    // 1
	"https://to.example/new$path", // 2
	"https://$host/",              // 3  $host only
	"https://$host/login",         // 4
	"https://$host$path",          // 5  both
	"https://$host/x$path",        // 6
	"https://to.example/fixed",    // 7  neither
	"http://$host$path",           // 8  both, same scheme as the request: the self-redirect skip
}

var rdHosts = []string{"a.example", "A.Example", "a.example:80", "b.example", "b.example:8080", "c.other", "b.example"}
var rdPaths = []string{"/", "/a", "/a/b", "/s/a", "/s", "/a%2Fb", "/x%20y", "/A", "/login", "/fixed", "/new/a"}
var rdQueries = []string{"", "", "q=1", "x=y&z=0"}

func rdGen(r *hx.Rand, i int) interface{} {
	in := rdIn{Tmpl: r.Intn(len(rdTemplates))}
	if r.Chance(1, 4) {
		in.Src = 1
	}
	if r.Chance(1, 4) {
		in.Strip = "/s"
	}
	if r.Chance(1, 5) {
		in.Prepend = "/p"
	}
	n := 2 + r.Intn(6)
	for j := 0; j < n; j++ {
		q := rdReq{Host: rdHosts[r.Intn(len(rdHosts))], Path: rdPaths[r.Intn(len(rdPaths))], Query: rdQueries[r.Intn(len(rdQueries))]}
		if j > 0 && r.Chance(1, 5) { // the same request again later in the sequence
			q = in.Reqs[r.Intn(len(in.Reqs))]
		}
		in.Reqs = append(in.Reqs, q)
	}
	return in
}

// newProxy wires HTTPProxy the way main.go does: route.GetTable() is replaced by the given table getter.
func newProxy(get func() route.Table, cache *route.GlobCache, globDisabled bool, picker ...string) *proxy.HTTPProxy {
	pick := route.Picker["rr"]
	if len(picker) == 1 {
		pick = route.Picker[picker[0]]
	}
	match := route.Matcher["prefix"]
	return &proxy.HTTPProxy{
		Lookup: func(r *http.Request) *route.Target {
			return get().Lookup(r, r.Header.Get("trace"), pick, match, cache, globDisabled)
		},
	}
}

func rdOptOK(s string) bool {
	if len(s) > 16 {
		return false
	}
	for _, c := range s {
		if !(c == '/' || c >= 'a' && c <= 'z' || c >= '0' && c <= '9') {
			return false
		}
	}
	return s == "" || s[0] == '/'
}

func rdServe(p *proxy.HTTPProxy, q rdReq) (int, string, error) {
	u := "http://" + q.Host + q.Path
	if q.Query != "" {
		u += "?" + q.Query
	}
	req, err := http.NewRequest("GET", u, nil)
	if err != nil {
		return 0, "", err
	}
	if req.URL.Host == "" || req.URL.Path == "" || req.URL.Path[0] != '/' {
		return 0, "", errors.New("not an origin-form request")
	}
	req.RemoteAddr = "10.1.2.3:4567"
	req.RequestURI = req.URL.RequestURI()
	rec := httptest.NewRecorder()
	p.ServeHTTP(rec, req)
	return rec.Code, rec.Header().Get("Location"), nil
}

func rdRun(raw json.RawMessage) (interface{}, error) {
	var in rdIn
	if err := json.Unmarshal(raw, &in); err != nil {
		return nil, err
	}
	if in.Tmpl < 0 || in.Tmpl >= len(rdTemplates) || in.Src < 0 || in.Src >= len(rdSrcs) || len(in.Reqs) > 64 ||
		!rdOptOK(in.Strip) || !rdOptOK(in.Prepend) {
		return nil, errors.New("out of range")
	}
	opts := "redirect=301"
	if in.Strip != "" {
		opts += " strip=" + in.Strip
	}
	if in.Prepend != "" {
		opts += " prepend=" + in.Prepend
	}
	def := "route add red " + rdSrcs[in.Src] + " " + rdTemplates[in.Tmpl] + ` opts "` + opts + `"`
	mk := func() (*proxy.HTTPProxy, error) {
		t, err := route.VerifNewTable(def)
		if err != nil {
			return nil, err
		}
		return newProxy(func() route.Table { return t }, route.NewGlobCache(4), false), nil
	}
	shared, err := mk()
	if err != nil {
		return nil, err
	}
	out := []rdAns{}
	for _, q := range in.Reqs {
		if len(q.Host) > 64 || len(q.Path) > 64 || len(q.Query) > 64 {
			return nil, errors.New("request too long")
		}
		var a rdAns
		if a.Code, a.Location, err = rdServe(shared, q); err != nil {
			return nil, err
		}
		alone, err := mk()
		if err != nil {
			return nil, err
		}
		if a.AloneCode, a.AloneLocation, err = rdServe(alone, q); err != nil {
			return nil, err
		}
		out = append(out, a)
	}
	return out, nil
}

func init() {
	log.SetOutput(io.Discard) // the route package logs every skipped self-redirect
	hx.Register(&hx.Stream{Name: "c06.globcache", Gen: gcGen, Run: gcRun, Corpus: []interface{}{
		gcIn{Size: 1, Universe: []string{"a", "b"}, Ops: []int{0, 1, 0, 1}},
		gcIn{Size: 3, Universe: []string{"*.a.com", "*.b.com", "*.c.com", "*.d.com", "["}, Ops: []int{0, 1, 2, 3, 4, 0, 1, 0, 3}},
	}})
	hx.Register(&hx.Stream{Name: "c06.rr", Gen: rrGen, Run: rrRun, Corpus: []interface{}{
		rrIn{Weights: []int{0, 0, 0}, Start: 0, Picks: 9},
		rrIn{Weights: []int{20, 0}, Start: 7, Picks: 30},
	}})
	hx.Register(&hx.Stream{Name: "c06.redirect", Gen: rdGen, Run: rdRun, Corpus: []interface{}{
		rdIn{Tmpl: 0, Reqs: []rdReq{{"a.example", "/a", ""}, {"a.example", "/b", "a=1"}, {"a.example", "/a", ""}}},
		rdIn{Tmpl: 3, Reqs: []rdReq{{"a.example", "/", ""}, {"b.example", "/", ""}}},
	}})
}
