package main

// Sequential correspondence streams for C06: one goroutine, compared exactly with the Lean model
// (Model/C06.lean run under the sequential schedule). They tie the micro-step programs to the code one
// thread at a time; the schedule-universal part is the theorems, the race streams (stress.go) validate it.

import (
	"encoding/json"
	"errors"
	"fmt"
	"net/http"
	"net/http/httptest"
	"strings"

	"github.com/fabiolb/fabio/proxy"
	"github.com/fabiolb/fabio/route"
	"verif/harness/hx"
)

// ---------------------------------------------------------------------------------------------------------
// c06.globcache: Get over pattern sequences from a universe larger than the cache; after every call the
// cached set (map keys), the ring, head and count.
// ---------------------------------------------------------------------------------------------------------

type gcIn struct {
	Size     int      `json:"size"`
	Universe []string `json:"universe"`
	Ops      []int    `json:"ops"`
}

type gcStep struct {
	OK   bool  `json:"ok"`
	Keys []int `json:"keys"` // universe index+1 of every key of the map, ascending
	L    []int `json:"l"`    // ring: universe index+1, 0 = unused slot
	H    int   `json:"h"`
	N    int   `json:"n"`
}

var gcPatterns = []string{"*.a.com", "*.b.com", "a?c", "*", "x.*.y", "{a,b}.com", "[a-c]z", "foo", "*.foo.*", "b*r", "**", "?"}
var gcBad = []string{"[", "{a", "[a-", "a[b", "\\"}

func gcGen(r *hx.Rand, i int) interface{} {
	in := gcIn{Size: 1 + r.Intn(4)}
	if r.Chance(1, 60) {
		in.Size = 0
	}
	nu := in.Size + 1 + r.Intn(4)
	if r.Chance(1, 5) {
		nu = 1 + r.Intn(in.Size+1)
	}
	perm := append([]string(nil), gcPatterns...)
	for j := len(perm) - 1; j > 0; j-- {
		k := r.Intn(j + 1)
		perm[j], perm[k] = perm[k], perm[j]
	}
	if nu > len(perm) {
		nu = len(perm)
	}
	in.Universe = perm[:nu]
	if r.Chance(1, 4) {
		in.Universe = append(in.Universe, gcBad[r.Intn(len(gcBad))])
	}
	n := 1 + r.Intn(24)
	for j := 0; j < n; j++ {
		if j > 0 && r.Chance(1, 4) { // repeats: fast-path hits
			in.Ops = append(in.Ops, in.Ops[r.Intn(len(in.Ops))])
		} else {
			in.Ops = append(in.Ops, r.Intn(len(in.Universe)))
		}
	}
	return in
}

func gcRun(raw json.RawMessage) (interface{}, error) {
	var in gcIn
	if err := json.Unmarshal(raw, &in); err != nil {
		return nil, err
	}
	if in.Size < 0 || in.Size > 64 || len(in.Universe) > 64 || len(in.Ops) > 4096 {
		return nil, errors.New("out of range")
	}
	idx := map[string]int{}
	for i, p := range in.Universe {
		if p == "" {
			return nil, errors.New("empty pattern")
		}
		if _, dup := idx[p]; dup {
			return nil, errors.New("duplicate pattern")
		}
		idx[p] = i + 1
	}
	compiles := make([]bool, len(in.Universe))
	for i, p := range in.Universe {
		compiles[i] = route.VerifGlobOK(p)
	}
	c := route.NewGlobCache(in.Size)
	steps := []gcStep{}
	for _, op := range in.Ops {
		if op < 0 || op >= len(in.Universe) {
			return nil, errors.New("op out of range")
		}
		g, err := c.Get(in.Universe[op])
		keys, l, h, n := route.VerifC06CacheDump(c)
		st := gcStep{OK: err == nil && g != nil, Keys: []int{}, L: []int{}, H: h, N: n}
		for _, k := range keys {
			st.Keys = append(st.Keys, idx[k])
		}
		sortInts(st.Keys)
		for _, k := range l {
			if k == "" {
				st.L = append(st.L, 0)
			} else {
				st.L = append(st.L, idx[k])
			}
		}
		steps = append(steps, st)
	}
	return map[string]interface{}{"compiles": compiles, "steps": steps}, nil
}

func sortInts(a []int) {
	for i := 1; i < len(a); i++ {
		for j := i; j > 0 && a[j-1] > a[j]; j-- {
			a[j-1], a[j] = a[j], a[j-1]
		}
	}
}

// ---------------------------------------------------------------------------------------------------------
// c06.rr: rrPicker call sequences on one route: the target handed out per call, the cursor afterwards.
// ---------------------------------------------------------------------------------------------------------

type rrIn struct {
	Weights []int  `json:"weights"` // per target: fixed weight in percent, 0 = none
	Start   uint64 `json:"start"`
	Picks   int    `json:"picks"`
}

func rrGen(r *hx.Rand, i int) interface{} {
	in := rrIn{}
	k := 2 + r.Intn(4)
	weighted := r.Chance(1, 3)
	left := 100
	for j := 0; j < k; j++ {
		w := 0
		if weighted && j < k-1 && left > 10 && r.Chance(2, 3) {
			w = 5 * (1 + r.Intn(left/10))
			left -= w
		}
		in.Weights = append(in.Weights, w)
	}
	switch r.Intn(4) {
	case 0:
		in.Start = 0
	case 1:
		in.Start = uint64(r.Intn(50))
	case 2:
		in.Start = uint64(r.Intn(1 << 20))
	default:
		in.Start = r.U64() >> 2
	}
	in.Picks = r.Intn(40)
	if r.Chance(1, 5) {
		in.Picks = 100 + r.Intn(400)
	}
	if weighted && r.Chance(1, 100) { // weighted rings have about 10⁴ slots: go around at least once sometimes
		in.Picks = 10000 + r.Intn(12000)
	}
	return in
}

func rrTable(weights []int) (route.Table, error) {
	var b strings.Builder
	for j, w := range weights {
		fmt.Fprintf(&b, "route add rr /rr http://t%d:80/", j)
		if w > 0 {
			fmt.Fprintf(&b, " weight %d.%02d", w/100, w%100)
		}
		b.WriteString("\n")
	}
	return route.VerifNewTable(b.String())
}

func rrRun(raw json.RawMessage) (interface{}, error) {
	var in rrIn
	if err := json.Unmarshal(raw, &in); err != nil {
		return nil, err
	}
	if len(in.Weights) < 1 || len(in.Weights) > 8 || in.Picks < 0 || in.Picks > 30000 || in.Start > 1<<62 {
		return nil, errors.New("out of range")
	}
	sum := 0
	for _, w := range in.Weights {
		if w < 0 || w > 100 {
			return nil, errors.New("weight out of range")
		}
		sum += w
	}
	if sum > 100 {
		return nil, errors.New("weights above 100%")
	}
	t, err := rrTable(in.Weights)
	if err != nil {
		return nil, err
	}
	rt := route.VerifC06Route(t, "", "/rr")
	if rt == nil {
		return nil, errors.New("no route")
	}
	ring := route.VerifC06Ring(rt)
	if len(ring) == 0 || len(ring) > 20000 {
		return nil, errors.New("ring size")
	}
	route.VerifC06SetCursor(rt, in.Start)
	seq := make([]int, 0, in.Picks)
	for j := 0; j < in.Picks; j++ {
		seq = append(seq, route.VerifC06RRPick(rt))
	}
	return map[string]interface{}{"ring": ring, "seq": seq, "cursor": route.VerifC06Cursor(rt)}, nil
}

// ---------------------------------------------------------------------------------------------------------
// c06.redirect: a sequence of requests answered by ONE shared `$path` redirect target through
// Table.Lookup + HTTPProxy.ServeHTTP: the Location per call.
// ---------------------------------------------------------------------------------------------------------

type rdIn struct {
	Form  int      `json:"form"` // 0: https://to.example$path  1: https://to.example/$path  2: https://to.example/new$path
	Paths []string `json:"paths"`
	Query []string `json:"query"` // per request, "" = none
}

var rdForms = []string{"https://to.example$path", "https://to.example/$path", "https://to.example/new$path"}

const rdPathAlphabet = "abcxyz019-_"

func rdGenPath(r *hx.Rand) string {
	var b strings.Builder
	segs := 1 + r.Intn(3)
	for s := 0; s < segs; s++ {
		b.WriteByte('/')
		n := 1 + r.Intn(5)
		for j := 0; j < n; j++ {
			b.WriteByte(rdPathAlphabet[r.Intn(len(rdPathAlphabet))])
		}
	}
	return b.String()
}

func rdGen(r *hx.Rand, i int) interface{} {
	in := rdIn{Form: r.Intn(3)}
	n := 2 + r.Intn(6)
	for j := 0; j < n; j++ {
		in.Paths = append(in.Paths, rdGenPath(r))
		q := ""
		if r.Chance(1, 3) {
			q = string(rdPathAlphabet[r.Intn(6)]) + "=" + string(rdPathAlphabet[6+r.Intn(3)])
		}
		in.Query = append(in.Query, q)
	}
	return in
}

func validRdPath(p string) bool {
	if len(p) < 2 || len(p) > 64 || p[0] != '/' || strings.Contains(p, "//") || strings.HasSuffix(p, "/") {
		return false
	}
	for _, c := range p[1:] {
		if c != '/' && !strings.ContainsRune(rdPathAlphabet, c) {
			return false
		}
	}
	return true
}

func validRdQuery(q string) bool {
	for _, c := range q {
		if c != '=' && c != '&' && !strings.ContainsRune(rdPathAlphabet, c) {
			return false
		}
	}
	return len(q) <= 32
}

// newProxy wires HTTPProxy the way main.go does: route.GetTable() is replaced by the given table getter.
func newProxy(get func() route.Table, cache *route.GlobCache, globDisabled bool) *proxy.HTTPProxy {
	pick := route.Picker["rr"]
	match := route.Matcher["prefix"]
	return &proxy.HTTPProxy{
		Lookup: func(r *http.Request) *route.Target {
			return get().Lookup(r, r.Header.Get("trace"), pick, match, cache, globDisabled)
		},
	}
}

func rdRun(raw json.RawMessage) (interface{}, error) {
	var in rdIn
	if err := json.Unmarshal(raw, &in); err != nil {
		return nil, err
	}
	if in.Form < 0 || in.Form >= len(rdForms) || len(in.Paths) > 256 {
		return nil, errors.New("out of range")
	}
	for i, p := range in.Paths {
		if !validRdPath(p) {
			return nil, errors.New("path outside the modelled alphabet")
		}
		if i < len(in.Query) && !validRdQuery(in.Query[i]) {
			return nil, errors.New("query outside the modelled alphabet")
		}
	}
	t, err := route.VerifNewTable("route add red / " + rdForms[in.Form] + ` opts "redirect=301"`)
	if err != nil {
		return nil, err
	}
	p := newProxy(func() route.Table { return t }, route.NewGlobCache(4), false)
	out := []map[string]interface{}{}
	for i, path := range in.Paths {
		u := "http://src.example" + path
		if i < len(in.Query) && in.Query[i] != "" {
			u += "?" + in.Query[i]
		}
		req := httptest.NewRequest("GET", u, nil)
		rec := httptest.NewRecorder()
		p.ServeHTTP(rec, req)
		out = append(out, map[string]interface{}{"code": rec.Code, "location": rec.Header().Get("Location")})
	}
	return out, nil
}

func init() {
	hx.Register(&hx.Stream{Name: "c06.globcache", Gen: gcGen, Run: gcRun, Corpus: []interface{}{
		gcIn{Size: 1, Universe: []string{"a", "b"}, Ops: []int{0, 1, 0, 1}},
		gcIn{Size: 3, Universe: []string{"*.a.com", "*.b.com", "*.c.com", "*.d.com", "["}, Ops: []int{0, 1, 2, 3, 4, 0, 1, 0, 3}},
	}})
	hx.Register(&hx.Stream{Name: "c06.rr", Gen: rrGen, Run: rrRun, Corpus: []interface{}{
		rrIn{Weights: []int{0, 0, 0}, Start: 0, Picks: 9},
		rrIn{Weights: []int{20, 0}, Start: 7, Picks: 30},
	}})
	hx.Register(&hx.Stream{Name: "c06.redirect", Gen: rdGen, Run: rdRun, Corpus: []interface{}{
		rdIn{Form: 0, Paths: []string{"/a", "/b", "/a"}, Query: []string{"", "a=1", ""}},
	}})
}
