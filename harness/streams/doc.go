// Package streams links every correspondence stream into the harness binary; each file registers its
// streams from init().
package streams
