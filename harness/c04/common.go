package main

// Shared pieces of the C04 streams: building a table from a structured script (through the real Parse +
// NewTable, or through NewTableCustom), the canonical dump (weights as exact rationals, ring as slot →
// target index), error classes, generators of weight vectors.

import (
	"bytes"
	"encoding/json"
	"fmt"
	"strconv"
	"strings"

	"github.com/fabiolb/fabio/route"
	"verif/harness/hx"
	"verif/harness/rt"
)

type scriptIn struct {
	Defs []rt.Def `json:"defs"`
	// Text: build through the configuration text (Parse + NewTable) instead of NewTableCustom.
	Text bool `json:"text,omitempty"`
	// Src names the route the lookups go to (rr/rnd streams).
	Src string `json:"src,omitempty"`
	// K sequential lookups starting with the cursor Start (decimal uint64).
	K     int    `json:"k,omitempty"`
	Start string `json:"start,omitempty"`
	// Rands are the raw values the injected randIntn draws from (rnd stream): randIntn(n) = Rands[j] % n.
	Rands []uint64 `json:"rands,omitempty"`
	// Sweep (rnd stream): ignore Rands; the injected randIntn enumerates its whole range once — the j-th call
	// returns j % n — and there are as many lookups as the first call's n. Under a uniform source every value of
	// the range is equally likely, so the counts of one sweep are the exact distribution of the random picker.
	Sweep bool `json:"sweep,omitempty"`
	// Entry selects the entry point of the lookups (rr/rnd streams): "" = Table.Lookup (HTTP proxy, gRPC
	// handler), "host" = Table.LookupHost (the TCP and TCP+SNI proxies; it looks up the path "/").
	Entry string `json:"entry,omitempty"`
}

// lookup performs one lookup through the entry point the input names.
func (in *scriptIn) lookup(t route.Table, pick string) *route.Target {
	if in.Entry == "host" {
		host, _ := route.VerifHostpath(in.Src)
		return t.LookupHost(host, route.Picker[pick])
	}
	return t.Lookup(request(in.Src), "", route.Picker[pick], route.Matcher["prefix"], globCache, false)
}

// genEntry: routes whose path is "/" are reachable through LookupHost as well.
func genEntry(r *hx.Rand, src string) string {
	if _, path := route.VerifHostpath(src); path == "/" && r.Chance(1, 3) {
		return "host"
	}
	return ""
}

func errClass(err error) string {
	s := err.Error()
	switch s {
	case "route: prefix must not be empty":
		return "invalidPrefix"
	case "route: target must not be empty":
		return "invalidTarget"
	case "route: no target match":
		return "noMatch"
	}
	switch {
	case strings.HasPrefix(s, "route: invalid target"):
		return "badURL"
	case strings.HasPrefix(s, "route: invalid command"):
		return "invalidCommand"
	case strings.HasPrefix(s, "route: invalid weight"):
		return "invalidWeight"
	case strings.HasPrefix(s, "line ") && strings.Contains(s, "weight value invalid"):
		return "parseWeight"
	case strings.HasPrefix(s, "line "):
		return "parse"
	}
	return "badGlob"
}

// build runs the real table construction.
func build(in *scriptIn) (route.Table, error) {
	if in.Text {
		return route.NewTable(bytes.NewBufferString(rt.Text(in.Defs)))
	}
	defs := make([]route.RouteDef, len(in.Defs))
	for i := range in.Defs {
		defs[i] = in.Defs[i].RouteDef()
	}
	return route.NewTableCustom(&defs)
}

// encodeRing renders r.wTargets compactly: with at most 78 targets a string with one character per slot
// (rune 48+i for target i, '!' for a nil slot, '#' for a pointer that is not in Targets), else an int array
// (-2 nil, -1 foreign).
func encodeRing(r *route.Route) interface{} {
	ring := route.VerifC04Ring(r)
	if len(r.Targets) > 78 {
		return ring
	}
	b := make([]byte, len(ring))
	for i, x := range ring {
		switch {
		case x == -2:
			b[i] = '!'
		case x < 0:
			b[i] = '#'
		default:
			b[i] = byte(48 + x)
		}
	}
	return string(b)
}

// rings lists the rings in the order of VerifDump (hosts ascending, routes in table order).
func rings(t route.Table) []interface{} {
	out := []interface{}{}
	for _, h := range route.VerifDump(t, false) {
		for i := range h.Routes {
			out = append(out, encodeRing(t[h.Host][i]))
		}
	}
	return out
}

func findRoute(t route.Table, src string) *route.Route {
	host, path := route.VerifHostpath(src)
	for _, r := range t[strings.ToLower(host)] {
		if r.Path == path {
			return r
		}
	}
	return nil
}

func targetIndex(r *route.Route, tg *route.Target) int {
	if tg == nil {
		return -2
	}
	for i, x := range r.Targets {
		if x == tg {
			return i
		}
	}
	return -1
}

func routeOut(r *route.Route) map[string]interface{} {
	f, w := route.VerifC04Weights(r)
	return map[string]interface{}{"host": r.Host, "path": r.Path, "fixed": f, "weight": w, "ring": encodeRing(r), "n": len(r.Targets)}
}

func decode(raw json.RawMessage) (*scriptIn, error) {
	var in scriptIn
	if err := json.Unmarshal(raw, &in); err != nil {
		return nil, err
	}
	if len(in.Defs) > 4000 {
		return nil, fmt.Errorf("script too long")
	}
	for i := range in.Defs {
		in.Defs[i].Fill()
	}
	return &in, nil
}

// ---- generators ----

var weightTokens = []string{"", "", "", "", "0", "1", "0.5", "0.5", "0.25", "0.1", "0.3333", "0.9999", "0.0001", "0.00001", "1e-5",
	"1.5", "2", "3", "-1", "-0.5", "0.57", "0.07", "0.29"}

func genWeightToken(r *hx.Rand) string {
	if r.Chance(2, 5) {
		// a 4-digit decimal
		return "0." + fmt.Sprintf("%04d", r.Intn(10000))
	}
	return r.Pick(weightTokens)
}

var srcs = []string{"/", "foo.com/", "foo.com/p", "Foo.com/p"}

func genTargets(r *hx.Rand) int {
	switch k := r.Intn(20); {
	case k == 0:
		return 1
	case k < 10:
		return r.Range(2, 5)
	case k < 17:
		return r.Range(6, 20)
	case k < 19 || !r.Chance(1, 20):
		return r.Range(21, 60)
	default:
		// many targets: most slot counts are 0 or bumped to 1, the ring grows well beyond 10⁴ slots, and the ring
		// is shipped as an index array instead of one character per slot (rare: the table model re-weighs the
		// route after every command, a script with 150 targets costs as much as 50 ordinary ones)
		return r.Range(80, 160)
	}
}

// genScript builds one weighted route (sometimes two): n targets with fixed/dynamic weights, followed by
// `route weight` commands over services and tags and the occasional `route del`.
func genScript(r *hx.Rand, text bool) ([]rt.Def, string) {
	services := []string{"svc-a", "svc-b", "svc-c"}
	tags := []string{"a", "b", "c"}
	src := r.Pick(srcs)
	n := genTargets(r)
	dynShare := r.Intn(4) // 0: all fixed, 1..3: more and more dynamic targets
	// mode 0: any tokens (the sum mostly exceeds 1); mode 1: small 4-digit decimals whose sum mostly stays
	// below 1; mode 2: every target fixed, 4-digit decimals summing to exactly 1 in decimal
	mode := r.Intn(3)
	exact := make([]int, n)
	if mode == 2 {
		left := 10000
		for i := 0; i < n-1; i++ {
			exact[i] = r.Intn(2*left/(n-i) + 1)
			if exact[i] > left {
				exact[i] = left
			}
			left -= exact[i]
		}
		exact[n-1] = left
	}
	var ds []rt.Def
	for i := 0; i < n; i++ {
		d := rt.Def{Cmd: "add", Service: r.Pick(services), Src: src, Dst: "http://h" + strconv.Itoa(i) + ":80/"}
		if r.Chance(1, 25) && i > 0 {
			d.Dst = "http://h" + strconv.Itoa(r.Intn(i)) + ":80/" // possible duplicate (de-dup branch)
		}
		switch {
		case mode == 2:
			d.WText = fmt.Sprintf("%.4f", float64(exact[i])/10000)
		case r.Intn(4) >= dynShare && mode == 1:
			d.WText = "0." + fmt.Sprintf("%04d", r.Intn(15000/n+1)%10000)
		case r.Intn(4) >= dynShare:
			d.WText = genWeightToken(r)
		}
		for _, tg := range tags {
			if r.Chance(1, 3) {
				d.Tags = append(d.Tags, tg)
			}
		}
		if len(d.Tags) > 0 && r.Chance(1, 12) {
			d.Tags = append(d.Tags, d.Tags[r.Intn(len(d.Tags))]) // a tag listed twice
		}
		ds = append(ds, d)
		if r.Chance(1, 30) {
			// an unrelated route
			ds = append(ds, rt.Def{Cmd: "add", Service: r.Pick(services), Src: "bar.com/", Dst: "http://o" + strconv.Itoa(i) + ":80/", WText: genWeightToken(r)})
		}
	}
	if r.Chance(1, 5) {
		ds = append(ds, reannounce(r, ds, src))
	}
	nw := 0
	switch k := r.Intn(10); {
	case k < 4:
		nw = 0
	case k < 8:
		nw = 1
	default:
		nw = r.Range(2, 4)
	}
	for j := 0; j < nw; j++ {
		d := rt.Def{Cmd: "weight", Src: src, WText: genWeightToken(r)}
		if d.WText == "" {
			d.WText = "0.2"
		}
		// aim at a target that exists (a weight command without a match fails the whole table)
		aim := ds[r.Intn(n)]
		if aim.Cmd != "add" || aim.Src != src || r.Chance(1, 12) {
			aim = rt.Def{Service: r.Pick(services), Tags: []string{r.Pick(tags)}}
		}
		switch k := r.Intn(3); {
		case k == 0 || len(aim.Tags) == 0:
			d.Service = aim.Service
		case k == 1:
			d.Tags = genCmdTags(r, aim.Tags, tags)
		default:
			d.Service = aim.Service
			d.Tags = genCmdTags(r, aim.Tags, tags)
		}
		if r.Chance(1, 4) {
			d.Src = strings.ToUpper(d.Src[:len(d.Src)/2]) + d.Src[len(d.Src)/2:]
		}
		ds = append(ds, d)
		if r.Chance(1, 6) {
			switch r.Intn(4) {
			case 0:
				// by tags (the matcher contains() again; src/dst are ignored by delRoute then)
				d := rt.Def{Cmd: "del", Tags: genCmdTags(r, tags, tags)}
				if r.Chance(1, 2) {
					d.Service = r.Pick(services)
				}
				ds = append(ds, d)
			case 1:
				// one instance: service, prefix and URL of an earlier add
				a := ds[r.Intn(n)]
				ds = append(ds, rt.Def{Cmd: "del", Service: a.Service, Src: src, Dst: a.Dst})
			default:
				ds = append(ds, rt.Def{Cmd: "del", Service: r.Pick(services), Src: src})
			}
		}
	}
	if r.Chance(1, 10) {
		ds = append(ds, reannounce(r, ds, src)) // as the very last command: nothing re-weighs the route afterwards
	}
	for i := range ds {
		ds[i].Fill()
	}
	return ds, src
}

// reannounce repeats an earlier `route add` of the route src — the same instance (service, URL, tags)
// announced again: mostly with a different weight (a second entry according to addTarget's identity of a
// target), sometimes unchanged (the de-dup branch), sometimes with the tags in another order or for another
// service.
func reannounce(r *hx.Rand, ds []rt.Def, src string) rt.Def {
	var adds []rt.Def
	for _, d := range ds {
		if d.Cmd == "add" && d.Src == src {
			adds = append(adds, d)
		}
	}
	d := adds[r.Intn(len(adds))]
	d.Tags = append([]string(nil), d.Tags...)
	switch k := r.Intn(8); {
	case k == 0:
		// identical
	case k == 1 && len(d.Tags) >= 2:
		d.Tags[0], d.Tags[len(d.Tags)-1] = d.Tags[len(d.Tags)-1], d.Tags[0]
	case k == 2:
		d.Service = "svc-" + string(rune('a'+r.Intn(3)))
	default:
		old := d.WText
		for tries := 0; tries < 5 && d.WText == old; tries++ {
			d.WText = genWeightToken(r)
		}
	}
	return d
}

// genCmdTags draws the tag list of a `route weight` command: mostly one tag of the target aimed at, else
// several of its tags, a tag listed twice or three times (contains() must treat the list as a set), a list
// longer than the target's own, or a tag the target may not carry.
func genCmdTags(r *hx.Rand, have, universe []string) []string {
	one := func() string { return have[r.Intn(len(have))] }
	switch k := r.Intn(20); {
	case k < 10:
		return []string{one()}
	case k < 13:
		t := one()
		return []string{t, t}
	case k < 15:
		t := one()
		return []string{t, one(), t}
	case k < 18:
		n := r.Range(2, 4)
		out := make([]string, n)
		for i := range out {
			out[i] = one()
		}
		return out
	default:
		return []string{one(), r.Pick(universe)}
	}
}
