package main

// Correspondence streams for C04 (DESIGN.md §7 C04):
//
//	c04.weights  weight vectors through `route add … weight` and `route weight` → effective weights, ring
//	c04.rr       K sequential lookups through the real Table.Lookup with rrPicker on a weighted route
//	c04.rnd      rndPicker with an injected randIntn
//	c04.hostile  hostile weight tokens (Inf, NaN, 1e308, 5e-324, …): build + pick under SafeRun
import (
	"encoding/json"
	"fmt"
	"math"
	"net/http"
	"net/url"
	"strconv"
	"strings"

	"github.com/fabiolb/fabio/route"
	"verif/harness/hx"
	"verif/harness/rt"
)

// ---- c04.weights ----

// withOracle adds the model's external parameters, recomputed from the input as it is now (so that corpus
// lines, replays and shrunk inputs need not carry them): url.Parse/glob.Compile results and what
// strconv.ParseFloat makes of every weight token.
func withOracle(in *scriptIn, out map[string]interface{}) map[string]interface{} {
	out["oracle"] = rt.Oracle(in.Defs)
	out["defs"] = in.Defs // with the exact rational of every parsed weight filled in
	wp := make([]string, len(in.Defs))
	for i := range in.Defs {
		wp[i] = parseClass(in.Defs[i].WText)
	}
	out["wparse"] = wp
	return out
}

func runWeights(raw json.RawMessage) (interface{}, error) {
	in, err := decode(raw)
	if err != nil {
		return nil, err
	}
	t, err := build(in)
	if err != nil {
		return withOracle(in, map[string]interface{}{"error": errClass(err)}), nil
	}
	return withOracle(in, map[string]interface{}{"table": route.VerifDump(t, false), "rings": rings(t)}), nil
}

// ---- c04.rr ----

var globCache = route.NewGlobCache(100)

func request(src string) *http.Request {
	host, path := route.VerifHostpath(src)
	return &http.Request{Host: host, URL: &url.URL{Path: path}, Header: http.Header{}}
}

func runRR(raw json.RawMessage) (interface{}, error) {
	in, err := decode(raw)
	if err != nil {
		return nil, err
	}
	if in.K < 0 || in.K > 200000 {
		return nil, fmt.Errorf("k out of range")
	}
	t, err := build(in)
	if err != nil {
		return withOracle(in, map[string]interface{}{"error": errClass(err)}), nil
	}
	r := findRoute(t, in.Src)
	if r == nil {
		return withOracle(in, map[string]interface{}{"noroute": true}), nil
	}
	start, _ := strconv.ParseUint(in.Start, 10, 64)
	route.VerifC04SetTotal(r, start)
	picks := make([]int, 0, in.K)
	for j := 0; j < in.K; j++ {
		picks = append(picks, targetIndex(r, in.lookup(t, "rr")))
	}
	out := routeOut(r)
	out["picks"] = picks
	out["total"] = strconv.FormatUint(route.VerifC04Total(r), 10)
	return withOracle(in, out), nil
}

// ---- c04.rnd ----

func runRnd(raw json.RawMessage) (interface{}, error) {
	in, err := decode(raw)
	if err != nil {
		return nil, err
	}
	if len(in.Rands) > 200000 {
		return nil, fmt.Errorf("too many draws")
	}
	t, err := build(in)
	if err != nil {
		return withOracle(in, map[string]interface{}{"error": errClass(err)}), nil
	}
	r := findRoute(t, in.Src)
	if r == nil {
		return withOracle(in, map[string]interface{}{"noroute": true}), nil
	}
	j := 0
	asked := []int{}
	restore := route.VerifC04SetRandIntn(func(n int) int {
		asked = append(asked, n)
		if in.Sweep {
			v := 0
			if n > 0 {
				v = j % n
			}
			j++
			return v
		}
		if n <= 0 || j >= len(in.Rands) {
			return 0
		}
		v := int(in.Rands[j] % uint64(n))
		j++
		return v
	})
	defer restore()
	lookups := len(in.Rands)
	if in.Sweep {
		lookups = 1
	}
	picks := make([]int, 0, lookups)
	for l := 0; l < lookups; l++ {
		picks = append(picks, targetIndex(r, in.lookup(t, "rnd")))
		if in.Sweep && l == 0 && len(asked) > 0 && asked[0] > 1 && asked[0] <= 200000 {
			lookups = asked[0] // one lookup per value of the range the picker asked for
		}
	}
	out := routeOut(r)
	out["picks"] = picks
	out["asked"] = asked
	return withOracle(in, out), nil
}

// ---- c04.hostile ----

// hostile weight tokens; wparse tells the model what strconv.ParseFloat makes of the token.
var hostileTokens = []string{"Inf", "+Inf", "-Inf", "inf", "Infinity", "NaN", "nan", "1e308", "1.7e308", "1e309", "1e400", "5e-324", "1e-320",
	"4.9e-324", "2e-308", "-0", "0", "1e-5", "1e-300", "1e300", "1e17", "9007199254740993", "0x1p-2", "0x1p1023", "1_0", "1e", "abc", "--1", ".5", "5.",
	"1e-400", "0.5", "1", "2", "", ""}

func genHostileToken(r *hx.Rand) string {
	switch r.Intn(12) {
	case 0:
		return strings.Repeat("9", r.Range(300, 400))
	case 1:
		return "0." + strings.Repeat("0", r.Range(300, 400)) + "1"
	case 2:
		return "1" + strings.Repeat("0", r.Range(300, 320)) // around the float64 maximum
	case 3:
		return genWeightToken(r)
	}
	return r.Pick(hostileTokens)
}

func parseClass(tok string) string {
	if tok == "" {
		return "none"
	}
	f, err := strconv.ParseFloat(tok, 64)
	switch {
	case err != nil:
		return "err"
	case math.IsNaN(f):
		return "nan"
	case math.IsInf(f, 0):
		return "inf"
	}
	return "finite"
}

func runHostile(raw json.RawMessage) (interface{}, error) {
	in, err := decode(raw)
	if err != nil {
		return nil, err
	}
	res, _ := hx.SafeRun(func() (interface{}, error) {
		t, err := build(in)
		if err != nil {
			return map[string]interface{}{"error": errClass(err)}, nil
		}
		out := map[string]interface{}{"table": route.VerifDump(t, false), "rings": rings(t)}
		// a few picks on every route: this is where an empty ring crashes
		picks := []interface{}{}
		j := 0
		restore := route.VerifC04SetRandIntn(func(n int) int {
			j++
			if n <= 0 {
				return 0
			}
			return (j * 7919) % n
		})
		defer restore()
		for _, h := range route.VerifDump(t, false) {
			for i := range h.Routes {
				r := t[h.Host][i]
				ps := []int{}
				for k := 0; k < 3; k++ {
					ps = append(ps, targetIndex(r, route.Picker["rr"](r)))
				}
				ps = append(ps, targetIndex(r, route.Picker["rnd"](r)))
				picks = append(picks, ps)
			}
		}
		out["picks"] = picks
		return out, nil
	})
	return withOracle(in, res.(map[string]interface{})), nil
}

func genHostile(r *hx.Rand, i int) interface{} {
	services := []string{"svc-a", "svc-b"}
	src := r.Pick(srcs)
	n := r.Range(1, 6)
	if r.Chance(1, 40) {
		n = r.Range(100, 300) // many targets
	}
	var ds []rt.Def
	same := ""
	if r.Chance(1, 3) {
		same = genHostileToken(r) // the same token on every target (e.g. three times 1e308)
	}
	for k := 0; k < n; k++ {
		d := rt.Def{Cmd: "add", Service: r.Pick(services), Src: src, Dst: "http://h" + strconv.Itoa(k) + ":80/"}
		switch {
		case same != "":
			d.WText = same
		case n > 50:
			if r.Chance(1, 10) {
				d.WText = genHostileToken(r)
			}
		default:
			if r.Chance(2, 3) {
				d.WText = genHostileToken(r)
			}
		}
		ds = append(ds, d)
	}
	if r.Chance(1, 3) {
		d := rt.Def{Cmd: "weight", Service: r.Pick(services), Src: src, WText: genHostileToken(r)}
		if d.WText == "" {
			d.WText = "Inf"
		}
		ds = append(ds, d)
	}
	for i := range ds {
		ds[i].Fill()
	}
	return scriptIn{Defs: ds, Text: r.Chance(2, 3)}
}

func init() {
	hx.Register(&hx.Stream{
		Name: "c04.weights",
		Gen: func(r *hx.Rand, i int) interface{} {
			text := r.Chance(1, 2)
			ds, _ := genScript(r, text)
			return scriptIn{Defs: ds, Text: text}
		},
		Run: runWeights,
	})
	hx.Register(&hx.Stream{
		Name: "c04.rr",
		Gen: func(r *hx.Rand, i int) interface{} {
			text := r.Chance(1, 2)
			ds, src := genScript(r, text)
			in := scriptIn{Defs: ds, Text: text, Src: src, Entry: genEntry(r, src)}
			// N is at most 10000 + #targets; mostly 2N+k lookups, sometimes fewer than a cycle
			switch r.Intn(4) {
			case 0:
				in.K = r.Range(1, 200)
			case 1:
				in.K = r.Range(10001, 10100)
			default:
				in.K = r.Range(20100, 20400)
			}
			switch r.Intn(4) {
			case 0:
				in.Start = "0"
			case 1:
				in.Start = strconv.Itoa(r.Intn(30000))
			case 2:
				in.Start = strconv.FormatUint(r.U64(), 10)
			default:
				in.Start = strconv.FormatUint(math.MaxUint64-uint64(r.Intn(25000)), 10) // the cursor wraps
			}
			return in
		},
		Run: runRR,
	})
	hx.Register(&hx.Stream{
		Name: "c04.rnd",
		Gen: func(r *hx.Rand, i int) interface{} {
			text := r.Chance(1, 2)
			ds, src := genScript(r, text)
			in := scriptIn{Defs: ds, Text: text, Src: src, Entry: genEntry(r, src)}
			if r.Chance(1, 5) {
				in.Sweep = true
				return in
			}
			k := r.Range(1, 40)
			for j := 0; j < k; j++ {
				switch r.Intn(4) {
				case 0:
					in.Rands = append(in.Rands, uint64(r.Intn(4)))
				case 1:
					in.Rands = append(in.Rands, uint64(9990+r.Intn(80)))
				default:
					in.Rands = append(in.Rands, r.U64()>>1)
				}
			}
			return in
		},
		Run: runRnd,
	})
	hx.Register(&hx.Stream{
		Name: "c04.hostile",
		Gen:  genHostile,
		Run: func(raw json.RawMessage) (interface{}, error) {
			return runHostile(raw)
		},
	})
}
