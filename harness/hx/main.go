package hx

import (
	"bufio"
	"encoding/json"
	"flag"
	"fmt"
	"os"
)

// Main is the entry point shared by every per-property harness binary (harness/<prop>/main.go):
//
//	fvh-cXX list
//	fvh-cXX gen    -stream S -n N [-offset O] -seed K [-corpus file] [-nocorpus]
//	fvh-cXX replay -stream S < inputs.jsonl      one JSON input per line
func Main() {
	if len(os.Args) < 2 {
		Fatal("usage: fvh list|gen|replay ...")
	}
	cmd := os.Args[1]
	fs := flag.NewFlagSet(cmd, flag.ExitOnError)
	stream := fs.String("stream", "", "stream name")
	n := fs.Int("n", 1000, "generated cases")
	seed := fs.Uint64("seed", 1, "seed")
	nocorpus := fs.Bool("nocorpus", false, "skip the built-in and file corpus")
	offset := fs.Int("offset", 0, "index of the first generated case (for sharding)")
	corpus := fs.String("corpus", "", "file with one JSON input per line, run before generation")
	fs.Parse(os.Args[2:])

	switch cmd {
	case "list":
		for _, s := range Names() {
			fmt.Println(s)
		}
	case "gen":
		s := Get(*stream)
		if s == nil {
			Fatal("unknown stream %q", *stream)
		}
		w := NewWriter(os.Stdout)
		defer w.Flush()
		if !*nocorpus {
			for _, in := range s.Corpus {
				if err := EmitOne(w, s, in); err != nil {
					Fatal("emit: %v", err)
				}
			}
			if *corpus != "" {
				if f, err := os.Open(*corpus); err == nil {
					replayLines(w, s, f)
					f.Close()
				}
			}
		}
		base := NewRand(*seed, s.Name)
		for i := *offset; i < *offset+*n; i++ {
			in := s.Gen(base.Split(i), i)
			if err := EmitOne(w, s, in); err != nil {
				Fatal("emit: %v", err)
			}
		}
	case "replay":
		s := Get(*stream)
		if s == nil {
			Fatal("unknown stream %q", *stream)
		}
		w := NewWriter(os.Stdout)
		defer w.Flush()
		replayLines(w, s, os.Stdin)
	default:
		Fatal("unknown command %q", cmd)
	}
}

func replayLines(w *Writer, s *Stream, f *os.File) {
	sc := bufio.NewScanner(f)
	sc.Buffer(make([]byte, 1<<20), 1<<28)
	for sc.Scan() {
		line := sc.Bytes()
		if len(line) == 0 || line[0] == '#' {
			continue
		}
		var in json.RawMessage = append([]byte(nil), line...)
		if err := EmitOne(w, s, in); err != nil {
			Fatal("emit: %v", err)
		}
	}
}
