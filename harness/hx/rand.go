package hx

// Rand is a splitmix64 PRNG; one state per run, derived from VERIF_SEED and the stream name, so that a
// disagreement replays exactly.
type Rand struct{ s uint64 }

func NewRand(seed uint64, salt string) *Rand {
	h := seed*0x9E3779B97F4A7C15 + 0x1234567
	for _, c := range []byte(salt) {
		h = (h ^ uint64(c)) * 0x100000001B3
	}
	return &Rand{s: h}
}

func (r *Rand) U64() uint64 {
	r.s += 0x9E3779B97F4A7C15
	z := r.s
	z = (z ^ (z >> 30)) * 0xBF58476D1CE4E5B9
	z = (z ^ (z >> 27)) * 0x94D049BB133111EB
	return z ^ (z >> 31)
}

// Intn returns a value in [0,n); n must be > 0.
func (r *Rand) Intn(n int) int { return int(r.U64() % uint64(n)) }

// Range returns a value in [lo,hi].
func (r *Rand) Range(lo, hi int) int { return lo + r.Intn(hi-lo+1) }

// Chance is true with probability num/den.
func (r *Rand) Chance(num, den int) bool { return r.Intn(den) < num }

func (r *Rand) Pick(xs []string) string { return xs[r.Intn(len(xs))] }

func (r *Rand) Bytes(n int) []byte {
	b := make([]byte, n)
	for i := range b {
		b[i] = byte(r.U64())
	}
	return b
}

// Split derives an independent generator (for the i-th case) without disturbing r's own sequence.
func (r *Rand) Split(i int) *Rand {
	return &Rand{s: r.s ^ (uint64(i)+1)*0xD6E8FEB86659FD93}
}
