// Package hx is the shared plumbing of the correspondence harness: a registry of streams, a deterministic
// PRNG (every random choice of a run derives from VERIF_SEED), the line writer, and panic capture.
package hx

import (
	"bufio"
	"encoding/json"
	"fmt"
	"io"
	"os"
	"sort"
)

// Case is one line of the protocol: the generated input and what the real code did with it.
type Case struct {
	Stream string      `json:"stream"`
	In     interface{} `json:"in"`
	Impl   interface{} `json:"impl"`
}

// Stream describes one correspondence stream.
//   Gen   builds the i-th input from the PRNG (structured, mostly valid; malformed share decided inside).
//   Run   executes the real implementation in-process on an input (decoded from JSON on replay, so Run must
//         accept what json.Unmarshal produces for the input type: use Decode to get a typed value).
type Stream struct {
	Name   string
	Gen    func(r *Rand, i int) interface{}
	Run    func(in json.RawMessage) (interface{}, error)
	Corpus []interface{} // hand-picked inputs that always run first
}

var registry = map[string]*Stream{}

func Register(s *Stream) {
	if _, dup := registry[s.Name]; dup {
		panic("duplicate stream " + s.Name)
	}
	registry[s.Name] = s
}

func Names() []string {
	var ns []string
	for n := range registry {
		ns = append(ns, n)
	}
	sort.Strings(ns)
	return ns
}

func Get(name string) *Stream { return registry[name] }

// SafeRun runs f and converts a panic into (nil, "panic: ..."), so a crashing input is an observable, not
// the end of the run.
func SafeRun(f func() (interface{}, error)) (out interface{}, err error) {
	defer func() {
		if p := recover(); p != nil {
			out = map[string]interface{}{"panic": fmt.Sprint(p)}
			err = nil
		}
	}()
	return f()
}

type Writer struct {
	w *bufio.Writer
	e *json.Encoder
}

func NewWriter(w io.Writer) *Writer {
	bw := bufio.NewWriterSize(w, 1<<20)
	e := json.NewEncoder(bw)
	e.SetEscapeHTML(false)
	return &Writer{w: bw, e: e}
}

func (w *Writer) Emit(c *Case) error { return w.e.Encode(c) }
func (w *Writer) Flush()            { w.w.Flush() }

// Emit runs one input through a stream and writes the case line.
func EmitOne(w *Writer, s *Stream, in interface{}) error {
	raw, err := json.Marshal(in)
	if err != nil {
		return err
	}
	out, err := SafeRun(func() (interface{}, error) { return s.Run(raw) })
	if err != nil {
		out = map[string]interface{}{"harness_error": err.Error()}
	}
	return w.Emit(&Case{Stream: s.Name, In: json.RawMessage(raw), Impl: out})
}

func Fatal(format string, a ...interface{}) {
	fmt.Fprintf(os.Stderr, format+"\n", a...)
	os.Exit(2)
}
