// Package hx is the shared plumbing of the correspondence harness: a registry of streams, a deterministic
// PRNG (every random choice of a run derives from VERIF_SEED), the line writer, and panic capture.
package hx

import (
	"bufio"
	"encoding/json"
	"fmt"
	"io"
	"os"
	"sort"
	"strconv"
	"time"
)

// Case is one line of the protocol: the generated input and what the real code did with it.
type Case struct {
	Stream string      `json:"stream"`
	In     interface{} `json:"in"`
	Impl   interface{} `json:"impl"`
}

// Stream describes one correspondence stream.
//   Gen   builds the i-th input from the PRNG (structured, mostly valid; malformed share decided inside).
//   Run   executes the real implementation in-process on an input (decoded from JSON on replay, so Run must
//         accept what json.Unmarshal produces for the input type: use Decode to get a typed value).
type Stream struct {
	Name   string
	Gen    func(r *Rand, i int) interface{}
	Run    func(in json.RawMessage) (interface{}, error)
	Corpus []interface{} // hand-picked inputs that always run first
	// CaseTimeout is the ceiling for one case (0 = DefaultCaseTimeout). A case that does not answer within it is
	// reported as {"hang": …} — an observable like a panic — and the process ends (its state can no longer be
	// trusted; the remaining cases of the shard are skipped).
	CaseTimeout time.Duration
}

// DefaultCaseTimeout can be overridden with VERIF_CASE_TIMEOUT (seconds).
var DefaultCaseTimeout = 300 * time.Second

func init() {
	if v := os.Getenv("VERIF_CASE_TIMEOUT"); v != "" {
		if n, err := strconv.Atoi(v); err == nil && n > 0 {
			DefaultCaseTimeout = time.Duration(n) * time.Second
		}
	}
}

var registry = map[string]*Stream{}

func Register(s *Stream) {
	if _, dup := registry[s.Name]; dup {
		panic("duplicate stream " + s.Name)
	}
	registry[s.Name] = s
}

func Names() []string {
	var ns []string
	for n := range registry {
		ns = append(ns, n)
	}
	sort.Strings(ns)
	return ns
}

func Get(name string) *Stream { return registry[name] }

// SafeRun runs f and converts a panic into (nil, "panic: ..."), so a crashing input is an observable, not
// the end of the run.
func SafeRun(f func() (interface{}, error)) (out interface{}, err error) {
	defer func() {
		if p := recover(); p != nil {
			out = map[string]interface{}{"panic": fmt.Sprint(p)}
			err = nil
		}
	}()
	return f()
}

type Writer struct {
	w *bufio.Writer
	e *json.Encoder
}

func NewWriter(w io.Writer) *Writer {
	bw := bufio.NewWriterSize(w, 1<<20)
	e := json.NewEncoder(bw)
	e.SetEscapeHTML(false)
	return &Writer{w: bw, e: e}
}

func (w *Writer) Emit(c *Case) error { return w.e.Encode(c) }
func (w *Writer) Flush()            { w.w.Flush() }

// Emit runs one input through a stream and writes the case line.
func EmitOne(w *Writer, s *Stream, in interface{}) error {
	raw, err := json.Marshal(in)
	if err != nil {
		return err
	}
	type res struct {
		out interface{}
		err error
	}
	ch := make(chan res, 1)
	go func() {
		out, err := SafeRun(func() (interface{}, error) { return s.Run(raw) })
		ch <- res{out, err}
	}()
	limit := s.CaseTimeout
	if limit == 0 {
		limit = DefaultCaseTimeout
	}
	select {
	case r := <-ch:
		out, err := r.out, r.err
		if err != nil {
			out = map[string]interface{}{"harness_error": err.Error()}
		}
		return w.Emit(&Case{Stream: s.Name, In: json.RawMessage(raw), Impl: out})
	case <-time.After(limit):
		// the real code (or the scenario around it) does not come back: report it with the input, then stop
		w.Emit(&Case{Stream: s.Name, In: json.RawMessage(raw), Impl: map[string]interface{}{"hang": fmt.Sprintf("no answer within %s", limit)}})
		w.Flush()
		fmt.Fprintf(os.Stderr, "hx: case of stream %s did not answer within %s; remaining cases skipped\n", s.Name, limit)
		os.Exit(0)
		return nil
	}
}

func Fatal(format string, a ...interface{}) {
	fmt.Fprintf(os.Stderr, format+"\n", a...)
	os.Exit(2)
}
