package main

// Shared pieces of the C16 streams: the configuration main.go would hand to the gRPC proxy, route tables
// built through the repo's own parser, raw listeners, small helpers.

import (
	"bytes"
	"encoding/json"
	"fmt"
	"io"
	"log"
	"net"
	"sort"
	"strings"
	"sync"
	"time"

	"github.com/fabiolb/fabio/config"
	"github.com/fabiolb/fabio/route"
)

func init() {
	// the code under test logs every no-route and every cleanup
	log.SetOutput(io.Discard)
}

// proxyConfig is the part of config.Config the gRPC path reads, with the defaults of config/default.go
// (strategy "rnd", matcher "prefix", 4 MiB message limits); only the shutdown wait of the asynchronous
// closer is shortened so that "dropped" becomes observable quickly.
func proxyConfig(shutdownWait time.Duration) *config.Config {
	cfg := &config.Config{}
	cfg.Proxy.Strategy = "rnd"
	cfg.Proxy.Matcher = "prefix"
	cfg.Proxy.GRPCMaxRxMsgSize = 4 * 1024 * 1024
	cfg.Proxy.GRPCMaxTxMsgSize = 4 * 1024 * 1024
	cfg.Proxy.GRPCGShutdownTimeout = shutdownWait
	cfg.GlobCacheSize = 1000
	return cfg
}

// RouteSpec is one `route add` of a generated table: host (may be empty), path prefix, target URL indices.
type RouteSpec struct {
	Host string `json:"host"`
	Path string `json:"path"`
	URLs []int  `json:"urls"`
}

// buildTable renders the specs in fabio's command language and lets the repo parse them.
func buildTable(specs []RouteSpec, urlOf func(int) string) (route.Table, error) {
	var b bytes.Buffer
	n := 0
	for _, s := range specs {
		for _, u := range s.URLs {
			us := urlOf(u)
			if us == "" {
				continue
			}
			if !strings.HasPrefix(s.Path, "/") || strings.ContainsAny(s.Host+s.Path, " \t\n\"") {
				return nil, fmt.Errorf("bad route spec")
			}
			fmt.Fprintf(&b, "route add svc%d %s%s %s opts \"proto=grpc\"\n", n, s.Host, s.Path, us)
			n++
		}
	}
	if n == 0 {
		return make(route.Table), nil
	}
	return route.NewTable(&b)
}

// listenLoopback opens a listener on a free loopback port. When several checks run at once the machine can
// run out of ephemeral ports for a while (TIME_WAIT); wait for up to a minute rather than fail the run.
func listenLoopback() (net.Listener, error) {
	var l net.Listener
	var err error
	for i := 0; i < 300; i++ {
		if l, err = net.Listen("tcp", "127.0.0.1:0"); err == nil {
			return l, nil
		}
		time.Sleep(200 * time.Millisecond)
	}
	return nil, err
}

// deadPort returns a loopback port with nothing listening (reserved once per process by binding and closing).
var (
	deadOnce  sync.Once
	deadPorts []int
)

func deadPort(i int) int {
	deadOnce.Do(func() {
		// hold all listeners until every port is known, otherwise the kernel may hand out the same port twice
		var ls []net.Listener
		for j := 0; j < 4; j++ {
			l, err := listenLoopback()
			if err != nil {
				panic(err)
			}
			deadPorts = append(deadPorts, l.Addr().(*net.TCPAddr).Port)
			ls = append(ls, l)
		}
		for _, l := range ls {
			l.Close()
		}
	})
	return deadPorts[i%len(deadPorts)]
}

func sortedInts(m map[int]bool) []int {
	out := make([]int, 0, len(m))
	for k := range m {
		out = append(out, k)
	}
	sort.Ints(out)
	return out
}

func decode(raw json.RawMessage, v interface{}) error {
	d := json.NewDecoder(bytes.NewReader(raw))
	return d.Decode(v)
}
