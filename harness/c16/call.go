package main

// c16.call — real gRPC calls through the real interceptor + director + grpc_proxy.TransparentHandler, wired
// exactly as main.go's newGrpcProxy wires them (that function lives in package main and cannot be imported;
// its option list is pinned by a regenerated fact, see tools/factgen/c16.go), to instrumented backends.
//
// Caller and backends speak raw bytes (a pass-through codec), so arbitrary method names and arbitrary
// well-formed protobuf messages can be sent without generated stubs; the backend is an
// UnknownServiceHandler that follows a per-call script (headers, messages, trailers, status, interaction
// mode) and records what it received.

import (
	"context"
	"encoding/hex"
	"encoding/json"
	"fmt"
	"io"
	"net"
	"net/http"
	"net/url"
	"reflect"
	"sort"
	"strings"
	"sync"
	"sync/atomic"
	"time"

	"github.com/fabiolb/fabio/auth"
	"github.com/fabiolb/fabio/config"
	"github.com/fabiolb/fabio/proxy"
	"github.com/fabiolb/fabio/route"
	"github.com/go-kit/kit/metrics/generic"
	grpc_proxy "github.com/mwitkow/grpc-proxy/proxy"
	"google.golang.org/grpc"
	"google.golang.org/grpc/codes"
	"google.golang.org/grpc/credentials/insecure"
	"google.golang.org/grpc/metadata"
	"google.golang.org/grpc/peer"
	"google.golang.org/grpc/stats"
	"google.golang.org/grpc/status"

	"verif/harness/hx"
	"verif/harness/rt"
)

// ---- raw codec -------------------------------------------------------------------------------------------

type rawCodec struct{}

func (rawCodec) Marshal(v interface{}) ([]byte, error) {
	b, ok := v.(*[]byte)
	if !ok {
		return nil, fmt.Errorf("rawCodec: %T", v)
	}
	return *b, nil
}
func (rawCodec) Unmarshal(data []byte, v interface{}) error {
	b, ok := v.(*[]byte)
	if !ok {
		return fmt.Errorf("rawCodec: %T", v)
	}
	*b = append([]byte(nil), data...)
	return nil
}
func (rawCodec) Name() string { return "proto" }

// ---- metadata in canonical form --------------------------------------------------------------------------

// KV is one metadata key with its values in order; values of "-bin" keys are hex.
type KV struct {
	K string   `json:"k"`
	V []string `json:"v"`
}

func isBin(k string) bool { return strings.HasSuffix(k, "-bin") }

func canonMD(md metadata.MD) []KV {
	out := []KV{}
	for k, vs := range md {
		e := KV{K: k}
		for _, v := range vs {
			if isBin(k) {
				v = hex.EncodeToString([]byte(v))
			}
			e.V = append(e.V, v)
		}
		out = append(out, e)
	}
	sort.Slice(out, func(i, j int) bool { return out[i].K < out[j].K })
	return out
}

// pairsMD builds metadata from [key, value] pairs in order (hex for -bin keys).
func pairsMD(ps [][]string) (metadata.MD, error) {
	md := metadata.MD{}
	for _, p := range ps {
		if len(p) != 2 {
			return nil, fmt.Errorf("metadata pair")
		}
		k, v := strings.ToLower(p[0]), p[1]
		if isBin(k) {
			b, err := hex.DecodeString(v)
			if err != nil {
				return nil, err
			}
			v = string(b)
		}
		md[k] = append(md[k], v)
	}
	return md, nil
}

// ---- backends --------------------------------------------------------------------------------------------

type Script struct {
	// DelayMS: the backend waits that long before it sends its first message (or, without messages, its status)
	DelayMS int        `json:"delay_ms,omitempty"`
	Mode    string     `json:"mode"` // drain | pingpong | replyfirst | early
	Header  [][]string `json:"header,omitempty"`
	Msgs    []string   `json:"msgs,omitempty"` // hex
	Trailer [][]string `json:"trailer,omitempty"`
	Code    int        `json:"code"`
	Message string     `json:"message,omitempty"`
}

type backendRec struct {
	Idx     int      `json:"idx"`
	Method  string   `json:"method"`
	MD      []KV     `json:"md"`
	Msgs    []string `json:"msgs"`
	Drained bool     `json:"drained"`
	Conn    int      `json:"conn"` // connection (peer address) numbered by first appearance within the case
	Err     string   `json:"err,omitempty"`
	peer    string
	callID  string
	done    chan struct{}
}

type backend struct {
	idx   int
	addr  string
	srv   *grpc.Server
	hits  int64
	conns int64 // currently open transport connections (stats handler)
	begun int64 // connections ever accepted
}

var (
	curScript atomic.Value // *scriptBytes
	// parScripts: the scripts of calls that run concurrently (step "par"), by the value of their
	// metadata key callIDKey
	parScripts sync.Map // string -> *scriptBytes
	recMu      sync.Mutex
	recs       []*backendRec
)

// callIDKey is the custom metadata key by which concurrent calls of a "par" step are told apart on the
// backend side (it is ordinary custom metadata of the call and is judged like every other key).
const callIDKey = "x-call"

type scriptBytes struct {
	s       *Script
	msgs    [][]byte
	header  metadata.MD
	trailer metadata.MD
}

func (b *backend) TagConn(ctx context.Context, _ *stats.ConnTagInfo) context.Context { return ctx }
func (b *backend) TagRPC(ctx context.Context, _ *stats.RPCTagInfo) context.Context   { return ctx }
func (b *backend) HandleRPC(context.Context, stats.RPCStats)                         {}
func (b *backend) HandleConn(_ context.Context, s stats.ConnStats) {
	switch s.(type) {
	case *stats.ConnBegin:
		atomic.AddInt64(&b.conns, 1)
		atomic.AddInt64(&b.begun, 1)
	case *stats.ConnEnd:
		atomic.AddInt64(&b.conns, -1)
	}
}

func (b *backend) handle(_ interface{}, ss grpc.ServerStream) error {
	atomic.AddInt64(&b.hits, 1)
	rec := &backendRec{Idx: b.idx, Msgs: []string{}, done: make(chan struct{})}
	defer close(rec.done)
	rec.Method, _ = grpc.MethodFromServerStream(ss)
	md, _ := metadata.FromIncomingContext(ss.Context())
	rec.MD = canonMD(md)
	if p, ok := peer.FromContext(ss.Context()); ok {
		rec.peer = p.Addr.String()
	}
	recMu.Lock()
	recs = append(recs, rec)
	recMu.Unlock()
	var sb *scriptBytes
	if ids := md[callIDKey]; len(ids) == 1 {
		rec.callID = ids[0]
		if v, ok := parScripts.Load(ids[0]); ok {
			sb = v.(*scriptBytes)
		}
	}
	if sb == nil {
		sb, _ = curScript.Load().(*scriptBytes)
	}
	if sb == nil {
		return status.Error(codes.FailedPrecondition, "harness: no script")
	}
	sentHeader := false
	delayed := sb.s.DelayMS <= 0
	delay := func() {
		if !delayed {
			delayed = true
			time.Sleep(time.Duration(sb.s.DelayMS) * time.Millisecond)
		}
	}
	send := func(i int) error {
		delay()
		if !sentHeader {
			sentHeader = true
			if err := ss.SendHeader(sb.header); err != nil {
				return err
			}
		}
		m := sb.msgs[i]
		return ss.SendMsg(&m)
	}
	drain := func(onMsg func(i int) error) error {
		for i := 0; ; i++ {
			var m []byte
			err := ss.RecvMsg(&m)
			if err == io.EOF {
				rec.Drained = true
				return nil
			}
			if err != nil {
				rec.Err = "recv: " + status.Convert(err).Code().String()
				return err
			}
			rec.Msgs = append(rec.Msgs, hex.EncodeToString(m))
			if onMsg != nil {
				if err := onMsg(i); err != nil {
					return err
				}
			}
		}
	}
	next := 0
	switch sb.s.Mode {
	case "early":
		// answer without reading anything
	case "replyfirst":
		for ; next < len(sb.msgs); next++ {
			if err := send(next); err != nil {
				rec.Err = "send"
				return err
			}
		}
		if err := drain(nil); err != nil {
			return err
		}
	case "pingpong":
		err := drain(func(i int) error {
			if next < len(sb.msgs) {
				next++
				return send(next - 1)
			}
			return nil
		})
		if err != nil {
			return err
		}
	default: // drain
		if err := drain(nil); err != nil {
			return err
		}
	}
	for ; next < len(sb.msgs); next++ {
		if err := send(next); err != nil {
			rec.Err = "send"
			return err
		}
	}
	delay()
	if !sentHeader && len(sb.header) > 0 {
		ss.SetHeader(sb.header)
	}
	ss.SetTrailer(sb.trailer)
	if sb.s.Code == 0 {
		return nil
	}
	return status.Error(codes.Code(sb.s.Code), sb.s.Message)
}

// ---- the proxy, wired as main.newGrpcProxy does --------------------------------------------------------------

type rig struct {
	backends []*backend
	proxyLn  net.Listener
	client   *grpc.ClientConn
	noRoute  *generic.Counter
	cfg      *config.Config
	urls     []string
}

var (
	rigOnce sync.Once
	theRig  *rig
	rigMu   sync.Mutex
	rigs    = map[int]*rig{}
)

// callConfigs: the configurations the call stream runs the proxy under. 0 = the defaults of config/default.go
// (proxyConfig); 2 = matcher iprefix, glob matching disabled, strategy rr; 1 = every duration option of config.Proxy short (the property is about every call, whatever
// timeouts the operator configured for the proxy: none of them may cut a healthy gRPC call), found by
// reflection over the repo's own type so that an option added later is covered as well.
const callConfigs = 3

const shortOption = 120 * time.Millisecond

func callConfig(v int) *config.Config {
	cfg := proxyConfig(100 * time.Millisecond)
	if v == 1 {
		pv := reflect.ValueOf(&cfg.Proxy).Elem()
		dur := reflect.TypeOf(time.Duration(0))
		for i := 0; i < pv.NumField(); i++ {
			if f := pv.Field(i); f.Type() == dur && f.CanSet() && pv.Type().Field(i).Name != "GRPCGShutdownTimeout" {
				f.SetInt(int64(shortOption))
			}
		}
	}
	if v == 2 {
		// the other routing options the interceptor hands to Table.Lookup: case-insensitive prefix matcher,
		// host globbing off, round-robin picker
		cfg.Proxy.Matcher = "iprefix"
		cfg.Proxy.Strategy = "rr"
		cfg.GlobMatchingDisabled = true
	}
	return cfg
}

// rigFor returns the proxy running under configuration v; all share the backends of configuration 0.
func rigFor(v int) (*rig, error) {
	base := getRig()
	if v == 0 {
		return base, nil
	}
	if v < 0 || v >= callConfigs {
		return nil, fmt.Errorf("no such configuration")
	}
	rigMu.Lock()
	defer rigMu.Unlock()
	if r, ok := rigs[v]; ok {
		return r, nil
	}
	r := &rig{cfg: callConfig(v), noRoute: generic.NewCounter("grpc.noroute"), backends: base.backends, urls: base.urls}
	l, err := listenLoopback()
	if err != nil {
		return nil, err
	}
	r.proxyLn = l
	go newProxyServer(r.cfg, r.noRoute).Serve(l)
	cc, err := grpc.Dial(l.Addr().String(), grpc.WithTransportCredentials(insecure.NewCredentials()),
		grpc.WithDefaultCallOptions(grpc.ForceCodec(rawCodec{}), grpc.MaxCallRecvMsgSize(16<<20), grpc.MaxCallSendMsgSize(16<<20)))
	if err != nil {
		return nil, err
	}
	r.client = cc
	rigs[v] = r
	return r, nil
}

const callBackends = 3

// newProxyServer replicates main.newGrpcProxy + proxy.ListenAndServeGRPC's grpc.NewServer(opts...).
func newProxyServer(cfg *config.Config, noRoute *generic.Counter) *grpc.Server {
	statsHandler := &proxy.GrpcStatsHandler{
		Connect: generic.NewCounter("grpc.conn"),
		Request: generic.NewHistogram("grpc.requests", 50),
		NoRoute: noRoute,
		Status:  generic.NewHistogram("grpc.status", 50),
	}
	globCache := route.NewGlobCache(cfg.GlobCacheSize)
	authSchemes, err := auth.LoadAuthSchemes(cfg.Proxy.AuthSchemes)
	if err != nil {
		panic(err)
	}
	proxyInterceptor := proxy.GrpcProxyInterceptor{
		Config:       cfg,
		StatsHandler: statsHandler,
		GlobCache:    globCache,
		AuthSchemes:  authSchemes,
	}
	handler := grpc_proxy.TransparentHandler(proxy.GetGRPCDirector(nil, cfg))
	return grpc.NewServer(
		grpc.CustomCodec(grpc_proxy.Codec()),
		grpc.UnknownServiceHandler(handler),
		grpc.StreamInterceptor(proxyInterceptor.Stream),
		grpc.StatsHandler(statsHandler),
		grpc.MaxRecvMsgSize(cfg.Proxy.GRPCMaxRxMsgSize),
		grpc.MaxSendMsgSize(cfg.Proxy.GRPCMaxTxMsgSize),
	)
}

func getRig() *rig {
	rigOnce.Do(func() {
		r := &rig{cfg: callConfig(0), noRoute: generic.NewCounter("grpc.noroute")}
		for i := 0; i < callBackends; i++ {
			l, err := listenLoopback()
			if err != nil {
				panic(err)
			}
			b := &backend{idx: i, addr: l.Addr().String()}
			b.srv = grpc.NewServer(grpc.ForceServerCodec(rawCodec{}), grpc.UnknownServiceHandler(b.handle), grpc.StatsHandler(b),
				grpc.MaxRecvMsgSize(16<<20), grpc.MaxSendMsgSize(16<<20))
			go b.srv.Serve(l)
			r.backends = append(r.backends, b)
			r.urls = append(r.urls, "grpc://"+b.addr)
		}
		l, err := listenLoopback()
		if err != nil {
			panic(err)
		}
		r.proxyLn = l
		go newProxyServer(r.cfg, r.noRoute).Serve(l)
		cc, err := grpc.Dial(l.Addr().String(), grpc.WithTransportCredentials(insecure.NewCredentials()),
			grpc.WithDefaultCallOptions(grpc.ForceCodec(rawCodec{}), grpc.MaxCallRecvMsgSize(16<<20), grpc.MaxCallSendMsgSize(16<<20)))
		if err != nil {
			panic(err)
		}
		r.client = cc
		theRig = r
	})
	return theRig
}

func (r *rig) urlOf(i int) string {
	if i < 0 || i >= len(r.urls) {
		return ""
	}
	return r.urls[i]
}

// ---- cases -----------------------------------------------------------------------------------------------

type CallStep struct {
	Op     string      `json:"op"` // call | table
	Routes []RouteSpec `json:"routes,omitempty"`
	// Defs is a table given as a script of route commands (add / del / weight) whose targets are the
	// placeholders grpc://b0, grpc://b1, … (replaced by the backends' addresses when the table is built)
	Defs   []rt.Def   `json:"defs,omitempty"`
	Method string     `json:"method,omitempty"`
	MD     [][]string `json:"md,omitempty"`
	Msgs   []string   `json:"msgs,omitempty"` // hex
	Script *Script    `json:"script,omitempty"`
	// PauseMS: the caller waits that long before it sends its last message (before it closes its side when it
	// has none): a slow upload
	PauseMS int `json:"pause_ms,omitempty"`
	// Calls (op "par"): calls that run concurrently, each with its own script; every one carries a distinct
	// value of the metadata key callIDKey
	Calls []CallStep `json:"calls,omitempty"`
}

type CallCase struct {
	Steps []CallStep `json:"steps"`
	Cfg   int        `json:"cfg,omitempty"` // configuration of the proxy (callConfig)
}

type callerSaw struct {
	Header  []KV     `json:"header"`
	Msgs    []string `json:"msgs"`
	Trailer []KV     `json:"trailer"`
	Code    int      `json:"code"`
	Message string   `json:"message"`
}

type oracleHost struct {
	H    string `json:"h"`
	URLs []int  `json:"urls"`
}

type callObs struct {
	Op string `json:"op"`
	// table steps: did NewTable fail, the resulting table as route.VerifDump shows it (target URLs mapped
	// back to the placeholders), and the oracle values of the table model's parameters (url.Parse, glob.Compile)
	Error bool                   `json:"error,omitempty"`
	Dump  []route.VerifHost      `json:"dump,omitempty"`
	Env   map[string]interface{} `json:"env,omitempty"`

	Caller  *callerSaw   `json:"caller,omitempty"`
	Backend *backendRec  `json:"backend,omitempty"`
	Hits    []int64      `json:"hits,omitempty"`
	NoRoute int          `json:"noroute"`
	PathOK  bool         `json:"path_ok"`
	Path    string       `json:"path"`
	Oracle  []oracleHost `json:"oracle,omitempty"`
	// op "par": one observation per concurrent call
	Calls []*callObs `json:"calls,omitempty"`
}

// oracleLookup asks the real table which targets a request with this host and path may be sent to (the
// whole target list of the matching route when the picker would choose).
func (r *rig) oracleLookup(host, path string) []int {
	var picked *route.Route
	pick := func(rt *route.Route) *route.Target { picked = rt; return rt.Targets[0] }
	req := &http.Request{Host: host, URL: &url.URL{Path: path}, Header: http.Header{}}
	t := route.GetTable().Lookup(req, "", pick, route.Matcher[r.cfg.Proxy.Matcher], route.NewGlobCache(10), r.cfg.GlobMatchingDisabled)
	if t == nil {
		return []int{}
	}
	set := map[int]bool{}
	add := func(t *route.Target) {
		for i, u := range r.urls {
			if t.URL.String() == u {
				set[i] = true
			}
		}
	}
	if picked != nil {
		for _, x := range picked.Targets {
			add(x)
		}
	} else {
		add(t)
	}
	return sortedInts(set)
}

func unhexAll(hs []string) ([][]byte, error) {
	out := make([][]byte, len(hs))
	for i, h := range hs {
		b, err := hex.DecodeString(h)
		if err != nil {
			return nil, err
		}
		out[i] = b
	}
	return out, nil
}

// prepared is a call ready to be made: decoded metadata, messages and script, and the oracle part of its
// observation.
type prepared struct {
	st   *CallStep
	md   metadata.MD
	msgs [][]byte
	sb   *scriptBytes
	o    *callObs
}

func (r *rig) prepare(st *CallStep) (*prepared, error) {
	if st.Script == nil {
		st.Script = &Script{Mode: "drain"}
	}
	if !strings.HasPrefix(st.Method, "/") || strings.Count(st.Method, "/") < 2 {
		return nil, fmt.Errorf("method must look like /service/method")
	}
	md, err := pairsMD(st.MD)
	if err != nil {
		return nil, err
	}
	msgs, err := unhexAll(st.Msgs)
	if err != nil {
		return nil, err
	}
	sb := &scriptBytes{s: st.Script}
	if sb.msgs, err = unhexAll(st.Script.Msgs); err != nil {
		return nil, err
	}
	if sb.header, err = pairsMD(st.Script.Header); err != nil {
		return nil, err
	}
	if sb.trailer, err = pairsMD(st.Script.Trailer); err != nil {
		return nil, err
	}
	if len(msgs) > 64 || len(sb.msgs) > 64 {
		return nil, fmt.Errorf("too many messages")
	}
	if st.PauseMS < 0 || st.PauseMS > 2000 || st.Script.DelayMS < 0 || st.Script.DelayMS > 2000 {
		return nil, fmt.Errorf("bad pause")
	}
	o := &callObs{Op: "call"}
	// oracle: what the table answers for the empty host and for every dsthost value
	if u, err := url.ParseRequestURI(st.Method); err == nil {
		o.PathOK, o.Path = true, u.Path
		seen := map[string]bool{}
		for _, h := range append([]string{""}, md["dsthost"]...) {
			if !seen[h] {
				seen[h] = true
				o.Oracle = append(o.Oracle, oracleHost{H: h, URLs: r.oracleLookup(h, u.Path)})
			}
		}
	}
	return &prepared{st: st, md: md, msgs: msgs, sb: sb, o: o}, nil
}

// exchange makes the call as the caller and records what the caller saw.
func (r *rig) exchange(p *prepared) {
	st, md, msgs, sb := p.st, p.md, p.msgs, p.sb
	ctx, cancel := context.WithTimeout(metadata.NewOutgoingContext(context.Background(), md), 10*time.Second)
	defer cancel()
	saw := &callerSaw{Msgs: []string{}}
	var finalErr error
	cs, err := r.client.NewStream(ctx, &grpc.StreamDesc{ClientStreams: true, ServerStreams: true}, st.Method)
	if err != nil {
		finalErr = err
	} else {
		recvOne := func() bool {
			var m []byte
			if err := cs.RecvMsg(&m); err != nil {
				finalErr = err
				return false
			}
			saw.Msgs = append(saw.Msgs, hex.EncodeToString(m))
			return true
		}
		alive := true
		nrep := len(sb.msgs)
		got := 0
		if st.Script.Mode == "replyfirst" {
			for ; alive && got < nrep; got++ {
				alive = recvOne()
			}
		}
		pause := func() {
			if st.PauseMS > 0 {
				time.Sleep(time.Duration(st.PauseMS) * time.Millisecond)
			}
		}
		for i := range msgs {
			if !alive {
				break
			}
			if i == len(msgs)-1 {
				pause()
			}
			m := msgs[i]
			if err := cs.SendMsg(&m); err != nil {
				break // the status is picked up by RecvMsg below
			}
			if st.Script.Mode == "pingpong" && got < nrep {
				alive = recvOne()
				got++
			}
		}
		if len(msgs) == 0 && alive {
			pause()
		}
		cs.CloseSend()
		for alive {
			alive = recvOne()
		}
		if h, err := cs.Header(); err == nil {
			saw.Header = canonMD(h)
		}
		saw.Trailer = canonMD(cs.Trailer())
	}
	if saw.Header == nil {
		saw.Header = []KV{}
	}
	if saw.Trailer == nil {
		saw.Trailer = []KV{}
	}
	if finalErr != nil && finalErr != io.EOF {
		s := status.Convert(finalErr)
		saw.Code, saw.Message = int(s.Code()), s.Message()
	}
	p.o.Caller = saw
}

// takeRecs returns what the backends recorded since the last reset, after their handlers have returned.
func takeRecs() []*backendRec {
	recMu.Lock()
	rs := recs
	recMu.Unlock()
	for _, rec := range rs {
		select {
		case <-rec.done:
		case <-time.After(3 * time.Second):
			rec.Err = "handler still running"
		}
	}
	return rs
}

func resetRecs() {
	recMu.Lock()
	recs = nil
	recMu.Unlock()
}

func numberConn(rec *backendRec, connIDs map[string]int) {
	key := fmt.Sprintf("%d/%s", rec.Idx, rec.peer)
	id, ok := connIDs[key]
	if !ok {
		id = len(connIDs)
		connIDs[key] = id
	}
	rec.Conn = id
}

func (r *rig) doCall(st *CallStep, connIDs map[string]int) (*callObs, error) {
	p, err := r.prepare(st)
	if err != nil {
		return nil, err
	}
	curScript.Store(p.sb)
	o := p.o
	before := make([]int64, len(r.backends))
	for i, b := range r.backends {
		before[i] = atomic.LoadInt64(&b.hits)
	}
	nr0 := r.noRoute.Value()
	resetRecs()

	r.exchange(p)

	// what the backends saw
	rs := takeRecs()
	for i, b := range r.backends {
		o.Hits = append(o.Hits, atomic.LoadInt64(&b.hits)-before[i])
	}
	if len(rs) > 0 {
		numberConn(rs[0], connIDs)
		o.Backend = rs[0]
	}
	o.NoRoute = int(r.noRoute.Value() - nr0)
	return o, nil
}

// doPar runs the calls of a "par" step concurrently (released together), each with its own script, and
// attributes what the backends recorded to the calls by the value of the metadata key callIDKey.
func (r *rig) doPar(st *CallStep, connIDs map[string]int) (*callObs, error) {
	if len(st.Calls) == 0 || len(st.Calls) > 8 {
		return nil, fmt.Errorf("par: 1..8 calls")
	}
	ps := make([]*prepared, len(st.Calls))
	ids := make([]string, len(st.Calls))
	seen := map[string]bool{}
	for i := range st.Calls {
		p, err := r.prepare(&st.Calls[i])
		if err != nil {
			return nil, err
		}
		v := p.md[callIDKey]
		if len(v) != 1 || v[0] == "" || seen[v[0]] {
			return nil, fmt.Errorf("par: every call needs its own %s value", callIDKey)
		}
		seen[v[0]] = true
		ps[i], ids[i] = p, v[0]
	}
	for i, p := range ps {
		parScripts.Store(ids[i], p.sb)
	}
	defer func() {
		for _, id := range ids {
			parScripts.Delete(id)
		}
	}()
	curScript.Store((*scriptBytes)(nil))
	nr0 := r.noRoute.Value()
	resetRecs()

	var wg sync.WaitGroup
	start := make(chan struct{})
	for _, p := range ps {
		wg.Add(1)
		go func(p *prepared) {
			defer wg.Done()
			<-start
			r.exchange(p)
		}(p)
	}
	close(start)
	wg.Wait()

	rs := takeRecs()
	out := &callObs{Op: "par"}
	for i, p := range ps {
		o := p.o
		o.Hits = make([]int64, len(r.backends))
		for _, rec := range rs {
			if rec.callID == ids[i] {
				if rec.Idx >= 0 && rec.Idx < len(o.Hits) {
					o.Hits[rec.Idx]++
				}
				if o.Backend == nil {
					numberConn(rec, connIDs)
					o.Backend = rec
				}
			}
		}
		out.Calls = append(out.Calls, o)
	}
	// the no-route counter is shared: it must have moved once per call the proxy itself answered "no route found"
	byProxy := func(o *callObs) bool {
		return o.Backend == nil && o.Caller.Code == int(codes.NotFound) && o.Caller.Message == "no route found"
	}
	answered := 0
	for _, o := range out.Calls {
		if byProxy(o) {
			answered++
		}
	}
	if delta := int(r.noRoute.Value() - nr0); delta == answered {
		for _, o := range out.Calls {
			if byProxy(o) {
				o.NoRoute = 1
			}
		}
	}
	// a record that belongs to none of the calls: somebody was called who should not have been
	for _, rec := range rs {
		if !seen[rec.callID] {
			out.NoRoute = -1
		}
	}
	return out, nil
}

// placeholder of backend i in generated scripts
func placeholder(i int) string { return fmt.Sprintf("grpc://b%d", i) }

// defsOf turns the simple route specs into `route add` commands (the Lean driver does the same).
func defsOf(specs []RouteSpec) []rt.Def {
	var ds []rt.Def
	n := 0
	for _, s := range specs {
		for _, u := range s.URLs {
			ds = append(ds, rt.Def{Cmd: "add", Service: fmt.Sprintf("svc%d", n), Src: s.Host + s.Path, Dst: placeholder(u),
				Opts: [][]string{{"proto", "grpc"}}})
			n++
		}
	}
	return ds
}

// setTable builds the table of a step through the repo's own parser and command interpreter (NewTable) and
// makes it the active one; on an error the active table stays.
func (r *rig) setTable(st *CallStep) (*callObs, error) {
	defs := st.Defs
	if len(defs) == 0 {
		defs = defsOf(st.Routes)
	}
	if len(defs) > 64 {
		return nil, fmt.Errorf("script too long")
	}
	for i := range defs {
		defs[i].Fill()
		if strings.ContainsAny(defs[i].Service+defs[i].Src+defs[i].Dst+defs[i].WText+defs[i].Cmd, "\n\r\"") {
			return nil, fmt.Errorf("bad character in route command")
		}
	}
	o := &callObs{Op: "table", Env: rt.Oracle(defs)}
	real := make([]rt.Def, len(defs))
	for i, d := range defs {
		real[i] = d
		for b, u := range r.urls {
			if d.Dst == placeholder(b) {
				real[i].Dst = u
			}
		}
	}
	var t route.Table
	var err error
	if len(real) == 0 {
		t = make(route.Table)
	} else {
		t, err = route.VerifNewTable(rt.Text(real))
	}
	if err != nil || t == nil {
		o.Error = true
		return o, nil
	}
	route.SetTable(t)
	o.Dump = route.VerifDump(t, false)
	for hi := range o.Dump {
		for ri := range o.Dump[hi].Routes {
			tg := o.Dump[hi].Routes[ri].Targets
			for ti := range tg {
				for b, u := range r.urls {
					if tg[ti].URL == u {
						tg[ti].URL = placeholder(b)
					}
				}
			}
		}
	}
	return o, nil
}

func runCall(raw json.RawMessage) (interface{}, error) {
	var c CallCase
	if err := decode(raw, &c); err != nil {
		return nil, err
	}
	if len(c.Steps) > 100 {
		return nil, fmt.Errorf("too many steps")
	}
	r, err := rigFor(c.Cfg)
	if err != nil {
		return nil, err
	}
	saved := route.GetTable()
	defer route.SetTable(saved)
	route.SetTable(make(route.Table))
	connIDs := map[string]int{}
	var out []*callObs
	for i := range c.Steps {
		st := &c.Steps[i]
		switch st.Op {
		case "table":
			o, err := r.setTable(st)
			if err != nil {
				return nil, err
			}
			out = append(out, o)
		case "par":
			o, err := r.doPar(st, connIDs)
			if err != nil {
				return nil, err
			}
			out = append(out, o)
		case "call":
			o, err := r.doCall(st, connIDs)
			if err != nil {
				return nil, err
			}
			out = append(out, o)
		default:
			return nil, fmt.Errorf("unknown op %q", st.Op)
		}
	}
	return map[string]interface{}{"obs": out}, nil
}

// ---- generator -------------------------------------------------------------------------------------------

var (
	callHosts   = []string{"", "", "", "beta.example", "a.example"}
	callPaths   = []string{"/", "/svc.A", "/svc.A/", "/svc.A/M", "/svc.B", "/pkg.Echo/Bidi"}
	callMethods = []string{"/svc.A/M", "/svc.A/M", "/svc.A/Other", "/svc.B/X", "/pkg.Echo/Bidi", "/none.Svc/M",
		"/svc.AB/M", "/grpc.health.v1.Health/Check", "/SVC.a/M", "/svc.a/other"}
	oddMethods = []string{"/svc.A/M%41", "/svc.A/M?x=1", "/svc.B/%zz", "/svc.A/M#frag", "/svc.A//M", "/svc.B/X Y", "/svc.A/é"}
	mdKeys     = []string{"x-a", "x-a", "x-b", "k-bin", "authorization", "trace", "x-req-id", "x.dot_key-1"}
	mdVals     = []string{"1", "v", "two words", "a,b", "100%", "Bearer abc.def==", "ünïcode-no", "", "tab\there"}
	statusMsgs = []string{"", "boom", "no route found", "with spaces, commas", "percent %41 and ünïcode ✓", "line\nbreak"}
	statusCode = []int{0, 0, 0, 0, 0, 5, 13, 3, 14, 16, 2, 9, 7}
)

func asciiVal(r *hx.Rand) string {
	v := r.Pick(mdVals)
	// metadata values must be printable ASCII (grpc-go validates on the sending side); leading and trailing
	// blanks may be stripped per the gRPC spec and are not generated
	var b strings.Builder
	for _, c := range v {
		if c >= 0x20 && c < 0x7f {
			b.WriteRune(c)
		}
	}
	return strings.TrimSpace(b.String())
}

func genMD(r *hx.Rand, keys []string, max int) [][]string {
	var out [][]string
	n := r.Intn(max + 1)
	for i := 0; i < n; i++ {
		k := r.Pick(keys)
		if isBin(k) {
			out = append(out, []string{k, hex.EncodeToString(r.Bytes(r.Intn(12)))})
		} else {
			out = append(out, []string{k, asciiVal(r)})
		}
	}
	return out
}

func genMsgs(r *hx.Rand, max int, padTags bool) []string {
	n := r.Intn(max + 1)
	out := []string{}
	for i := 0; i < n; i++ {
		out = append(out, hex.EncodeToString(genProto(r, 0, padTags)))
	}
	return out
}

func genCallStep(r *hx.Rand) CallStep {
	st := CallStep{Op: "call", Method: r.Pick(callMethods)}
	if r.Chance(1, 8) {
		st.Method = r.Pick(oddMethods)
	}
	st.MD = genMD(r, mdKeys, 4)
	switch x := r.Intn(20); {
	case x < 9: // no dsthost
	case x < 13:
		st.MD = append(st.MD, []string{"dsthost", "beta.example"})
	case x < 14:
		st.MD = append(st.MD, []string{"dsthost", "BETA.example"})
	case x < 16:
		st.MD = append(st.MD, []string{"dsthost", "other.example"})
	case x < 17:
		st.MD = append(st.MD, []string{"dsthost", ""})
	case x < 19:
		st.MD = append(st.MD, []string{"dsthost", "beta.example"}, []string{"dsthost", r.Pick([]string{"a.example", "beta.example"})})
	default:
		st.MD = append([][]string{{"dsthost", "a.example"}}, st.MD...)
	}
	// a quarter of the calls carry non-minimally encoded top-level field tags: protobuf-go re-encodes those
	// while the message passes through grpc-proxy's emptypb.Empty - same message, other bytes
	padTags := r.Chance(1, 4)
	st.Msgs = genMsgs(r, 4, padTags)
	sc := &Script{Mode: r.Pick([]string{"drain", "drain", "pingpong", "replyfirst", "early"})}
	sc.Header = genMD(r, []string{"x-h", "x-h", "h-bin", "x-a"}, 3)
	sc.Msgs = genMsgs(r, 4, padTags)
	sc.Trailer = genMD(r, []string{"x-t", "x-t", "t-bin", "x-a"}, 3)
	sc.Code = statusCode[r.Intn(len(statusCode))]
	if sc.Code != 0 {
		sc.Message = r.Pick(statusMsgs)
	}
	// slow calls: an upload that takes longer than any configured timeout, a backend that answers late
	if r.Chance(1, 10) {
		st.PauseMS = r.Range(250, 400)
	}
	if r.Chance(1, 12) {
		sc.DelayMS = r.Range(250, 400)
	}
	st.Script = sc
	return st
}

func genCallRoutes(r *hx.Rand) []RouteSpec {
	var rs []RouteSpec
	n := r.Range(1, 4)
	if r.Chance(1, 12) {
		n = 0
	}
	for i := 0; i < n; i++ {
		s := RouteSpec{Host: r.Pick(callHosts), Path: r.Pick(callPaths)}
		m := 1
		if r.Chance(1, 4) {
			m = r.Range(2, 3)
		}
		for j := 0; j < m; j++ {
			s.URLs = append(s.URLs, r.Intn(callBackends))
		}
		rs = append(rs, s)
	}
	return rs
}

// callUniverse: the vocabulary of generated route scripts (hosts in several spellings and a pattern, nested
// path prefixes, shared tags so that `route del … tags` and `route weight` hit several targets).
var callUniverse = rt.Universe{
	Services: []string{"svc-a", "svc-b", "svc-c"},
	Hosts:    []string{"", "", "", "beta.example", "BETA.example", "a.example", "*.example"},
	Paths:    callPaths,
	Dsts:     []string{"grpc://b0", "grpc://b1", "grpc://b2"},
	Tags:     []string{"a", "b", "c"},
	Weights:  []string{"", "", "0", "0.25", "0.5", "0.5", "1", "2", "0.3333"},
	Opts:     [][]string{{"proto", "grpc"}, {"flag", ""}},
}

// genCallTable: a third of the tables are plain `route add` lists, the others are scripts with del and
// weight commands; some of those end with a `route del` aimed at the tags or the service of an added route,
// so that routes lose all their targets.
func genCallTable(r *hx.Rand) (CallStep, string) {
	if r.Chance(1, 3) {
		return CallStep{Op: "table", Routes: genCallRoutes(r)}, ""
	}
	aim := "" // source (host/path) of the route a directed `route del` was aimed at
	ds := callUniverse.GenScript(r, r.Range(2, 9))
	if r.Chance(1, 2) {
		var adds []rt.Def
		for _, d := range ds {
			if d.Cmd == "add" {
				adds = append(adds, d)
			}
		}
		if len(adds) > 0 {
			h := adds[r.Intn(len(adds))]
			d := rt.Def{Cmd: "del", Service: h.Service}
			switch {
			case len(h.Tags) > 0 && r.Chance(2, 3):
				d.Tags = []string{h.Tags[r.Intn(len(h.Tags))]}
				if r.Chance(1, 2) {
					d.Service = ""
				}
			case r.Chance(1, 2):
				d.Src = h.Src
			}
			if r.Chance(1, 2) {
				// a general route of another service on the same host: it must take over when the specific
				// route loses its targets
				host := h.Src
				if i := strings.Index(host, "/"); i >= 0 {
					host = host[:i]
				}
				ds = append(ds, rt.Def{Cmd: "add", Service: "svc-g", Src: host + "/", Dst: r.Pick(callUniverse.Dsts)})
			}
			ds = append(ds, d)
			aim = h.Src
		}
	}
	for i := range ds {
		ds[i].Fill()
	}
	return CallStep{Op: "table", Defs: ds}, aim
}

// aimCall points a call at the route with source src: a method under its path, its host as dsthost.
func aimCall(st *CallStep, src string) {
	host, path := src, "/"
	if i := strings.Index(src, "/"); i >= 0 {
		host, path = src[:i], src[i:]
	}
	switch {
	case path == "/":
		path = "/svc.A/M"
	case strings.HasSuffix(path, "/"):
		path += "M"
	case strings.Count(path, "/") < 2:
		path += "/M"
	}
	st.Method = path
	var md [][]string
	for _, kv := range st.MD {
		if kv[0] != "dsthost" {
			md = append(md, kv)
		}
	}
	if strings.HasPrefix(host, "*") {
		host = "x" + host[1:]
	}
	if host != "" {
		md = append(md, []string{"dsthost", host})
	}
	st.MD = md
}

func dropKey(md [][]string, k string) [][]string {
	var out [][]string
	for _, kv := range md {
		if len(kv) == 2 && kv[0] != k {
			out = append(out, kv)
		}
	}
	return out
}

func genCall(r *hx.Rand, i int) interface{} {
	c := CallCase{Cfg: r.Intn(callConfigs)}
	tb, aim := genCallTable(r)
	c.Steps = append(c.Steps, tb)
	n := r.Range(1, 5)
	for j := 0; j < n; j++ {
		if r.Chance(1, 5) {
			tb, aim = genCallTable(r)
			c.Steps = append(c.Steps, tb)
		}
		if r.Chance(1, 4) {
			// calls that are in flight together: each must be routed and relayed as if it were alone
			par := CallStep{Op: "par"}
			m := r.Range(2, 5)
			for x := 0; x < m; x++ {
				st := genCallStep(r)
				if aim != "" && r.Chance(1, 2) {
					aimCall(&st, aim)
					aim = ""
				}
				if x > 0 && r.Chance(1, 4) {
					// the same route as a call before: several streams on one pooled connection
					st.Method, st.MD = par.Calls[x-1].Method, dropKey(par.Calls[x-1].MD, callIDKey)
				}
				st.MD = append(dropKey(st.MD, callIDKey), []string{callIDKey, fmt.Sprintf("c%d", x)})
				par.Calls = append(par.Calls, st)
			}
			c.Steps = append(c.Steps, par)
			continue
		}
		st := genCallStep(r)
		if aim != "" && r.Chance(2, 3) {
			aimCall(&st, aim)
			aim = ""
		}
		if j > 0 && r.Chance(1, 3) {
			// the same call again: reuse of the pooled connection
			prev := c.Steps[len(c.Steps)-1]
			if prev.Op == "call" {
				st.Method, st.MD = prev.Method, prev.MD
			}
		}
		c.Steps = append(c.Steps, st)
	}
	return c
}

func init() {
	hx.Register(&hx.Stream{Name: "c16.call", Gen: genCall, Run: runCall, Corpus: callCorpus()})
}
