package main

// c16.race — N goroutines make the first Get for one target at the same moment (the pool's Get is
// read–dial–set, not atomic). Afterwards the backend leaves the table, one cleanup iteration runs and the
// asynchronous closer is given time: any connection to the departed backend that is still open then is a
// connection nobody will ever close.

import (
	"context"
	"encoding/json"
	"fmt"
	"net/url"
	"sync"
	"time"

	"github.com/fabiolb/fabio/proxy"
	"github.com/fabiolb/fabio/route"
	"google.golang.org/grpc"
	"google.golang.org/grpc/connectivity"

	"verif/harness/hx"
)

type RaceCase struct {
	N      int `json:"n"`      // concurrent callers
	K      int `json:"k"`      // key index (pool.go universe)
	Rounds int `json:"rounds"` // further sequential calls afterwards
	GapNS  int `json:"gap_ns"` // caller i starts i*gap_ns after the barrier (0 = all at once)
}

func genRace(r *hx.Rand, i int) interface{} {
	k := r.Range(1, 4) // refused ports; the live server (key 0) rarely: see pool.go
	if r.Chance(1, 40) {
		k = 0
	}
	return RaceCase{N: r.Range(2, 8), K: k, Rounds: r.Intn(3), GapNS: r.Intn(4) * r.Intn(20000)}
}

func runRace(raw json.RawMessage) (interface{}, error) {
	var c RaceCase
	if err := decode(raw, &c); err != nil {
		return nil, err
	}
	if c.N < 1 || c.N > 64 || c.Rounds < 0 || c.Rounds > 16 || c.GapNS < 0 || c.GapNS > 1000000 {
		return nil, fmt.Errorf("bad race case")
	}
	us := poolURL(c.K)
	if us == "" || c.K == 5 {
		return nil, fmt.Errorf("bad key")
	}
	u, err := url.Parse(us)
	if err != nil {
		return nil, err
	}
	saved := route.GetTable()
	defer route.SetTable(saved)
	t, err := buildTable([]RouteSpec{{Host: "", Path: "/", URLs: []int{c.K}}}, poolURL)
	if err != nil {
		return nil, err
	}
	route.SetTable(t)
	v := proxy.VerifC16NewPool(proxyConfig(time.Millisecond))
	target := &route.Target{URL: u}

	got := make([]*grpc.ClientConn, c.N)
	errs := make([]error, c.N)
	var start, done sync.WaitGroup
	start.Add(1)
	for i := 0; i < c.N; i++ {
		done.Add(1)
		go func(i int) {
			defer done.Done()
			start.Wait()
			if c.GapNS > 0 {
				for t0 := time.Now(); time.Since(t0) < time.Duration(i*c.GapNS); {
				}
			}
			got[i], errs[i] = v.Get(context.Background(), target)
		}(i)
	}
	start.Done()
	done.Wait()
	distinct := map[*grpc.ClientConn]bool{}
	usable := true
	for i := range got {
		if errs[i] != nil || got[i] == nil {
			return nil, fmt.Errorf("get failed: %v", errs[i])
		}
		distinct[got[i]] = true
		if got[i].GetState() == connectivity.Shutdown {
			usable = false
		}
	}
	// later callers all share the pooled connection
	pooled := v.Conn(us)
	shared := pooled != nil && distinct[pooled]
	for i := 0; i < c.Rounds; i++ {
		cc, err := v.Get(context.Background(), target)
		if err != nil || cc != pooled {
			shared = false
		}
	}
	// the backend leaves the table
	route.SetTable(make(route.Table))
	v.CleanupOnce()
	keysLeft := len(v.Keys())
	// wait for the closer only when the cleanup did take the key out (generous: loaded machines)
	deadline := time.Now().Add(closerWait())
	for keysLeft == 0 && pooled != nil && pooled.GetState() != connectivity.Shutdown && time.Now().Before(deadline) {
		time.Sleep(200 * time.Microsecond)
	}
	if keysLeft == 0 && pooled != nil && pooled.GetState() != connectivity.Shutdown {
		closerGaveUp = true
	}
	time.Sleep(2 * time.Millisecond)
	open := 0
	for cc := range distinct {
		if cc.GetState() != connectivity.Shutdown {
			open++
			defer cc.Close()
		}
	}
	return map[string]interface{}{
		"distinct":  len(distinct), // connections handed to the racing callers
		"usable":    usable,        // none of them was already closed
		"shared":    shared,        // sequential calls afterwards got the pooled one
		"keys_left": keysLeft,
		"open":      open, // connections to the departed backend still open after cleanup + closer
	}, nil
}

func init() {
	hx.Register(&hx.Stream{Name: "c16.race", Gen: genRace, Run: runRace,
		Corpus: []interface{}{RaceCase{N: 8, K: 0, Rounds: 2}, RaceCase{N: 2, K: 2, Rounds: 1}}})
}
