package main

// Generator of well-formed protobuf wire-format messages (the property quantifies over those): any field
// numbers in any order, repeated fields, all wire types including groups, non-minimal varints, nested
// messages, strings that are not UTF-8, empty messages, and occasionally payloads larger than an HTTP/2
// flow-control window.

import (
	"encoding/hex"

	"verif/harness/hx"
)

func putVarint(b []byte, v uint64, pad int) []byte {
	n := 0
	for x := v; ; x >>= 7 {
		n++
		if x < 0x80 {
			break
		}
	}
	if n+pad > 10 {
		pad = 10 - n
	}
	for v >= 0x80 {
		b = append(b, byte(v)|0x80)
		v >>= 7
	}
	if pad == 0 {
		return append(b, byte(v))
	}
	b = append(b, byte(v)|0x80)
	for i := 0; i < pad-1; i++ {
		b = append(b, 0x80)
	}
	return append(b, 0x00)
}

var fieldNums = []uint64{1, 1, 2, 3, 15, 16, 2047, 2048, 536870911}

func genProto(r *hx.Rand, depth int, padTags bool) []byte {
	var b []byte
	n := r.Intn(6)
	if depth == 0 && r.Chance(1, 10) {
		n = 0 // the empty message
	}
	for i := 0; i < n; i++ {
		num := fieldNums[r.Intn(len(fieldNums))]
		pad := 0
		if (depth > 0 && r.Chance(1, 8)) || (depth == 0 && padTags && r.Chance(1, 2)) {
			pad = r.Range(1, 3) // a non-minimal tag (top level only in the padTags class)
		}
		wt := []uint64{0, 0, 1, 2, 2, 2, 5, 3}[r.Intn(8)]
		if wt == 3 && depth >= 2 {
			wt = 0
		}
		b = putVarint(b, num<<3|wt, pad)
		switch wt {
		case 0:
			v := r.U64()
			switch r.Intn(4) {
			case 0:
				v &= 0x7f
			case 1:
				v &= 0xffff
			case 2:
				v = ^uint64(0) // -1 as int64: ten bytes
			}
			p := 0
			if r.Chance(1, 6) {
				p = r.Range(1, 4)
			}
			b = putVarint(b, v, p)
		case 1:
			b = append(b, r.Bytes(8)...)
		case 5:
			b = append(b, r.Bytes(4)...)
		case 2:
			var payload []byte
			switch x := r.Intn(40); {
			case x < 12 && depth < 3:
				payload = genProto(r, depth+1, true)
			case x < 20:
				payload = []byte(r.Pick([]string{"", "hello", "ünïcode ✓", "\x00\xff\xfe", "a/b?c=d&e"}))
			case x == 39 && depth == 0:
				size := 70000
				if r.Chance(1, 8) {
					size = 1 << 20
				}
				payload = r.Bytes(size)
			default:
				payload = r.Bytes(r.Intn(40))
			}
			b = putVarint(b, uint64(len(payload)), 0)
			b = append(b, payload...)
		case 3:
			b = append(b, genProto(r, depth+1, true)...)
			b = putVarint(b, num<<3|4, 0)
		}
	}
	return b
}

func hx2(b []byte) string { return hex.EncodeToString(b) }

func callCorpus() []interface{} {
	all := []RouteSpec{{Host: "", Path: "/svc.A", URLs: []int{0}}, {Host: "beta.example", Path: "/svc.A", URLs: []int{1}}, {Host: "", Path: "/svc.B", URLs: []int{2}}}
	healthReq := hx2([]byte{0x0a, 0x03, 's', 'v', 'c'}) // grpc.health.v1.HealthCheckRequest{service:"svc"}
	serving := hx2([]byte{0x08, 0x01})                  // HealthCheckResponse{status:SERVING}
	return []interface{}{
		// unary OK with metadata, binary metadata, repeated keys, header and trailer
		CallCase{Steps: []CallStep{
			{Op: "table", Routes: all},
			{Op: "call", Method: "/svc.A/M", MD: [][]string{{"x-a", "1"}, {"x-a", "2"}, {"k-bin", "00ff10"}, {"x-b", "a,b"}},
				Msgs: []string{healthReq}, Script: &Script{Mode: "drain", Header: [][]string{{"x-h", "h1"}, {"h-bin", "01"}},
					Msgs: []string{serving}, Trailer: [][]string{{"x-t", "t1"}, {"x-t", "t2"}, {"t-bin", "ff"}}}},
			// the same backend again: the pooled connection is reused
			{Op: "call", Method: "/svc.A/Other", Msgs: []string{""}, Script: &Script{Mode: "drain", Msgs: []string{""}}},
			// dsthost selects the other backend
			{Op: "call", Method: "/svc.A/M", MD: [][]string{{"dsthost", "beta.example"}}, Msgs: []string{healthReq}, Script: &Script{Mode: "drain", Msgs: []string{serving}}},
			// two dsthost values: the empty host is used
			{Op: "call", Method: "/svc.A/M", MD: [][]string{{"dsthost", "beta.example"}, {"dsthost", "beta.example"}}, Msgs: []string{healthReq}, Script: &Script{Mode: "drain", Msgs: []string{serving}}},
			// no route
			{Op: "call", Method: "/none.Svc/M", Msgs: []string{healthReq}, Script: &Script{Mode: "drain", Msgs: []string{serving}}},
			// backend error with message and trailers, no response message
			{Op: "call", Method: "/svc.B/X", Msgs: []string{healthReq}, Script: &Script{Mode: "drain", Header: [][]string{{"x-h", "lost"}}, Trailer: [][]string{{"x-t", "t"}}, Code: 13, Message: "boom ✓ 100%"}},
			// backend says NotFound itself
			{Op: "call", Method: "/svc.B/X", Msgs: []string{healthReq}, Script: &Script{Mode: "early", Code: 5, Message: "no route found"}},
			// streaming both ways
			{Op: "call", Method: "/svc.A/M", Msgs: []string{"0801", "0802", "0803"}, Script: &Script{Mode: "pingpong", Msgs: []string{"0a0161", "0a0162", "0a0163", "0a0164"}, Trailer: [][]string{{"x-t", "end"}}}},
			{Op: "call", Method: "/svc.A/M", Msgs: []string{"0801", "0802"}, Script: &Script{Mode: "replyfirst", Msgs: []string{"0a0161", "0a0162"}, Code: 9, Message: "late failure"}},
			// backend removed from the table: NotFound, backend not contacted
			{Op: "table", Routes: all[1:]},
			{Op: "call", Method: "/svc.A/M", Msgs: []string{healthReq}, Script: &Script{Mode: "drain", Msgs: []string{serving}}},
			// odd method names: decoded path, query, unparsable
			{Op: "table", Routes: all},
			{Op: "call", Method: "/svc.A/M%41", Msgs: []string{""}, Script: &Script{Mode: "drain", Msgs: []string{""}}},
			{Op: "call", Method: "/svc.%41/M", Msgs: []string{""}, Script: &Script{Mode: "drain", Msgs: []string{""}}},
			{Op: "call", Method: "/svc.B/%zz", Msgs: []string{""}, Script: &Script{Mode: "drain", Msgs: []string{""}}},
		}},
	}
}
