package main

// c16.pool — generated operation sequences against the real grpcConnectionPool (Get / newConnection / Set /
// one iteration of cleanup) with real grpc.ClientConns dialled lazily to loopback addresses.
//
// Key universe (index → target URL), engineered for collisions:
//   0    a live gRPC server             1,2,3  ports with nothing listening
//   4    the address of 1 with a path   (same backend, different URL string ⇒ different pool key)
//   5    a URL without host             (grpc.DialContext fails: the dial-error branch)
//   6    the address of 1 as grpcs://   (same backend, TLS scheme ⇒ different pool key)
//   7    grpcs:// on another dead port  8  the address of 7 with a path
//   9    http:// on the address of 2    (a target of another protocol: cleanup's hasTarget compares URL
//                                        strings and does not look at the scheme)
// Half of the cases run on a pool built with a TLS configuration (a listener with a certificate source: grpcs
// targets are then dialled with transport credentials), half without.
// Get only looks at "Shutdown or not", so refused connections serve as well as established ones; the live
// key is used in one case out of forty only, because every established loopback connection leaves a
// TIME_WAIT socket behind and a run must not eat the machine's ephemeral ports.

import (
	"context"
	"crypto/tls"
	"encoding/json"
	"fmt"
	"net"
	"net/url"
	"sort"
	"sync"
	"time"

	"github.com/fabiolb/fabio/proxy"
	"github.com/fabiolb/fabio/route"
	"google.golang.org/grpc"
	"google.golang.org/grpc/connectivity"

	"verif/harness/hx"
)

const poolKeys = 10

var (
	poolOnce sync.Once
	poolURLs []string
)

func poolURL(i int) string {
	poolOnce.Do(func() {
		l, err := listenLoopback()
		if err != nil {
			panic(err)
		}
		s := grpc.NewServer()
		go s.Serve(l)
		poolURLs = []string{
			fmt.Sprintf("grpc://127.0.0.1:%d", l.Addr().(*net.TCPAddr).Port),
			fmt.Sprintf("grpc://127.0.0.1:%d", deadPort(0)),
			fmt.Sprintf("grpc://127.0.0.1:%d", deadPort(1)),
			fmt.Sprintf("grpc://127.0.0.1:%d", deadPort(2)),
			fmt.Sprintf("grpc://127.0.0.1:%d/x", deadPort(0)),
			"grpc:///nohost",
			fmt.Sprintf("grpcs://127.0.0.1:%d", deadPort(0)),
			fmt.Sprintf("grpcs://127.0.0.1:%d", deadPort(3)),
			fmt.Sprintf("grpcs://127.0.0.1:%d/x", deadPort(3)),
			fmt.Sprintf("http://127.0.0.1:%d", deadPort(1)),
		}
	})
	if i < 0 || i >= len(poolURLs) {
		return ""
	}
	return poolURLs[i]
}

// closerWait: how long to wait for the asynchronous closer. Once a wait has expired in this process (a tree
// in which removed connections are never closed) later cases wait briefly only, so that a broken tree fails
// in minutes, not hours.
var closerGaveUp bool

func closerWait() time.Duration {
	if closerGaveUp {
		return 300 * time.Millisecond
	}
	return 15 * time.Second
}

type PoolOp struct {
	Op     string      `json:"op"` // get | shut | table | cleanup
	K      int         `json:"k,omitempty"`
	Routes []RouteSpec `json:"routes,omitempty"`
}

type PoolCase struct {
	Ops []PoolOp `json:"ops"`
	TLS bool     `json:"tls,omitempty"` // the pool of a listener with a certificate source
}

func genRoutes(r *hx.Rand, nURL int) []RouteSpec {
	hosts := []string{"", "", "beta.example", "a.example"}
	paths := []string{"/", "/svc.A", "/svc.A/M", "/svc.B"}
	var rs []RouteSpec
	n := r.Intn(4)
	for i := 0; i < n; i++ {
		s := RouteSpec{Host: r.Pick(hosts), Path: r.Pick(paths)}
		m := r.Range(1, 3)
		for j := 0; j < m; j++ {
			s.URLs = append(s.URLs, r.Intn(nURL))
		}
		rs = append(rs, s)
	}
	return rs
}

func genPool(r *hx.Rand, i int) interface{} {
	c := PoolCase{TLS: r.Chance(1, 2)}
	n := r.Range(3, 14)
	// a case concentrates on two or three keys so that hits, shutdowns and removals meet
	lo := 1 // the live key 0 takes part in one case out of forty
	if r.Chance(1, 40) {
		lo = 0
	}
	focus := []int{r.Range(lo, poolKeys-1), r.Range(lo, poolKeys-1), r.Range(lo, poolKeys-1)}
	key := func() int {
		if r.Chance(4, 5) {
			return focus[r.Intn(len(focus))]
		}
		return r.Range(lo, poolKeys-1)
	}
	if r.Chance(2, 3) {
		c.Ops = append(c.Ops, PoolOp{Op: "table", Routes: genRoutes(r, poolKeys)})
	}
	for j := 0; j < n; j++ {
		switch x := r.Intn(10); {
		case x < 5:
			c.Ops = append(c.Ops, PoolOp{Op: "get", K: key()})
		case x < 6:
			c.Ops = append(c.Ops, PoolOp{Op: "shut", K: key()})
		case x < 8:
			c.Ops = append(c.Ops, PoolOp{Op: "table", Routes: genRoutes(r, poolKeys)})
		default:
			c.Ops = append(c.Ops, PoolOp{Op: "cleanup"})
		}
	}
	return c
}

type poolObs struct {
	R    string `json:"r,omitempty"` // reused | dialled | error
	ID   *int   `json:"id,omitempty"`
	Keys []int  `json:"keys,omitempty"`
	Op   string `json:"op"`
}

func runPool(raw json.RawMessage) (interface{}, error) {
	var c PoolCase
	if err := decode(raw, &c); err != nil {
		return nil, err
	}
	if len(c.Ops) > 200 {
		return nil, fmt.Errorf("too many ops")
	}
	poolURL(0)
	idxOf := map[string]int{}
	for i, u := range poolURLs {
		idxOf[u] = i
	}
	saved := route.GetTable()
	defer route.SetTable(saved)
	route.SetTable(make(route.Table))

	v := proxy.VerifC16NewPool(proxyConfig(time.Millisecond))
	if c.TLS {
		v = proxy.VerifC16NewPoolTLS(&tls.Config{}, proxyConfig(time.Millisecond))
	}
	ids := map[*grpc.ClientConn]int{}
	var conns []*grpc.ClientConn
	idOf := func(cc *grpc.ClientConn) int {
		if id, ok := ids[cc]; ok {
			return id
		}
		ids[cc] = len(conns)
		conns = append(conns, cc)
		return len(conns) - 1
	}
	defer func() {
		for _, cc := range conns {
			cc.Close()
		}
	}()
	var await []*grpc.ClientConn
	var obs []poolObs
	for _, op := range c.Ops {
		switch op.Op {
		case "get":
			us := poolURL(op.K)
			if us == "" {
				return nil, fmt.Errorf("key out of range")
			}
			u, err := url.Parse(us)
			if err != nil {
				return nil, err
			}
			before := len(conns)
			cc, err := v.Get(context.Background(), &route.Target{URL: u})
			switch {
			case err != nil:
				obs = append(obs, poolObs{Op: "get", R: "error"})
			default:
				id := idOf(cc)
				r := "reused"
				if id >= before {
					r = "dialled"
				}
				if cc.GetState() == connectivity.Shutdown {
					r += "-shutdown" // Get must never hand out a closed connection
				}
				obs = append(obs, poolObs{Op: "get", R: r, ID: &id})
			}
		case "shut":
			if cc := v.Conn(poolURL(op.K)); cc != nil {
				cc.Close()
			}
			obs = append(obs, poolObs{Op: "shut"})
		case "table":
			t, err := buildTable(op.Routes, poolURL)
			if err != nil {
				return nil, err
			}
			route.SetTable(t)
			obs = append(obs, poolObs{Op: "table"})
		case "cleanup":
			type ent struct {
				cc   *grpc.ClientConn
				live bool
			}
			before := map[string]ent{}
			for _, k := range v.Keys() {
				cc := v.Conn(k)
				before[k] = ent{cc, cc.GetState() != connectivity.Shutdown}
			}
			v.CleanupOnce()
			after := map[string]bool{}
			keys := []int{}
			for _, k := range v.Keys() {
				after[k] = true
				keys = append(keys, idxOf[k])
			}
			sort.Ints(keys)
			for k, e := range before {
				if !after[k] && e.live {
					await = append(await, e.cc)
				}
			}
			obs = append(obs, poolObs{Op: "cleanup", Keys: keys})
		default:
			return nil, fmt.Errorf("unknown op %q", op.Op)
		}
	}
	// the asynchronous closer: every live connection the cleanup removed must end up closed
	closed := map[int]bool{}
	// generous: on a loaded machine the closer goroutine may be scheduled late; costs time only when a
	// removed connection is never closed
	deadline := time.Now().Add(closerWait())
	for _, cc := range await {
		for cc.GetState() != connectivity.Shutdown && time.Now().Before(deadline) {
			time.Sleep(200 * time.Microsecond)
		}
		if cc.GetState() == connectivity.Shutdown {
			closed[idOf(cc)] = true
		} else {
			closerGaveUp = true
		}
	}
	awaited := map[int]bool{}
	for _, cc := range await {
		awaited[idOf(cc)] = true
	}
	live := map[int]bool{}
	for i, cc := range conns {
		if cc.GetState() != connectivity.Shutdown {
			live[i] = true
		}
	}
	finalKeys := []int{}
	for _, k := range v.Keys() {
		finalKeys = append(finalKeys, idxOf[k])
	}
	sort.Ints(finalKeys)
	return map[string]interface{}{
		"obs":        obs,
		"handed":     sortedInts(awaited), // live connections removed by a cleanup
		"closed":     sortedInts(closed),  // … that the closer did close
		"final_live": sortedInts(live),
		"final_keys": finalKeys,
	}, nil
}

func init() {
	hx.Register(&hx.Stream{
		Name: "c16.pool",
		Gen:  genPool,
		Run:  runPool,
		Corpus: []interface{}{
			// reuse, then removal from the table, cleanup, re-add, new dial
			PoolCase{Ops: []PoolOp{
				{Op: "table", Routes: []RouteSpec{{Host: "", Path: "/", URLs: []int{0, 1}}}},
				{Op: "get", K: 0}, {Op: "get", K: 0}, {Op: "get", K: 1},
				{Op: "table", Routes: []RouteSpec{{Host: "", Path: "/", URLs: []int{1}}}},
				{Op: "get", K: 0}, {Op: "cleanup"},
				{Op: "table", Routes: []RouteSpec{{Host: "", Path: "/", URLs: []int{0, 1}}}},
				{Op: "get", K: 0}, {Op: "get", K: 1}, {Op: "cleanup"},
			}},
			// a closed pooled connection is replaced on the next Get and dropped by cleanup
			PoolCase{Ops: []PoolOp{
				{Op: "table", Routes: []RouteSpec{{Host: "beta.example", Path: "/svc.A", URLs: []int{2, 4}}}},
				{Op: "get", K: 2}, {Op: "shut", K: 2}, {Op: "get", K: 2}, {Op: "get", K: 4}, {Op: "shut", K: 4}, {Op: "cleanup"},
			}},
			// dial error leaves the pool alone
			PoolCase{Ops: []PoolOp{{Op: "get", K: 5}, {Op: "get", K: 5}, {Op: "cleanup"}}},
			// empty table: everything goes
			PoolCase{Ops: []PoolOp{{Op: "get", K: 0}, {Op: "get", K: 4}, {Op: "cleanup"}, {Op: "get", K: 0}}},
			// TLS targets: kept while they are in the table like any other, one entry per scheme for one address
			PoolCase{TLS: true, Ops: []PoolOp{
				{Op: "table", Routes: []RouteSpec{{Host: "", Path: "/svc.A", URLs: []int{6, 7}}, {Host: "", Path: "/", URLs: []int{9}}}},
				{Op: "get", K: 6}, {Op: "get", K: 1}, {Op: "get", K: 7}, {Op: "get", K: 8}, {Op: "get", K: 9}, {Op: "cleanup"},
				{Op: "get", K: 6}, {Op: "get", K: 7}, {Op: "get", K: 9}, {Op: "get", K: 1},
				{Op: "table", Routes: []RouteSpec{{Host: "", Path: "/", URLs: []int{1}}}}, {Op: "cleanup"}, {Op: "get", K: 6},
			}},
			PoolCase{Ops: []PoolOp{
				{Op: "table", Routes: []RouteSpec{{Host: "a.example", Path: "/", URLs: []int{7, 8}}}},
				{Op: "get", K: 7}, {Op: "get", K: 8}, {Op: "cleanup"}, {Op: "get", K: 7}, {Op: "get", K: 8},
			}},
		},
	})
}
