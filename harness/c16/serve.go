package main

// c16.serve — the real fabio binary (built from the current tree, no verif tag): main.go's wiring of the gRPC
// proxy is executed, not replicated. A case is a configuration — one to three gRPC listeners with or without a
// certificate source, the two message limits, static routes to plain and TLS backends with the route options
// the pool's dialler reads (scheme, tlsskipverify, grpcservername) — and calls made through the listeners.
//
// What this ties to the model (Model/C16Serve.lean): every listener gets its own director and pool built from
// that listener's TLS configuration (startServers → newGrpcProxy → GetGRPCDirector); newConnection dials with
// TLS exactly for a grpcs target on a listener that has a certificate source, with the target's server name
// and skip-verify flag; the listener's receive limit is proxy.grpcmaxrxmsgsize, its send limit
// proxy.grpcmaxtxmsgsize, the backend connection's receive limit proxy.grpcmaxrxmsgsize.
//
// Backends (one set per harness process): 0,1 plain; 2 TLS, certificate of the test CA for 127.0.0.1 and
// backend.test; 3 TLS, certificate of the test CA for backend.test only (the documented grpcservername case);
// 4 TLS, self-signed (reachable only with tlsskipverify=true). The child trusts the test CA through SSL_CERT_FILE.

import (
	"bytes"
	"context"
	"crypto/ecdsa"
	"crypto/elliptic"
	"crypto/rand"
	"crypto/sha256"
	"crypto/tls"
	"crypto/x509"
	"crypto/x509/pkix"
	"encoding/hex"
	"encoding/json"
	"encoding/pem"
	"fmt"
	"io"
	"math/big"
	"net"
	"os"
	"os/exec"
	"path/filepath"
	"strings"
	"sync"
	"sync/atomic"
	"syscall"
	"time"

	"github.com/fabiolb/fabio/route"
	"google.golang.org/grpc"
	"google.golang.org/grpc/credentials"
	"google.golang.org/grpc/credentials/insecure"
	"google.golang.org/grpc/metadata"
	"google.golang.org/grpc/status"

	"verif/harness/hx"
)

type ServeListener struct {
	TLS bool `json:"tls"` // proto=grpcs with a certificate source (proto=grpc without one otherwise)
}

// ServeRoute i is `route add r<i> /svc.r<i> <scheme>://<backend B> opts "…"`.
type ServeRoute struct {
	B      int    `json:"b"`
	Scheme string `json:"scheme"` // grpc | grpcs
	Skip   bool   `json:"skip,omitempty"`
	SN     string `json:"sn,omitempty"`
	// Access is an access-rule option of the route ("" or one of serveAccess); the caller's address is 127.0.0.1
	Access string `json:"access,omitempty"`
}

type ServeCall struct {
	L    int        `json:"l"`             // listener
	R    int        `json:"r"`             // route called (/svc.r<R>/M); an index without a route: no route matches
	Req  []int      `json:"req,omitempty"` // encoded sizes of the caller's messages
	Rep  []int      `json:"rep,omitempty"` // … of the backend's
	Code int        `json:"code,omitempty"`
	MD   [][]string `json:"md,omitempty"`
}

type ServeCase struct {
	Listeners []ServeListener `json:"listeners"`
	Rx        int             `json:"rx,omitempty"` // proxy.grpcmaxrxmsgsize; 0 = not given (default 4 MiB)
	Tx        int             `json:"tx,omitempty"` // proxy.grpcmaxtxmsgsize
	Routes    []ServeRoute    `json:"routes"`
	Calls     []ServeCall     `json:"calls"`
}

const (
	serveBackends = 5
	serveMaxMsg   = 9000
)

// sizedMsg is a well-formed protobuf message of exactly n encoded bytes: field 1, length-delimited.
// n = 1 and n = 130 have no such encoding.
func sizedMsg(n int) ([]byte, error) {
	switch {
	case n == 0:
		return []byte{}, nil
	case n >= 2 && n <= 129:
		b := make([]byte, n)
		b[0], b[1] = 0x0a, byte(n-2)
		fill(b[2:], n)
		return b, nil
	case n >= 131 && n <= serveMaxMsg:
		b := make([]byte, n)
		p := n - 3
		b[0], b[1], b[2] = 0x0a, byte(p&0x7f|0x80), byte(p>>7)
		fill(b[3:], n)
		return b, nil
	}
	return nil, fmt.Errorf("no message of %d bytes", n)
}

func fill(b []byte, seed int) {
	for i := range b {
		b[i] = byte((i*31 + seed*7) % 251)
	}
}

// ---- certificates ----------------------------------------------------------------------------------------

type serveEnv struct {
	dir      string
	caFile   string
	certFile string // the listeners' certificate source (type=file)
	keyFile  string
	backends []*backend
	descr    []serveBackend
}

// serveBackend describes a backend to the model: clear text or TLS, the names its certificate is valid for,
// whether the child trusts its issuer.
type serveBackend struct {
	TLS     bool     `json:"tls"`
	Names   []string `json:"names,omitempty"`
	Trusted bool     `json:"trusted,omitempty"`
}

var (
	serveOnce sync.Once
	theServe  *serveEnv
	serveErr  error
)

func newKeyCert(cn string, dns []string, ips []net.IP, isCA bool, parent *x509.Certificate, parentKey *ecdsa.PrivateKey) (*x509.Certificate, *ecdsa.PrivateKey, []byte, error) {
	key, err := ecdsa.GenerateKey(elliptic.P256(), rand.Reader)
	if err != nil {
		return nil, nil, nil, err
	}
	serial, _ := rand.Int(rand.Reader, big.NewInt(1<<62))
	tpl := &x509.Certificate{
		SerialNumber:          serial,
		Subject:               pkix.Name{CommonName: cn},
		NotBefore:             time.Now().Add(-time.Hour),
		NotAfter:              time.Now().Add(48 * time.Hour),
		KeyUsage:              x509.KeyUsageDigitalSignature | x509.KeyUsageCertSign,
		ExtKeyUsage:           []x509.ExtKeyUsage{x509.ExtKeyUsageServerAuth},
		BasicConstraintsValid: true,
		IsCA:                  isCA,
		DNSNames:              dns,
		IPAddresses:           ips,
	}
	if parent == nil {
		parent, parentKey = tpl, key
	}
	der, err := x509.CreateCertificate(rand.Reader, tpl, parent, &key.PublicKey, parentKey)
	if err != nil {
		return nil, nil, nil, err
	}
	c, err := x509.ParseCertificate(der)
	return c, key, der, err
}

func pemCert(der []byte) []byte {
	return pem.EncodeToMemory(&pem.Block{Type: "CERTIFICATE", Bytes: der})
}

func pemKey(k *ecdsa.PrivateKey) []byte {
	b, _ := x509.MarshalECPrivateKey(k)
	return pem.EncodeToMemory(&pem.Block{Type: "EC PRIVATE KEY", Bytes: b})
}

func sweepOld(dir string, age time.Duration) {
	ents, err := os.ReadDir(dir)
	if err != nil {
		return
	}
	for _, e := range ents {
		if fi, err := e.Info(); err == nil && time.Since(fi.ModTime()) > age {
			os.RemoveAll(filepath.Join(dir, e.Name()))
		}
	}
}

func getServeEnv() (*serveEnv, error) {
	serveOnce.Do(func() {
		base := filepath.Join(os.TempDir(), "c16-serve")
		if serveErr = os.MkdirAll(base, 0o755); serveErr != nil {
			return
		}
		sweepOld(base, 30*time.Minute)
		e := &serveEnv{}
		if e.dir, serveErr = os.MkdirTemp(base, "env-"); serveErr != nil {
			return
		}
		ca, caKey, caDER, err := newKeyCert("c16 test ca", nil, nil, true, nil, nil)
		if err != nil {
			serveErr = err
			return
		}
		loop := []net.IP{net.IPv4(127, 0, 0, 1)}
		_, lk, lDER, err := newKeyCert("fabio listener", []string{"fabio.test"}, loop, false, ca, caKey)
		if err != nil {
			serveErr = err
			return
		}
		e.caFile = filepath.Join(e.dir, "ca.pem")
		e.certFile = filepath.Join(e.dir, "lst-cert.pem")
		e.keyFile = filepath.Join(e.dir, "lst-key.pem")
		for f, b := range map[string][]byte{e.caFile: pemCert(caDER), e.certFile: pemCert(lDER), e.keyFile: pemKey(lk)} {
			if serveErr = os.WriteFile(f, b, 0o600); serveErr != nil {
				return
			}
		}
		tlsFor := func(i int) (*tls.Config, error) {
			var k *ecdsa.PrivateKey
			var der []byte
			var err error
			switch i {
			case 2:
				_, k, der, err = newKeyCert("backend 2", []string{"backend.test"}, loop, false, ca, caKey)
			case 3:
				_, k, der, err = newKeyCert("backend 3", []string{"backend.test"}, nil, false, ca, caKey)
			default:
				_, k, der, err = newKeyCert("backend 4", []string{"backend.test"}, loop, false, nil, nil)
			}
			if err != nil {
				return nil, err
			}
			return &tls.Config{Certificates: []tls.Certificate{{Certificate: [][]byte{der}, PrivateKey: k}}}, nil
		}
		for i := 0; i < serveBackends; i++ {
			l, err := listenLoopback()
			if err != nil {
				serveErr = err
				return
			}
			b := &backend{idx: i, addr: l.Addr().String()}
			opts := []grpc.ServerOption{grpc.ForceServerCodec(rawCodec{}), grpc.UnknownServiceHandler(b.handle), grpc.StatsHandler(b),
				grpc.MaxRecvMsgSize(16 << 20), grpc.MaxSendMsgSize(16 << 20)}
			d := serveBackend{}
			if i >= 2 {
				cfg, err := tlsFor(i)
				if err != nil {
					serveErr = err
					return
				}
				opts = append(opts, grpc.Creds(credentials.NewTLS(cfg)))
				d = serveBackend{TLS: true, Names: []string{"127.0.0.1", "backend.test"}, Trusted: i != 4}
				if i == 3 {
					d.Names = []string{"backend.test"}
				}
			}
			b.srv = grpc.NewServer(opts...)
			go b.srv.Serve(l)
			e.backends = append(e.backends, b)
			e.descr = append(e.descr, d)
		}
		theServe = e
	})
	return theServe, serveErr
}

// ---- the binary ------------------------------------------------------------------------------------------

var (
	serveBinOnce sync.Once
	serveBin     string
	serveBinErr  error
)

func serveRepo() string {
	if r := os.Getenv("VERIF_REPO"); r != "" {
		return r
	}
	return "/repo"
}

// treeStamp identifies the content of the tree: HEAD plus the uncommitted difference. Equal stamps share one
// executable, which is never rewritten once it exists (so a running child is never overwritten).
func treeStamp(repo string) string {
	head, err1 := exec.Command("git", "-C", repo, "rev-parse", "HEAD").Output()
	diff, err2 := exec.Command("git", "-C", repo, "diff", "HEAD").Output()
	if err1 != nil || err2 != nil {
		return fmt.Sprintf("pid%d", os.Getpid())
	}
	h := sha256.New()
	h.Write([]byte(repo))
	h.Write(head)
	h.Write(diff)
	return hex.EncodeToString(h.Sum(nil))[:16]
}

func fabioBinary() (string, error) {
	serveBinOnce.Do(func() {
		repo := serveRepo()
		dir := filepath.Join(os.TempDir(), "c16-fabio")
		if serveBinErr = os.MkdirAll(dir, 0o755); serveBinErr != nil {
			return
		}
		lock, err := os.OpenFile(filepath.Join(dir, "build.lock"), os.O_CREATE|os.O_RDWR, 0o644)
		if err != nil {
			serveBinErr = err
			return
		}
		defer lock.Close()
		if serveBinErr = syscall.Flock(int(lock.Fd()), syscall.LOCK_EX); serveBinErr != nil {
			return
		}
		defer syscall.Flock(int(lock.Fd()), syscall.LOCK_UN)
		if ents, err := os.ReadDir(dir); err == nil {
			for _, e := range ents {
				if fi, err := e.Info(); err == nil && strings.HasPrefix(e.Name(), "fabio-") && time.Since(fi.ModTime()) > 45*time.Minute {
					os.Remove(filepath.Join(dir, e.Name()))
				}
			}
		}
		out := filepath.Join(dir, "fabio-"+treeStamp(repo))
		if _, err := os.Stat(out); err == nil {
			now := time.Now()
			os.Chtimes(out, now, now)
			serveBin = out
			return
		}
		tmp := out + ".tmp"
		cmd := exec.Command("go", "build", "-o", tmp, ".")
		cmd.Dir = repo
		if b, err := cmd.CombinedOutput(); err != nil {
			serveBinErr = fmt.Errorf("go build %s: %v: %s", repo, err, b)
			return
		}
		if serveBinErr = os.Rename(tmp, out); serveBinErr != nil {
			return
		}
		serveBin = out
	})
	return serveBin, serveBinErr
}

// freePorts picks n distinct free loopback ports for the child's listeners. They come from a block of the
// non-ephemeral range that belongs to this process (chosen by its pid): ports the kernel hands out to the many
// other harnesses of a busy machine (ephemeral range) cannot collide with them, and another shard of this stream
// has another block. A port that is busy all the same is skipped; the child's own check (bind) and the
// foreign-listener check in runServe remain.
var portSeq int64

func freePorts(n int) ([]int, error) {
	const lo, blocks, size = 10000, 300, 64
	base := lo + (os.Getpid()%blocks)*size
	var ps []int
	for tries := 0; len(ps) < n && tries < 4*size; tries++ {
		p := base + int(atomic.AddInt64(&portSeq, 1))%size
		dup := false
		for _, q := range ps {
			dup = dup || q == p
		}
		if dup {
			continue
		}
		l, err := net.Listen("tcp", fmt.Sprintf("127.0.0.1:%d", p))
		if err != nil {
			continue
		}
		l.Close()
		ps = append(ps, p)
	}
	if len(ps) < n {
		return nil, fmt.Errorf("no free ports in the block at %d", base)
	}
	return ps, nil
}

// waitAccept waits until the listener accepts and, for a TLS listener, completes a handshake (the certificate
// source loads its files after the listener is open; until then the handshake is refused).
func waitAccept(addr string, withTLS bool, d time.Duration, exited <-chan struct{}) bool {
	end := time.Now().Add(d)
	for time.Now().Before(end) {
		select {
		case <-exited:
			return false
		default:
		}
		c, err := net.DialTimeout("tcp", addr, 500*time.Millisecond)
		if err == nil && withTLS {
			tc := tls.Client(c, &tls.Config{InsecureSkipVerify: true, NextProtos: []string{"h2"}})
			c.SetDeadline(time.Now().Add(2 * time.Second))
			if err = tc.Handshake(); err != nil {
				c.Close()
			}
		}
		if err == nil {
			c.Close()
			return true
		}
		time.Sleep(25 * time.Millisecond)
	}
	return false
}

func tailStr(s string, n int) string {
	if len(s) > n {
		return s[len(s)-n:]
	}
	return s
}

// ---- one case --------------------------------------------------------------------------------------------

type serveObs struct {
	Code    int      `json:"code"`
	Message string   `json:"message"`
	Backend int      `json:"backend"` // -1: no backend handler ran
	Hits    int      `json:"hits"`    // backend handlers started by this call
	Sent    []string `json:"sent"`    // hex: the messages the sizes of the input stand for
	Saw     []string `json:"saw"`     // hex: what the backend read
	Drained bool     `json:"drained"` // the backend read to the end of the caller's stream
	Replies []string `json:"replies"`
	Got     []string `json:"got"` // hex: what the caller read
	BMD     []KV     `json:"bmd"`
	Method  string   `json:"method"`
	BMethod string   `json:"bmethod"`
}

func hexAll(bs [][]byte) []string {
	out := make([]string, len(bs))
	for i, b := range bs {
		out[i] = hex.EncodeToString(b)
	}
	return out
}

func serveMethod(c *ServeCase, r int) string {
	if r >= 0 && r < len(c.Routes) {
		return fmt.Sprintf("/svc.r%d/M", r)
	}
	return fmt.Sprintf("/none.r%d/M", r)
}

func runServe(raw json.RawMessage) (interface{}, error) {
	var c ServeCase
	if err := decode(raw, &c); err != nil {
		return nil, err
	}
	if len(c.Listeners) < 1 || len(c.Listeners) > 4 || len(c.Routes) > 10 || len(c.Calls) > 40 {
		return nil, fmt.Errorf("bad serve case")
	}
	if c.Rx < 0 || c.Tx < 0 || c.Rx > 1<<24 || c.Tx > 1<<24 {
		return nil, fmt.Errorf("bad limits")
	}
	env, err := getServeEnv()
	if err != nil {
		return nil, err
	}
	bin, err := fabioBinary()
	if err != nil {
		return nil, err
	}
	var routes bytes.Buffer
	denied := []bool{}
	for i, r := range c.Routes {
		if r.B < 0 || r.B >= serveBackends || (r.Scheme != "grpc" && r.Scheme != "grpcs") || strings.ContainsAny(r.SN, " \"\n\r\t=") {
			return nil, fmt.Errorf("bad route")
		}
		opts := "proto=" + r.Scheme
		if r.Skip {
			opts += " tlsskipverify=true"
		}
		if r.SN != "" {
			opts += " grpcservername=" + r.SN
		}
		if r.Access != "" {
			ok := false
			for _, a := range serveAccess {
				ok = ok || a == r.Access
			}
			if !ok {
				return nil, fmt.Errorf("bad access option")
			}
			opts += " " + r.Access
		}
		cmd := fmt.Sprintf("route add r%d /svc.r%d %s://%s opts \"%s\"\n", i, i, r.Scheme, env.backends[r.B].addr, opts)
		routes.WriteString(cmd)
		// oracle for the model's gate parameter: what the target's own access rules (property C12) say about
		// the caller's address, asked of the real code in-process
		d, err := serveDenied(cmd)
		if err != nil {
			return nil, err
		}
		denied = append(denied, d)
	}
	// a port of the child may be taken by another process of this busy machine between the choice and fabio's
	// bind; the whole case is then run again with other ports
	var lastErr error
	for attempt := 0; attempt < 5; attempt++ {
		res, retry, err := serveAttempt(&c, env, bin, routes.String(), denied)
		if !retry {
			return res, err
		}
		lastErr = err
	}
	return nil, fmt.Errorf("the child's ports were taken five times in a row: %v", lastErr)
}

// syncBuf collects the child's output; it is read while the child still writes.
type syncBuf struct {
	mu sync.Mutex
	b  bytes.Buffer
}

func (s *syncBuf) Write(p []byte) (int, error) {
	s.mu.Lock()
	defer s.mu.Unlock()
	return s.b.Write(p)
}

func (s *syncBuf) String() string {
	s.mu.Lock()
	defer s.mu.Unlock()
	return s.b.String()
}

const bindFailure = "address already in use"

// serveAttempt starts the child with fresh ports, makes the calls and stops the child. retry: a port was taken by
// somebody else (the child said so, at start-up or later), the observations — possibly made against a foreign
// listener — are void.
func serveAttempt(c *ServeCase, env *serveEnv, bin, routes string, denied []bool) (res interface{}, retry bool, err error) {
	var addrs []string
	var listen []string
	ports, err := freePorts(len(c.Listeners) + 1)
	if err != nil {
		return nil, false, err
	}
	for i, l := range c.Listeners {
		a := fmt.Sprintf("127.0.0.1:%d", ports[i])
		addrs = append(addrs, a)
		if l.TLS {
			listen = append(listen, a+";proto=grpcs;cs=lst")
		} else {
			listen = append(listen, a+";proto=grpc")
		}
	}
	uiPort := ports[len(c.Listeners)]
	args := []string{"-insecure", "-registry.backend", "static", "-registry.static.routes", routes,
		"-proxy.addr", strings.Join(listen, ","), "-ui.addr", fmt.Sprintf("127.0.0.1:%d", uiPort),
		"-proxy.cs", "cs=lst;type=file;cert=" + env.certFile + ";key=" + env.keyFile,
		"-proxy.grpcshutdowntimeout", "100ms", "-log.level", "WARN"}
	if c.Rx > 0 {
		args = append(args, "-proxy.grpcmaxrxmsgsize", fmt.Sprint(c.Rx))
	}
	if c.Tx > 0 {
		args = append(args, "-proxy.grpcmaxtxmsgsize", fmt.Sprint(c.Tx))
	}
	cmd := exec.Command(bin, args...)
	cmd.Env = append(os.Environ(), "SSL_CERT_FILE="+env.caFile, "SSL_CERT_DIR="+filepath.Join(env.dir, "no-such-dir"))
	// the child must not outlive the harness process (shard timeout, per-case watchdog)
	cmd.SysProcAttr = &syscall.SysProcAttr{Pdeathsig: syscall.SIGKILL}
	logb := &syncBuf{}
	cmd.Stdout, cmd.Stderr = logb, logb
	if err := cmd.Start(); err != nil {
		return nil, false, err
	}
	exited := make(chan struct{})
	go func() { cmd.Wait(); close(exited) }()
	defer func() {
		cmd.Process.Kill()
		<-exited
	}()
	for i, a := range addrs {
		if !waitAccept(a, c.Listeners[i].TLS, 30*time.Second, exited) {
			cmd.Process.Kill()
			<-exited
			e := fmt.Errorf("fabio did not come up: %s", tailStr(logb.String(), 600))
			return nil, strings.Contains(logb.String(), bindFailure), e
		}
	}
	conns := make([]*grpc.ClientConn, len(addrs))
	defer func() {
		for _, cc := range conns {
			if cc != nil {
				cc.Close()
			}
		}
	}()
	clientFor := func(l int) (*grpc.ClientConn, error) {
		if conns[l] != nil {
			return conns[l], nil
		}
		creds := insecure.NewCredentials()
		if c.Listeners[l].TLS {
			creds = credentials.NewTLS(&tls.Config{InsecureSkipVerify: true})
		}
		cc, err := grpc.Dial(addrs[l], grpc.WithTransportCredentials(creds),
			grpc.WithDefaultCallOptions(grpc.ForceCodec(rawCodec{}), grpc.MaxCallRecvMsgSize(16<<20), grpc.MaxCallSendMsgSize(16<<20)))
		conns[l] = cc
		return cc, err
	}
	out := []*serveObs{}
	for i := range c.Calls {
		call := &c.Calls[i]
		if call.L < 0 || call.L >= len(addrs) || call.R < 0 || call.R > 99 || len(call.Req) > 16 || len(call.Rep) > 16 || call.Code < 0 || call.Code > 16 {
			return nil, false, fmt.Errorf("bad call")
		}
		cc, err := clientFor(call.L)
		if err != nil {
			return nil, false, err
		}
		o, err := env.call(cc, serveMethod(c, call.R), call, fmt.Sprintf("%d-%d", atomic.AddInt64(&serveSeq, 1), i))
		if err != nil {
			return nil, false, err
		}
		out = append(out, o)
	}
	// The listeners answered - but were they the child's? A child that cannot bind a port somebody else took in
	// the meantime says so and exits, though not at once (it runs its shutdown handlers first); until then the
	// calls reach the other process's listener.
	gone := false
	select {
	case <-exited:
		gone = true
	case <-time.After(100 * time.Millisecond):
	}
	if strings.Contains(logb.String(), bindFailure) {
		return nil, true, fmt.Errorf("a port of the child was taken: %s", tailStr(logb.String(), 300))
	}
	if gone {
		return nil, false, fmt.Errorf("fabio exited during the case: %s", tailStr(logb.String(), 600))
	}
	return map[string]interface{}{"obs": out, "backends": env.descr, "dial_host": "127.0.0.1", "denied": denied}, false, nil
}

// serveDenied parses one route command with the repo's parser and asks the resulting target whether its access
// rules deny a peer at 127.0.0.1 (the address the child sees the harness's calls come from).
func serveDenied(cmd string) (bool, error) {
	t, err := route.NewTable(bytes.NewBufferString(cmd))
	if err != nil {
		return false, err
	}
	for _, rs := range t {
		for _, r := range rs {
			for _, tg := range r.Targets {
				return tg.AccessDeniedAddr(&net.TCPAddr{IP: net.IPv4(127, 0, 0, 1), Port: 40000}), nil
			}
		}
	}
	return false, fmt.Errorf("route command produced no target")
}

// serveSeq numbers the calls of a process: the backend's record of a call is found by the id the caller put
// into the metadata (a handler of an earlier, cancelled call may start late).
var serveSeq int64

const serveIDKey = "x-c16-call"

func (e *serveEnv) call(cc *grpc.ClientConn, method string, call *ServeCall, id string) (*serveObs, error) {
	var req, rep [][]byte
	for _, n := range call.Req {
		m, err := sizedMsg(n)
		if err != nil {
			return nil, err
		}
		req = append(req, m)
	}
	for _, n := range call.Rep {
		m, err := sizedMsg(n)
		if err != nil {
			return nil, err
		}
		rep = append(rep, m)
	}
	md, err := pairsMD(call.MD)
	if err != nil {
		return nil, err
	}
	md.Set(serveIDKey, id)
	sc := &Script{Mode: "drain", Code: call.Code}
	if call.Code != 0 {
		sc.Message = "scripted"
	}
	curScript.Store(&scriptBytes{s: sc, msgs: rep, header: metadata.MD{}, trailer: metadata.MD{}})
	recMu.Lock()
	recs = nil
	recMu.Unlock()

	o := &serveObs{Backend: -1, Sent: hexAll(req), Replies: hexAll(rep), Saw: []string{}, Got: []string{}, BMD: []KV{}, Method: method}
	ctx, cancel := context.WithTimeout(metadata.NewOutgoingContext(context.Background(), md), 10*time.Second)
	defer cancel()
	var finalErr error
	cs, err := cc.NewStream(ctx, &grpc.StreamDesc{ClientStreams: true, ServerStreams: true}, method)
	if err != nil {
		finalErr = err
	} else {
		for i := range req {
			m := req[i]
			if err := cs.SendMsg(&m); err != nil {
				break
			}
		}
		cs.CloseSend()
		for {
			var m []byte
			if err := cs.RecvMsg(&m); err != nil {
				finalErr = err
				break
			}
			o.Got = append(o.Got, hex.EncodeToString(m))
		}
	}
	if finalErr != nil && finalErr != io.EOF {
		s := status.Convert(finalErr)
		o.Code, o.Message = int(s.Code()), s.Message()
	}
	recMu.Lock()
	all := recs
	recMu.Unlock()
	var rs []*backendRec
	for _, rec := range all {
		for _, kv := range rec.MD {
			if kv.K == serveIDKey && len(kv.V) == 1 && kv.V[0] == id {
				rs = append(rs, rec)
			}
		}
	}
	for _, rec := range rs {
		select {
		case <-rec.done:
		case <-time.After(3 * time.Second):
			rec.Err = "handler still running"
		}
	}
	o.Hits = len(rs)
	if len(rs) > 0 {
		rec := rs[0]
		o.Backend, o.Saw, o.Drained, o.BMethod = rec.Idx, rec.Msgs, rec.Drained, rec.Method
		for _, kv := range rec.MD {
			if kv.K != serveIDKey {
				o.BMD = append(o.BMD, kv)
			}
		}
	}
	return o, nil
}

// ---- generator -------------------------------------------------------------------------------------------

var (
	serveLimits = []int{0, 0, 700, 1500, 3000}
	serveSizes  = []int{0, 2, 40, 600, 699, 700, 701, 1400, 1500, 1501, 2900, 3000, 3001, 3500}
	serveNames  = []string{"", "", "backend.test", "other.test"}
	serveAccess = []string{"allow=ip:127.0.0.1/32", "allow=ip:10.0.0.0/8", "deny=ip:127.0.0.1/32", "deny=ip:10.0.0.0/8", "allow=ip:127.0.0.0/8,ip:10.1.0.0/16"}
)

// reachable mirrors what the generator needs to know to keep the recorded finding out of the main share:
// a grpcs target called through a listener without a certificate source is dialled in clear text.
func findingClass(l ServeListener, r ServeRoute) bool { return r.Scheme == "grpcs" && !l.TLS }

func genServe(r *hx.Rand, i int) interface{} {
	c := ServeCase{}
	nl := r.Range(1, 3)
	for j := 0; j < nl; j++ {
		c.Listeners = append(c.Listeners, ServeListener{TLS: r.Chance(1, 2)})
	}
	if r.Chance(1, 2) {
		c.Rx = serveLimits[r.Intn(len(serveLimits))]
		c.Tx = serveLimits[r.Intn(len(serveLimits))]
	}
	// the TLS options of the grpcs routes are chosen per backend: two routes to one URL with different options
	// share the connection of whichever is called first (recorded finding, corpus only)
	type tlsOpts struct {
		skip bool
		sn   string
	}
	var per [serveBackends]tlsOpts
	for b := range per {
		per[b] = tlsOpts{skip: r.Chance(1, 3), sn: r.Pick(serveNames)}
	}
	nr := r.Range(2, 6)
	for j := 0; j < nr; j++ {
		rt := ServeRoute{B: r.Intn(serveBackends), Scheme: "grpc"}
		if j == 0 {
			rt.B = r.Intn(2) // every case has a plain route any listener may call
		} else if rt.B >= 2 != r.Chance(1, 8) {
			// mostly the scheme that fits the backend; a share of mismatches (TLS dialled to a plain backend and
			// the reverse)
			rt.Scheme = "grpcs"
		}
		if rt.Scheme == "grpcs" {
			rt.Skip, rt.SN = per[rt.B].skip, per[rt.B].sn
		} else if r.Chance(1, 6) {
			rt.Skip, rt.SN = r.Chance(1, 2), r.Pick(serveNames) // options that must not matter for a grpc target
		}
		if j > 0 && r.Chance(1, 5) {
			rt.Access = r.Pick(serveAccess)
		}
		c.Routes = append(c.Routes, rt)
	}
	size := func(limited bool) int {
		if !limited || r.Chance(1, 3) {
			return serveSizes[r.Intn(5)]
		}
		return serveSizes[r.Intn(len(serveSizes))]
	}
	nc := r.Range(4, 10)
	for j := 0; j < nc; j++ {
		call := ServeCall{L: r.Intn(nl), R: r.Intn(nr)}
		if r.Chance(1, 10) {
			call.R = nr + r.Intn(3)
		}
		if call.R < nr && findingClass(c.Listeners[call.L], c.Routes[call.R]) {
			// recorded finding (corpus only): move the call to a listener with a certificate source, or to a grpc route
			moved := false
			for l := range c.Listeners {
				if c.Listeners[l].TLS {
					call.L, moved = l, true
					break
				}
			}
			if !moved {
				for k := range c.Routes {
					if c.Routes[k].Scheme == "grpc" {
						call.R, moved = k, true
						break
					}
				}
			}
			if !moved {
				call.R = nr
			}
		}
		limited := c.Rx > 0 || c.Tx > 0
		for k, n := 0, r.Intn(4); k < n; k++ {
			call.Req = append(call.Req, size(limited))
		}
		for k, n := 0, r.Intn(4); k < n; k++ {
			call.Rep = append(call.Rep, size(limited))
		}
		if r.Chance(1, 4) {
			call.Code = []int{5, 13, 14, 2, 8}[r.Intn(5)]
		}
		if r.Chance(1, 2) {
			call.MD = [][]string{{"x-a", "v" + fmt.Sprint(r.Intn(3))}}
		}
		c.Calls = append(c.Calls, call)
	}
	return c
}

func init() {
	hx.Register(&hx.Stream{Name: "c16.serve", Gen: genServe, Run: runServe, Corpus: []interface{}{
		// one listener of each kind, every backend kind with the options that reach it, both limits at their defaults
		ServeCase{Listeners: []ServeListener{{TLS: false}, {TLS: true}},
			Routes: []ServeRoute{{B: 0, Scheme: "grpc"}, {B: 2, Scheme: "grpcs"}, {B: 3, Scheme: "grpcs", SN: "backend.test"},
				{B: 4, Scheme: "grpcs", Skip: true}, {B: 3, Scheme: "grpcs"}, {B: 4, Scheme: "grpcs"}},
			Calls: []ServeCall{{L: 0, R: 0, Req: []int{2, 600}, Rep: []int{40}}, {L: 1, R: 0, Req: []int{2}, Rep: []int{2}},
				{L: 1, R: 1, Req: []int{40}, Rep: []int{40, 2}}, {L: 1, R: 2, Req: []int{40}, Rep: []int{2}},
				{L: 1, R: 3, Req: []int{40}, Rep: []int{2}, Code: 5}, {L: 1, R: 4, Req: []int{2}}, {L: 1, R: 5, Req: []int{2}},
				{L: 0, R: 9, Req: []int{2}}, {L: 1, R: 1, Req: []int{2}, Rep: []int{2}}}},
		// the listener's receive limit is the rx option, its send limit the tx option
		ServeCase{Listeners: []ServeListener{{TLS: false}}, Rx: 3000, Tx: 700,
			Routes: []ServeRoute{{B: 0, Scheme: "grpc"}, {B: 1, Scheme: "grpc"}},
			Calls: []ServeCall{{L: 0, R: 0, Req: []int{1500, 3000}, Rep: []int{700}}, {L: 0, R: 1, Req: []int{3001}, Rep: []int{2}},
				{L: 0, R: 0, Req: []int{2}, Rep: []int{701}}, {L: 0, R: 1, Req: []int{2}, Rep: []int{2, 600}}}},
		// access rules of the route: a denied call is answered PermissionDenied and reaches nobody
		ServeCase{Listeners: []ServeListener{{TLS: false}, {TLS: true}},
			Routes: []ServeRoute{{B: 0, Scheme: "grpc"}, {B: 1, Scheme: "grpc", Access: "deny=ip:127.0.0.1/32"}, {B: 2, Scheme: "grpcs", Skip: true, Access: "allow=ip:10.0.0.0/8"},
				{B: 1, Scheme: "grpc", Access: "allow=ip:127.0.0.1/32"}, {B: 0, Scheme: "grpc", Access: "deny=ip:10.0.0.0/8"}},
			Calls: []ServeCall{{L: 0, R: 1, Req: []int{2}, Rep: []int{2}}, {L: 1, R: 2, Req: []int{2}, Rep: []int{2}}, {L: 0, R: 3, Req: []int{2}, Rep: []int{2}},
				{L: 1, R: 4, Req: []int{40}, Rep: []int{2}}, {L: 1, R: 1, Req: []int{2}}, {L: 0, R: 0, Req: []int{2}, Rep: []int{2}}}},
		ServeCase{Listeners: []ServeListener{{TLS: true}}, Rx: 700, Tx: 3000,
			Routes: []ServeRoute{{B: 2, Scheme: "grpcs"}, {B: 0, Scheme: "grpc"}},
			Calls: []ServeCall{{L: 0, R: 0, Req: []int{700}, Rep: []int{700}}, {L: 0, R: 1, Req: []int{701}}, {L: 0, R: 1, Req: []int{2}, Rep: []int{701}}}},
	}})
}
