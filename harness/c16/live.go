package main

// c16.live — the pool inside the real director with its real 5 s cleanup timer (the pool that
// GetGRPCDirector creates cannot be reached from outside, so here nothing is triggered by hand): calls
// open connections to several backends, some backends are taken out of the table, and the instrumented
// backends themselves report when the proxy's connection to them goes away. Slow by nature (≥ 5 s per
// case); a handful of cases per run.

import (
	"encoding/json"
	"fmt"
	"sync/atomic"
	"time"

	"github.com/fabiolb/fabio/route"

	"verif/harness/hx"
)

type LiveCase struct {
	Drop   []int `json:"drop"`    // backends removed from the table
	WaitMS int   `json:"wait_ms"` // how long to wait for the cleanup (the loop runs every 5 s)
}

func genLive(r *hx.Rand, i int) interface{} {
	c := LiveCase{WaitMS: 9000}
	for b := 0; b < callBackends; b++ {
		if r.Chance(1, 2) {
			c.Drop = append(c.Drop, b)
		}
	}
	if len(c.Drop) == 0 {
		c.Drop = []int{r.Intn(callBackends)}
	}
	if len(c.Drop) == callBackends {
		c.Drop = c.Drop[1:]
	}
	return c
}

func runLive(raw json.RawMessage) (interface{}, error) {
	var c LiveCase
	if err := decode(raw, &c); err != nil {
		return nil, err
	}
	if c.WaitMS < 0 || c.WaitMS > 20000 {
		return nil, fmt.Errorf("bad wait")
	}
	drop := map[int]bool{}
	for _, b := range c.Drop {
		if b < 0 || b >= callBackends {
			return nil, fmt.Errorf("bad backend")
		}
		drop[b] = true
	}
	r := getRig()
	saved := route.GetTable()
	defer route.SetTable(saved)
	routesFor := func(skip map[int]bool) []RouteSpec {
		var rs []RouteSpec
		for b := 0; b < callBackends; b++ {
			if !skip[b] {
				rs = append(rs, RouteSpec{Host: "", Path: fmt.Sprintf("/svc%d", b), URLs: []int{b}})
			}
		}
		return rs
	}
	setTable := func(skip map[int]bool) error {
		t, err := buildTable(routesFor(skip), r.urlOf)
		if err != nil {
			return err
		}
		route.SetTable(t)
		return nil
	}
	connIDs := map[string]int{}
	call := func(b int) (code int, idx int, conn int, err error) {
		st := &CallStep{Op: "call", Method: fmt.Sprintf("/svc%d/M", b), Msgs: []string{"0801"}, Script: &Script{Mode: "drain", Msgs: []string{"0802"}}}
		o, err := r.doCall(st, connIDs)
		if err != nil {
			return 0, 0, 0, err
		}
		if o.Backend == nil {
			return o.Caller.Code, -1, -1, nil
		}
		return o.Caller.Code, o.Backend.Idx, o.Backend.Conn, nil
	}
	type per struct {
		B          int  `json:"b"`
		Dropped    bool `json:"dropped"`     // backend was taken out of the table
		FirstOK    bool `json:"first_ok"`    // first call reached it
		Reused     bool `json:"reused"`      // second call on the same connection
		NotFound   bool `json:"notfound"`    // while out of the table: NotFound, not contacted
		ConnClosed bool `json:"conn_closed"` // the backend saw the proxy's connection go away
		StillOpen  bool `json:"still_open"`  // the backend still has the proxy's connection
		AfterSame  bool `json:"after_same"`  // call after the wait arrived on the old connection
		AfterOK    bool `json:"after_ok"`    // call after the wait (and re-adding) reached it
	}
	out := make([]per, callBackends)
	if err := setTable(nil); err != nil {
		return nil, err
	}
	first := make([]int, callBackends)
	for b := 0; b < callBackends; b++ {
		out[b].B, out[b].Dropped = b, drop[b]
		code, idx, conn, err := call(b)
		if err != nil {
			return nil, err
		}
		out[b].FirstOK = code == 0 && idx == b
		first[b] = conn
		code, idx, conn, err = call(b)
		if err != nil {
			return nil, err
		}
		out[b].Reused = code == 0 && idx == b && conn == first[b]
	}
	if err := setTable(drop); err != nil {
		return nil, err
	}
	for b := range drop {
		hits := atomic.LoadInt64(&r.backends[b].hits)
		code, idx, _, err := call(b)
		if err != nil {
			return nil, err
		}
		out[b].NotFound = code == 5 && idx == -1 && atomic.LoadInt64(&r.backends[b].hits) == hits
	}
	// wait for the real cleanup loop and the closer
	deadline := time.Now().Add(time.Duration(c.WaitMS) * time.Millisecond)
	for time.Now().Before(deadline) {
		all := true
		for b := range drop {
			if atomic.LoadInt64(&r.backends[b].conns) > 0 {
				all = false
			}
		}
		if all {
			break
		}
		time.Sleep(20 * time.Millisecond)
	}
	for b := 0; b < callBackends; b++ {
		n := atomic.LoadInt64(&r.backends[b].conns)
		out[b].ConnClosed = n == 0
		out[b].StillOpen = n > 0
	}
	if err := setTable(nil); err != nil {
		return nil, err
	}
	for b := 0; b < callBackends; b++ {
		code, idx, conn, err := call(b)
		if err != nil {
			return nil, err
		}
		out[b].AfterOK = code == 0 && idx == b
		out[b].AfterSame = conn == first[b]
	}
	return map[string]interface{}{"backends": out}, nil
}

func init() {
	hx.Register(&hx.Stream{Name: "c16.live", Gen: genLive, Run: runLive})
}
