package main

import (
	"encoding/json"
	"math"
	"strings"
	"unicode"
	"unicode/utf8"

	"github.com/fabiolb/fabio/route"
	"verif/harness/hx"
	"verif/harness/rt"
)

// c05.script — a structured command script applied by the real NewTableCustom (addRoute/delRoute/weighRoute
// + final sort) vs the Lean model's `newTable`. Observable: error class or canonical table dump.
//
// For the specification side the harness also runs two variants of the script on the real code and ships
// their observables: the script with its last `add` repeated right after itself (idempotence) and the script
// with the letter case of every host scrambled (case-insensitivity). The driver evaluates the property's
// sentences on these outputs.
type scriptIn struct {
	Defs   []rt.Def               `json:"defs"`
	Flip   uint64                 `json:"flip"` // seed of the case scrambling
	Oracle map[string]interface{} `json:"oracle"`
}

func errClass(err error) string {
	switch err.Error() {
	case "route: prefix must not be empty":
		return "invalidPrefix"
	case "route: target must not be empty":
		return "invalidTarget"
	case "route: no target match":
		return "noMatch"
	case "route: invalid weight":
		return "invalidWeight"
	}
	s := err.Error()
	switch {
	case len(s) >= 21 && s[:21] == "route: invalid target":
		return "badURL"
	case len(s) >= 22 && s[:22] == "route: invalid command":
		return "invalidCommand"
	}
	return "badGlob"
}

func applyDefs(ds []rt.Def) map[string]interface{} {
	defs := make([]route.RouteDef, len(ds))
	for i := range ds {
		defs[i] = ds[i].RouteDef()
	}
	t, err := route.NewTableCustom(&defs)
	if err != nil {
		return map[string]interface{}{"error": errClass(err)}
	}
	return map[string]interface{}{"table": route.VerifDump(t, false)}
}

// expressible: can the command language carry this definition? (rt.Def.Line writes it, Parse must read it back as
// the same definition.) Tokens are non-empty where the grammar wants one and free of white space and quotes; a
// `del` without tags names a service, a `weight` without service names tags; tags are trimmed and carry no comma
// or quote; option keys carry no '='.
func expressible(d *rt.Def) bool {
	tokOK := func(s string) bool {
		for _, c := range s {
			if unicode.IsSpace(c) || c == '"' {
				return false
			}
		}
		return s != "" && utf8.ValidString(s)
	}
	tagsOK := func(ts []string) bool {
		if len(ts) == 1 && ts[0] == "" {
			return false
		}
		for _, t := range ts {
			if strings.ContainsAny(t, "\",\n\r") || strings.TrimSpace(t) != t {
				return false
			}
		}
		return true
	}
	if !tagsOK(d.Tags) {
		return false
	}
	switch d.Cmd {
	case "add":
		if !tokOK(d.Service) || !tokOK(d.Src) || !tokOK(d.Dst) || (d.WText != "" && !tokOK(d.WText)) {
			return false
		}
		for _, o := range d.Opts {
			if len(o) != 2 || strings.Contains(o[0], "=") || (o[0] == "" && o[1] == "") || (o[0]+o[1] != "" && !tokOK(o[0]+"="+o[1])) {
				return false
			}
		}
		return true
	case "del":
		if len(d.Tags) > 0 {
			// src and dst are not written (delRoute does not look at them either when tags are given)
			return d.Service == "" || tokOK(d.Service)
		}
		if !tokOK(d.Service) || (d.Src != "" && !tokOK(d.Src)) || (d.Dst != "" && !tokOK(d.Dst)) {
			return false
		}
		return d.Dst == "" || d.Src != ""
	case "weight":
		if !tokOK(d.Src) || !tokOK(d.WText) {
			return false
		}
		if d.Service == "" {
			return len(d.Tags) > 0
		}
		return tokOK(d.Service)
	}
	return false
}

// scriptText writes the commands in the documented syntax, one per line, options always as k=v (the Go twin of
// `printDef`/`scriptText` in Model/C05Lang.lean; rt.Def.Line writes an option without value as the bare key).
func scriptText(ds []rt.Def) string {
	ls := make([]string, len(ds))
	for i := range ds {
		d := ds[i]
		if d.Cmd == "add" && len(d.Opts) > 0 {
			d.Opts = nil
			ls[i] = d.Line()
			var kv []string
			for _, o := range ds[i].Opts {
				kv = append(kv, o[0]+"="+o[1])
			}
			ls[i] += ` opts "` + strings.Join(kv, " ") + `"`
		} else {
			ls[i] = d.Line()
		}
	}
	return strings.Join(ls, "\n")
}

func expressibleAll(ds []rt.Def) bool {
	for i := range ds {
		if !expressible(&ds[i]) {
			return false
		}
	}
	return len(ds) > 0
}

// textOutcome is NewTable on a text, in the shape applyDefs uses (a syntax error is its own class).
func textOutcome(text string) (out map[string]interface{}) {
	defer func() {
		if p := recover(); p != nil {
			out = map[string]interface{}{"panic": true}
		}
	}()
	t, err := route.VerifNewTable(text)
	if err != nil {
		if reLineErr.MatchString(err.Error()) {
			return map[string]interface{}{"error": "parse: " + err.Error()}
		}
		return map[string]interface{}{"error": errClass(err)}
	}
	return map[string]interface{}{"table": route.VerifDump(t, false)}
}

// defsJSON writes the wire format of the custom backend by hand (field names as documented for
// registry.custom: cmd, service, src, dst, weight, tags, opts), not through route.RouteDef's own tags.
func defsJSON(ds []rt.Def) ([]byte, bool) {
	arr := make([]map[string]interface{}, 0, len(ds))
	for i := range ds {
		d := ds[i].RouteDef()
		if math.IsNaN(d.Weight) || math.IsInf(d.Weight, 0) {
			return nil, false
		}
		m := map[string]interface{}{"cmd": string(d.Cmd), "service": d.Service, "src": d.Src, "dst": d.Dst, "weight": d.Weight}
		if len(d.Tags) > 0 {
			m["tags"] = d.Tags
		}
		if len(d.Opts) > 0 {
			m["opts"] = d.Opts
		}
		arr = append(arr, m)
	}
	b, err := json.Marshal(arr)
	return b, err == nil
}

func jsonOutcome(body []byte) (out map[string]interface{}) {
	defer func() {
		if p := recover(); p != nil {
			out = map[string]interface{}{"panic": true}
		}
	}()
	var defs *[]route.RouteDef
	if err := json.Unmarshal(body, &defs); err != nil {
		return map[string]interface{}{"error": "decode: " + err.Error()}
	}
	t, err := route.NewTableCustom(defs)
	if err != nil {
		return map[string]interface{}{"error": errClass(err)}
	}
	return map[string]interface{}{"table": route.VerifDump(t, false)}
}

func runScript(in *scriptIn) (interface{}, error) {
	out := applyDefs(in.Defs)
	// variant 1: the last add, repeated immediately
	last := -1
	for i := range in.Defs {
		if in.Defs[i].Cmd == "add" {
			last = i
		}
	}
	if last >= 0 {
		dup := append([]rt.Def(nil), in.Defs[:last+1]...)
		dup = append(dup, in.Defs[last])
		dup = append(dup, in.Defs[last+1:]...)
		out["dupLast"] = applyDefs(dup)
	}
	// variant 2: host letter case scrambled in every command
	r := hx.NewRand(in.Flip, "flip")
	rec := append([]rt.Def(nil), in.Defs...)
	changed := false
	for i := range rec {
		s := scramble(r, rec[i].Src)
		if s != rec[i].Src {
			changed = true
		}
		rec[i].Src = s
	}
	out["recased"] = applyDefs(rec)
	out["recasedChanged"] = changed
	// variant 3: the same commands written in the command language and read by NewTable (Parse + the same three
	// handlers): the text entry point and the structured one (NewTableCustom, the custom backend) must agree
	if expressibleAll(in.Defs) {
		src := scriptText(in.Defs)
		out["viaText"] = textOutcome(src)
		out["viaTextSrc"] = src // compared with the model's writer (`scriptText` in Model/C05Lang.lean)
	}
	// variant 4: the commands as the custom backend receives them — a JSON array decoded into []route.RouteDef
	// through the struct tags of route/route_def.go — must give the same outcome (finite weights only: JSON has
	// no NaN/Inf)
	if body, ok := defsJSON(in.Defs); ok {
		out["viaJSON"] = jsonOutcome(body)
	}
	out["oracle"] = in.Oracle
	out["defs"] = in.Defs // with the exact rationals of the weights filled in
	return out, nil
}

func init() {
	hx.Register(&hx.Stream{
		Name: "c05.script",
		Gen: func(r *hx.Rand, i int) interface{} {
			n := 1 + r.Intn(12)
			if r.Chance(1, 10) {
				n = 1 + r.Intn(40)
			}
			ds := genScript(r, &c05Small, n)
			if r.Chance(1, 15) {
				// a weight strconv.ParseFloat accepts but no table may hold (validWeight): add and weight refuse it,
				// del never looks at it
				k := r.Intn(len(ds))
				ds[k].WText = r.Pick(nonFinite)
				ds[k].Fill()
			}
			if r.Chance(1, 8) {
				malformDef(r, &ds[r.Intn(len(ds))], true)
			}
			return scriptIn{Defs: ds, Flip: r.U64() % 1000000, Oracle: rt.Oracle(ds)}
		},
		Run: func(raw json.RawMessage) (interface{}, error) {
			// the oracle is recomputed on replay so that shrunk inputs stay self-consistent
			var in scriptIn
			if err := json.Unmarshal(raw, &in); err != nil {
				return nil, err
			}
			for i := range in.Defs {
				in.Defs[i].Fill()
			}
			in.Oracle = rt.Oracle(in.Defs)
			return runScript(&in)
		},
	})
}
