package main

import (
	"encoding/json"

	"github.com/fabiolb/fabio/route"
	"verif/harness/hx"
	"verif/harness/rt"
)

// c05.script — a structured command script applied by the real NewTableCustom (addRoute/delRoute/weighRoute
// + final sort) vs the Lean model's `newTable`. Observable: error class or canonical table dump.
type scriptIn struct {
	Defs   []rt.Def               `json:"defs"`
	Oracle map[string]interface{} `json:"oracle"`
}

func errClass(err error) string {
	switch err.Error() {
	case "route: prefix must not be empty":
		return "invalidPrefix"
	case "route: target must not be empty":
		return "invalidTarget"
	case "route: no target match":
		return "noMatch"
	}
	s := err.Error()
	switch {
	case len(s) >= 21 && s[:21] == "route: invalid target":
		return "badURL"
	case len(s) >= 22 && s[:22] == "route: invalid command":
		return "invalidCommand"
	}
	return "badGlob"
}

func runScript(raw json.RawMessage) (interface{}, error) {
	var in scriptIn
	if err := json.Unmarshal(raw, &in); err != nil {
		return nil, err
	}
	defs := make([]route.RouteDef, len(in.Defs))
	for i := range in.Defs {
		defs[i] = in.Defs[i].RouteDef()
	}
	t, err := route.NewTableCustom(&defs)
	if err != nil {
		return map[string]interface{}{"error": errClass(err)}, nil
	}
	return map[string]interface{}{"table": route.VerifDump(t, false)}, nil
}

func init() {
	hx.Register(&hx.Stream{
		Name: "c05.script",
		Gen: func(r *hx.Rand, i int) interface{} {
			n := 1 + r.Intn(12)
			if r.Chance(1, 10) {
				n = 1 + r.Intn(40)
			}
			ds := rt.Small.GenScript(r, n)
			return scriptIn{Defs: ds, Oracle: rt.Oracle(ds)}
		},
		Run: func(raw json.RawMessage) (interface{}, error) {
			// the oracle is recomputed on replay so that shrunk inputs stay self-consistent
			var in scriptIn
			if err := json.Unmarshal(raw, &in); err != nil {
				return nil, err
			}
			for i := range in.Defs {
				in.Defs[i].Fill()
			}
			in.Oracle = rt.Oracle(in.Defs)
			raw2, _ := json.Marshal(in)
			return runScript(raw2)
		},
	})
}
