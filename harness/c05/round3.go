package main

import (
	"encoding/json"
	"net/http/httptest"
	"sort"
	"strings"

	"github.com/fabiolb/fabio/admin/api"
	"github.com/fabiolb/fabio/route"
	"verif/harness/hx"
	"verif/harness/rt"
)

// Round 3: the glue around the command core.
//
// c05.aliases — route.ParseAliases (the second reader of the command language; main.go runs it on every
// configuration text before NewTable) vs the model's `parseAliases`, and vs route.Parse on the very same text:
// the impl line carries both results. Inputs are the texts of c05.text (white-space variation, comments, CRLF,
// malformed lines, non-finite weights, over-long lines) with `register` options frequent.
//
// c05.api — admin/api.RoutesHandler on a reachable table: `?raw` body, the JSON listing, and what NewTable makes
// of the raw body and of String().

func runAliases(raw json.RawMessage) (interface{}, error) {
	var in textIn
	if err := json.Unmarshal(raw, &in); err != nil {
		return nil, err
	}
	text := in.full()
	out := map[string]interface{}{}
	func() {
		defer func() {
			if p := recover(); p != nil {
				out["panic"] = true
			}
		}()
		names, err := route.ParseAliases(text)
		if err != nil {
			out["error"] = loadErr(err)
		} else {
			out["names"] = append([]string{}, names...)
		}
	}()
	p := map[string]interface{}{}
	if defs, err := route.VerifParse(text); err != nil {
		p["error"] = loadErr(err)
	} else {
		p["defs"] = canonDefs(defs)
	}
	out["parse"] = p
	pf := map[string]interface{}{}
	for _, tok := range reTokens(in.Text) {
		if len(tok) <= 4096 {
			for _, v := range trimVariants(tok) {
				pf[v] = ratOf(v)
			}
		}
	}
	out["oracle"] = map[string]interface{}{"pf": pf}
	return out, nil
}

// aliasUniverse: options are frequent and mostly `register`
var aliasUniverse = func() rt.Universe {
	u := c05Small
	u.Opts = [][]string{{"register", "alias-a"}, {"register", "alias-b"}, {"register", ""}, {"register", "x=y"},
		{"strip", "/foo"}, {"proto", "https"}, {"registe", "r"}, {"REGISTER", "upper"}}
	return u
}()

func genAliases(r *hx.Rand, i int) interface{} {
	n := 1 + r.Intn(6)
	if r.Chance(1, 12) {
		n = 1 + r.Intn(30)
	}
	ds := genScript(r, &aliasUniverse, n)
	for k := range ds {
		// rt draws options for one add in three; here two in three carry some
		if ds[k].Cmd == "add" && len(ds[k].Opts) == 0 && r.Chance(1, 2) {
			o := aliasUniverse.Opts[r.Intn(len(aliasUniverse.Opts))]
			ds[k].Opts = [][]string{{o[0], o[1]}}
		}
	}
	v := &varier{r: r, level: r.Intn(3)}
	mal := -1
	switch {
	case r.Chance(1, 5):
		mal = r.Intn(len(ds))
	case r.Chance(1, 12):
		ds[r.Intn(len(ds))].WText = r.Pick(nonFinite)
	}
	in := textIn{Text: v.text(ds, mal)}
	if r.Chance(1, 3) {
		// what main.go builds: service config, "\n", manual config (either may be empty or end in a newline)
		in.Text = r.Pick([]string{"", "\n", "# services\n"}) + in.Text + r.Pick([]string{"", "\n", "\n\n", "\r\n"})
	}
	if r.Chance(1, 100) {
		in.Long = []int{65534, 65535, 65536, 65537, 70000}[r.Intn(5)]
		in.LongAt = r.Intn(strings.Count(in.Text, "\n") + 2)
	}
	return in
}

// ---- c05.api ----------------------------------------------------------------------------------------

type apiEntry struct {
	Service string     `json:"service"`
	Host    string     `json:"host"`
	Path    string     `json:"path"`
	Src     string     `json:"src"`
	Dst     string     `json:"dst"`
	Opts    [][]string `json:"opts"`
	Weight  string     `json:"weight"`
	Tags    []string   `json:"tags"`
}

func runAPI(raw json.RawMessage) (interface{}, error) {
	var in rtIn
	if err := json.Unmarshal(raw, &in); err != nil {
		return nil, err
	}
	for i := range in.Defs {
		in.Defs[i].Fill()
	}
	src := rt.Text(in.Defs)
	out := map[string]interface{}{"src": src}
	t, err := firstTable(&in, src)
	if err != nil {
		out["t"] = map[string]interface{}{"error": loadErr(err)}
		return out, nil
	}
	out["t"] = map[string]interface{}{"table": route.VerifDump(t, false)}
	old := route.GetTable()
	route.SetTable(t)
	defer route.SetTable(old)
	h := &api.RoutesHandler{}

	w := httptest.NewRecorder()
	h.ServeHTTP(w, httptest.NewRequest("GET", "/api/routes?raw", nil))
	body := w.Body.String()
	out["raw"] = body
	out["rawStatus"] = w.Code
	out["rawReload"] = tableOrErr(route.VerifNewTable(body))
	out["strReload"] = tableOrErr(route.VerifNewTable(t.String()))

	w = httptest.NewRecorder()
	h.ServeHTTP(w, httptest.NewRequest("GET", "/api/routes", nil))
	out["status"] = w.Code
	var got []struct {
		Service string   `json:"service"`
		Host    string   `json:"host"`
		Path    string   `json:"path"`
		Src     string   `json:"src"`
		Dst     string   `json:"dst"`
		Opts    string   `json:"opts"`
		Weight  float64  `json:"weight"`
		Tags    []string `json:"tags"`
		Cmd     string   `json:"cmd"`
	}
	list := []apiEntry{}
	if err := json.Unmarshal(w.Body.Bytes(), &got); err != nil {
		out["listError"] = err.Error()
	}
	for _, g := range got {
		e := apiEntry{Service: g.Service, Host: g.Host, Path: g.Path, Src: g.Src, Dst: g.Dst,
			Weight: route.VerifRat(g.Weight), Tags: append([]string{}, g.Tags...), Opts: [][]string{}}
		if g.Cmd != "route add" {
			e.Service = "cmd=" + g.Cmd + ":" + e.Service
		}
		// the handler joins k=v pairs in map order: canonical form is the pairs sorted by key
		var kvs []string
		if g.Opts != "" {
			kvs = strings.Split(g.Opts, " ")
		}
		sort.Strings(kvs)
		for _, kv := range kvs {
			p := strings.SplitN(kv, "=", 2)
			if len(p) == 1 {
				p = append(p, "")
			}
			e.Opts = append(e.Opts, p)
		}
		sort.SliceStable(e.Opts, func(i, j int) bool { return e.Opts[i][0] < e.Opts[j][0] })
		list = append(list, e)
	}
	out["list"] = list
	return out, nil
}

func init() {
	hx.Register(&hx.Stream{Name: "c05.aliases", Gen: genAliases, Run: runAliases})
	hx.Register(&hx.Stream{Name: "c05.api", Gen: genRoundtrip, Run: runAPI})
}
