package main

import (
	"encoding/json"
	"strings"

	"github.com/fabiolb/fabio/route"
	"verif/harness/hx"
	"verif/harness/rt"
)

// c05.roundtrip — a table reachable from command text → Table.String() → NewTable again. The impl line
// carries the first table, the text String() produced, and the second table (or the error NewTable
// reported for the rendered text), plus the oracles for every token of both texts.
type rtIn struct {
	Defs []rt.Def `json:"defs"`
	// Custom: the first table is built by NewTableCustom from the structured definitions (the custom backend's
	// entry point) instead of NewTable from their text — it then owes nothing to Parse
	Custom bool `json:"custom,omitempty"`
}

// firstTable builds the table the round trip starts from.
func firstTable(in *rtIn, src string) (route.Table, error) {
	if in.Custom && expressibleAll(in.Defs) {
		defs := make([]route.RouteDef, len(in.Defs))
		for i := range in.Defs {
			defs[i] = in.Defs[i].RouteDef()
		}
		return route.NewTableCustom(&defs)
	}
	return route.VerifNewTable(src)
}

func runRoundtrip(raw json.RawMessage) (interface{}, error) {
	var in rtIn
	if err := json.Unmarshal(raw, &in); err != nil {
		return nil, err
	}
	for i := range in.Defs {
		in.Defs[i].Fill()
	}
	src := rt.Text(in.Defs)
	out := map[string]interface{}{"src": src}
	t, err := firstTable(&in, src)
	if err != nil {
		out["t"] = map[string]interface{}{"error": loadErr(err)}
		out["oracle"] = map[string]interface{}{}
		return out, nil
	}
	out["t"] = map[string]interface{}{"table": route.VerifDump(t, false)}
	text := t.String()
	out["text"] = text
	t2, err2 := route.VerifNewTable(text)
	out["t2"] = tableOrErr(t2, err2)
	if err2 == nil {
		// the text is a fixpoint: the rebuilt table renders to the very same text
		out["text2"] = t2.String()
	}
	pf, urls, globs := textOracle(src + "\n" + text)
	// is url.Parse∘String idempotent and free of white space on the URLs the table holds?
	urlOK := true
	for _, h := range t {
		for _, r := range h {
			for _, tg := range r.Targets {
				u := tg.URL.String()
				n, ok := route.VerifNormURL(u)
				if !ok || n != u || u == "" || strings.ContainsAny(u, " \t\n\r\f\v\u0085 ") {
					urlOK = false
				}
			}
		}
	}
	out["urlStable"] = urlOK
	out["oracle"] = map[string]interface{}{"pf": pf, "url": urls, "glob": globs}
	return out, nil
}

// universe with tags that exercise the quoting of the text rendering (D07) and options
var rtUniverse = func() rt.Universe {
	u := c05Small
	u.Tags = []string{"a", "b", "c", `a\b`, "d e", "ü"}
	u.Weights = []string{"", "", "", "0", "0.1", "0.25", "0.5", "0.5", "1", "2", "-1", "0.0001", "0.3333", "0.00004", "0.12345", "0.03125"}
	return u
}()

func genRoundtrip(r *hx.Rand, i int) interface{} {
	n := 1 + r.Intn(10)
	if r.Chance(1, 10) {
		n = 1 + r.Intn(30)
	}
	u := &c05Small
	if r.Chance(1, 2) {
		u = &rtUniverse
	}
	ds := genScript(r, u, n)
	// scripts whose weight commands fail produce no table: drop failing weight commands most of the time
	if r.Chance(4, 5) {
		var ok []rt.Def
		for _, d := range ds {
			cand := append(append([]rt.Def{}, ok...), d)
			if _, err := route.VerifNewTable(rt.Text(cand)); err == nil {
				ok = cand
			}
		}
		if len(ok) > 0 {
			ds = ok
		}
	}
	return rtIn{Defs: ds, Custom: r.Chance(1, 2)}
}

func init() {
	hx.Register(&hx.Stream{Name: "c05.roundtrip", Gen: genRoundtrip, Run: runRoundtrip})
}
