package main

import (
	"encoding/json"
	"strings"

	"verif/harness/hx"
)

// c05.text — configuration text (route commands with white-space variation, comments, blank lines, \r\n, a
// malformed share, rarely an over-long line) → the real NewTable → error class + line number or canonical
// dump, vs the model's `parse` + `newTable`. The impl line carries the oracles for strconv.ParseFloat,
// url.Parse+String and glob.Compile evaluated on every token of the text.
type textIn struct {
	Text string `json:"text"`
	// Long > 0: the harness inserts, before line LongAt (0-based), a comment line of exactly Long bytes
	// (keeps the JSON of the case small).
	Long   int `json:"long,omitempty"`
	LongAt int `json:"longAt,omitempty"`
}

func (in *textIn) full() string {
	if in.Long <= 0 {
		return in.Text
	}
	n := in.Long
	if n > 1<<20 {
		n = 1 << 20
	}
	long := "#" + strings.Repeat("x", n-1)
	ls := strings.Split(in.Text, "\n")
	at := in.LongAt
	if at < 0 {
		at = 0
	}
	if at > len(ls) {
		at = len(ls)
	}
	out := append([]string{}, ls[:at]...)
	out = append(out, long)
	out = append(out, ls[at:]...)
	return strings.Join(out, "\n")
}

func runText(raw json.RawMessage) (interface{}, error) {
	var in textIn
	if err := json.Unmarshal(raw, &in); err != nil {
		return nil, err
	}
	text := in.full()
	out := newTable(text)
	pf, urls, globs := textOracle(in.Text)
	out["oracle"] = map[string]interface{}{"pf": pf, "url": urls, "glob": globs}
	return out, nil
}

func genText(r *hx.Rand, i int) interface{} {
	n := 1 + r.Intn(8)
	if r.Chance(1, 10) {
		n = 1 + r.Intn(40)
	}
	ds := genScript(r, &c05Small, n)
	if r.Chance(1, 10) {
		malformDef(r, &ds[r.Intn(len(ds))], false)
	}
	v := &varier{r: r, level: r.Intn(3)}
	mal := -1
	switch {
	case r.Chance(1, 4):
		mal = r.Intn(len(ds))
	case r.Chance(1, 30):
		ds[r.Intn(len(ds))].WText = r.Pick(nonFinite) // accepted by Go, outside the model: own class
	}
	in := textIn{Text: v.text(ds, mal)}
	if r.Chance(1, 150) {
		in.Long = []int{65534, 65535, 65536, 65537, 70000}[r.Intn(5)]
		in.LongAt = r.Intn(strings.Count(in.Text, "\n") + 2)
	}
	return in
}

func init() {
	hx.Register(&hx.Stream{Name: "c05.text", Gen: genText, Run: runText})
}
