package main

import (
	"bufio"
	"encoding/json"
	"strings"

	"verif/harness/hx"
	"verif/harness/rt"
)

// c05.text — configuration text (route commands with white-space variation, comments, blank lines, \r\n, a
// malformed share, rarely an over-long line) → the real NewTable → error class + line number or canonical
// dump, vs the model's `parse` + `newTable`. The impl line carries the oracles for strconv.ParseFloat,
// url.Parse+String and glob.Compile evaluated on every token of the text.
type textIn struct {
	Text string `json:"text,omitempty"`
	// Defs != nil: the text is these definitions written by the varier seeded with VSeed at Level (white-space
	// variation, comments, blank lines, CRLF; line Mal, if >= 0, gets one malformation). Run renders the text — a
	// shrunk input stays consistent — and, when nothing is malformed and the command language can carry every
	// definition, ships them (`want`): the specification then runs the spec machine on the commands *written*,
	// not on what a parser (the model's or Go's) made of the text.
	Defs  []rt.Def `json:"defs,omitempty"`
	VSeed uint64   `json:"vseed,omitempty"`
	Level int      `json:"level,omitempty"`
	Mal   *int     `json:"mal,omitempty"`
	// Long > 0: the harness inserts, before line LongAt (0-based), a comment line of exactly Long bytes
	// (keeps the JSON of the case small).
	Long   int `json:"long,omitempty"`
	LongAt int `json:"longAt,omitempty"`
}

func (in *textIn) full() string {
	if in.Long <= 0 {
		return in.Text
	}
	n := in.Long
	if n > 1<<20 {
		n = 1 << 20
	}
	long := "#" + strings.Repeat("x", n-1)
	ls := strings.Split(in.Text, "\n")
	at := in.LongAt
	if at < 0 {
		at = 0
	}
	if at > len(ls) {
		at = len(ls)
	}
	out := append([]string{}, ls[:at]...)
	out = append(out, long)
	out = append(out, ls[at:]...)
	return strings.Join(out, "\n")
}

func runText(raw json.RawMessage) (interface{}, error) {
	var in textIn
	if err := json.Unmarshal(raw, &in); err != nil {
		return nil, err
	}
	var want []rt.Def
	if in.Defs != nil {
		for i := range in.Defs {
			in.Defs[i].Fill()
		}
		mal := -1
		if in.Mal != nil {
			mal = *in.Mal
		}
		v := &varier{r: hx.NewRand(in.VSeed, "text"), level: in.Level}
		in.Text = v.text(in.Defs, mal)
		// (a line of bufio.MaxScanTokenSize bytes or more makes Parse refuse the whole text: no table to compare)
		if mal < 0 && expressibleAll(in.Defs) && in.Long < bufio.MaxScanTokenSize {
			want = v.effs
		}
	}
	text := in.full()
	out := newTable(text)
	if in.Defs != nil {
		out["text"] = in.Text
		if want != nil {
			out["want"] = map[string]interface{}{"defs": want}
		}
	}
	pf, urls, globs := textOracle(in.Text)
	out["oracle"] = map[string]interface{}{"pf": pf, "url": urls, "glob": globs}
	return out, nil
}

func genText(r *hx.Rand, i int) interface{} {
	n := 1 + r.Intn(8)
	if r.Chance(1, 10) {
		n = 1 + r.Intn(40)
	}
	ds := genScript(r, &c05Small, n)
	if r.Chance(1, 10) {
		malformDef(r, &ds[r.Intn(len(ds))], false)
	}
	in := textIn{Defs: ds, VSeed: r.U64() % 1000000, Level: r.Intn(3)}
	switch {
	case r.Chance(1, 4):
		mal := r.Intn(len(ds))
		in.Mal = &mal
	case r.Chance(1, 30):
		k := r.Intn(len(ds))
		ds[k].WText = r.Pick(nonFinite) // accepted by strconv.ParseFloat, refused by the table code (validWeight)
		ds[k].Fill()
	}
	if r.Chance(1, 150) {
		in.Long = []int{65534, 65535, 65536, 65537, 70000}[r.Intn(5)]
		in.LongAt = r.Intn(2*len(ds) + 2)
	}
	return in
}

func init() {
	hx.Register(&hx.Stream{Name: "c05.text", Gen: genText, Run: runText})
}
