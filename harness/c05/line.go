package main

import (
	"encoding/json"
	"sort"
	"strings"

	"github.com/fabiolb/fabio/route"
	"verif/harness/hx"
)

// c05.line — one line of text against the tokenizer model: the Go side ships what the real regexes / Parse
// produce for that line (route.VerifParse = Parse on the text), the model runs `parse`.
type lineIn struct {
	Line string `json:"line"`
}

type lineDef struct {
	Cmd     string     `json:"cmd"`
	Service string     `json:"service"`
	Src     string     `json:"src"`
	Dst     string     `json:"dst"`
	Weight  string     `json:"weight"`
	Tags    []string   `json:"tags"`
	Opts    [][]string `json:"opts"`
}

func canonDefs(defs []*route.RouteDef) []lineDef {
	out := []lineDef{}
	for _, d := range defs {
		ld := lineDef{Cmd: string(d.Cmd), Service: d.Service, Src: d.Src, Dst: d.Dst, Weight: route.VerifRat(d.Weight), Tags: append([]string{}, d.Tags...), Opts: [][]string{}}
		keys := make([]string, 0, len(d.Opts))
		for k := range d.Opts {
			keys = append(keys, k)
		}
		sort.Strings(keys)
		for _, k := range keys {
			ld.Opts = append(ld.Opts, []string{k, d.Opts[k]})
		}
		out = append(out, ld)
	}
	return out
}

func runLine(raw json.RawMessage) (interface{}, error) {
	var in lineIn
	if err := json.Unmarshal(raw, &in); err != nil {
		return nil, err
	}
	defs, err := route.VerifParse(in.Line)
	out := map[string]interface{}{}
	if err != nil {
		out["error"] = loadErr(err)
	} else {
		out["defs"] = canonDefs(defs)
	}
	pf := map[string]interface{}{}
	for _, tok := range reTokens(in.Line) {
		if len(tok) <= 4096 {
			pf[tok] = ratOf(tok)
			if tr := strings.TrimSpace(tok); tr != tok && tr != "" {
				pf[tr] = ratOf(tr)
			}
		}
	}
	out["oracle"] = map[string]interface{}{"pf": pf}
	return out, nil
}

// vocabulary of the random-token generator: keywords, arguments, quoted lists, junk
var lineVocab = []string{
	"route", "route", "route", "add", "add", "del", "del", "weight", "weight", "weight", "tags", "tags", "opts",
	"svc", "svc-a", "/foo", "foo.com/bar", "http://a:1/", ":1234", "0.5", "1", "0", "-1", "abc", "1e3", "nan",
	`"a"`, `"a,b"`, `" a , b "`, `""`, `"k=v"`, `"k=v x=y k=z"`, `"a b"`, `"`, `a"b`, `"a`, `b"`, `"a""b"`, `"a" "b"`,
	"#", "//", "x", "routeadd", "route add", "a\vb", "t\u0085", "　", "tags\"a\"", "=", "k=", "=v",
}

func genLine(r *hx.Rand, i int) interface{} {
	var line string
	switch r.Intn(10) {
	case 0, 1, 2, 3, 4: // a well-formed command with white-space variation, sometimes malformed
		ds := c05Small.GenScript(r, 1+r.Intn(3))
		d := ds[len(ds)-1]
		if r.Chance(1, 20) {
			d.WText = r.Pick(append(append([]string{}, badWeights...), nonFinite...))
		}
		v := &varier{r: r, level: 1}
		line = v.line(&d, r.Chance(2, 5))
		if r.Chance(1, 3) {
			line = r.Pick(uniPad) + line + r.Pick(uniPad)
		}
	case 5, 6, 7, 8: // random tokens from the vocabulary
		n := 1 + r.Intn(9)
		var b strings.Builder
		if r.Chance(1, 4) {
			b.WriteString(r.Pick(uniPad))
		}
		for k := 0; k < n; k++ {
			if k > 0 {
				b.WriteString(r.Pick(reSeps))
			}
			b.WriteString(r.Pick(lineVocab))
		}
		if r.Chance(1, 4) {
			b.WriteString(r.Pick(uniPad))
		}
		line = b.String()
		if r.Chance(3, 4) && !strings.HasPrefix(line, "route") {
			line = "route" + r.Pick(reSeps) + r.Pick([]string{"add", "del", "weight"}) + r.Pick(reSeps) + line
		}
	default: // comments, blanks, several lines
		line = r.Pick([]string{"", " ", "\t", "# x", "//x", "/ /x", " # route add a b c", " #", " ", "\v", "\r", "\r\n", "\n", "a\nroute del x", "route del x\n\n#\nroute del", "route del x\r\r\nroute add"})
	}
	return lineIn{Line: line}
}

func init() {
	hx.Register(&hx.Stream{Name: "c05.line", Gen: genLine, Run: runLine})
}
