package main

import (
	"encoding/json"
	"sort"
	"strconv"
	"strings"

	"github.com/fabiolb/fabio/route"
	"verif/harness/hx"
	"verif/harness/rt"
)

// c05.line — one line of text against the tokenizer model: the Go side ships what the real regexes / Parse
// produce for that line (route.VerifParse = Parse on the text), the model runs `parse`.
type lineIn struct {
	Line string `json:"line,omitempty"`
	// Def != nil: the line is this definition written by the varier seeded with VSeed (white-space variation,
	// padded tag lists, a repeated option key; one malformation when Mal is set) between PadL and PadR. Run renders
	// it, so that a shrunk input stays consistent, and — for a well-formed line — ships the definition Parse must
	// return (`want`): print-then-parse is the identity on the definitions of the command language.
	Def   *rt.Def `json:"def,omitempty"`
	VSeed uint64  `json:"vseed,omitempty"`
	Mal   bool    `json:"mal,omitempty"`
	PadL  string  `json:"padl,omitempty"`
	PadR  string  `json:"padr,omitempty"`
}

// wantDef is the definition a reader of the command language must produce for d, in canonDefs' shape.
func wantDef(d *rt.Def) lineDef {
	w := lineDef{Service: d.Service, Tags: append([]string{}, d.Tags...), Opts: [][]string{}, Weight: route.VerifRat(0)}
	switch d.Cmd {
	case "add":
		w.Cmd, w.Src, w.Dst, w.Weight = string(route.RouteAddCmd), d.Src, d.Dst, route.VerifRat(d.Weight())
		m := map[string]string{}
		for _, o := range d.Opts {
			m[o[0]] = o[1]
		}
		keys := make([]string, 0, len(m))
		for k := range m {
			keys = append(keys, k)
		}
		sort.Strings(keys)
		for _, k := range keys {
			w.Opts = append(w.Opts, []string{k, m[k]})
		}
	case "del":
		w.Cmd = string(route.RouteDelCmd)
		if len(d.Tags) == 0 {
			w.Src, w.Dst = d.Src, d.Dst
		}
	case "weight":
		w.Cmd, w.Src, w.Weight = string(route.RouteWeightCmd), d.Src, route.VerifRat(d.Weight())
	}
	return w
}

type lineDef struct {
	Cmd     string     `json:"cmd"`
	Service string     `json:"service"`
	Src     string     `json:"src"`
	Dst     string     `json:"dst"`
	Weight  string     `json:"weight"`
	Tags    []string   `json:"tags"`
	Opts    [][]string `json:"opts"`
}

func canonDefs(defs []*route.RouteDef) []lineDef {
	out := []lineDef{}
	for _, d := range defs {
		ld := lineDef{Cmd: string(d.Cmd), Service: d.Service, Src: d.Src, Dst: d.Dst, Weight: route.VerifRat(d.Weight), Tags: append([]string{}, d.Tags...), Opts: [][]string{}}
		keys := make([]string, 0, len(d.Opts))
		for k := range d.Opts {
			keys = append(keys, k)
		}
		sort.Strings(keys)
		for _, k := range keys {
			ld.Opts = append(ld.Opts, []string{k, d.Opts[k]})
		}
		out = append(out, ld)
	}
	return out
}

func runLine(raw json.RawMessage) (interface{}, error) {
	var in lineIn
	if err := json.Unmarshal(raw, &in); err != nil {
		return nil, err
	}
	out := map[string]interface{}{}
	if in.Def != nil {
		v := &varier{r: hx.NewRand(in.VSeed, "line"), level: 1}
		in.Line = in.PadL + v.line(in.Def, in.Mal) + in.PadR
		out["line"] = in.Line
		if _, werr := strconv.ParseFloat(in.Def.WText, 64); !in.Mal && expressible(in.Def) && (in.Def.WText == "" || werr == nil) {
			e := v.effective(in.Def)
			out["want"] = wantDef(&e)
		}
	}
	defs, err := route.VerifParse(in.Line)
	if err != nil {
		out["error"] = loadErr(err)
	} else {
		out["defs"] = canonDefs(defs)
	}
	pf := map[string]interface{}{}
	for _, tok := range reTokens(in.Line) {
		if len(tok) <= 4096 {
			for _, v := range trimVariants(tok) {
				pf[v] = ratOf(v)
			}
		}
	}
	out["oracle"] = map[string]interface{}{"pf": pf}
	return out, nil
}

// vocabulary of the random-token generator: keywords, arguments, quoted lists, junk
var lineVocab = []string{
	"route", "route", "route", "add", "add", "del", "del", "weight", "weight", "weight", "tags", "tags", "opts",
	"svc", "svc-a", "/foo", "foo.com/bar", "http://a:1/", ":1234", "0.5", "1", "0", "-1", "abc", "1e3", "nan",
	`"a"`, `"a,b"`, `" a , b "`, `""`, `"k=v"`, `"k=v x=y k=z"`, `"a b"`, `"`, `a"b`, `"a`, `b"`, `"a""b"`, `"a" "b"`,
	"#", "//", "x", "routeadd", "route add", "a\vb", "t\u0085", "　", "tags\"a\"", "=", "k=", "=v",
}

func genLine(r *hx.Rand, i int) interface{} {
	var line string
	switch r.Intn(10) {
	case 0, 1, 2, 3, 4: // a well-formed command with white-space variation, sometimes malformed
		ds := c05Small.GenScript(r, 1+r.Intn(3))
		d := ds[len(ds)-1]
		if r.Chance(1, 20) {
			d.WText = r.Pick(append(append([]string{}, badWeights...), nonFinite...))
		}
		in := lineIn{Def: &d, VSeed: r.U64() % 1000000, Mal: r.Chance(2, 5)}
		if r.Chance(1, 3) {
			in.PadL, in.PadR = r.Pick(uniPad), r.Pick(uniPad)
		}
		return in
	case 5, 6, 7, 8: // random tokens from the vocabulary
		n := 1 + r.Intn(9)
		var b strings.Builder
		if r.Chance(1, 4) {
			b.WriteString(r.Pick(uniPad))
		}
		for k := 0; k < n; k++ {
			if k > 0 {
				b.WriteString(r.Pick(reSeps))
			}
			b.WriteString(r.Pick(lineVocab))
		}
		if r.Chance(1, 4) {
			b.WriteString(r.Pick(uniPad))
		}
		line = b.String()
		if r.Chance(3, 4) && !strings.HasPrefix(line, "route") {
			line = "route" + r.Pick(reSeps) + r.Pick([]string{"add", "del", "weight"}) + r.Pick(reSeps) + line
		}
	default: // comments, blanks, several lines
		line = r.Pick([]string{"", " ", "\t", "# x", "//x", "/ /x", " # route add a b c", " #", " ", "\v", "\r", "\r\n", "\n", "a\nroute del x", "route del x\n\n#\nroute del", "route del x\r\r\nroute add"})
	}
	return lineIn{Line: line}
}

func init() {
	hx.Register(&hx.Stream{Name: "c05.line", Gen: genLine, Run: runLine})
}
