package main

import (
	"fmt"
	"regexp"
	"strconv"
	"strings"
	"unicode"

	"github.com/fabiolb/fabio/route"
	"verif/harness/hx"
	"verif/harness/rt"
)

// ---- canonical observables -------------------------------------------------------------------------

var reLineErr = regexp.MustCompile(`^line (\d+): (.*)$`)

// loadErr maps an error of route.NewTable / route.Parse to the small enum the model uses.
func loadErr(err error) map[string]interface{} {
	s := err.Error()
	if m := reLineErr.FindStringSubmatch(s); m != nil {
		n, _ := strconv.Atoi(m[1])
		what := "other:" + m[2]
		switch m[2] {
		case "syntax error: 'route' expected":
			what = "routeExpected"
		case "syntax error: 'route add' invalid":
			what = "addInvalid"
		case "syntax error: 'route del' invalid":
			what = "delInvalid"
		case "syntax error: 'route weight' invalid":
			what = "weightInvalid"
		case "syntax error: weight value invalid":
			what = "weightValue"
		case "bufio.Scanner: token too long":
			return map[string]interface{}{"kind": "tooLong", "line": n}
		}
		return map[string]interface{}{"kind": "syn", "line": n, "what": what}
	}
	if strings.Contains(s, "token too long") {
		return map[string]interface{}{"kind": "tooLong", "line": 0}
	}
	return map[string]interface{}{"kind": "table", "what": errClass(err)}
}

// newTable runs the real NewTable; a panic becomes the observable {"panic": true}.
func newTable(text string) (out map[string]interface{}) {
	defer func() {
		if p := recover(); p != nil {
			out = map[string]interface{}{"panic": true, "panicText": fmt.Sprint(p)}
		}
	}()
	t, err := route.VerifNewTable(text)
	return tableOrErr(t, err)
}

// tableOrErr is the canonical observable of NewTable.
func tableOrErr(t route.Table, err error) map[string]interface{} {
	if err != nil {
		return map[string]interface{}{"error": loadErr(err)}
	}
	return map[string]interface{}{"table": route.VerifDump(t, false)}
}

// ---- oracles for the model's parameters ------------------------------------------------------------

func isReSpace(c byte) bool { return c == '\t' || c == '\n' || c == '\f' || c == '\r' || c == ' ' }

// reTokens returns the maximal runs of non-`\s` bytes (RE2 `\S+`) of a text.
func reTokens(s string) []string {
	var out []string
	i := 0
	for i < len(s) {
		for i < len(s) && isReSpace(s[i]) {
			i++
		}
		j := i
		for j < len(s) && !isReSpace(s[j]) {
			j++
		}
		if j > i {
			out = append(out, s[i:j])
		}
		i = j
	}
	return out
}

// trimVariants returns tok and what strings.TrimSpace can leave of it when it stands first, last or alone on a line.
func trimVariants(tok string) []string {
	out := []string{tok}
	for _, v := range []string{strings.TrimSpace(tok), strings.TrimLeftFunc(tok, unicode.IsSpace), strings.TrimRightFunc(tok, unicode.IsSpace)} {
		dup := v == ""
		for _, o := range out {
			if o == v {
				dup = true
			}
		}
		if !dup {
			out = append(out, v)
		}
	}
	return out
}

func ratOf(tok string) interface{} {
	f, err := strconv.ParseFloat(tok, 64)
	if err != nil {
		return nil
	}
	return route.VerifRat(f)
}

// textOracle evaluates strconv.ParseFloat, url.Parse+String and glob.Compile on every token of the text
// that can reach them (over-long tokens are skipped: they sit on lines the scanner refuses).
func textOracle(text string) (pf, urls, globs map[string]interface{}) {
	pf = map[string]interface{}{}
	urls = map[string]interface{}{}
	globs = map[string]interface{}{}
	var toks []string
	for _, tok := range reTokens(text) {
		// a token at the start or end of a line may lose Unicode white space to strings.TrimSpace: at the start
		// its leading part, at the end its trailing part, both when it is the whole line
		toks = append(toks, trimVariants(tok)...)
	}
	for _, tok := range toks {
		if len(tok) > 4096 {
			continue
		}
		if _, ok := pf[tok]; ok {
			continue
		}
		pf[tok] = ratOf(tok)
		if n, ok := route.VerifNormURL(tok); ok {
			urls[tok] = n
			if n != tok {
				// the rendered table carries the normalised URL; the model needs its normal form too
				if n2, ok2 := route.VerifNormURL(n); ok2 {
					urls[n] = n2
				} else {
					urls[n] = nil
				}
			}
		} else {
			urls[tok] = nil
		}
		h, p := route.VerifHostpath(tok)
		globs[p] = route.VerifGlobOK(p)
		h = strings.ToLower(h)
		globs[h] = route.VerifGlobOK(h)
	}
	return
}

// ---- text rendering with white-space variation -------------------------------------------------------

var reSeps = []string{" ", " ", " ", "  ", "\t", " \t ", "\f", "\r", "   "}
var uniPad = []string{"", "", "", " ", "\t", "  ", "\v", " ", "\u0085", " ", "　", "  \t", "\r"}
var badWeights = []string{"abc", "1e999", "-1e999", "0x1p-2", "1_0", ".5", "5.", "+0.5", "1e-3", "0.5.1", "--1", "0,5", "½", "1e", "0x", "١"}
var nonFinite = []string{"nan", "NaN", "inf", "-Inf", "+Infinity", "infinity"}

type varier struct {
	r *hx.Rand
	// level 0: single spaces only; 1: RE2 white space between tokens; 2: also padding, comments, \r\n
	level int
	// again: set by line() when it repeated the first option's key with the value "again" (later key wins)
	again *string
	// effs: set by text(): the definitions as a reader must see them, one per command line written
	effs []rt.Def
}

// effective returns the definition the last line() call wrote: d with the options as a reader must see them.
func (v *varier) effective(d *rt.Def) rt.Def {
	e := *d
	e.Opts = nil
	for _, o := range d.Opts {
		o2 := []string{o[0], o[1]}
		if v.again != nil && o[0] == *v.again {
			o2[1] = "again"
		}
		e.Opts = append(e.Opts, o2)
	}
	return e
}

func (v *varier) sep() string {
	if v.level == 0 {
		return " "
	}
	return v.r.Pick(reSeps)
}

// line renders a definition like rt.Def.Line but with the varier's separators, optional white space inside the
// quoted lists, and (when mal is set) one malformation.
func (v *varier) line(d *rt.Def, mal bool) string {
	r := v.r
	v.again = nil
	var toks []string
	add := func(s ...string) { toks = append(toks, s...) }
	tags := func() string {
		ts := append([]string(nil), d.Tags...)
		if v.level > 0 {
			for i := range ts {
				if r.Chance(1, 4) {
					ts[i] = r.Pick([]string{" ", "\t", " ", "  "}) + ts[i]
				}
				if r.Chance(1, 4) {
					ts[i] = ts[i] + r.Pick([]string{" ", "\t", " "})
				}
			}
		}
		return `"` + strings.Join(ts, ",") + `"`
	}
	opts := func() string {
		var kv []string
		for _, o := range d.Opts {
			if o[1] == "" && r.Chance(1, 2) {
				kv = append(kv, o[0])
			} else {
				kv = append(kv, o[0]+"="+o[1])
			}
		}
		sep := " "
		if v.level > 0 {
			sep = r.Pick([]string{" ", "  ", "\t", "  ", "\v"})
			if r.Chance(1, 8) && len(kv) > 0 {
				k := strings.SplitN(kv[0], "=", 2)[0]
				kv = append(kv, k+"=again") // later key wins
				v.again = &k
			}
		}
		s := strings.Join(kv, sep)
		if v.level > 0 && r.Chance(1, 6) {
			s = " " + s + " "
		}
		return `"` + s + `"`
	}
	switch d.Cmd {
	case "add":
		add("route", "add", d.Service, d.Src, d.Dst)
		if d.WText != "" {
			add("weight", d.WText)
		}
		if len(d.Tags) > 0 {
			add("tags", tags())
		}
		if len(d.Opts) > 0 {
			add("opts", opts())
		}
	case "del":
		add("route", "del")
		if d.Service != "" {
			add(d.Service)
		}
		if len(d.Tags) > 0 {
			add("tags", tags())
		} else {
			if d.Src != "" {
				add(d.Src)
			}
			if d.Dst != "" {
				add(d.Dst)
			}
		}
	case "weight":
		add("route", "weight")
		if d.Service != "" {
			add(d.Service)
		}
		add(d.Src, "weight", d.WText)
		if len(d.Tags) > 0 {
			add("tags", tags())
		}
	default:
		add(d.Cmd)
	}
	if mal {
		toks = v.mangle(toks)
	}
	var b strings.Builder
	for i, t := range toks {
		if i > 0 {
			b.WriteString(v.sep())
		}
		b.WriteString(t)
	}
	return b.String()
}

// mangle applies one malformation to a token list.
func (v *varier) mangle(toks []string) []string {
	r := v.r
	out := append([]string(nil), toks...)
	k := r.Intn(12)
	switch {
	case k == 0 && len(out) > 2: // missing argument
		i := 2 + r.Intn(len(out)-2)
		out = append(out[:i], out[i+1:]...)
	case k == 1: // bad weight token
		for i := range out {
			if out[i] == "weight" && i+1 < len(out) && i > 1 {
				out[i+1] = r.Pick(badWeights)
			}
		}
	case k == 2: // stray quote
		i := r.Intn(len(out))
		switch r.Intn(3) {
		case 0:
			out[i] = out[i] + `"`
		case 1:
			out[i] = `"` + out[i]
		default:
			out[i] = strings.Replace(out[i], `"`, "", 1)
		}
	case k == 3: // unknown command
		out[1] = r.Pick([]string{"foo", "ad", "addx", "delete", "weigh", "ADD", "add "})
	case k == 4: // misspelt "route"
		out[0] = r.Pick([]string{"rout", "routes", "Route", "route ", "#route", "r"})
	case k == 5: // extra trailing token
		out = append(out, r.Pick([]string{"x", `"x"`, "tags", `opts`, "weight"}))
	case k == 6 && len(out) > 3: // swapped clauses
		i := 2 + r.Intn(len(out)-3)
		out[i], out[i+1] = out[i+1], out[i]
	case k == 7: // keyword as argument
		i := 2 + r.Intn(maxInt(1, len(out)-2))
		if i < len(out) {
			out[i] = r.Pick([]string{"tags", "weight", "opts", "route", "add"})
		}
	case k == 8: // glued with a non-RE2 space
		if len(out) > 3 {
			i := 2 + r.Intn(len(out)-3)
			glue := r.Pick([]string{"\v", " ", "\u0085", " "})
			out = append(out[:i], append([]string{out[i] + glue + out[i+1]}, out[i+2:]...)...)
		}
	case k == 9: // duplicate clause
		out = append(out, out[len(out)-1])
	case k == 10: // empty quoted list
		for i := range out {
			if strings.HasPrefix(out[i], `"`) {
				out[i] = r.Pick([]string{`""`, `" "`, `","`, `" "`})
			}
		}
	default: // truncated line
		if len(out) > 2 {
			out = out[:2+r.Intn(len(out)-2)]
		}
	}
	return out
}

func maxInt(a, b int) int {
	if a > b {
		return a
	}
	return b
}

// text renders a script as configuration text.
func (v *varier) text(ds []rt.Def, malIdx int) string {
	r := v.r
	var b strings.Builder
	// a definition that repeats an earlier one verbatim is mostly written with the very same line (same
	// separators), as a configuration source would: "add X / del X / add X" with byte-identical adds
	seen := map[string]string{}
	seenEff := map[string]rt.Def{}
	v.effs = nil
	for i := range ds {
		if v.level >= 2 {
			switch r.Intn(10) {
			case 0:
				b.WriteString(r.Pick(uniPad) + "# " + r.Pick([]string{"comment", "route add x y z", ""}) + "\n")
			case 1:
				b.WriteString(r.Pick(uniPad) + "//" + r.Pick([]string{" c", "route del x", ""}) + r.Pick([]string{"\n", "\r\n"}))
			case 2:
				b.WriteString(r.Pick(uniPad) + "\n")
			}
			b.WriteString(r.Pick(uniPad))
		}
		key := fmt.Sprintf("%+v", ds[i])
		ln, dup := seen[key]
		if !dup || i == malIdx || r.Chance(1, 4) {
			ln = v.line(&ds[i], i == malIdx)
			seenEff[key] = v.effective(&ds[i])
			if i != malIdx {
				seen[key] = ln
			}
		}
		v.effs = append(v.effs, seenEff[key])
		b.WriteString(ln)
		if v.level >= 2 {
			b.WriteString(r.Pick(uniPad))
			if i < len(ds)-1 || r.Chance(1, 2) {
				b.WriteString(r.Pick([]string{"\n", "\n", "\r\n", "\r\r\n"}))
			}
		} else if i < len(ds)-1 {
			b.WriteString("\n")
		}
	}
	return b.String()
}

// scramble flips the letter case of the host part of a source.
func scramble(r *hx.Rand, src string) string {
	n := strings.IndexByte(src, '/')
	if n < 0 {
		n = len(src)
	}
	b := []byte(src)
	for i := 0; i < n; i++ {
		c := b[i]
		if r.Chance(1, 2) {
			switch {
			case c >= 'a' && c <= 'z':
				b[i] = c - 32
			case c >= 'A' && c <= 'Z':
				b[i] = c + 32
			}
		}
	}
	return string(b)
}

func errString(err error) string {
	if err == nil {
		return ""
	}
	return fmt.Sprint(err)
}

// c05Small is rt.Small with destinations whose text and url.Parse(·).String() differ or that carry parts the
// URL *struct* holds behind pointers (the commands compare and de-duplicate destinations by their String()):
// credentials, an upper-case scheme (normalised to lower case: "HTTP://a:1/" and "http://a:1/" are one
// target, and a `route del svc src HTTP://a:1/` removes what `http://a:1/` added), a fragment, an escaped path.
// Options include `register` (read by ParseAliases) with and without a value.
var c05Small = func() rt.Universe {
	u := rt.Small
	u.Dsts = append(append([]string{}, rt.Small.Dsts...),
		"http://u:pw@a:1/", "http://u@a:1/", "HTTP://a:1/", "https://u:pw@c:3/x", "http://b:2/#top", "http://b:2/a%2Fb", "Http://u:pw@a:1/")
	// an IPv6 literal with port as host, a punycode name, a long label; a long service name
	u.Hosts = append(append([]string{}, rt.Small.Hosts...), "[::1]:8080", "[::1]:8080", "XN--Bcher-KVA.example", strings.Repeat("a", 63)+".Example.com")
	u.Services = append(append([]string{}, rt.Small.Services...), "svc-"+strings.Repeat("x", 300))
	u.Opts = append(append([][]string{}, rt.Small.Opts...),
		[]string{"register", "alias-a"}, []string{"register", ""}, []string{"redirect", "399"}, []string{"redirect", "200"},
		[]string{"redirect", "+302"}, []string{"redirect", "3x1"}, []string{"host", "www.foo.com"}, []string{"pxyproto", "true"},
		[]string{"tlsskipverify", "TRUE"}, []string{"strip", ""},
		// values that contain '=' themselves (only the first '=' of a field separates key and value), a value that
		// is just "=", an empty key
		[]string{"strip", "/cfg/env=prod"}, []string{"prepend", "/q=1"}, []string{"host", "a=b"}, []string{"k", "v=w=x"},
		[]string{"eq", "="}, []string{"", "v"})
	return u
}()

// genScript draws a command script like rt.Universe.GenScript and, in addition, makes sequences frequent in
// which a command is applied, undone or altered, and applied again with the very same definition: verbatim
// re-adds, `del` aimed exactly at an earlier add followed by the same add, `weight` on an earlier add followed
// by the same add. (Commands are applied in order and order matters: the second add is not a no-op then.)
func genScript(r *hx.Rand, u *rt.Universe, n int) []rt.Def {
	var ds []rt.Def
	for len(ds) < n {
		var adds []rt.Def
		for _, d := range ds {
			if d.Cmd == "add" {
				adds = append(adds, d)
			}
		}
		k := r.Intn(12)
		if len(adds) == 0 {
			k = 11
		}
		switch k {
		case 0, 1: // the same add again, verbatim
			ds = append(ds, adds[r.Intn(len(adds))])
		case 2, 3: // delete exactly what an earlier add created, then mostly the same add again
			a := adds[r.Intn(len(adds))]
			d := rt.Def{Cmd: "del", Service: a.Service}
			switch r.Intn(5) {
			case 0:
			case 1:
				d.Src = a.Src
			case 2:
				d.Src = scramble(r, a.Src)
			case 3:
				d.Src, d.Dst = a.Src, a.Dst
			default:
				if len(a.Tags) > 0 {
					d.Tags = []string{a.Tags[r.Intn(len(a.Tags))]}
					if r.Chance(1, 2) {
						d.Service = ""
					}
				}
			}
			d.Fill()
			ds = append(ds, d)
			if r.Chance(1, 4) {
				ds = append(ds, u.GenDef(r, ds))
			}
			if r.Chance(4, 5) {
				ds = append(ds, a)
			}
		case 4: // change the weight of what an earlier add created, then the same add again
			a := adds[r.Intn(len(adds))]
			w := rt.Def{Cmd: "weight", Service: a.Service, Src: a.Src, WText: r.Pick(u.Weights[2:])}
			w.Fill()
			ds = append(ds, w)
			if r.Chance(4, 5) {
				ds = append(ds, a)
			}
		default:
			ds = append(ds, u.GenDef(r, ds))
		}
	}
	// a source may name a host without any path ("foo.com" means "foo.com/"): rt's universe always appends a
	// path, so drop the bare "/" now and then (all commands, any letter case)
	for i := range ds {
		s := ds[i].Src
		if len(s) > 1 && strings.HasSuffix(s, "/") && !strings.Contains(s[:len(s)-1], "/") && !strings.HasPrefix(s, ":") && r.Chance(2, 5) {
			ds[i].Src = s[:len(s)-1]
		}
	}
	return ds
}

// malformDef breaks one command the way a registry or an operator can: a host or path glob.Compile refuses, a
// destination url.Parse refuses, and — for structured scripts only (the text grammar cannot express them) — an
// empty prefix, an empty target or an unknown command. Together with a non-finite weight on the same command
// this exercises the order of the checks in addRoute / weighRoute / delRoute.
var badSrcs = []string{"[foo.com/", "foo.com/[a", "foo.com/{a,b", "{foo.com/", "foo.com/a\\", "[/", ":[1"}
var badDsts = []string{"http://[::1", "%zz", "http://a:1/%zz", ":foo", "http://a:b/", "http://[fe80::1%en0]:1/"}

func malformDef(r *hx.Rand, d *rt.Def, structured bool) {
	k := r.Intn(6)
	if !structured && k >= 3 {
		k = r.Intn(3)
	}
	switch k {
	case 0:
		if d.Cmd == "del" && len(d.Tags) > 0 {
			return
		}
		d.Src = r.Pick(badSrcs)
	case 1:
		if d.Cmd == "add" || (d.Cmd == "del" && d.Src != "" && len(d.Tags) == 0) {
			d.Dst = r.Pick(badDsts)
		}
	case 2: // an existing-looking source with a path no glob accepts, on a host that exists already
		if i := strings.IndexByte(d.Src, '/'); i >= 0 {
			d.Src = d.Src[:i] + r.Pick([]string{"/[x", "/{y", "/z\\"})
		}
	case 3:
		d.Src = ""
	case 4:
		d.Dst = ""
	default:
		d.Cmd = r.Pick([]string{"route foo", "", "ADD", "route add"})
	}
}
