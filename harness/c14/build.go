package main

import (
	"encoding/json"
	"strings"

	"github.com/fabiolb/fabio/registry/consul"
	"verif/harness/hx"
)

// c14.build — one catalog entry → the real routecmd.build → emitted commands; for every emitted command the
// implementation-side oracle: what the real route.Parse makes of that command alone and whether a fresh
// routing table (route.NewTable) accepts it; for every tag the real parseURLPrefixTag. The Lean side compares
// the commands with the model and evaluates the property: every command is read by fabio's own parser as exactly
// one `route add` that denotes the registered service/prefix/destination/weight/tags/options, and every
// routing tag that fits the grammar got its command.
type buildIn struct {
	Reg    Reg    `json:"reg"`
	Prefix string `json:"prefix"`
	DC     string `json:"dc"`
}

type tagOut struct {
	Tag   string `json:"tag"`
	Route string `json:"route"`
	Opts  string `json:"opts"`
	OK    bool   `json:"ok"`
}

func runBuild(raw json.RawMessage) (interface{}, error) {
	var in buildIn
	if err := json.Unmarshal(raw, &in); err != nil {
		return nil, err
	}
	env := map[string]string{"DC": in.DC}
	cmds := consul.VerifC14Build(in.Reg.catalog(), in.Prefix, env)
	if cmds == nil {
		cmds = []string{}
	}
	or := newOracle()
	or.addReg(&in.Reg, in.Prefix, env)
	parsed := []map[string]interface{}{}
	for _, c := range cmds {
		parsed = append(parsed, parseOne(c))
		or.addText(c)
	}
	tags := []tagOut{}
	for _, t := range in.Reg.Tags {
		r, o, ok := consul.VerifC14ParseTag(t, in.Prefix, env)
		tags = append(tags, tagOut{Tag: t, Route: r, Opts: o, OK: ok})
	}
	return map[string]interface{}{"cmds": cmds, "parsed": parsed, "ptags": tags, "oracle": or.json()}, nil
}

// ---- universes --------------------------------------------------------------------------------------------

var (
	okNames  = []string{"svc-a", "svc-b", "web", "api", "svc-c"}
	badNames = []string{"s v c", "svc\tx", "svc\nroute del svc-a", "", "svc\"q", "ünï", "svc\u00a0x", "#svc", "a\\b", "svc /y http://evil:1/ tags", "svc\v", "\u2028svc", "svc\r"}
	okAddrs  = []string{"10.0.0.1", "1.1.1.1", "::1", "fe80::1", "2001:db8::2", "host.local", "", ""}
	badAddrs = []string{"a b", "h\nx", "[::1]", "bad%host", "h\x7f", "ho\tst", "h\"q", "é.example", "h\u00a0"}
	nodes    = []string{"10.9.9.9", "node1", "::2", "", "n d"}
	ports    = []int{80, 8080, 0, 65535, -1, 2222, 443}
	prefixes = []string{"urlprefix-", "urlprefix-", "urlprefix-", "urlprefix-", "p-", "", "UrlPrefix-", "up "}
	dcs      = []string{"dc1", "dc1", "DC-2", "", "dc 3", "dc/x", "d\"c", "ünï"}

	okRoutes = []string{"/", "/foo", "/foo/bar", "foo.com/", "Foo.COM/Bar", "foo.com:8080/x", ":1234", ":3306", "*.foo.com/",
		"$DC.foo.com/", "${DC}.foo.com/api", "foo.com/$DC/x", "foo.com/${DC}", "/a*b", "/é", "foo.com/Path"}
	oddRoutes = []string{"$dc.foo/", "${}x/", "$/", "foo", "", "/[", "/{a", "[.com/", "/x\ty", "/x\ny", "/x\vy", "/x\u00a0y", "/x\"y",
		"/$1$", "${DC/x}", "/x$", "/#", "${DC", "$$/", "/${D C}", "/$DC$DC", "${*}/", "$-x/", "/\\", "FOO.com", ":12 34", "/x\r", "/\u2028", "\u00e9.com/", // hosts: ASCII or lower-case (the model lower-cases ASCII only, DESIGN.md §5)
		"/x\thttp://evil:1/\nroute\tdel\tsvc-a\nroute\tadd\tsvc-b\t/y"}
	okOpts = []string{"proto=tcp", "proto=https", "proto=grpc", "proto=grpcs", "proto=http", "weight=0.5", "weight=1", "weight=0", "weight=0.25",
		"strip=/foo", "prepend=/x", "host=dst", "host=foo.com", "tlsskipverify=true", "register=alias", "register=", "register", "register=svc-a", "auth=basic", "pxyproto=true",
		"allow=ip:10.0.0.0/8", "deny=ip:1.2.3.4/32", "redirect=301,https://www.bar.com", "redirect=302,http://x/$path", "flag", "k=v=w", "é=ü"}
	oddOpts = []string{"weight=-1", "weight=abc", "weight=Inf", "weight=NaN", "weight=1e999", "weight=", "weight=0x1p-2", "weight=1e-320", "weight=+Inf",
		"redirect=301", "redirect=301,", "redirect=1,2,3", "redirect=,http://a/", "redirect=301,ht tp://x", "redirect=301,http://[::1", "=v", "q\"x", "a\\b",
		"\"", "opts", "tags", "weight", "x\u00a0y", "proto=TCP", "proto=tcp/", "k=\"v\""}
	optSeps   = []string{" ", " ", " ", "  ", "\t", "\n", "\u00a0"}
	okPlain   = []string{"a", "b", "prod", "v1.2", "blue", "tag with space", "ünï", "emoji😀", "k=v", "x;y", "semi:colon"}
	oddPlain  = []string{"a,b", "ta\"g", "back\\slash", "tab\there", "new\nline", "", "  ", "\x00nul", "\u0085", "x\u2028y", "q\"\\", "a\\\"b",
		"\" opts \"x=y", "a\" tags \"b", "plain\r", " padded ", ",", "\"", "\\", "a\vb", "\u00a0nb", "x\nroute del svc-a", "\x7f", "\u200b"}
)

// genWeight draws a weight text strconv.ParseFloat reads as a finite number: few or many decimals (a canary's
// 0.00004, 0.12345), values next to a rounding boundary, exponent notation in both cases, a leading dot or sign,
// leading/trailing zeros, values above 1, the smallest denormals.
func genWeight(r *hx.Rand) string {
	digits := func(n int) string {
		b := make([]byte, n)
		for i := range b {
			b[i] = byte('0' + r.Intn(10))
		}
		return string(b)
	}
	switch r.Intn(10) {
	case 0:
		return "0." + digits(1+r.Intn(2))
	case 1:
		return "0." + digits(3+r.Intn(10))
	case 2:
		return "0." + strings.Repeat("0", 2+r.Intn(5)) + digits(1+r.Intn(3))
	case 3:
		return r.Pick([]string{"0.99996", "0.99994", "0.00005", "0.00004", "0.49995", "0.12345", "0.999999999", "1.00004"})
	case 4:
		return digits(1) + r.Pick([]string{"e-", "E-", "e-0"}) + digits(1)
	case 5:
		return digits(1) + "." + digits(1+r.Intn(3)) + r.Pick([]string{"e-", "E-", "e+", "e"}) + digits(1)
	case 6:
		return "." + digits(1+r.Intn(6))
	case 7:
		return r.Pick([]string{"+", "-", "0", "00"}) + "0." + digits(1+r.Intn(4)) + r.Pick([]string{"", "0", "000"})
	case 8:
		return digits(1+r.Intn(4)) + r.Pick([]string{"", ".", "." + digits(1+r.Intn(5))})
	default:
		return r.Pick([]string{"1e-320", "4.9e-324", "1e-7", "2.5e-05", "0x1p-2", "1e0", "100e-2", "0.1e1"})
	}
}

func genTag(r *hx.Rand, prefix string, hostile bool) string {
	route := r.Pick(okRoutes)
	if hostile && r.Chance(1, 2) {
		route = r.Pick(oddRoutes)
	}
	var b strings.Builder
	if r.Chance(1, 8) {
		b.WriteString(r.Pick([]string{" ", "\t", "  "}))
	}
	b.WriteString(prefix)
	if r.Chance(1, 8) {
		b.WriteString(" ")
	}
	b.WriteString(route)
	n := 0
	switch r.Intn(4) {
	case 0:
	case 1:
		n = 1
	case 2:
		n = 2
	default:
		n = 1 + r.Intn(4)
	}
	for k := 0; k < n; k++ {
		if k == 0 {
			b.WriteString(" ")
		} else {
			b.WriteString(r.Pick(optSeps))
		}
		switch {
		case hostile && r.Chance(1, 3):
			b.WriteString(r.Pick(oddOpts))
		case r.Chance(1, 6):
			b.WriteString("weight=" + genWeight(r))
		default:
			b.WriteString(r.Pick(okOpts))
		}
	}
	if r.Chance(1, 10) {
		b.WriteString(r.Pick([]string{" ", "\n", "\t"}))
	}
	return b.String()
}

// genReg draws a registration; hostile = some position may carry a value outside the grammar.
func genReg(r *hx.Rand, prefix string, hostile bool) Reg {
	g := Reg{Name: r.Pick(okNames), Addr: r.Pick(okAddrs), Node: r.Pick(nodes[:3]), Port: ports[r.Intn(len(ports))]}
	if hostile {
		if r.Chance(1, 5) {
			g.Name = r.Pick(badNames)
		}
		if r.Chance(1, 6) {
			g.Addr = r.Pick(badAddrs)
		}
		if r.Chance(1, 6) {
			g.Node = r.Pick(nodes)
		}
	}
	nr := 1 + r.Intn(3)
	if r.Chance(1, 12) {
		nr = 0
	}
	np := r.Intn(4)
	g.Tags = []string{}
	for k := 0; k < nr; k++ {
		g.Tags = append(g.Tags, genTag(r, prefix, hostile))
	}
	for k := 0; k < np; k++ {
		if hostile && r.Chance(1, 3) {
			g.Tags = append(g.Tags, r.Pick(oddPlain))
		} else {
			g.Tags = append(g.Tags, r.Pick(okPlain))
		}
	}
	// now and then: a tag twice (two equal commands in the text), a very long tag (the scanner of route.Parse
	// reads lines below 64 KiB, ParseAliases has no limit)
	if len(g.Tags) > 0 && r.Chance(1, 10) {
		g.Tags = append(g.Tags, g.Tags[r.Intn(len(g.Tags))])
	}
	if hostile && r.Chance(1, 150) {
		g.Tags = append(g.Tags, strings.Repeat(r.Pick([]string{"x", "é", "ab"}), []int{300, 32700, 65400, 65600}[r.Intn(4)]))
	}
	// shuffle
	for i := len(g.Tags) - 1; i > 0; i-- {
		j := r.Intn(i + 1)
		g.Tags[i], g.Tags[j] = g.Tags[j], g.Tags[i]
	}
	return g
}

func genBuild(r *hx.Rand, i int) interface{} {
	prefix := r.Pick(prefixes)
	hostile := r.Chance(1, 2)
	dc := "dc1"
	if hostile {
		dc = r.Pick(dcs)
	} else {
		prefix = r.Pick(prefixes[:5])
	}
	return buildIn{Reg: genReg(r, prefix, hostile), Prefix: prefix, DC: dc}
}

func init() {
	hx.Register(&hx.Stream{Name: "c14.build", Gen: genBuild, Run: runBuild})
}
