package main

import (
	"encoding/json"
	"fmt"
	"net/http"
	"net/http/httptest"
	"strings"
	"sync"

	"github.com/fabiolb/fabio/config"
	"github.com/fabiolb/fabio/registry/consul"
	"github.com/hashicorp/consul/api"
	"verif/harness/hx"
)

// c14.poison — a catalog of registrations (1–3 well-formed services and, most of the time, a hostile one) →
// the real ServiceMonitor.makeConfig against a fake Consul catalog (the real join: all commands of all
// services in one text, reverse-sorted) → the real route.NewTable → table dump or error. The Lean side checks
// that every route of every registration that fits the grammar is in the table, whatever the hostile
// registration did, and that the table holds nothing else (no injected command).
type poisonIn struct {
	Regs   []Reg  `json:"regs"`
	Prefix string `json:"prefix"`
	DC     string `json:"dc"`
}

// fakeCatalog answers /v1/catalog/service/<name> from the current case.
type fakeCatalog struct {
	mu     sync.Mutex
	regs   []Reg
	served int
}

type catalogEntry struct {
	Node, Address, ServiceID, ServiceName, ServiceAddress string
	ServicePort                                           int
	ServiceTags                                           []string
}

func nodeOf(i int) string { return fmt.Sprintf("node-%d", i) }
func sidOf(i int) string  { return fmt.Sprintf("sid-%d", i) }

func (f *fakeCatalog) ServeHTTP(w http.ResponseWriter, req *http.Request) {
	w.Header().Set("Content-Type", "application/json")
	w.Header().Set("X-Consul-Index", "1")
	p := req.URL.Path
	if !strings.HasPrefix(p, "/v1/catalog/service/") {
		w.Write([]byte("null"))
		return
	}
	name := strings.TrimPrefix(p, "/v1/catalog/service/")
	out := []catalogEntry{}
	f.mu.Lock()
	f.served++
	for i, g := range f.regs {
		if g.Name == name {
			out = append(out, catalogEntry{Node: nodeOf(i), Address: g.Node, ServiceID: sidOf(i), ServiceName: g.Name, ServiceAddress: g.Addr, ServicePort: g.Port, ServiceTags: g.Tags})
		}
	}
	f.mu.Unlock()
	json.NewEncoder(w).Encode(out)
}

var (
	fakeOnce   sync.Once
	fake       = &fakeCatalog{}
	fakeSrv    *httptest.Server
	fakeClient *api.Client
	fakeErr    error
)

func runPoison(raw json.RawMessage) (interface{}, error) {
	var in poisonIn
	if err := json.Unmarshal(raw, &in); err != nil {
		return nil, err
	}
	// one fake Consul and one API client (one connection pool) per harness process
	fakeOnce.Do(func() {
		fakeSrv = httptest.NewServer(fake)
		fakeClient, fakeErr = api.NewClient(&api.Config{Address: strings.TrimPrefix(fakeSrv.URL, "http://"), Scheme: "http"})
	})
	if fakeErr != nil {
		return nil, fakeErr
	}
	fake.mu.Lock()
	fake.regs = in.Regs
	fake.served = 0
	fake.mu.Unlock()

	var passing []*api.HealthCheck
	for i, g := range in.Regs {
		passing = append(passing, &api.HealthCheck{Node: nodeOf(i), CheckID: "c", Status: "passing", ServiceID: sidOf(i), ServiceName: g.Name, ServiceTags: g.Tags})
	}
	cfg := &config.Consul{Addr: strings.TrimPrefix(fakeSrv.URL, "http://"), Scheme: "http", TagPrefix: in.Prefix, ServiceMonitors: 1}
	text := consul.VerifC14MakeConfig(fakeClient, cfg, in.DC, passing)
	// every named service must have been looked up exactly once: a failed catalog request (which serviceConfig
	// only logs) would silently drop that service's routes from the text
	names := map[string]bool{}
	for _, g := range in.Regs {
		if g.Name != "" {
			names[g.Name] = true
		}
	}
	fake.mu.Lock()
	served := fake.served
	fake.mu.Unlock()
	if served != len(names) {
		return nil, fmt.Errorf("fake catalog served %d of %d service lookups", served, len(names))
	}
	env := map[string]string{"DC": in.DC}
	or := newOracle()
	for i := range in.Regs {
		or.addReg(&in.Regs[i], in.Prefix, env)
	}
	or.addText(text)
	out := newTable(text)
	out["text"] = text
	out["oracle"] = or.json()
	return out, nil
}

func genPoison(r *hx.Rand, i int) interface{} {
	prefix := r.Pick(prefixes[:5])
	in := poisonIn{Prefix: prefix, DC: r.Pick(dcs[:3])}
	n := 1 + r.Intn(3)
	for k := 0; k < n; k++ {
		in.Regs = append(in.Regs, genReg(r, prefix, false))
	}
	if r.Chance(4, 5) {
		h := genReg(r, prefix, true)
		at := r.Intn(len(in.Regs) + 1)
		in.Regs = append(in.Regs[:at], append([]Reg{h}, in.Regs[at:]...)...)
	}
	return in
}

func init() {
	hx.Register(&hx.Stream{Name: "c14.poison", Gen: genPoison, Run: runPoison})
}
