package main

import (
	"encoding/json"
	"fmt"
	"net/http"
	"net/http/httptest"
	"strings"
	"sync"

	"github.com/fabiolb/fabio/config"
	"github.com/fabiolb/fabio/registry/consul"
	"github.com/hashicorp/consul/api"
	"verif/harness/hx"
)

// c14.poison — a catalog of registrations (1–3 well-formed services and, most of the time, a hostile one) →
// the real ServiceMonitor.makeConfig against a fake Consul catalog (the real join: all commands of all
// services in one text, reverse-sorted) → the real route.NewTable → table dump or error. The Lean side checks
// that every route of every registration that fits the grammar is in the table, whatever the hostile
// registration did, and that the table holds nothing else (no injected command).
type poisonIn struct {
	Regs   []Reg  `json:"regs"`
	Prefix string `json:"prefix"`
	DC     string `json:"dc"`
}

// fakeCatalog answers /v1/catalog/service/<name> from the current case.
type fakeCatalog struct {
	mu      sync.Mutex
	entries []catalogEntry
	served  int
}

// catalogEntry is one element of Consul's answer. Like Consul the fakes keep CreateIndex when the same
// (node, service id) registers again and only move ModifyIndex.
type catalogEntry struct {
	Node, Address, ServiceID, ServiceName, ServiceAddress string
	ServicePort                                           int
	ServiceTags                                           []string
	CreateIndex, ModifyIndex                              uint64
}

func (f *fakeCatalog) set(entries []catalogEntry) {
	f.mu.Lock()
	f.entries = entries
	f.served = 0
	f.mu.Unlock()
}

func (f *fakeCatalog) lookups() int {
	f.mu.Lock()
	defer f.mu.Unlock()
	return f.served
}

// theFake returns the process-wide fake Consul and one API client (one connection pool) for it.
func theFake() (*fakeCatalog, *api.Client, string, error) {
	fakeOnce.Do(func() {
		fakeSrv = httptest.NewServer(fake)
		fakeClient, fakeErr = api.NewClient(&api.Config{Address: strings.TrimPrefix(fakeSrv.URL, "http://"), Scheme: "http"})
	})
	return fake, fakeClient, strings.TrimPrefix(fakeSrv.URL, "http://"), fakeErr
}

func entryOf(slot int, g *Reg, create, modify uint64) catalogEntry {
	return catalogEntry{Node: nodeOf(slot), Address: g.Node, ServiceID: sidOf(slot), ServiceName: g.Name, ServiceAddress: g.Addr,
		ServicePort: g.Port, ServiceTags: g.Tags, CreateIndex: create, ModifyIndex: modify}
}

func nodeOf(i int) string { return fmt.Sprintf("node-%d", i) }
func sidOf(i int) string  { return fmt.Sprintf("sid-%d", i) }

func (f *fakeCatalog) ServeHTTP(w http.ResponseWriter, req *http.Request) {
	w.Header().Set("Content-Type", "application/json")
	w.Header().Set("X-Consul-Index", "1")
	p := req.URL.Path
	if !strings.HasPrefix(p, "/v1/catalog/service/") {
		w.Write([]byte("null"))
		return
	}
	name := strings.TrimPrefix(p, "/v1/catalog/service/")
	out := []catalogEntry{}
	f.mu.Lock()
	f.served++
	for _, e := range f.entries {
		if e.ServiceName == name {
			out = append(out, e)
		}
	}
	f.mu.Unlock()
	json.NewEncoder(w).Encode(out)
}

var (
	fakeOnce   sync.Once
	fake       = &fakeCatalog{}
	fakeSrv    *httptest.Server
	fakeClient *api.Client
	fakeErr    error
)

func runPoison(raw json.RawMessage) (interface{}, error) {
	var in poisonIn
	if err := json.Unmarshal(raw, &in); err != nil {
		return nil, err
	}
	fake, client, addr, err := theFake()
	if err != nil {
		return nil, err
	}
	var entries []catalogEntry
	var passing []*api.HealthCheck
	for i, g := range in.Regs {
		entries = append(entries, entryOf(i, &g, uint64(i+1), uint64(i+1)))
		passing = append(passing, &api.HealthCheck{Node: nodeOf(i), CheckID: "c", Status: "passing", ServiceID: sidOf(i), ServiceName: g.Name, ServiceTags: g.Tags})
	}
	fake.set(entries)
	cfg := &config.Consul{Addr: addr, Scheme: "http", TagPrefix: in.Prefix, ServiceMonitors: 1}
	text, blocked := makeConfigTimed(func() string { return consul.VerifC14MakeConfig(client, cfg, in.DC, passing) })
	if blocked {
		// makeConfig does not come back: Watch never sends another update, the routes of ALL services are frozen
		return map[string]interface{}{"blocked": true}, nil
	}
	// every named service must have been looked up exactly once: a failed catalog request (which serviceConfig
	// only logs) would silently drop that service's routes from the text
	names := map[string]bool{}
	for _, g := range in.Regs {
		if g.Name != "" {
			names[g.Name] = true
		}
	}
	if served := fake.lookups(); served != len(names) {
		return nil, fmt.Errorf("fake catalog served %d of %d service lookups", served, len(names))
	}
	env := map[string]string{"DC": in.DC}
	or := newOracle()
	for i := range in.Regs {
		or.addReg(&in.Regs[i], in.Prefix, env)
	}
	or.addText(text)
	out := newTable(text)
	out["text"] = text
	out["oracle"] = or.json()
	return out, nil
}

func genPoison(r *hx.Rand, i int) interface{} {
	prefix := r.Pick(prefixes[:5])
	in := poisonIn{Prefix: prefix, DC: r.Pick(dcs[:3])}
	n := 1 + r.Intn(3)
	for k := 0; k < n; k++ {
		in.Regs = append(in.Regs, genReg(r, prefix, false))
	}
	if r.Chance(4, 5) {
		h := genReg(r, prefix, true)
		at := r.Intn(len(in.Regs) + 1)
		in.Regs = append(in.Regs[:at], append([]Reg{h}, in.Regs[at:]...)...)
	}
	return in
}

func init() {
	hx.Register(&hx.Stream{Name: "c14.poison", Gen: genPoison, Run: runPoison})
}
