package main

import (
	"fmt"
	"io"
	"log"
	"net"
	"regexp"
	"sort"
	"strconv"
	"strings"

	"github.com/fabiolb/fabio/registry/consul"
	"github.com/fabiolb/fabio/route"
	"github.com/hashicorp/consul/api"
)

// the code under test logs every dropped tag; the harness does not need the text
func init() { log.SetOutput(io.Discard) }

// Reg is a Consul catalog entry as routecmd.build reads it.
type Reg struct {
	Name string   `json:"name"`
	Addr string   `json:"addr"` // ServiceAddress ("" = use the node address)
	Node string   `json:"node"` // node Address
	Port int      `json:"port"`
	Tags []string `json:"tags"`
}

func (g *Reg) catalog() *api.CatalogService {
	return &api.CatalogService{ServiceName: g.Name, ServiceAddress: g.Addr, Address: g.Node, ServicePort: g.Port, ServiceTags: append([]string(nil), g.Tags...)}
}

// ---- canonical observables (same shapes as the C05 streams) --------------------------------------------

type lineDef struct {
	Cmd     string     `json:"cmd"`
	Service string     `json:"service"`
	Src     string     `json:"src"`
	Dst     string     `json:"dst"`
	Weight  string     `json:"weight"`
	Tags    []string   `json:"tags"`
	Opts    [][]string `json:"opts"`
}

func canonDefs(defs []*route.RouteDef) []lineDef {
	out := []lineDef{}
	for _, d := range defs {
		ld := lineDef{Cmd: string(d.Cmd), Service: d.Service, Src: d.Src, Dst: d.Dst, Weight: route.VerifRat(d.Weight), Tags: append([]string{}, d.Tags...), Opts: [][]string{}}
		keys := make([]string, 0, len(d.Opts))
		for k := range d.Opts {
			keys = append(keys, k)
		}
		sort.Strings(keys)
		for _, k := range keys {
			ld.Opts = append(ld.Opts, []string{k, d.Opts[k]})
		}
		out = append(out, ld)
	}
	return out
}

var reLineErr = regexp.MustCompile(`(?s)^line (\d+): (.*)$`)

func tableErrClass(s string) string {
	switch {
	case s == "route: prefix must not be empty":
		return "invalidPrefix"
	case s == "route: target must not be empty":
		return "invalidTarget"
	case s == "route: no target match":
		return "noMatch"
	case s == "route: invalid weight":
		return "invalidWeight"
	case strings.HasPrefix(s, "route: invalid target"):
		return "badURL"
	case strings.HasPrefix(s, "route: invalid command"):
		return "invalidCommand"
	}
	return "badGlob"
}

// loadErr maps an error of route.Parse / route.NewTable to a small enum.
func loadErr(err error) map[string]interface{} {
	s := err.Error()
	if m := reLineErr.FindStringSubmatch(s); m != nil {
		n, _ := strconv.Atoi(m[1])
		what := "other"
		switch m[2] {
		case "syntax error: 'route' expected":
			what = "routeExpected"
		case "syntax error: 'route add' invalid":
			what = "addInvalid"
		case "syntax error: 'route del' invalid":
			what = "delInvalid"
		case "syntax error: 'route weight' invalid":
			what = "weightInvalid"
		case "syntax error: weight value invalid":
			what = "weightValue"
		case "bufio.Scanner: token too long":
			return map[string]interface{}{"kind": "tooLong", "line": n}
		}
		return map[string]interface{}{"kind": "syn", "line": n, "what": what}
	}
	return map[string]interface{}{"kind": "table", "what": tableErrClass(s)}
}

// routeParse is fabio's own parser on a text.
func routeParse(text string) ([]*route.RouteDef, error) { return route.VerifParse(text) }

// parseOne is the implementation-side oracle for one emitted command: what fabio's own parser and a fresh
// routing table make of it.
func parseOne(cmd string) map[string]interface{} {
	out := map[string]interface{}{}
	defs, err := route.VerifParse(cmd)
	if err != nil {
		out["error"] = loadErr(err)
	} else {
		out["defs"] = canonDefs(defs)
	}
	out["table"] = newTable(cmd)
	return out
}

// newTable runs the real NewTable; a panic becomes the observable {"panic": true}.
func newTable(text string) (out map[string]interface{}) {
	defer func() {
		if p := recover(); p != nil {
			out = map[string]interface{}{"panic": true, "panicText": fmt.Sprint(p)}
		}
	}()
	t, err := route.VerifNewTable(text)
	if err != nil {
		return map[string]interface{}{"error": loadErr(err)}
	}
	return map[string]interface{}{"table": route.VerifDump(t, false)}
}

// ---- oracles for the model's parameters ------------------------------------------------------------------

func isReSpace(c byte) bool { return c == '\t' || c == '\n' || c == '\f' || c == '\r' || c == ' ' }

// reTokens returns the maximal runs of non-`\s` bytes (RE2 `\S+`) of a text.
func reTokens(s string) []string {
	var out []string
	i := 0
	for i < len(s) {
		for i < len(s) && isReSpace(s[i]) {
			i++
		}
		j := i
		for j < len(s) && !isReSpace(s[j]) {
			j++
		}
		if j > i {
			out = append(out, s[i:j])
		}
		i = j
	}
	return out
}

type oracle struct {
	pf, urls, globs map[string]interface{}
}

func newOracle() *oracle {
	return &oracle{pf: map[string]interface{}{}, urls: map[string]interface{}{}, globs: map[string]interface{}{}}
}

func (o *oracle) add(tok string) {
	if len(tok) > 1<<17 {
		return
	}
	if _, ok := o.pf[tok]; ok {
		return
	}
	if f, err := strconv.ParseFloat(tok, 64); err == nil {
		o.pf[tok] = route.VerifRat(f)
	} else {
		o.pf[tok] = nil
	}
	if n, ok := route.VerifNormURL(tok); ok {
		o.urls[tok] = n
	} else {
		o.urls[tok] = nil
	}
	h, p := route.VerifHostpath(tok)
	o.globs[p] = route.VerifGlobOK(p)
	h = strings.ToLower(h)
	o.globs[h] = route.VerifGlobOK(h)
}

// addText evaluates the external functions on every token of a text (and on the token as TrimSpace leaves it).
func (o *oracle) addText(text string) {
	for _, tok := range reTokens(text) {
		o.add(tok)
		if tr := strings.TrimSpace(tok); tr != tok && tr != "" {
			o.add(tr)
		}
	}
}

// addReg evaluates the external functions on everything a registration can put into a weight, destination or
// source position, whether or not the implementation emits the command (the model decides that on its own).
func (o *oracle) addReg(g *Reg, prefix string, env map[string]string) {
	addr := g.Addr
	if addr == "" {
		addr = g.Node
	}
	hp := net.JoinHostPort(addr, strconv.Itoa(g.Port))
	for _, d := range []string{"http://" + hp + "/", "tcp://" + hp, "https://" + hp, "grpcs://" + hp, "grpc://" + hp} {
		o.add(d)
	}
	for _, t := range g.Tags {
		for _, f := range strings.Fields(t) {
			if strings.HasPrefix(f, "weight=") {
				o.add(f[len("weight="):])
			}
			if strings.HasPrefix(f, "redirect=") {
				for _, p := range strings.Split(f[len("redirect="):], ",") {
					o.add(p)
				}
			}
		}
		if r, _, ok := consul.VerifC14ParseTag(t, prefix, env); ok {
			o.add(r)
		}
	}
}

func (o *oracle) json() map[string]interface{} {
	return map[string]interface{}{"pf": o.pf, "url": o.urls, "glob": o.globs}
}
