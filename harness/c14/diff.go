package main

import (
	"encoding/hex"
	"encoding/json"
	"os"
	"strconv"
	"strings"
	"unicode"
	"unicode/utf8"

	"github.com/fabiolb/fabio/registry/consul"
	"verif/harness/hx"
)

// c14.expand — differential stream for the model of os.Expand (as parseURLPrefixTag uses it: mapping(x) =
// env[x], missing ↦ "") and of parseURLPrefixTag itself on the tag prefix+s.
type expandIn struct {
	S      string `json:"s"`
	Prefix string `json:"prefix"`
	DC     string `json:"dc"`
}

func runExpand(raw json.RawMessage) (interface{}, error) {
	var in expandIn
	if err := json.Unmarshal(raw, &in); err != nil {
		return nil, err
	}
	env := map[string]string{"DC": in.DC}
	ex := os.Expand(in.S, func(x string) string { return env[x] })
	r, o, ok := consul.VerifC14ParseTag(in.Prefix+in.S, in.Prefix, env)
	return map[string]interface{}{"expand": ex, "tag": tagOut{Tag: in.Prefix + in.S, Route: r, Opts: o, OK: ok}}, nil
}

var expandPieces = []string{"$", "$", "${", "}", "{", "DC", "DC", "dc", "$DC", "${DC}", "$DC", "${DC}", "x", "_", "1", "9", "*", "#", "@", "!", "?", "-", "/", "/", ".", " ", "a b",
	"é", "$$", "${}", "${*}", "${1}", "${10}", "$1", "${DC", "$DC}", "${D C}", "$DC_", "$_DC", "${ DC}", "foo.com", "/path", ":80", "\t", "Ab", "${DC}${DC}", "$é", "${é}"}

func genExpand(r *hx.Rand, i int) interface{} {
	n := 1 + r.Intn(7)
	var b strings.Builder
	for k := 0; k < n; k++ {
		b.WriteString(r.Pick(expandPieces))
	}
	return expandIn{S: b.String(), Prefix: r.Pick([]string{"urlprefix-", "p-", ""}), DC: r.Pick(dcs)}
}

// c14.quote — differential stream for the model of strconv.Quote (the quoting of the unrepaired build) on
// arbitrary byte strings, invalid UTF-8 included (hex transport). The impl line carries unicode.IsPrint for
// every non-ASCII rune of the input (a table of the standard library, parameter of the model).
type quoteIn struct {
	Hex string `json:"hex"`
}

func runQuote(raw json.RawMessage) (interface{}, error) {
	var in quoteIn
	if err := json.Unmarshal(raw, &in); err != nil {
		return nil, err
	}
	b, err := hex.DecodeString(in.Hex)
	if err != nil {
		return nil, err
	}
	s := string(b)
	pr := map[string]bool{}
	for _, c := range s {
		if c >= 0x80 && c != utf8.RuneError {
			pr[strconv.Itoa(int(c))] = unicode.IsPrint(c)
		}
	}
	pr[strconv.Itoa(utf8.RuneError)] = unicode.IsPrint(utf8.RuneError)
	return map[string]interface{}{"quoted": strconv.Quote(s), "valid": utf8.ValidString(s), "print": pr}, nil
}

var quotePieces = []string{"a", "tag", "\"", "\\", "\n", "\t", "\r", "\x00", "\x07", "\x08", "\x0b", "\x0c", "\x1b", "\x7f", " ", ",", "\u00e9", "\u00fc", "\u0085", "\u00a0", "\u00ad",
	"\u2028", "\u200b", "\U0001f600", "\U000e0001", "\ufffd", "\xff", "\xc3", "\xe2\x82", "\xf0\x9f\x98", "\xc0\xaf", "\xed\xa0\x80", "\xf4\x90\x80\x80", "\x80", "\xe0\x80\x80", "\u4e2d", "\ufeff", "\U0010ffff", "\u0378", "\ud7ff", "\ue000", "\uffff", "\U00010000"}

func genQuote(r *hx.Rand, i int) interface{} {
	var b []byte
	if r.Chance(1, 5) {
		b = r.Bytes(1 + r.Intn(10))
	} else {
		n := 1 + r.Intn(6)
		for k := 0; k < n; k++ {
			b = append(b, r.Pick(quotePieces)...)
		}
	}
	return quoteIn{Hex: hex.EncodeToString(b)}
}

func init() {
	hx.Register(&hx.Stream{Name: "c14.expand", Gen: genExpand, Run: runExpand})
	hx.Register(&hx.Stream{Name: "c14.quote", Gen: genQuote, Run: runQuote})
}
