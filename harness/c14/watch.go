package main

import (
	"encoding/json"
	"fmt"

	"github.com/fabiolb/fabio/config"
	"github.com/fabiolb/fabio/registry/consul"
	"verif/harness/hx"
)

// c14.watch — the property end to end: a history of catalog events (as c14.history) → ONE long-lived
// ServiceMonitor (real makeConfig against the fake catalog) → the text of every step is delivered to ONE
// long-lived REAL watchBackend loop (main.go; child process built from /repo with -tags verif, driver c14watch,
// scripted registry backend) → after every step the ACTIVE routing table (route.GetTable) and the arguments of
// registry.Default.Register. Now and then the operator's manual text changes as well (a comment, an extra
// route). The Lean side runs Model.C14Watch.step on the model's texts and compares tables and Register calls; the
// spec demands of the implementation's own table, after every step, the routes of the registrations that are
// current at that step and nothing else: no update is lost or delayed, whatever hostile instance is registered.
type watchIn struct {
	Prefix string        `json:"prefix"`
	DC     string        `json:"dc"`
	Steps  [][]histEvent `json:"steps"`
	Man    []*string     `json:"man"` // per step: the manual text delivered before the step's service text (null = none)
}

func runWatch(raw json.RawMessage) (interface{}, error) {
	var in watchIn
	if err := json.Unmarshal(raw, &in); err != nil {
		return nil, err
	}
	fake, client, addr, err := theFake()
	if err != nil {
		return nil, err
	}
	ch, err := watchSession()
	if err != nil {
		return nil, err
	}
	cfg := &config.Consul{Addr: addr, Scheme: "http", TagPrefix: in.Prefix, ServiceMonitors: 1}
	mon := consul.NewServiceMonitor(client, cfg, in.DC)
	sim := newCatalogSim(in.Prefix, in.DC)
	steps := []map[string]interface{}{}
	finish := func() (interface{}, error) {
		return map[string]interface{}{"steps": steps, "oracle": sim.or.json()}, nil
	}
	for k, evs := range in.Steps {
		sim.apply(evs)
		entries, passing, names := sim.state()
		fake.set(entries)
		text, blocked := makeConfigTimed(func() string { return consul.VerifC14MonitorConfig(mon, passing) })
		if blocked {
			steps = append(steps, map[string]interface{}{"blocked": true})
			return finish()
		}
		if served := fake.lookups(); served != names {
			return nil, fmt.Errorf("fake catalog served %d of %d service lookups", served, names)
		}
		sim.or.addText(text)
		step := map[string]interface{}{"text": text}
		if k < len(in.Man) && in.Man[k] != nil {
			man := *in.Man[k]
			sim.or.addText(man)
			// implementation-side oracle for the operator's text: what fabio's parser reads from it, and whether a
			// table accepts it on its own
			if defs, err := routeParse(man); err == nil {
				step["man_defs"] = canonDefs(defs)
			}
			_, isErr := newTable(man)["error"]
			_, isPanic := newTable(man)["panic"]
			step["man_ok"] = !isErr && !isPanic
			if _, err := ch.call(map[string]interface{}{"op": "man", "text": man}); err != nil {
				step["crash"] = ch.crash(err)
				steps = append(steps, step)
				return finish()
			}
		}
		reply, err := ch.call(map[string]interface{}{"op": "svc", "text": text})
		if err != nil {
			step["crash"] = ch.crash(err)
			steps = append(steps, step)
			return finish()
		}
		var rep struct {
			Table      json.RawMessage `json:"table"`
			Registered json.RawMessage `json:"registered"`
			Started    *bool           `json:"started"`
			Error      string          `json:"error"`
		}
		if err := json.Unmarshal(reply, &rep); err != nil || rep.Error != "" {
			return nil, fmt.Errorf("child: bad reply %q: %v", reply, err)
		}
		step["table"] = rep.Table
		step["registered"] = rep.Registered
		if rep.Started != nil {
			step["started"] = *rep.Started
		}
		steps = append(steps, step)
	}
	return finish()
}

// ---- generator ------------------------------------------------------------------------------------------

var manTexts = []string{"", "# operator note", "route add manual /manual http://9.9.9.9:1/ tags \"op\"",
	"# note\nroute add manual m.example.com/ http://9.9.9.9:2/ opts \"register=manual-alias\"\n"}

func genWatch(r *hx.Rand, i int) interface{} {
	h := genHistory(r, i).(histIn)
	in := watchIn{Prefix: h.Prefix, DC: h.DC, Steps: h.Steps, Man: make([]*string, len(h.Steps))}
	if r.Chance(1, 4) {
		k := r.Intn(len(in.Steps))
		m := r.Pick(manTexts)
		in.Man[k] = &m
		if r.Chance(1, 3) {
			k2 := r.Intn(len(in.Steps))
			m2 := r.Pick(manTexts)
			in.Man[k2] = &m2
		}
	}
	return in
}

func init() {
	hx.Register(&hx.Stream{Name: "c14.watch", Gen: genWatch, Run: runWatch})
}
