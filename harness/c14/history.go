package main

import (
	"encoding/json"
	"fmt"
	"runtime"
	"strings"
	"time"

	"github.com/fabiolb/fabio/config"
	"github.com/fabiolb/fabio/registry/consul"
	"github.com/hashicorp/consul/api"
	"verif/harness/hx"
)

// c14.history — ONE long-lived ServiceMonitor (NewServiceMonitor, as the backend's WatchServices uses it) is
// asked for its config after every step of a history of catalog events: instances (slots = fixed (node,
// service id) pairs) register, register AGAIN under the same (node, service id) with another name, address,
// port, tags or options (Consul keeps CreateIndex and moves ModifyIndex), fail and pass their health check,
// deregister and come back (new CreateIndex). After every step the emitted text is what the model's `config`
// gives for the registrations that are in the catalog and passing NOW; the spec reads the text with the real
// route.Parse and demands exactly the definitions the current registrations mean.
type histEvent struct {
	Slot int    `json:"slot"`
	Op   string `json:"op"` // register | deregister | fail | pass
	Reg  *Reg   `json:"reg,omitempty"`
}

type histIn struct {
	Prefix string        `json:"prefix"`
	DC     string        `json:"dc"`
	Steps  [][]histEvent `json:"steps"`
}

type slotState struct {
	reg            Reg
	create, modify uint64
	passing        bool
}

const maxSlots = 8

// catalogSim is the fake catalog's state over a history: slots = fixed (node, service id) pairs.
type catalogSim struct {
	slots  map[int]*slotState
	index  uint64
	or     *oracle
	prefix string
	env    map[string]string
}

func newCatalogSim(prefix, dc string) *catalogSim {
	return &catalogSim{slots: map[int]*slotState{}, index: 10, or: newOracle(), prefix: prefix, env: map[string]string{"DC": dc}}
}

func (c *catalogSim) apply(evs []histEvent) {
	for _, ev := range evs {
		if ev.Slot < 0 || ev.Slot >= maxSlots {
			continue
		}
		st := c.slots[ev.Slot]
		switch ev.Op {
		case "register":
			if ev.Reg == nil {
				continue
			}
			c.index++
			if st == nil {
				c.slots[ev.Slot] = &slotState{reg: *ev.Reg, create: c.index, modify: c.index, passing: true}
			} else {
				// the same service id registers again: CreateIndex stays, ModifyIndex moves
				st.reg, st.modify = *ev.Reg, c.index
			}
			c.or.addReg(ev.Reg, c.prefix, c.env)
		case "deregister":
			if st != nil {
				c.index++
				delete(c.slots, ev.Slot)
			}
		case "fail":
			if st != nil {
				st.passing = false
			}
		case "pass":
			if st != nil {
				st.passing = true
			}
		}
	}
}

// state returns the catalog entries, the passing checks and the number of distinct non-empty names among them.
func (c *catalogSim) state() ([]catalogEntry, []*api.HealthCheck, int) {
	var entries []catalogEntry
	var passing []*api.HealthCheck
	names := map[string]bool{}
	for k := 0; k < maxSlots; k++ {
		st := c.slots[k]
		if st == nil {
			continue
		}
		entries = append(entries, entryOf(k, &st.reg, st.create, st.modify))
		if st.passing {
			passing = append(passing, &api.HealthCheck{Node: nodeOf(k), CheckID: "c", Status: "passing", ServiceID: sidOf(k), ServiceName: st.reg.Name, ServiceTags: st.reg.Tags})
			if st.reg.Name != "" {
				names[st.reg.Name] = true
			}
		}
	}
	return entries, passing, len(names)
}

// makeConfigTimed runs f (a call of the real makeConfig) and decides, without a clock, whether it will ever come
// back: makeConfig's collector waits on a channel for one result per service; when it is parked in that receive and
// no worker goroutine (a function literal started by makeConfig) exists any more, nobody is left to send — the call
// is blocked for good (Watch would never send another update). The goroutines of the process are inspected every
// few milliseconds until f returns; a slow machine only makes the wait longer. Collectors leaked by earlier blocked
// calls of this process stay parked and are counted off. The 120 s ceiling is the last resort for a call that
// neither returns nor shows this picture.
var leakedCollectors int

func makeConfigTimed(f func() string) (text string, blocked bool) {
	ch := make(chan string, 1)
	go func() { ch <- f() }()
	deadline := time.Now().Add(120 * time.Second)
	wait := 5 * time.Millisecond
	for {
		select {
		case text = <-ch:
			return text, false
		case <-time.After(wait):
		}
		if parked, workers := makeConfigGoroutines(); parked > leakedCollectors && workers == 0 {
			// look twice: between the two looks nothing may have moved
			time.Sleep(wait)
			select {
			case text = <-ch:
				return text, false
			default:
			}
			if p2, w2 := makeConfigGoroutines(); p2 > leakedCollectors && w2 == 0 {
				leakedCollectors++
				return "", true
			}
		}
		if time.Now().After(deadline) {
			leakedCollectors++
			return "", true
		}
		if wait < 200*time.Millisecond {
			wait *= 2
		}
	}
}

// makeConfigGoroutines counts the goroutines parked in a channel receive below ServiceMonitor.makeConfig (collectors
// waiting for results) and the live goroutines running a function literal of makeConfig (workers).
func makeConfigGoroutines() (parked, workers int) {
	buf := make([]byte, 8<<20)
	buf = buf[:runtime.Stack(buf, true)]
	for _, g := range strings.Split(string(buf), "\n\n") {
		switch {
		case strings.Contains(g, ".makeConfig.func"):
			workers++
		case strings.Contains(g, ".(*ServiceMonitor).makeConfig("):
			if nl := strings.IndexByte(g, '\n'); nl > 0 && strings.Contains(g[:nl], "[chan receive") {
				parked++
			}
		}
	}
	return
}

func runHistory(raw json.RawMessage) (interface{}, error) {
	var in histIn
	if err := json.Unmarshal(raw, &in); err != nil {
		return nil, err
	}
	fake, client, addr, err := theFake()
	if err != nil {
		return nil, err
	}
	cfg := &config.Consul{Addr: addr, Scheme: "http", TagPrefix: in.Prefix, ServiceMonitors: 1}
	mon := consul.NewServiceMonitor(client, cfg, in.DC)
	sim := newCatalogSim(in.Prefix, in.DC)
	steps := []map[string]interface{}{}
	for _, evs := range in.Steps {
		sim.apply(evs)
		entries, passing, names := sim.state()
		fake.set(entries)
		text, blocked := makeConfigTimed(func() string { return consul.VerifC14MonitorConfig(mon, passing) })
		if blocked {
			steps = append(steps, map[string]interface{}{"blocked": true})
			break
		}
		if served := fake.lookups(); served != names {
			return nil, fmt.Errorf("fake catalog served %d of %d service lookups", served, names)
		}
		sim.or.addText(text)
		step := map[string]interface{}{"text": text}
		// what fabio's own parser reads from the text (implementation-side oracle of the spec)
		if defs, err := routeParse(text); err != nil {
			step["error"] = loadErr(err)
		} else {
			step["defs"] = canonDefs(defs)
		}
		steps = append(steps, step)
	}
	return map[string]interface{}{"steps": steps, "oracle": sim.or.json()}, nil
}

// ---- generator ------------------------------------------------------------------------------------------

// variant changes something of a registration the way a redeploy does: port, address, a tag, an option, a prefix.
func variant(r *hx.Rand, g Reg, prefix string) Reg {
	n := g
	n.Tags = append([]string(nil), g.Tags...)
	switch r.Intn(7) {
	case 0:
		n.Port = ports[r.Intn(len(ports))]
	case 1:
		n.Addr = r.Pick(okAddrs)
	case 2:
		n.Tags = append(n.Tags, r.Pick(okPlain))
	case 3:
		n.Tags = append(n.Tags, genTag(r, prefix, false))
	case 4:
		if len(n.Tags) > 0 {
			i := r.Intn(len(n.Tags))
			n.Tags = append(n.Tags[:i], n.Tags[i+1:]...)
		}
	case 5:
		if len(n.Tags) > 0 {
			n.Tags[r.Intn(len(n.Tags))] = genTag(r, prefix, r.Chance(1, 4))
		}
	default:
		n = genReg(r, prefix, r.Chance(1, 5))
		if r.Chance(2, 3) {
			n.Name = g.Name
		}
	}
	return n
}

func genHistory(r *hx.Rand, i int) interface{} {
	prefix := r.Pick(prefixes[:5])
	in := histIn{Prefix: prefix, DC: r.Pick(dcs[:3])}
	nslots := 1 + r.Intn(3)
	cur := map[int]*Reg{}
	nsteps := 2 + r.Intn(5)
	for s := 0; s < nsteps; s++ {
		var evs []histEvent
		nev := 1 + r.Intn(2)
		if s == 0 {
			nev = nslots
		}
		for e := 0; e < nev; e++ {
			k := r.Intn(nslots)
			if s == 0 {
				k = e
			}
			old := cur[k]
			switch {
			case old == nil:
				g := genReg(r, prefix, r.Chance(1, 6))
				cur[k] = &g
				evs = append(evs, histEvent{Slot: k, Op: "register", Reg: &g})
			case r.Chance(6, 10): // the same service id registers again with something changed
				g := variant(r, *old, prefix)
				cur[k] = &g
				evs = append(evs, histEvent{Slot: k, Op: "register", Reg: &g})
			case r.Chance(1, 3):
				cur[k] = nil
				evs = append(evs, histEvent{Slot: k, Op: "deregister"})
			case r.Chance(1, 2):
				evs = append(evs, histEvent{Slot: k, Op: "fail"})
			default:
				evs = append(evs, histEvent{Slot: k, Op: "pass"})
			}
		}
		in.Steps = append(in.Steps, evs)
	}
	return in
}

func init() {
	hx.Register(&hx.Stream{Name: "c14.history", Gen: genHistory, Run: runHistory})
}
