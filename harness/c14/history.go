package main

import (
	"encoding/json"
	"fmt"

	"github.com/fabiolb/fabio/config"
	"github.com/fabiolb/fabio/registry/consul"
	"github.com/hashicorp/consul/api"
	"verif/harness/hx"
)

// c14.history — ONE long-lived ServiceMonitor (NewServiceMonitor, as the backend's WatchServices uses it) is
// asked for its config after every step of a history of catalog events: instances (slots = fixed (node,
// service id) pairs) register, register AGAIN under the same (node, service id) with another name, address,
// port, tags or options (Consul keeps CreateIndex and moves ModifyIndex), fail and pass their health check,
// deregister and come back (new CreateIndex). After every step the emitted text is what the model's `config`
// gives for the registrations that are in the catalog and passing NOW; the spec reads the text with the real
// route.Parse and demands exactly the definitions the current registrations mean.
type histEvent struct {
	Slot int    `json:"slot"`
	Op   string `json:"op"` // register | deregister | fail | pass
	Reg  *Reg   `json:"reg,omitempty"`
}

type histIn struct {
	Prefix string        `json:"prefix"`
	DC     string        `json:"dc"`
	Steps  [][]histEvent `json:"steps"`
}

type slotState struct {
	reg            Reg
	create, modify uint64
	passing        bool
}

const maxSlots = 8

func runHistory(raw json.RawMessage) (interface{}, error) {
	var in histIn
	if err := json.Unmarshal(raw, &in); err != nil {
		return nil, err
	}
	fake, client, addr, err := theFake()
	if err != nil {
		return nil, err
	}
	cfg := &config.Consul{Addr: addr, Scheme: "http", TagPrefix: in.Prefix, ServiceMonitors: 1}
	mon := consul.NewServiceMonitor(client, cfg, in.DC)
	env := map[string]string{"DC": in.DC}
	or := newOracle()
	slots := map[int]*slotState{}
	var index uint64 = 10
	steps := []map[string]interface{}{}
	for _, evs := range in.Steps {
		for _, ev := range evs {
			if ev.Slot < 0 || ev.Slot >= maxSlots {
				continue
			}
			st := slots[ev.Slot]
			switch ev.Op {
			case "register":
				if ev.Reg == nil {
					continue
				}
				index++
				if st == nil {
					slots[ev.Slot] = &slotState{reg: *ev.Reg, create: index, modify: index, passing: true}
				} else {
					// the same service id registers again: CreateIndex stays, ModifyIndex moves
					st.reg, st.modify = *ev.Reg, index
				}
				or.addReg(ev.Reg, in.Prefix, env)
			case "deregister":
				if st != nil {
					index++
					delete(slots, ev.Slot)
				}
			case "fail":
				if st != nil {
					st.passing = false
				}
			case "pass":
				if st != nil {
					st.passing = true
				}
			}
		}
		var entries []catalogEntry
		var passing []*api.HealthCheck
		names := map[string]bool{}
		for k := 0; k < maxSlots; k++ {
			st := slots[k]
			if st == nil {
				continue
			}
			entries = append(entries, entryOf(k, &st.reg, st.create, st.modify))
			if st.passing {
				passing = append(passing, &api.HealthCheck{Node: nodeOf(k), CheckID: "c", Status: "passing", ServiceID: sidOf(k), ServiceName: st.reg.Name, ServiceTags: st.reg.Tags})
				if st.reg.Name != "" {
					names[st.reg.Name] = true
				}
			}
		}
		fake.set(entries)
		text := consul.VerifC14MonitorConfig(mon, passing)
		if served := fake.lookups(); served != len(names) {
			return nil, fmt.Errorf("fake catalog served %d of %d service lookups", served, len(names))
		}
		or.addText(text)
		step := map[string]interface{}{"text": text}
		// what fabio's own parser reads from the text (implementation-side oracle of the spec)
		if defs, err := routeParse(text); err != nil {
			step["error"] = loadErr(err)
		} else {
			step["defs"] = canonDefs(defs)
		}
		steps = append(steps, step)
	}
	return map[string]interface{}{"steps": steps, "oracle": or.json()}, nil
}

// ---- generator ------------------------------------------------------------------------------------------

// variant changes something of a registration the way a redeploy does: port, address, a tag, an option, a prefix.
func variant(r *hx.Rand, g Reg, prefix string) Reg {
	n := g
	n.Tags = append([]string(nil), g.Tags...)
	switch r.Intn(7) {
	case 0:
		n.Port = ports[r.Intn(len(ports))]
	case 1:
		n.Addr = r.Pick(okAddrs)
	case 2:
		n.Tags = append(n.Tags, r.Pick(okPlain))
	case 3:
		n.Tags = append(n.Tags, genTag(r, prefix, false))
	case 4:
		if len(n.Tags) > 0 {
			i := r.Intn(len(n.Tags))
			n.Tags = append(n.Tags[:i], n.Tags[i+1:]...)
		}
	case 5:
		if len(n.Tags) > 0 {
			n.Tags[r.Intn(len(n.Tags))] = genTag(r, prefix, r.Chance(1, 4))
		}
	default:
		n = genReg(r, prefix, r.Chance(1, 5))
		if r.Chance(2, 3) {
			n.Name = g.Name
		}
	}
	return n
}

func genHistory(r *hx.Rand, i int) interface{} {
	prefix := r.Pick(prefixes[:5])
	in := histIn{Prefix: prefix, DC: r.Pick(dcs[:3])}
	nslots := 1 + r.Intn(3)
	cur := map[int]*Reg{}
	nsteps := 2 + r.Intn(5)
	for s := 0; s < nsteps; s++ {
		var evs []histEvent
		nev := 1 + r.Intn(2)
		if s == 0 {
			nev = nslots
		}
		for e := 0; e < nev; e++ {
			k := r.Intn(nslots)
			if s == 0 {
				k = e
			}
			old := cur[k]
			switch {
			case old == nil:
				g := genReg(r, prefix, r.Chance(1, 6))
				cur[k] = &g
				evs = append(evs, histEvent{Slot: k, Op: "register", Reg: &g})
			case r.Chance(6, 10): // the same service id registers again with something changed
				g := variant(r, *old, prefix)
				cur[k] = &g
				evs = append(evs, histEvent{Slot: k, Op: "register", Reg: &g})
			case r.Chance(1, 3):
				cur[k] = nil
				evs = append(evs, histEvent{Slot: k, Op: "deregister"})
			case r.Chance(1, 2):
				evs = append(evs, histEvent{Slot: k, Op: "fail"})
			default:
				evs = append(evs, histEvent{Slot: k, Op: "pass"})
			}
		}
		in.Steps = append(in.Steps, evs)
	}
	return in
}

func init() {
	hx.Register(&hx.Stream{Name: "c14.history", Gen: genHistory, Run: runHistory})
}
