package main

import (
	"encoding/json"
	"fmt"
	"sort"
	"strings"
	"sync"

	"github.com/fabiolb/fabio/config"
	"github.com/fabiolb/fabio/route"
	"github.com/magiconair/properties"
	"verif/harness/hx"
)

// =============================================================================================================
// c15.flagtable — the flags of the real FlagSet, to be compared with the table factgen reads from the source
// =============================================================================================================

func init() {
	hx.Register(&hx.Stream{
		Name:   "c15.flagtable",
		Corpus: []interface{}{map[string]int{"n": 0}},
		Gen:    func(r *hx.Rand, i int) interface{} { return map[string]int{"n": 0} },
		Run: func(raw json.RawMessage) (interface{}, error) {
			var out [][2]string
			for _, f := range flags() {
				out = append(out, [2]string{f.Name, f.Kind})
			}
			return out, nil
		},
	})
}

// =============================================================================================================
// c15.sources — every flag × source assignments × kind-directed values, through the real config.Load
// =============================================================================================================

type srcIn struct {
	Flag  string      `json:"flag"`
	Kind  string      `json:"kind"`
	Vals  [4]*string  `json:"vals"`  // intended value per source: command line, FABIO_ variable, plain variable, file
	Args  [][2]string `json:"args"`  // command line as (name, value) pairs, in order
	Env   []string    `json:"env"`   // environment block
	Props [][2]string `json:"props"` // properties file lines (key, value), in order; null = no file
}

type srcOut struct {
	Combined string       `json:"combined"`
	Dflt     string       `json:"dflt"`
	// Dflt0: digest of the configuration without any source, taken before this process had loaded anything else;
	// CombinedAgain: digest of the Config returned for the combined sources, taken again after all other loads of
	// the case.  Loading is a function of its inputs: neither may move.
	Dflt0         string `json:"dflt0"`
	CombinedAgain string `json:"combined_again"`
	Eff      [4]*[4]string `json:"eff"` // Eff[s][c]: only channel c carries source s's value
}

var wordPool = []string{"a", "b", "x1", "foo", "Bar", "a b", "x=y", "k=v;w", "1,2", "é€", "q\"r", "it's", "#c", "!d", "a\\b", " lead", "trail ", "", "-dash", "tab\there", "UPPER", "http://h:1/p?q=1", ",", ";", " ", "=", ",;,", "\""}

var special = map[string][]string{
	"proxy.strategy":                {"rr", "rnd", "bogus"},
	"proxy.matcher":                 {"prefix", "glob", "iprefix", "nope"},
	"ui.access":                     {"ro", "rw", "xx"},
	"proxy.noroutestatus":           {"100", "404", "503", "999", "99", "1000"},
	"proxy.addr":                    {":1234", ":1234;proto=tcp", "1.2.3.4:80;rt=1s;wt=2s", ":80,:81;proto=grpc", ":443;cs=nosuch", ":1;proto=\"tcp+sni\"", ":1;pxyproto=true", "a=b=c", "", ",", ";;", " "},
	"ui.addr":                       {":9998", "1.2.3.4:80;proto=http", ":1;rt=5s", ":1,:2", "\"x", ",", ";", " ", ";=;"},
	"proxy.cs":                      {"cs=a;type=file;cert=c.pem;key=k.pem", "cs=b;type=path;cert=/p;refresh=5s", "cs=c;type=http;cert=u;hdr=A: b", "cs=a", ""},
	"proxy.auth":                    {"name=a;type=basic;file=p.htpasswd", "name=b;type=basic;file=f;realm=r;refresh=2s", "name=c;type=x", ""},
	"bgp.peers":                     {"address=1.2.3.4;asn=65001", "address=5.6.7.8;port=179;multihop=true,address=9.9.9.9", "asn=x", ""},
	"proxy.localip":                 {"1.2.3.4", "10.0.0.1", ""},
	"registry.consul.register.addr": {"1.2.3.4:80", ":9998", "h:1"},
	"proxy.gzip.contenttype":        {"^text/.*$", "^(text|application)/", "(", ""},
	"registry.consul.addr":          {"http://h:8500", "https://x/p", "h:1", "HTTP://Up:1"},
	"glob.cache.size":               {"1", "2", "1000", "50000"},
	"registry.consul.serviceMonitors": {"0", "1", "5", "-3"},
	"runtime.gomaxprocs":            {"-1", "1", "4"},
}

func genValue(r *hx.Rand, fi flagInfo) string {
	if vs, ok := special[fi.Name]; ok && r.Chance(9, 10) {
		return r.Pick(vs)
	}
	switch fi.Kind {
	case "bool":
		return r.Pick([]string{"true", "false", "1", "0", "t", "f", "T", "F", "TRUE", "FALSE", "True", "False"})
	case "int":
		return r.Pick([]string{"0", "1", "7", "42", "-1", "-20", "0x10", "1_000", "65535", "123456789", "+5", "010"})
	case "uint":
		return r.Pick([]string{"0", "1", "7", "42", "0x10", "65001", "4294967295", "1_0"})
	case "float":
		return r.Pick([]string{"0", "0.5", "1", "-1", "1e3", "2.5e-3", "-0.25", "100", ".5"})
	case "duration":
		return r.Pick([]string{"0", "1s", "250ms", "1h2m", "-5s", "1.5s", "10m", "3us", "0s", "72h"})
	case "numlist":
		return r.Pick([]string{"1", "0.5,1,2.5", " 3 , 4 ", "", "1,,2", ".1,.2,.3,.4"})
	case "value":
		return r.Pick([]string{"a", "a,b", " a , b ,, c", "", "1,2", "x y,z", "passing,warning"})
	default: // string and anything unknown
		return r.Pick(wordPool)
	}
}

// distinct values for k sources
func genValues(r *hx.Rand, fi flagInfo, k int) []string {
	var out []string
	for tries := 0; len(out) < k && tries < 40; tries++ {
		v := genValue(r, fi)
		if strings.Contains(v, "${") {
			continue
		}
		dup := false
		for _, o := range out {
			dup = dup || o == v
		}
		if !dup {
			out = append(out, v)
		}
	}
	for len(out) < k {
		out = append(out, out[0])
	}
	return out
}

func recase(r *hx.Rand, s string) string {
	switch r.Intn(4) {
	case 0:
		return strings.ToUpper(s)
	case 1:
		return strings.ToLower(s)
	case 2:
		return s
	}
	b := []rune(s)
	for i := range b {
		if r.Chance(1, 2) {
			b[i] = []rune(strings.ToUpper(string(b[i])))[0]
		} else {
			b[i] = []rune(strings.ToLower(string(b[i])))[0]
		}
	}
	// Go's ToUpper maps the dotless i and the long s to ASCII letters
	out := string(b)
	if r.Chance(1, 8) {
		out = strings.Replace(out, "s", "ſ", 1)
	}
	if r.Chance(1, 8) {
		out = strings.Replace(out, "i", "ı", 1)
	}
	return out
}

func envVarName(prefix, flag string) string { return prefix + strings.Replace(flag, ".", "_", -1) }

var srcPairs = func() (ps [][2]int) {
	for a := 0; a < 4; a++ {
		for b := 0; b < 4; b++ {
			if a != b {
				ps = append(ps, [2]int{a, b})
			}
		}
	}
	return
}()

func buildSrcIn(r *hx.Rand, fi flagInfo, mask [4]bool) srcIn {
	n := 0
	for _, m := range mask {
		if m {
			n++
		}
	}
	in := srcIn{Flag: fi.Name, Kind: fi.Kind, Args: [][2]string{}, Env: []string{}}
	vals := genValues(r, fi, n+1)
	decoy := vals[n]
	k := 0
	for s := 0; s < 4; s++ {
		if !mask[s] {
			continue
		}
		v := vals[k]
		k++
		if s == 0 && !cmdlineOK(fi.Name, v) {
			// the command line cannot carry this value (flag would end the process): leave that source out
			continue
		}
		vv := v
		in.Vals[s] = &vv
		switch s {
		case 0:
			if r.Chance(1, 4) && cmdlineOK(fi.Name, decoy) {
				in.Args = append(in.Args, [2]string{fi.Name, decoy}) // an earlier occurrence: the later one counts
			}
			in.Args = append(in.Args, [2]string{fi.Name, v})
		case 1, 2:
			pfx := "FABIO_"
			if s == 2 {
				pfx = ""
			}
			if r.Chance(1, 4) {
				in.Env = append(in.Env, recase(r, envVarName(pfx, fi.Name))+"="+decoy) // overwritten by the later entry
			}
			in.Env = append(in.Env, recase(r, envVarName(pfx, fi.Name))+"="+v)
		case 3:
			in.Props = [][2]string{}
			if r.Chance(1, 4) {
				in.Props = append(in.Props, [2]string{fi.Name, decoy})
			}
			in.Props = append(in.Props, [2]string{fi.Name, v})
		}
	}
	// unrelated entries
	if r.Chance(1, 3) {
		in.Env = append([]string{"HOME=/root", "PATH=/bin", "FABIO_NOSUCH_FLAG=1"}, in.Env...)
	}
	if r.Chance(1, 6) && in.Props == nil {
		in.Props = [][2]string{{"no.such.key", "1"}}
	}
	return in
}

func single(flag string, c int, v string) ([][2]string, []string, *string) {
	switch c {
	case 0:
		return [][2]string{{flag, v}}, nil, nil
	case 1:
		return nil, []string{"FABIO_" + strings.ToUpper(strings.Replace(flag, ".", "_", -1)) + "=" + v}, nil
	case 2:
		return nil, []string{strings.Replace(flag, ".", "_", -1) + "=" + v}, nil
	}
	t := propsText([][2]string{{flag, v}})
	return nil, nil, &t
}

func derive(in srcIn) (d [4]*string) {
	for _, a := range in.Args {
		if a[0] == in.Flag {
			v := a[1]
			d[0] = &v
		}
	}
	for i, pfx := range []string{"FABIO_", ""} {
		want := strings.ToUpper(envVarName(pfx, in.Flag))
		for _, e := range in.Env {
			if k := strings.IndexByte(e, '='); k >= 0 && strings.ToUpper(e[:k]) == want {
				v := e[k+1:]
				d[1+i] = &v
			}
		}
	}
	for _, p := range in.Props {
		if p[0] == in.Flag {
			v := p[1]
			d[3] = &v
		}
	}
	return
}

func sameVals(a, b [4]*string) bool {
	for i := range a {
		if (a[i] == nil) != (b[i] == nil) || (a[i] != nil && *a[i] != *b[i]) {
			return false
		}
	}
	return true
}

var (
	dflt0Once sync.Once
	dflt0     string
)

func runSources(raw json.RawMessage) (interface{}, error) {
	var in srcIn
	if err := json.Unmarshal(raw, &in); err != nil {
		return nil, err
	}
	flags()
	if _, ok := flagByKey[in.Flag]; !ok {
		return nil, fmt.Errorf("unknown flag %q", in.Flag)
	}
	for _, a := range in.Args {
		if !cmdlineOK(a[0], a[1]) {
			return nil, fmt.Errorf("command line -%s=%q would end the process (flag.ExitOnError)", a[0], a[1])
		}
	}
	for _, p := range in.Props {
		if strings.ContainsAny(p[0], " =:\n\\#!") || p[0] == "" {
			return nil, fmt.Errorf("properties key %q not representable", p[0])
		}
	}
	// the intended assignment (vals) must be what the raw inputs say under the documented reading (last
	// occurrence counts, variable names compared upper-cased); the shrinker can produce cases where they
	// disagree, and such a case says nothing about the implementation
	if d := derive(in); !sameVals(d, in.Vals) {
		return nil, fmt.Errorf("inconsistent case: vals do not describe args/env/props")
	}
	var out srcOut
	var pt *string
	if in.Props != nil {
		t := propsText(in.Props)
		pt = &t
	}
	dflt0Once.Do(func() { dflt0 = doLoad(nil, nil, nil).digest() })
	out.Dflt0 = dflt0
	combined := doLoad(in.Args, in.Env, pt)
	out.Combined = combined.digest()
	out.Dflt = doLoad(nil, nil, nil).digest()
	for s := 0; s < 4; s++ {
		if in.Vals[s] == nil {
			continue
		}
		var e [4]string
		for c := 0; c < 4; c++ {
			if c == 0 && !cmdlineOK(in.Flag, *in.Vals[s]) {
				e[c] = "n/a" // not expressible on the command line without ending the process
				continue
			}
			a, ev, p := single(in.Flag, c, *in.Vals[s])
			e[c] = doLoad(a, ev, p).digest()
		}
		out.Eff[s] = &e
	}
	out.CombinedAgain = combined.digest()
	return out, nil
}

func init() {
	str := func(s string) *string { return &s }
	hx.Register(&hx.Stream{
		Name: "c15.sources",
		Corpus: []interface{}{
			srcIn{Flag: "proxy.maxconn", Kind: "int", Vals: [4]*string{str("1"), str("2"), str("3"), str("4")},
				Args: [][2]string{{"proxy.maxconn", "1"}}, Env: []string{"FABIO_PROXY_MAXCONN=2", "proxy_maxconn=3"},
				Props: [][2]string{{"proxy.maxconn", "4"}}},
			srcIn{Flag: "registry.consul.register.checkInterval", Kind: "duration", Vals: [4]*string{nil, nil, str("7s"), str("9s")},
				Args: [][2]string{}, Env: []string{"registry_consul_register_checkınterval=7s"},
				Props: [][2]string{{"registry.consul.register.checkInterval", "9s"}}},
			srcIn{Flag: "ui.title", Kind: "string", Vals: [4]*string{nil, str(" x = y "), nil, str("z")},
				Args: [][2]string{}, Env: []string{"Fabio_Ui_Title= x = y "}, Props: [][2]string{{"ui.title", "z"}}},
		},
		Gen: func(r *hx.Rand, i int) interface{} {
			fl := flags()
			var usable []flagInfo
			for _, f := range fl {
				if f.Name != "cfg" && f.Name != "v" && f.Name != "version" {
					usable = append(usable, f)
				}
			}
			fi := usable[i%len(usable)]
			round := i / len(usable)
			var mask [4]bool
			if round < len(srcPairs) { // every flag × every ordered pair of sources first
				mask[srcPairs[round][0]], mask[srcPairs[round][1]] = true, true
			} else {
				for s := range mask {
					mask[s] = r.Chance(1, 2)
				}
			}
			return buildSrcIn(r, fi, mask)
		},
		Run: runSources,
	})
}

// =============================================================================================================
// c15.kvslice — parseKVSlice on grammar-generated and malformed texts
// =============================================================================================================

type kvIn struct {
	S string `json:"s"`
}

func genKV(r *hx.Rand) string {
	if r.Chance(1, 5) { // malformed / arbitrary
		alpha := []string{"a", "b", "=", ";", ",", "\"", "'", "\\", " ", "k", "\\n", "\\x41", "\\u00e9", "é", "\t"}
		var b strings.Builder
		for n := r.Range(0, 12); n > 0; n-- {
			b.WriteString(r.Pick(alpha))
		}
		return b.String()
	}
	word := func() string {
		w := r.Pick([]string{"a", "b", "cs", "addr", "proto", ":9999", "1.2.3.4:80", "x y", "tcp+sni", "é", "", "a.b", "rt"})
		switch r.Intn(8) {
		case 0:
			return "\"" + strings.NewReplacer("\\", "\\\\", "\"", "\\\"").Replace(w) + r.Pick([]string{"", ";", ",x", "\\n", "\\t", "\\x41", "\\u00e9", "=", "'"}) + "\""
		case 1:
			if len([]rune(w)) == 1 {
				return "'" + w + "'"
			}
			return "'" + r.Pick([]string{"a", ";", ",", "=", "\\n", "\\'", "é"}) + "'"
		case 2:
			return " " + w + " "
		}
		return w
	}
	var b strings.Builder
	for m := r.Range(1, 3); m > 0; m-- {
		first := true
		for p := r.Range(1, 4); p > 0; p-- {
			if first && r.Chance(1, 3) {
				b.WriteString(word())
			} else {
				b.WriteString(word())
				b.WriteString("=")
				b.WriteString(word())
				if r.Chance(1, 8) {
					b.WriteString("=" + word())
				}
			}
			first = false
			if p > 1 {
				b.WriteString(r.Pick([]string{";", ";", ";", ";;", " ; "}))
			}
		}
		if m > 1 {
			b.WriteString(r.Pick([]string{",", ",", ",,", ";,"}))
		}
	}
	return b.String()
}

func init() {
	hx.Register(&hx.Stream{
		Name: "c15.kvslice",
		Corpus: []interface{}{kvIn{""}, kvIn{"a=b"}, kvIn{":9999;cs=x"}, kvIn{"a=b;c=d,e=f"}, kvIn{"a=\"b;c\""}, kvIn{"a='b'"}, kvIn{"a='bc'"},
			kvIn{"\"a"}, kvIn{"\"a\\"}, kvIn{"a;="}, kvIn{",;,"}, kvIn{"a==b"}, kvIn{"a=b=c;d"}, kvIn{"\"\\x41\"=1"}, kvIn{"a=\"\\q\""}, kvIn{" a = b "},
			kvIn{"a=1;a=2"}, kvIn{"\"a\"b=c"}, kvIn{"x;\"\"=1"}, kvIn{"\"\";a=b"}},
		Gen: func(r *hx.Rand, i int) interface{} { return kvIn{genKV(r)} },
		Run: func(raw json.RawMessage) (interface{}, error) {
			var in kvIn
			if err := json.Unmarshal(raw, &in); err != nil {
				return nil, err
			}
			maps, err := config.VerifParseKVSlice(in.S)
			if err != nil {
				return map[string]interface{}{"err": err.Error()}, nil
			}
			out := [][][2]string{}
			for _, m := range maps {
				var kv [][2]string
				for k, v := range m {
					kv = append(kv, [2]string{k, v})
				}
				sort.Slice(kv, func(i, j int) bool { return kv[i][0] < kv[j][0] })
				if kv == nil {
					kv = [][2]string{}
				}
				out = append(out, kv)
			}
			return map[string]interface{}{"maps": out, "nil": maps == nil}, nil
		},
	})
}

// =============================================================================================================
// c15.robust — arbitrary environment blocks and properties texts: configuration, error, or panic; and whether
// an accepted configuration's glob cache can be built and used
// =============================================================================================================

type robIn struct {
	Args  [][2]string `json:"args"`
	Env   []string    `json:"env"`
	Props *string     `json:"props"`
	// degenerate-value cases: one flag gets a kind-directed degenerate value from one source
	Focus     string `json:"focus,omitempty"`
	FocusKind string `json:"focus_kind,omitempty"`
}

// kind-directed degenerate values: empty, separators only, blanks only, lone operators, dangling quotes and
// escapes for anything string-like (every kvslice/listener/auth/cert-source option is a string flag);
// empty, sign only, overflow, wrong syntax for numbers and durations; separator-only lists for slices
var degenerate = map[string][]string{
	"string": {"", ",", ";", ",;,", ";;", ",,", " ", "   ", "\t", " , ", " ; ", "=", "==", ";=;", ",=,", "a=", "=a", "=;", ";a=b", "a=b;", ",a=b", "a=b,", ";a=b;", ",a=b,",
		"\"", "'", "\"\"", "''", "\"a", "a=\"b", "a=\"b\\", "\\", "a=b;;,;;", "a;b;c", "a,b,c", ";,;=", "\" \"", "cs=", "cs=;", ":0", ":", "proto=", "rt=", "=:1", "{{", "{{ x }}", "(", "[", "*", "\x00", "\n"},
	"bool":     {"", " ", "2", "yes", "tru", "-", "TRUE ", "0x1"},
	"int":      {"", " ", "-", "+", "--1", "99999999999999999999", "-99999999999999999999", "9223372036854775808", "0x", "1e3", " 1", "1 ", "1.0", "٣", "_"},
	"uint":     {"", " ", "-", "+", "-1", "99999999999999999999", "18446744073709551616", "0x", "1.5", "_"},
	"float":    {"", " ", "-", "+", "e", ".", "1e999", "-1e999", "1e-999", "0x1p", "1,5", "1..2"},
	"duration": {"", " ", "-", "+", "1", "s", "1x", "9999999999h", "-9999999999h", "1h-1m", ".s", "1e3s", "1 s"},
	"numlist":  {"", ",", " , ", ",,", " ", "a", "1,a", "1;2", "1e999", "-"},
	"value":    {"", ",", " , ", ",,", " ", ";", "=", "\"", ",a,", "a,,b"},
}

func degenerateValue(r *hx.Rand, fi flagInfo) string {
	vs, ok := degenerate[fi.Kind]
	if !ok {
		vs = degenerate["string"]
	}
	return r.Pick(vs)
}

// genDegenerate: the k-th degenerate case walks flags × sources (every flag from every source), the value is
// drawn from the kind's list.  The command line carries the value only when `flag` accepts it (otherwise the
// process would exit); such a case is moved to the prefixed variable.
func genDegenerate(r *hx.Rand, k int) robIn {
	var usable []flagInfo
	for _, f := range flags() {
		if f.Name != "cfg" && f.Name != "v" && f.Name != "version" {
			usable = append(usable, f)
		}
	}
	fi := usable[k%len(usable)]
	src := (k / len(usable)) % 4
	v := degenerateValue(r, fi)
	in := robIn{Args: [][2]string{}, Env: []string{}, Focus: fi.Name, FocusKind: fi.Kind}
	if src == 0 && !cmdlineOK(fi.Name, v) {
		src = 1
	}
	switch src {
	case 0:
		in.Args = append(in.Args, [2]string{fi.Name, v})
	case 1:
		in.Env = append(in.Env, recase(r, envVarName("FABIO_", fi.Name))+"="+v)
	case 2:
		in.Env = append(in.Env, recase(r, envVarName("", fi.Name))+"="+v)
	case 3:
		t := fi.Name + " = " + escProp(v) + "\n"
		if r.Chance(1, 4) {
			t = fi.Name + "=" + v + "\n" // unescaped, as a user would type it
		}
		in.Props = &t
	}
	return in
}

type robOut struct {
	Out   string      `json:"out"` // cfg | err | panic
	Msg   string      `json:"msg"`
	Glob  int         `json:"glob"`
	Run   string      `json:"run"`   // ok | panic | skipped | ""
	Props [][2]string `json:"props"` // what the properties library made of the text (null: no file or load error)
}

func genEnvEntry(r *hx.Rand, fl []flagInfo) string {
	fi := fl[r.Intn(len(fl))]
	if r.Chance(1, 3) {
		fi = flagByKey["glob.cache.size"]
	}
	name := envVarName(r.Pick([]string{"FABIO_", "", "fabio_"}), fi.Name)
	name = recase(r, name)
	var val string
	if r.Chance(4, 5) {
		val = genValue(r, fi)
		if fi.Name == "glob.cache.size" {
			val = r.Pick([]string{"0", "-1", "1", "2", "10", "abc", "", "-0", "1000", "+3", "007", "0x0"})
		}
	} else {
		val = r.Pick(wordPool)
	}
	switch r.Intn(12) {
	case 0:
		return name // no '='
	case 1:
		return "=" + val // empty name
	case 2:
		return "" // empty entry
	case 3:
		return name + "=" + val + "=" + val
	case 4:
		return r.Pick([]string{"FOO", "=", "==", "ſ", "a b", "PATH"})
	}
	return name + "=" + val
}

func genPropsText(r *hx.Rand, fl []flagInfo) string {
	var b strings.Builder
	for n := r.Range(0, 5); n > 0; n-- {
		fi := fl[r.Intn(len(fl))]
		if r.Chance(1, 3) {
			fi = flagByKey["glob.cache.size"]
		}
		v := genValue(r, fi)
		if fi.Name == "glob.cache.size" {
			v = r.Pick([]string{"0", "-1", "1", "3", "abc", "", "1000"})
		}
		switch r.Intn(10) {
		case 0:
			b.WriteString("# " + fi.Name + "\n")
		case 1:
			b.WriteString(fi.Name + "\n")
		case 2:
			b.WriteString(fi.Name + ":" + v + "\n")
		case 3:
			b.WriteString(fi.Name + " " + v + "\n")
		case 4:
			b.WriteString(r.Pick([]string{"=", "a = ${b}\nb = ${a}", "x = ${", "\\u12", "k = v \\\n  w", "a=${HOME}", "\x00", "k\\=1 = 2"}) + "\n")
		default:
			b.WriteString(fi.Name + " = " + escProp(v) + "\n")
		}
	}
	return b.String()
}

func runRobust(raw json.RawMessage) (interface{}, error) {
	var in robIn
	if err := json.Unmarshal(raw, &in); err != nil {
		return nil, err
	}
	flags()
	for _, a := range in.Args {
		if !cmdlineOK(a[0], a[1]) {
			return nil, fmt.Errorf("command line -%s=%q would end the process (flag.ExitOnError)", a[0], a[1])
		}
	}
	var out robOut
	if in.Props != nil {
		if p, err := properties.LoadFile(propsFile(*in.Props), properties.UTF8); err == nil {
			out.Props = [][2]string{}
			func() {
				defer func() { recover() }()
				for _, k := range p.Keys() {
					v, _ := p.Get(k)
					out.Props = append(out.Props, [2]string{k, v})
				}
			}()
		}
	}
	res := doLoad(in.Args, in.Env, in.Props)
	out.Out, out.Msg = res.Kind, res.Msg
	if res.Kind == "cfg" {
		out.Glob = res.Cfg.GlobCacheSize
		out.Run = "skipped"
		if out.Glob < 1<<20 {
			r, _ := hx.SafeRun(func() (interface{}, error) {
				c := route.NewGlobCache(res.Cfg.GlobCacheSize)
				for _, pat := range []string{"/a*", "/b*", "/c?", "/a*"} {
					if _, err := c.Get(pat); err != nil {
						return nil, err
					}
				}
				return "ok", nil
			})
			if s, ok := r.(string); ok {
				out.Run = s
			} else {
				out.Run = "panic"
			}
		}
	}
	return out, nil
}

func init() {
	str := func(s string) *string { return &s }
	hx.Register(&hx.Stream{
		Name: "c15.robust",
		Corpus: []interface{}{
			robIn{Args: [][2]string{}, Env: []string{}},
			robIn{Args: [][2]string{}, Env: []string{"FOO"}},
			robIn{Args: [][2]string{}, Env: []string{""}},
			robIn{Args: [][2]string{}, Env: []string{"=x", "A=1", "a=2"}},
			robIn{Args: [][2]string{{"glob.cache.size", "0"}}, Env: []string{}},
			robIn{Args: [][2]string{{"glob.cache.size", "-1"}}, Env: []string{}},
			robIn{Args: [][2]string{}, Env: []string{"FABIO_GLOB_CACHE_SIZE=0"}},
			robIn{Args: [][2]string{}, Env: []string{"glob_cache_size=abc"}},
			robIn{Args: [][2]string{}, Env: []string{}, Props: str("glob.cache.size = 0\n")},
			robIn{Args: [][2]string{{"glob.cache.size", "1"}}, Env: []string{}},
			robIn{Args: [][2]string{}, Env: []string{}, Props: str("a = ${b}\nb = ${a}\n")},
			robIn{Args: [][2]string{{"ui.addr", ","}}, Env: []string{}, Focus: "ui.addr", FocusKind: "string"},
			robIn{Args: [][2]string{}, Env: []string{"FABIO_UI_ADDR=;"}, Focus: "ui.addr", FocusKind: "string"},
			robIn{Args: [][2]string{}, Env: []string{"ui_addr= "}, Focus: "ui.addr", FocusKind: "string"},
			robIn{Args: [][2]string{}, Env: []string{}, Props: str("ui.addr = ;;,\n"), Focus: "ui.addr", FocusKind: "string"},
			robIn{Args: [][2]string{{"proxy.addr", ",;,"}}, Env: []string{}, Focus: "proxy.addr", FocusKind: "string"},
			robIn{Args: [][2]string{}, Env: []string{"FABIO_PROXY_CS=="}, Focus: "proxy.cs", FocusKind: "string"},
		},
		Gen: func(r *hx.Rand, i int) interface{} {
			fl := flags()
			if i%2 == 1 {
				return genDegenerate(r, i/2)
			}
			in := robIn{Args: [][2]string{}, Env: []string{}}
			for n := r.Range(0, 2); n > 0; n-- {
				fi := fl[r.Intn(len(fl))]
				if r.Chance(1, 2) {
					fi = flagByKey["glob.cache.size"]
				}
				v := genValue(r, fi)
				if fi.Name == "glob.cache.size" {
					v = r.Pick([]string{"0", "-1", "1", "2", "5", "-100", "1000"})
				}
				if cmdlineOK(fi.Name, v) {
					in.Args = append(in.Args, [2]string{fi.Name, v})
				}
			}
			for n := r.Range(0, 6); n > 0; n-- {
				in.Env = append(in.Env, genEnvEntry(r, fl))
			}
			if r.Chance(1, 2) {
				t := genPropsText(r, fl)
				in.Props = &t
			}
			return in
		},
		Run: runRobust,
	})
}
