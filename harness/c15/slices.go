package main

import (
	"encoding/json"
	"fmt"
	"strconv"
	"strings"

	"github.com/fabiolb/fabio/config"
	"verif/harness/hx"
)

// =============================================================================================================
// c15.slices — the flag values of the list-valued options (config/flagset.go): the variable shares the backing
// array of its default; a sequence of Set calls must leave that array alone and the value must be a function
// of the last string
// =============================================================================================================

type sliceIn struct {
	Float bool     `json:"float"`
	Dflt  []string `json:"dflt"`  // the default (for float: decimal literals)
	Spare int      `json:"spare"` // unused capacity behind the default
	Sets  []string `json:"sets"`  // strings handed to Set, in order
}

type sliceOut struct {
	Value   string   `json:"value"` // string list: elements joined with U+0000; float list: the value's own String()
	ErrAt   int      `json:"err_at"`
	Backing []string `json:"backing"` // the default's whole backing array afterwards
	Before  []string `json:"before"`  // … and what it held before (default + zero cells)
	// oracle for strconv.ParseFloat: every field of every string → parses?, canonical rendering
	Fields [][3]interface{} `json:"fields"`
}

func genSlices(r *hx.Rand, i int) interface{} {
	in := sliceIn{Float: i%3 == 2, Dflt: []string{}, Sets: []string{}}
	word := func() string {
		if in.Float {
			return r.Pick([]string{"1", "2.5", "0.005", "10", "-1", "1e3", ".5", "0", "abc", "1e999", "", " 3 ", "0x10", "NaN", "1_0"})
		}
		return r.Pick([]string{"a", "b", "passing", "critical", "10.0.0.1", "", " ", " x ", "a b", "é", "\t", "-", "=", "q\"r", "A"})
	}
	for n := r.Intn(4); n > 0; n-- {
		w := word()
		if in.Float {
			if _, err := strconv.ParseFloat(strings.TrimSpace(w), 64); err != nil {
				w = "0.25"
			}
			w = strings.TrimSpace(w)
		}
		in.Dflt = append(in.Dflt, w)
	}
	in.Spare = []int{0, 0, 1, 2, 5}[r.Intn(5)]
	for n := r.Range(0, 3); n > 0; n-- {
		var fs []string
		for m := r.Range(0, 5); m > 0; m-- {
			fs = append(fs, word())
		}
		in.Sets = append(in.Sets, strings.Join(fs, r.Pick([]string{",", ",", ", ", " ,", ",,"})))
	}
	return in
}

func runSlices(raw json.RawMessage) (interface{}, error) {
	var in sliceIn
	if err := json.Unmarshal(raw, &in); err != nil {
		return nil, err
	}
	if in.Spare < 0 || in.Spare > 64 || len(in.Dflt) > 64 || len(in.Sets) > 16 {
		return nil, fmt.Errorf("case out of range")
	}
	out := sliceOut{Fields: [][3]interface{}{}, Before: []string{}}
	for _, d := range in.Dflt {
		if in.Float {
			f, err := strconv.ParseFloat(d, 64)
			if err != nil {
				return nil, fmt.Errorf("default %q is not a float", d)
			}
			d = strconv.FormatFloat(f, 'g', -1, 64)
		}
		out.Before = append(out.Before, d)
	}
	for k := 0; k < in.Spare; k++ {
		if in.Float {
			out.Before = append(out.Before, "0")
		} else {
			out.Before = append(out.Before, "")
		}
	}
	if in.Float {
		seen := map[string]bool{}
		for _, s := range in.Sets {
			for _, f := range strings.Split(s, ",") {
				f = strings.TrimSpace(f)
				if seen[f] {
					continue
				}
				seen[f] = true
				v, err := strconv.ParseFloat(f, 64)
				out.Fields = append(out.Fields, [3]interface{}{f, err == nil, strconv.FormatFloat(v, 'f', -1, 64)})
			}
		}
	}
	v, _, errAt, backing := config.VerifSliceSet(in.Float, in.Dflt, in.Spare, in.Sets)
	out.Value, out.ErrAt, out.Backing = v, errAt, backing
	if out.Backing == nil {
		out.Backing = []string{}
	}
	return out, nil
}

func init() {
	hx.Register(&hx.Stream{
		Name: "c15.slices",
		Corpus: []interface{}{
			sliceIn{Dflt: []string{"passing"}, Sets: []string{"critical"}},
			sliceIn{Dflt: []string{"0.0.0.0"}, Spare: 1, Sets: []string{"10.0.0.1", "a,b"}},
			sliceIn{Float: true, Dflt: []string{"0.005", "0.01", "0.025", "0.05"}, Sets: []string{"1,2,3"}},
			sliceIn{Float: true, Dflt: []string{"1"}, Spare: 2, Sets: []string{"1,abc,2"}},
			sliceIn{Dflt: []string{}, Sets: []string{}},
			sliceIn{Dflt: []string{"a", "b"}, Sets: []string{""}},
			sliceIn{Dflt: []string{"a", "b"}, Sets: []string{" , ,"}},
		},
		Gen: genSlices,
		Run: runSlices,
	})
}
