package main

import (
	"encoding/json"
	"fmt"
	"sort"
	"strings"

	"github.com/fabiolb/fabio/config"
	gs "github.com/hashicorp/go-sockaddr/template"
	"verif/harness/hx"
)

// =============================================================================================================
// c15.listen — listener entries of proxy.addr / ui.addr through the real config.Load, from every source:
// which entries are accepted, and what an accepted entry carries (address, protocol, certificate source)
// =============================================================================================================

type lisIn struct {
	Opt   string `json:"opt"`   // proxy.addr | ui.addr
	Value string `json:"value"` // the option's value
	Cs    string `json:"cs"`    // value of proxy.cs ("" = none)
	Src   int    `json:"src"`   // 0 command line, 1 FABIO_ variable, 2 plain variable, 3 properties file
}

type lisOut struct {
	Out    string      `json:"out"` // cfg | err | panic
	Msg    string      `json:"msg"`
	Listen [][3]string `json:"listen"` // (addr, proto, cert source name) of every listener of the option
	// Stable: the same input, loaded again eight times, gave the same outcome and the same listeners
	// (parseListen ranges over a Go map; nothing observable may depend on its order)
	Stable bool `json:"stable"`
	// oracles for the external parsers, recomputed on every run
	CsNames []string         `json:"cs_names"` // names defined by proxy.cs
	AddrOf  [][2]*string     `json:"addr_of"`  // go-sockaddr template: raw -> parsed (null = error)
	FieldOK [][3]interface{} `json:"field_ok"` // (key, value, the key's own parser accepts the value)
}

var lisProtos = []string{"tcp", "tcp+sni", "tcp-dynamic", "http", "https", "grpc", "grpcs", "https+tcp+sni", "prometheus"}

// respell gives a protocol name the way a user might type it
func respell(r *hx.Rand, p string) string {
	switch r.Intn(8) {
	case 0:
		return strings.ToUpper(p)
	case 1:
		return strings.ToUpper(p[:1]) + p[1:]
	case 2:
		return p + " "
	case 3:
		return "\" " + p + "\""
	case 4:
		return "\"" + p + "\""
	case 5:
		return r.Pick([]string{"udp", "h2", "ws", "", "tcp+", "+sni", "http2", "tls", "HTTPS+TCP+SNI", "quic"})
	case 6:
		b := []byte(p)
		k := r.Intn(len(b))
		b[k] = strings.ToUpper(string(b[k]))[0]
		return string(b)
	}
	return p + r.Pick([]string{"\t", "s", ".", "/1.1"})
}

func genListener(r *hx.Rand, haveCs bool) string {
	var parts []string
	if r.Chance(2, 5) { // a well-formed entry: only pieces parseListen accepts
		a := r.Pick([]string{":1234", ":80", "1.2.3.4:443", "[::1]:99", "localhost:1"})
		if r.Chance(1, 4) {
			a = "addr=" + a
		}
		parts = append(parts, a)
		if haveCs && r.Chance(1, 2) {
			parts = append(parts, "cs=mycs")
			if r.Chance(2, 3) {
				parts = append(parts, "proto="+r.Pick([]string{"https", "tcp", "tcp-dynamic", "grpcs", "prometheus", "https+tcp+sni"}))
			}
		} else if r.Chance(2, 3) {
			parts = append(parts, "proto="+r.Pick([]string{"http", "tcp", "tcp+sni", "tcp-dynamic", "grpc", "prometheus", "https+tcp+sni", "\"tcp\""}))
		}
		for n := r.Intn(3); n > 0; n-- {
			parts = append(parts, r.Pick([]string{"rt=1s", "wt=250ms", "it=1m", "pxyproto=true", "pxytimeout=1s", "strictmatch=true", "tlsmin=tls12", "tlsmax=tls13", "refresh=5s", "unknownkey=1"}))
		}
		if r.Chance(1, 3) && len(parts) > 1 {
			j := r.Intn(len(parts))
			parts[0], parts[j] = parts[j], parts[0]
			if !strings.Contains(parts[j], "=") { // a positional address that is not first must be named
				parts[j] = "addr=" + parts[j]
			}
		}
		return strings.Join(parts, ";")
	}
	addr := r.Pick([]string{":1234", ":80", "1.2.3.4:443", "[::1]:99", "localhost:1", "0.0.0.0:0"})
	switch r.Intn(10) {
	case 0:
		parts = append(parts, "addr="+addr)
	case 1: // no address at all
	case 2:
		parts = append(parts, addr, "addr="+r.Pick([]string{":7", addr})) // both spellings
	case 3:
		parts = append(parts, r.Pick([]string{"{{", "{{ GetPrivateIP }}:1", "", "\"\""}))
	default:
		parts = append(parts, addr)
	}
	if r.Chance(3, 4) {
		p := r.Pick(lisProtos)
		if r.Chance(1, 4) {
			p = respell(r, p)
		}
		parts = append(parts, "proto="+p)
	}
	if haveCs && r.Chance(1, 2) {
		parts = append(parts, "cs="+r.Pick([]string{"mycs", "mycs", "other", "nosuch", "", "MYCS"}))
	} else if r.Chance(1, 10) {
		parts = append(parts, "cs=nosuch")
	}
	for n := r.Intn(3); n > 0; n-- {
		parts = append(parts, r.Pick([]string{"rt=1s", "wt=250ms", "it=0", "pxyproto=true", "pxytimeout=1s", "strictmatch=true", "tlsmin=tls12",
			"tlsmax=TLS13 ", "tlsmin=0x0303", "tlsciphers=\"TLS_RSA_WITH_AES_128_CBC_SHA\"", "refresh=5s", "unknownkey=1", "proto=http", "rt=2s", "it=1m",
			"rt=x", "wt=", "pxytimeout=-", "tlsmin=bogus", "tlsciphers=nosuch", "refresh=abc"}))
	}
	if r.Chance(1, 6) { // shuffle: the keys come out of a Go map anyway
		for i := len(parts) - 1; i > 1; i-- {
			j := 1 + r.Intn(i)
			parts[i], parts[j] = parts[j], parts[i]
		}
	}
	return strings.Join(parts, ";")
}

func genListen(r *hx.Rand, i int) interface{} {
	in := lisIn{Opt: "proxy.addr", Src: i % 4}
	if r.Chance(1, 4) {
		in.Opt = "ui.addr"
	}
	if r.Chance(1, 2) {
		in.Cs = r.Pick([]string{"cs=mycs;type=file;cert=c.pem;key=k.pem", "cs=mycs;type=path;cert=/p", "cs=other;type=file;cert=c.pem,cs=mycs;type=path;cert=/q"})
	}
	n := 1
	if in.Opt == "proxy.addr" && r.Chance(1, 3) {
		n = r.Range(0, 3)
	}
	var ls []string
	for ; n > 0; n-- {
		ls = append(ls, genListener(r, in.Cs != ""))
	}
	in.Value = strings.Join(ls, ",")
	return in
}

func listenTriple(l config.Listen) [3]string { return [3]string{l.Addr, l.Proto, l.CertSource.Name} }

func runListen(raw json.RawMessage) (interface{}, error) {
	var in lisIn
	if err := json.Unmarshal(raw, &in); err != nil {
		return nil, err
	}
	if in.Opt != "proxy.addr" && in.Opt != "ui.addr" {
		return nil, fmt.Errorf("unknown listener option %q", in.Opt)
	}
	if strings.Contains(in.Value, "${") || strings.Contains(in.Cs, "${") {
		return nil, fmt.Errorf("properties expansion syntax is not part of this stream")
	}
	if in.Src < 0 || in.Src > 3 {
		return nil, fmt.Errorf("source out of range")
	}
	flags()
	out := lisOut{Listen: [][3]string{}, CsNames: []string{}, AddrOf: [][2]*string{}, FieldOK: [][3]interface{}{}}
	// oracles
	if maps, err := config.VerifParseKVSlice(in.Cs); err == nil {
		for _, m := range maps {
			if n, ok := m["cs"]; ok {
				out.CsNames = append(out.CsNames, n)
			}
		}
		sort.Strings(out.CsNames)
	}
	if maps, err := config.VerifParseKVSlice(in.Value); err == nil {
		seenA, seenF := map[string]bool{}, map[string]bool{}
		for _, m := range maps {
			for k, v := range m {
				if (k == "" || k == "addr") && !seenA[v] {
					seenA[v] = true
					raw := v
					res, _ := hx.SafeRun(func() (interface{}, error) { return gs.Parse(raw) })
					if s, ok := res.(string); ok {
						out.AddrOf = append(out.AddrOf, [2]*string{&raw, &s})
					} else {
						out.AddrOf = append(out.AddrOf, [2]*string{&raw, nil})
					}
				}
				if key := k + "\x00" + v; !seenF[key] {
					seenF[key] = true
					out.FieldOK = append(out.FieldOK, [3]interface{}{k, v, config.VerifListenFieldOK(k, v)})
				}
			}
		}
		sort.Slice(out.AddrOf, func(i, j int) bool { return *out.AddrOf[i][0] < *out.AddrOf[j][0] })
		sort.Slice(out.FieldOK, func(i, j int) bool {
			a, b := out.FieldOK[i], out.FieldOK[j]
			return a[0].(string)+"\x00"+a[1].(string) < b[0].(string)+"\x00"+b[1].(string)
		})
	}
	// the real Load, the option through the chosen source, proxy.cs on the command line
	var args [][2]string
	var env []string
	var props *string
	if in.Cs != "" {
		args = append(args, [2]string{"proxy.cs", in.Cs})
	}
	a, e, p := single(in.Opt, in.Src, in.Value)
	args, env, props = append(args, a...), e, p
	load := func() (string, string, [][3]string) {
		res := doLoad(args, env, props)
		ls := [][3]string{}
		if res.Kind == "cfg" {
			if in.Opt == "ui.addr" {
				ls = append(ls, listenTriple(res.Cfg.UI.Listen))
			} else {
				for _, l := range res.Cfg.Listen {
					ls = append(ls, listenTriple(l))
				}
			}
		}
		return res.Kind, res.Msg, ls
	}
	out.Out, out.Msg, out.Listen = load()
	out.Stable = true
	for rep := 0; rep < 8 && out.Stable; rep++ {
		k, _, ls := load()
		out.Stable = k == out.Out && fmt.Sprint(ls) == fmt.Sprint(out.Listen)
	}
	return out, nil
}

func init() {
	hx.Register(&hx.Stream{
		Name: "c15.listen",
		Corpus: []interface{}{
			lisIn{Opt: "proxy.addr", Value: ":9999"},
			lisIn{Opt: "proxy.addr", Value: ""},
			lisIn{Opt: "proxy.addr", Value: ":1;proto=HTTP", Src: 0},
			lisIn{Opt: "proxy.addr", Value: ":1;proto=Tcp", Src: 1},
			lisIn{Opt: "proxy.addr", Value: ":1;proto=\"http \"", Src: 2},
			lisIn{Opt: "proxy.addr", Value: ":1;proto=tcp-Dynamic", Src: 3},
			lisIn{Opt: "ui.addr", Value: ":1;proto=GRPC", Src: 0},
			lisIn{Opt: "proxy.addr", Value: ":1;proto=https;cs=mycs,:2;proto=grpc", Cs: "cs=mycs;type=file;cert=c.pem;key=k.pem"},
			lisIn{Opt: "proxy.addr", Value: ":1;cs=mycs", Cs: "cs=mycs;type=file;cert=c.pem;key=k.pem", Src: 1},
			lisIn{Opt: "proxy.addr", Value: ":1;proto=https"},
			lisIn{Opt: "proxy.addr", Value: ":1;proto=grpc;cs=mycs", Cs: "cs=mycs;type=file;cert=c.pem;key=k.pem"},
			lisIn{Opt: "proxy.addr", Value: "proto=tcp"},
			lisIn{Opt: "ui.addr", Value: ""},
			lisIn{Opt: "ui.addr", Value: ":1,:2"},
			lisIn{Opt: "proxy.addr", Value: ":1;addr=:2"},
			lisIn{Opt: "proxy.addr", Value: "addr=:2;proto=tcp;:1", Src: 1},
		},
		Gen: genListen,
		Run: runListen,
	})
}
