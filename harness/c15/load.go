package main

import (
	"bytes"
	"crypto/sha1"
	"encoding/hex"
	"encoding/json"
	"fmt"
	"io"
	"log"
	"os"
	"os/exec"
	"regexp"
	"sort"
	"strconv"
	"strings"
	"sync"
	"time"

	"github.com/fabiolb/fabio/config"
	"github.com/magiconair/properties"
)

// ---- child mode -------------------------------------------------------------------------------------------
//
// config.load builds its FlagSet with flag.ExitOnError, so anything the flag package rejects ends the process.
// The harness binary therefore re-executes itself for the two things that need such a call:
//   FVH_C15_CHILD=usage            print the usage of the real FlagSet (every registered flag with its type word)
//   FVH_C15_CHILD=probe ARG…       run config.Load(["fabio", ARG…]) and exit 0 (a rejected command line exits 2)

func init() {
	log.SetOutput(io.Discard)
	// the properties library ends the process through this hook on an expansion error in Get; turn that
	// into a value we can classify as "error" instead of losing the harness
	properties.ErrorHandler = func(err error) { panic(propsFatal{err}) }
	switch os.Getenv("FVH_C15_CHILD") {
	case "usage":
		config.Load([]string{"fabio", "-h"}, nil)
		os.Exit(0)
	case "probe":
		config.Load(append([]string{"fabio"}, os.Args[1:]...), nil)
		os.Exit(0)
	}
}

type propsFatal struct{ err error }

type flagInfo struct {
	Name string
	Kind string // type word of the usage text: string, int, uint, float, duration, value, or "bool"; "numlist" for a value flag that rejects non-numbers
}

var (
	flagOnce  sync.Once
	flagList  []flagInfo
	flagByKey map[string]flagInfo
)

var usageRe = regexp.MustCompile(`^  -(\S+)(?: (\S+))?(?:\t.*)?$`)

func child(mode string, args ...string) (string, int) {
	exe, err := os.Executable()
	if err != nil {
		return "", -1
	}
	cmd := exec.Command(exe, args...)
	cmd.Env = append(os.Environ(), "FVH_C15_CHILD="+mode)
	var out bytes.Buffer
	cmd.Stdout, cmd.Stderr = &out, &out
	err = cmd.Run()
	code := 0
	if ee, ok := err.(*exec.ExitError); ok {
		code = ee.ExitCode()
	} else if err != nil {
		code = -1
	}
	return out.String(), code
}

// flags enumerates the flags of the real FlagSet built by config.load (through its own usage output).
func flags() []flagInfo {
	flagOnce.Do(func() {
		out, _ := child("usage")
		flagByKey = map[string]flagInfo{}
		for _, ln := range strings.Split(out, "\n") {
			m := usageRe.FindStringSubmatch(ln)
			if m == nil {
				continue
			}
			fi := flagInfo{Name: m[1], Kind: m[2]}
			if fi.Kind == "" {
				fi.Kind = "bool"
			}
			if fi.Kind == "value" {
				if _, code := child("probe", "-"+fi.Name+"=a"); code == 2 {
					fi.Kind = "numlist"
				}
			}
			flagList = append(flagList, fi)
			flagByKey[fi.Name] = fi
		}
		sort.Slice(flagList, func(i, j int) bool { return flagList[i].Name < flagList[j].Name })
		if len(flagList) == 0 {
			fmt.Fprintln(os.Stderr, "c15: could not enumerate the flags of config.load:", out)
			os.Exit(3)
		}
	})
	return flagList
}

// cmdlineOK says whether `-name=value` is accepted by the flag package (so that config.Load will not exit).
func cmdlineOK(name, val string) bool {
	flags()
	fi, ok := flagByKey[name]
	if !ok || name == "cfg" || name == "v" || name == "version" || name == "h" || name == "help" {
		return false
	}
	return kindOK(fi.Kind, val)
}

// kindOK says whether a flag of the given kind takes the value (the parsers the flag package itself uses).
func kindOK(kind, val string) bool {
	switch kind {
	case "bool":
		_, err := strconv.ParseBool(val)
		return err == nil
	case "int":
		_, err := strconv.ParseInt(val, 0, strconv.IntSize)
		return err == nil
	case "uint":
		_, err := strconv.ParseUint(val, 0, strconv.IntSize)
		return err == nil
	case "float":
		_, err := strconv.ParseFloat(val, 64)
		return err == nil
	case "duration":
		_, err := time.ParseDuration(val)
		return err == nil
	case "numlist":
		for _, x := range strings.Split(val, ",") {
			x = strings.TrimSpace(x)
			if x == "" {
				continue
			}
			if _, err := strconv.ParseFloat(x, 64); err != nil {
				return false
			}
		}
		return true
	case "string", "value":
		return true
	}
	return false // a type word we do not know: never risk the command line
}

// ---- running the real Load -------------------------------------------------------------------------------

var (
	tmpOnce sync.Once
	tmpPath string
)

func propsFile(text string) string {
	tmpOnce.Do(func() {
		f, err := os.CreateTemp("", "fvh-c15-*.properties")
		if err != nil {
			panic(err)
		}
		tmpPath = f.Name()
		f.Close()
	})
	if err := os.WriteFile(tmpPath, []byte(text), 0o600); err != nil {
		panic(err)
	}
	return tmpPath
}

func escProp(v string) string {
	var b strings.Builder
	for i, r := range v {
		switch {
		case r == '\\':
			b.WriteString(`\\`)
		case r == '\n':
			b.WriteString(`\n`)
		case r == '\r':
			b.WriteString(`\r`)
		case r == '\t':
			b.WriteString(`\t`)
		case r == '\f':
			b.WriteString(`\f`)
		case r == ' ' && i == 0:
			b.WriteString(`\ `)
		default:
			b.WriteRune(r)
		}
	}
	return b.String()
}

func propsText(kv [][2]string) string {
	var b strings.Builder
	for _, p := range kv {
		b.WriteString(p[0])
		b.WriteString(" = ")
		b.WriteString(escProp(p[1]))
		b.WriteByte('\n')
	}
	return b.String()
}

type loadResult struct {
	Kind string // cfg | err | panic
	Msg  string
	Cfg  *config.Config
}

// doLoad calls the real config.Load. args are (name,value) pairs already known to be acceptable to `flag`.
func doLoad(args [][2]string, env []string, props *string) (res loadResult) {
	cmdline := []string{"fabio"}
	if props != nil {
		cmdline = append(cmdline, "-cfg", propsFile(*props))
	}
	for _, a := range args {
		cmdline = append(cmdline, "-"+a[0]+"="+a[1])
	}
	defer func() {
		if p := recover(); p != nil {
			if pf, ok := p.(propsFatal); ok {
				res = loadResult{Kind: "err", Msg: "properties: " + pf.err.Error()}
				return
			}
			res = loadResult{Kind: "panic", Msg: fmt.Sprint(p)}
		}
	}()
	cfg, err := config.Load(cmdline, env)
	if err != nil {
		return loadResult{Kind: "err", Msg: err.Error()}
	}
	if cfg == nil {
		return loadResult{Kind: "err", Msg: "nil config"}
	}
	return loadResult{Kind: "cfg", Cfg: cfg}
}

func (r loadResult) digest() string {
	h := func(b []byte) string { s := sha1.Sum(b); return hex.EncodeToString(s[:8]) }
	switch r.Kind {
	case "cfg":
		b, err := json.Marshal(r.Cfg)
		if err != nil {
			c := *r.Cfg // e.g. a NaN sampler rate: fall back to the printed form (without the regexp pointer)
			re := c.Proxy.GZIPContentTypes
			c.Proxy.GZIPContentTypes = nil
			b = []byte(fmt.Sprintf("%+v|%v", c, re))
		}
		return "cfg:" + h(b)
	case "err":
		return "err:" + h([]byte(r.Msg))
	}
	return "panic"
}
