package main

import (
	"encoding/json"
	"errors"
	"flag"
	"fmt"
	"io"
	"strings"

	"github.com/fabiolb/fabio/config"
	"verif/harness/hx"
)

// =============================================================================================================
// c15.cmdline — the command line as typed: the real pre-pass (config.parse), the real flag package on a shadow
// flag set with the kinds of the real FlagSet, and the real config.Load on the same argument vector
// =============================================================================================================

type cmdIn struct {
	Argv []string `json:"argv"` // without the program name
	// Intent: the assignments the argument vector is meant to spell, with the form used for each
	// (eq1 -n=v, eq2 --n=v, split1 -n v, split2 --n v, bare1 -n, bare2 --n); null for free-form vectors
	Intent [][3]string `json:"intent"`
	Env    []string    `json:"env"`
}

type cmdPre struct {
	Out  string   `json:"out"` // ok | version | invalid-config | err | panic
	Rest []string `json:"rest"`
	Path string   `json:"path"`
}

type cmdTok struct {
	Err        string      `json:"err"` // "" | help | bad-syntax | undefined | needs-arg | invalid-value | other
	Pairs      [][2]string `json:"pairs"`
	Positional []string    `json:"positional"`
}

type cmdOut struct {
	Pre    cmdPre          `json:"pre"`
	Tok    *cmdTok         `json:"tok"`
	Accept [][3]interface{} `json:"accept"` // (name, value, whether the flag's Set takes it) for every Set the flag package tried
	Direct string          `json:"direct"` // digest of config.Load on the vector as typed; "n/a" when it would end the process
	Canon  string          `json:"canon"`  // digest of config.Load on -name=value for the pairs the flag package saw
	Want   string          `json:"want"`   // digest of config.Load on -name=value for the intended assignments
}

// recorder is a flag.Value that records what the flag package hands to Set.
type recorder struct {
	name string
	kind string
	out  *cmdOut
	tok  *cmdTok
}

func (r *recorder) String() string { return "" }
func (r *recorder) IsBoolFlag() bool { return r.kind == "bool" }
func (r *recorder) Set(v string) error {
	ok := valueOK(r.kind, v)
	r.out.Accept = append(r.out.Accept, [3]interface{}{r.name, v, ok})
	if !ok {
		return errors.New("invalid")
	}
	r.tok.Pairs = append(r.tok.Pairs, [2]string{r.name, v})
	return nil
}

// valueOK: does a flag of this kind take the value (the same parsers the flag package uses)?
func valueOK(kind, v string) bool { return kindOK(kind, v) }

func shadowTokenise(args []string, out *cmdOut) *cmdTok {
	tok := &cmdTok{Pairs: [][2]string{}, Positional: []string{}}
	fs := flag.NewFlagSet("fabio", flag.ContinueOnError)
	fs.SetOutput(io.Discard)
	fs.Usage = func() {}
	for _, fi := range flags() {
		fs.Var(&recorder{name: fi.Name, kind: fi.Kind, out: out, tok: tok}, fi.Name, "")
	}
	err := fs.Parse(args)
	switch {
	case err == nil:
	case err == flag.ErrHelp:
		tok.Err = "help"
	case strings.HasPrefix(err.Error(), "bad flag syntax"):
		tok.Err = "bad-syntax"
	case strings.HasPrefix(err.Error(), "flag provided but not defined"):
		tok.Err = "undefined"
	case strings.HasPrefix(err.Error(), "flag needs an argument"):
		tok.Err = "needs-arg"
	case strings.HasPrefix(err.Error(), "invalid "):
		tok.Err = "invalid-value"
	default:
		tok.Err = "other"
	}
	if err == nil {
		tok.Positional = append(tok.Positional, fs.Args()...)
	}
	return tok
}

func loadArgvDigest(argv, env []string) (d string) {
	defer func() {
		if p := recover(); p != nil {
			if _, ok := p.(propsFatal); ok {
				d = "err:properties"
				return
			}
			d = "panic"
		}
	}()
	cmdline := append([]string{"fabio"}, argv...)
	cfg, err := config.Load(cmdline, append([]string{}, env...))
	if err != nil {
		return loadResult{Kind: "err", Msg: err.Error()}.digest()
	}
	if cfg == nil {
		return "version"
	}
	return loadResult{Kind: "cfg", Cfg: cfg}.digest()
}

func canonArgv(pairs [][2]string) []string {
	var a []string
	for _, p := range pairs {
		a = append(a, "-"+p[0]+"="+p[1])
	}
	return a
}

func runCmdline(raw json.RawMessage) (interface{}, error) {
	var in cmdIn
	if err := json.Unmarshal(raw, &in); err != nil {
		return nil, err
	}
	flags()
	if len(in.Argv) > 64 {
		return nil, fmt.Errorf("argument vector too long")
	}
	out := cmdOut{Direct: "n/a", Canon: "n/a", Want: "n/a", Accept: [][3]interface{}{}}
	// the real pre-pass
	func() {
		defer func() {
			if p := recover(); p != nil {
				out.Pre = cmdPre{Out: "panic"}
			}
		}()
		rest, path, version, err := config.VerifParse(append([]string{"fabio"}, in.Argv...))
		switch {
		case err != nil && err.Error() == "invalid or missing path to config file":
			out.Pre = cmdPre{Out: "invalid-config"}
		case err != nil:
			out.Pre = cmdPre{Out: "err"}
		case version:
			out.Pre = cmdPre{Out: "version"}
		default:
			if len(rest) < 1 {
				out.Pre = cmdPre{Out: "err"}
				return
			}
			out.Pre = cmdPre{Out: "ok", Rest: append([]string{}, rest[1:]...), Path: path}
		}
	}()
	if out.Pre.Rest == nil {
		out.Pre.Rest = []string{}
	}
	if out.Pre.Out != "ok" {
		if out.Pre.Out == "version" || out.Pre.Out == "invalid-config" {
			out.Direct = loadArgvDigest(in.Argv, in.Env) // no flag set is built on these paths
		}
		return out, nil
	}
	// the real flag package on a shadow flag set with the names and kinds of the real one
	out.Tok = shadowTokenise(out.Pre.Rest, &out)
	if out.Tok.Err == "" && out.Pre.Path == "" {
		// the flag package accepts the vector, so config.Load will not end the process
		out.Direct = loadArgvDigest(in.Argv, in.Env)
		out.Canon = loadArgvDigest(canonArgv(out.Tok.Pairs), in.Env)
	}
	if in.Intent != nil {
		ok := true
		var pairs [][2]string
		for _, t := range in.Intent {
			ok = ok && cmdlineOK(t[0], t[1])
			pairs = append(pairs, [2]string{t[0], t[1]})
		}
		if ok {
			out.Want = loadArgvDigest(canonArgv(pairs), in.Env)
		}
	}
	return out, nil
}

// values that look like arguments: what a pre-pass or a tokeniser could mistake for something else
var argLikeValues = []string{"v", "version", "cfg", "cfg=x", "test.fabio", "test.", "h", "help", "true", "false",
	"-v", "-version", "--version", "-cfg", "--cfg", "-cfg=x", "--cfg=y", "-test.v", "-test.run=X", "-x", "--", "-", "--x=1",
	"=", "a=b", "-ui.title=z", "--ui.color", "'q'", "\"q\"", ""}

func spellOne(name, value, form string) []string {
	switch form {
	case "eq1":
		return []string{"-" + name + "=" + value}
	case "eq2":
		return []string{"--" + name + "=" + value}
	case "split1":
		return []string{"-" + name, value}
	case "split2":
		return []string{"--" + name, value}
	case "bare1":
		return []string{"-" + name}
	}
	return []string{"--" + name}
}

func genCmdline(r *hx.Rand, i int) interface{} {
	var usable []flagInfo
	for _, f := range flags() {
		if f.Name != "cfg" && f.Name != "v" && f.Name != "version" {
			usable = append(usable, f)
		}
	}
	in := cmdIn{Argv: []string{}, Env: []string{}}
	if i%5 == 4 { // free-form vectors: pre-pass words, malformed flags, terminators, bool flags followed by values
		words := []string{"-v", "-version", "--version", "--v", "-cfg", "--cfg", "-cfg=", "-cfg=''", "--cfg=\"\"", "-cfg='p'", "--cfg=\"p\"", "-cfg=p",
			"-test.v", "-test.", "--test.v", "--", "-", "---x", "-=x", "--=", "x", "", "-h", "-help", "--help", "-nosuch", "-nosuch=1",
			"-ui.title", "-ui.title=a", "--ui.title", "-proxy.maxconn", "5", "abc", "-insecure", "-insecure=false", "false", "-insecure=maybe",
			"-proxy.maxconn=abc", "-ui.color=red", "-glob.cache.size", "7"}
		for n := r.Range(0, 5); n > 0; n-- {
			in.Argv = append(in.Argv, r.Pick(words))
		}
		return in
	}
	in.Intent = [][3]string{}
	for n := r.Range(1, 4); n > 0; n-- {
		fi := usable[(i+n*37)%len(usable)]
		if r.Chance(1, 3) {
			fi = usable[r.Intn(len(usable))]
		}
		v := genValue(r, fi)
		if (fi.Kind == "string" || fi.Kind == "value") && r.Chance(1, 3) {
			v = r.Pick(argLikeValues)
		}
		if !cmdlineOK(fi.Name, v) || strings.Contains(v, "${") {
			continue
		}
		var form string
		if fi.Kind == "bool" {
			form = r.Pick([]string{"eq1", "eq2", "bare1", "bare2"})
			if form == "bare1" || form == "bare2" {
				v = "true"
			}
		} else {
			form = r.Pick([]string{"eq1", "eq2", "split1", "split2", "split1"})
		}
		in.Intent = append(in.Intent, [3]string{fi.Name, v, form})
		in.Argv = append(in.Argv, spellOne(fi.Name, v, form)...)
	}
	if r.Chance(1, 4) && len(in.Intent) > 0 { // a lower-priority source for the same option: the command line must still win
		t := in.Intent[r.Intn(len(in.Intent))]
		if fi, ok := flagByKey[t[0]]; ok {
			in.Env = append(in.Env, envVarName("FABIO_", t[0])+"="+genValue(r, fi))
		}
	}
	return in
}

func init() {
	hx.Register(&hx.Stream{
		Name: "c15.cmdline",
		Corpus: []interface{}{
			cmdIn{Argv: []string{}, Intent: [][3]string{}, Env: []string{}},
			// the excluded point of cmdline_spelling_partial and its one-argument counterpart
			cmdIn{Argv: []string{"-ui.title", "-v"}, Intent: [][3]string{{"ui.title", "-v", "split1"}}, Env: []string{}},
			cmdIn{Argv: []string{"-ui.title=-v"}, Intent: [][3]string{{"ui.title", "-v", "eq1"}}, Env: []string{}},
			cmdIn{Argv: []string{"--ui.title", "-cfg"}, Intent: [][3]string{{"ui.title", "-cfg", "split2"}}, Env: []string{}},
			cmdIn{Argv: []string{"-ui.title", "-test.x", "-ui.color", "red"}, Intent: [][3]string{{"ui.title", "-test.x", "split1"}, {"ui.color", "red", "split1"}}, Env: []string{}},
			// values that only look like pre-pass words
			cmdIn{Argv: []string{"-metrics.prefix", "test.fabio", "-ui.color", "red"}, Intent: [][3]string{{"metrics.prefix", "test.fabio", "split1"}, {"ui.color", "red", "split1"}}, Env: []string{}},
			cmdIn{Argv: []string{"-ui.title", "v"}, Intent: [][3]string{{"ui.title", "v", "split1"}}, Env: []string{}},
			cmdIn{Argv: []string{"--ui.title", "version"}, Intent: [][3]string{{"ui.title", "version", "split2"}}, Env: []string{}},
			cmdIn{Argv: []string{"-ui.title", "cfg", "-ui.color", "blue"}, Intent: [][3]string{{"ui.title", "cfg", "split1"}, {"ui.color", "blue", "split1"}}, Env: []string{}},
			cmdIn{Argv: []string{"-ui.title", "cfg=/nonexistent"}, Intent: [][3]string{{"ui.title", "cfg=/nonexistent", "split1"}}, Env: []string{}},
			cmdIn{Argv: []string{"-insecure", "--ui.title=x", "-proxy.maxconn", "7"}, Intent: [][3]string{{"insecure", "true", "bare1"}, {"ui.title", "x", "eq2"}, {"proxy.maxconn", "7", "split1"}}, Env: []string{"FABIO_PROXY_MAXCONN=9"}},
			cmdIn{Argv: []string{"-cfg"}, Env: []string{}},
			cmdIn{Argv: []string{"-x", "-cfg"}, Env: []string{}},
			cmdIn{Argv: []string{"-cfg=''"}, Env: []string{}},
			cmdIn{Argv: []string{"-insecure", "false", "-ui.title=x"}, Env: []string{}},
			cmdIn{Argv: []string{"--", "-ui.title=x"}, Env: []string{}},
			cmdIn{Argv: []string{"-ui.title"}, Env: []string{}},
			cmdIn{Argv: []string{"---x"}, Env: []string{}},
			cmdIn{Argv: []string{"-h"}, Env: []string{}},
		},
		Gen: genCmdline,
		Run: runCmdline,
	})
}
