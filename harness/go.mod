module verif/harness

go 1.24.0

require github.com/fabiolb/fabio v0.0.0

require (
	github.com/GehirnInc/crypt v0.0.0-20230320061759-8cc1b52080c5 // indirect
	github.com/VividCortex/gohistogram v1.0.0 // indirect
	github.com/armon/go-metrics v0.4.1 // indirect
	github.com/beorn7/perks v1.0.1 // indirect
	github.com/cenkalti/backoff/v4 v4.3.0 // indirect
	github.com/cespare/xxhash/v2 v2.3.0 // indirect
	github.com/circonus-labs/circonus-gometrics/v3 v3.4.7 // indirect
	github.com/circonus-labs/go-apiclient v0.7.24 // indirect
	github.com/fatih/color v1.18.0 // indirect
	github.com/go-jose/go-jose/v4 v4.0.5 // indirect
	github.com/go-kit/kit v0.13.0 // indirect
	github.com/go-kit/log v0.2.1 // indirect
	github.com/go-logfmt/logfmt v0.6.0 // indirect
	github.com/gobwas/glob v0.2.3 // indirect
	github.com/hashicorp/consul/api v1.31.2 // indirect
	github.com/hashicorp/errwrap v1.1.0 // indirect
	github.com/hashicorp/go-cleanhttp v0.5.2 // indirect
	github.com/hashicorp/go-hclog v1.6.3 // indirect
	github.com/hashicorp/go-immutable-radix v1.3.1 // indirect
	github.com/hashicorp/go-metrics v0.5.4 // indirect
	github.com/hashicorp/go-multierror v1.1.1 // indirect
	github.com/hashicorp/go-retryablehttp v0.7.7 // indirect
	github.com/hashicorp/go-rootcerts v1.0.2 // indirect
	github.com/hashicorp/go-secure-stdlib/parseutil v0.1.9 // indirect
	github.com/hashicorp/go-secure-stdlib/strutil v0.1.2 // indirect
	github.com/hashicorp/go-sockaddr v1.0.7 // indirect
	github.com/hashicorp/golang-lru v1.0.2 // indirect
	github.com/hashicorp/hcl v1.0.1-vault-7 // indirect
	github.com/hashicorp/serf v0.10.2 // indirect
	github.com/hashicorp/vault/api v1.16.0 // indirect
	github.com/hashicorp/vault/sdk v0.15.0 // indirect
	github.com/magiconair/properties v1.8.9 // indirect
	github.com/mattn/go-colorable v0.1.14 // indirect
	github.com/mattn/go-isatty v0.0.20 // indirect
	github.com/mitchellh/mapstructure v1.5.0 // indirect
	github.com/munnerz/goautoneg v0.0.0-20191010083416-a7dc8b61c822 // indirect
	github.com/openhistogram/circonusllhist v0.4.1 // indirect
	github.com/pkg/errors v0.9.1 // indirect
	github.com/prometheus/client_golang v1.21.0 // indirect
	github.com/prometheus/client_model v0.6.1 // indirect
	github.com/prometheus/common v0.62.0 // indirect
	github.com/prometheus/procfs v0.15.1 // indirect
	github.com/ryanuber/go-glob v1.0.0 // indirect
	github.com/tg123/go-htpasswd v1.2.3 // indirect
	github.com/tv42/httpunix v0.0.0-20191220191345-2ba4b9c3382c // indirect
	golang.org/x/crypto v0.35.0 // indirect
	golang.org/x/exp v0.0.0-20250218142911-aa4b98e5adaa // indirect
	golang.org/x/net v0.36.0 // indirect
	golang.org/x/sync v0.11.0 // indirect
	golang.org/x/sys v0.30.0 // indirect
	golang.org/x/text v0.22.0 // indirect
	golang.org/x/time v0.10.0 // indirect
	google.golang.org/protobuf v1.36.5 // indirect
)

replace github.com/fabiolb/fabio => /repo
