module verif/harness

go 1.24.0

require github.com/fabiolb/fabio v0.0.0

replace github.com/fabiolb/fabio => /repo
