package main

import (
	"encoding/json"
	"net/url"
	"strings"

	"github.com/fabiolb/fabio/config"
	"github.com/fabiolb/fabio/proxy"
	"github.com/fabiolb/fabio/route"
	"verif/harness/hx"
)

// c03.grpc — the second caller of Table.Lookup: GrpcProxyInterceptor.lookup builds a synthetic request from
// the call's metadata (Host = the single value of "dsthost", else empty; headers = the metadata; no TLS) and
// the full method name (URL path) and asks the active table with the configured picker, matcher, glob cache
// and glob switch. Same input, same observables and the same model and specification as c03.lookup: a gRPC
// call is routed like the plain HTTP request with that host and path.
func runGRPC(raw json.RawMessage) (interface{}, error) {
	return runLookupVia(raw, func(t route.Table, in *lookupIn) (*route.Target, bool) {
		u, err := url.ParseRequestURI(in.Path)
		if err != nil || u.Path != in.Path || u.RawQuery != "" || in.TLS {
			return nil, true // not a method name the interceptor would see as this path
		}
		md := map[string][]string{}
		for k, v := range in.Headers {
			md[strings.ToLower(k)] = []string{v}
		}
		if in.Trace != "" {
			md["trace"] = []string{in.Trace}
		}
		switch {
		case in.Host != "":
			md["dsthost"] = []string{in.Host}
		case len(in.DstHosts) != 1:
			md["dsthost"] = in.DstHosts
		}
		cfg := &config.Config{GlobMatchingDisabled: in.NoGlob}
		cfg.Proxy.Strategy = "rr"
		cfg.Proxy.Matcher = in.Matcher
		g := proxy.GrpcProxyInterceptor{Config: cfg, GlobCache: route.NewGlobCache(7)}
		old := route.GetTable()
		route.SetTable(t)
		defer route.SetTable(old)
		tg, err := proxy.VerifC03GRPCLookup(g, md, in.Path)
		if err != nil {
			return nil, true
		}
		return tg, false
	})
}

func genGRPC(r *hx.Rand, i int) interface{} {
	in := genLookup(r, i).(lookupIn)
	in.TLS = false
	if in.Path == "" || !strings.HasPrefix(in.Path, "/") {
		in.Path = "/" + in.Path
	}
	// the interceptor routes with an empty host unless "dsthost" has exactly one value
	if r.Chance(1, 8) {
		switch r.Intn(3) {
		case 0:
			in.DstHosts = nil
		case 1:
			in.DstHosts = []string{in.Host, "b.com"}
		default:
			in.DstHosts = []string{"foo.com", "foo.com"}
		}
		in.Host = ""
	}
	return in
}

func init() {
	hx.Register(&hx.Stream{
		Name: "c03.grpc",
		Gen:  genGRPC,
		Run:  runGRPC,
	})
}
