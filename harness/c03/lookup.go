package main

import (
	"encoding/json"
	"fmt"
	"io"
	"log"
	"net/http"
	"strings"

	"github.com/fabiolb/fabio/route"
	"verif/harness/hx"
	"verif/harness/rt"
)

// c03.lookup — a routing table built by the real NewTableCustom / NewTable from a small universe engineered
// for overlap, one request, a matcher and the host-glob switch; the real Table.Lookup answers. Observable:
// the table skeleton (host keys, route paths in table order, targets), the matching host list, and the
// (route host, route path, service, url) of the returned target or null.
type lookupIn struct {
	Defs    []rt.Def `json:"defs"`
	Text    bool     `json:"text,omitempty"` // build through the command-language parser
	Host    string   `json:"host"`
	TLS     bool     `json:"tls"`
	Path    string   `json:"path"`
	Matcher string   `json:"matcher"`
	NoGlob  bool     `json:"noglob"`
	// request headers that describe the connection as a proxy in front of fabio saw it (X-Forwarded-Proto,
	// X-Forwarded-Host, X-Forwarded-Port, Forwarded). Routing looks at Host, the connection (TLS or not) and
	// the path only: the model does not read this field.
	Headers map[string]string `json:"headers,omitempty"`
	// value of the "trace" request header that the two callers hand to Lookup (tracing only logs)
	Trace string `json:"trace,omitempty"`
	// c03.grpc: the values of the "dsthost" metadata key when there is not exactly one (the interceptor then
	// routes with an empty host); with exactly one value that value is Host
	DstHosts []string `json:"dsthosts,omitempty"`
}

// request builds the request value of the case: Host, TLS state, path and the headers.
func (in *lookupIn) request() *http.Request {
	req := route.VerifRequest(in.Host, in.TLS, in.Path)
	for k, v := range in.Headers {
		req.Header.Set(k, v)
	}
	return req
}

type skRoute struct {
	Path    string     `json:"path"`
	N       int        `json:"n"`
	Targets [][]string `json:"targets"`
}
type skHost struct {
	Host   string    `json:"host"`
	Routes []skRoute `json:"routes"`
}

func skeleton(t route.Table) []skHost {
	out := []skHost{}
	for _, h := range route.VerifDump(t, false) {
		sh := skHost{Host: h.Host, Routes: []skRoute{}}
		for _, r := range h.Routes {
			sr := skRoute{Path: r.Path, N: len(r.Targets), Targets: [][]string{}}
			for _, tg := range r.Targets {
				sr.Targets = append(sr.Targets, []string{tg.Service, tg.URL})
			}
			sh.Routes = append(sh.Routes, sr)
		}
		out = append(out, sh)
	}
	return out
}

func errClass(err error) string {
	s := err.Error()
	switch {
	case s == "route: prefix must not be empty":
		return "invalidPrefix"
	case s == "route: target must not be empty":
		return "invalidTarget"
	case s == "route: no target match":
		return "noMatch"
	case strings.HasPrefix(s, "route: invalid target"):
		return "badURL"
	case strings.HasPrefix(s, "route: invalid command"):
		return "invalidCommand"
	}
	return "badGlob"
}

func buildTable(defs []rt.Def, text bool) (route.Table, error) {
	if text {
		return route.VerifNewTable(rt.Text(defs))
	}
	rds := make([]route.RouteDef, len(defs))
	for i := range defs {
		rds[i] = defs[i].RouteDef()
	}
	return route.NewTableCustom(&rds)
}

// oracle: the model's external parameters evaluated by the real libraries on every string that can reach
// them for this case.
func lookupOracle(in *lookupIn) map[string]interface{} {
	o := rt.Oracle(in.Defs)
	globs := o["glob"].(map[string]interface{})
	hostglob := map[string]interface{}{}
	pathglob := map[string]interface{}{}
	nh := route.VerifNormalizeHost(in.Host, in.TLS, true)
	for i := range in.Defs {
		d := &in.Defs[i]
		if d.Src == "" {
			continue
		}
		h, p := route.VerifHostpath(d.Src)
		h = strings.ToLower(h)
		globs[h] = route.VerifGlobOK(h)
		np := route.VerifNormalizeHost(h, in.TLS, true)
		m, _ := route.VerifGlobMatch(np, nh)
		hostglob[np] = m
		m, _ = route.VerifGlobMatch(p, in.Path)
		pathglob[p] = m
	}
	o["hostglob"] = hostglob
	o["pathglob"] = pathglob
	return o
}

// runLookup returns, next to the observables, the oracle (recomputed from the input on every run, so that
// shrunk and replayed inputs stay self-consistent). A panic of the real code is reported as
// {"panic": text, "oracle": …}.
func runLookup(raw json.RawMessage) (res interface{}, err error) {
	return runLookupVia(raw, nil)
}

// runLookupVia: entry == nil asks Table.Lookup itself; otherwise entry is another caller of it (the gRPC
// interceptor) that answers for the table and the case.
func runLookupVia(raw json.RawMessage, entry func(t route.Table, in *lookupIn) (tg *route.Target, skip bool)) (res interface{}, err error) {
	var in lookupIn
	if err := json.Unmarshal(raw, &in); err != nil {
		return nil, err
	}
	for i := range in.Defs {
		in.Defs[i].Fill()
	}
	match := route.Matcher[in.Matcher]
	if match == nil {
		return nil, errUnknownMatcher
	}
	orc := lookupOracle(&in)
	defer func() {
		if p := recover(); p != nil {
			res, err = map[string]interface{}{"panic": fmt.Sprint(p), "oracle": orc}, nil
		}
	}()
	t, err := buildTable(in.Defs, in.Text)
	if err != nil {
		return map[string]interface{}{"error": errClass(err), "oracle": orc}, nil
	}
	var gc *route.GlobCache
	if !in.NoGlob {
		gc = route.NewGlobCache(3) // small on purpose: eviction happens within one lookup
	}
	out := map[string]interface{}{"table": skeleton(t), "oracle": orc}
	hosts := route.VerifMatchingHosts(t, in.request(), gc)
	if hosts == nil {
		hosts = []string{}
	}
	out["hosts"] = hosts
	var gc2 *route.GlobCache
	if !in.NoGlob {
		gc2 = route.NewGlobCache(1000)
	} else {
		gc2 = route.NewGlobCache(1) // Lookup must not touch it
	}
	var tg *route.Target
	if entry != nil {
		var skip bool
		if tg, skip = entry(t, &in); skip {
			out["skip"] = true
			return out, nil
		}
	} else {
		tg = t.Lookup(in.request(), in.Trace, route.Picker["rr"], match, gc2, in.NoGlob)
	}
	if tg == nil {
		out["res"] = nil
		return out, nil
	}
	h, p, ok := route.VerifRouteOf(t, tg)
	if !ok {
		h, p = "?not-in-table", "?"
	}
	out["res"] = map[string]interface{}{"host": h, "path": p, "service": tg.Service, "url": tg.URL.String()}
	return out, nil
}

type harnessErr string

func (e harnessErr) Error() string { return string(e) }

const errUnknownMatcher = harnessErr("unknown matcher")

// ---- generator ----

var (
	svcs     = []string{"s-a", "s-b", "s-c"}
	dsts     = []string{"http://a:1/", "http://b:2/", "http://c:3/", "https://d:4/x"}
	rtHosts  = []string{"", "", "", "foo.com", "foo.com", "Foo.com", "FOO.COM", "a.foo.com", "b.a.foo.com", "*.foo.com", "*.foo.com", "*.a.foo.com", "*foo.com", "*.com", "*", "foo.com:80", "foo.com:443", "foo.com:8443", "*.foo.com:8443", "*.foo.com:80", "a.com", "b.com", "a1.com", ":1234"}
	rtHostsX = []string{"a?.com", "?.foo.com", "{a,b}.foo.com", "[ab].foo.com", "foo.*", "*.f?o.com", "a*.foo.com", "**.foo.com", "[::1]:8080", "{foo,bar}.com"}
	rtHostsB = []string{"[", "a[b", "[a-]", "{a", "foo\\:80"}
	rtPaths  = []string{"/", "/", "/", "/foo", "/foo", "/foo/bar", "/foo/", "/FOO", "/FOOBAR", "/Foo/Bar", "/fo", "/bar", "/f*", "/foo/*", "/*/bar", "/foo/ba?", "/*", "/foo*"}
	rqLabels = []string{"foo.com", "foo.com", "FOO.com", "Foo.Com", "a.foo.com", "A.FOO.COM", "b.a.foo.com", "B.a.Foo.com", "x.foo.com", "afoo.com", "a.com", "b.com", "a1.com", "A1.com", "com", "", "[::1]"}
	rqPorts  = []string{"", "", "", ":80", ":80", ":443", ":443", ":8443", ":8080"}
	matchers = []string{"prefix", "prefix", "prefix", "iprefix", "iprefix", "iprefix", "glob", "glob"}
)

// nested wildcard families: keys that are suffixes of one another ("a longer host suffix beats a shorter
// one"), with and without explicit ports, with the characters that sort around '*' and ':' in front of the
// common suffix, and request hosts that most of them match.
var (
	nestTails = []string{".foo.com", ".foo.com", "foo.com", ".com", ""}
	nestPorts = []string{"", "", ":8443", ":8443", ":8080", ":80", ":443"}
	nestHeads = []string{"*", "*", "*", "*.*", "*.*", "*-*", "*.a", "*.a", "*-eu", "*-eu.*", "*.b.a", "**", "*a*", "*1*", "*!", "*$", "*(", "*.*.*", "a*", "?*", "[ab]", "{a,b}", "*.[ab]", "b.*"}
	nestSubs  = []string{"a", "b", "x", "a.b", "b.a", "c.b.a", "b-eu", "x-eu.a", "a!", "b$", "x(", "1", "a1b", "b.a.b"}
)

func genNest(r *hx.Rand) (fam []string, hosts []string) {
	tail := r.Pick(nestTails)
	port := r.Pick(nestPorts)
	for k := 2 + r.Intn(3); k > 0; k-- {
		p := port
		if r.Chance(1, 6) {
			p = r.Pick(nestPorts)
		}
		fam = append(fam, r.Pick(nestHeads)+tail+p)
	}
	if r.Chance(1, 4) {
		fam = append(fam, strings.TrimPrefix(tail, ".")+port) // the exact host of the family
	}
	for k := 0; k < 3; k++ {
		hosts = append(hosts, r.Pick(nestSubs)+tail+port)
	}
	return fam, hosts
}

func recase(r *hx.Rand, s string) string {
	switch r.Intn(6) {
	case 0:
		return strings.ToUpper(s)
	case 1:
		return strings.ToLower(s)
	case 2:
		b := []byte(s)
		for i := range b {
			if r.Chance(1, 2) {
				b[i] = strings.ToUpper(string(b[i]))[0]
			}
		}
		return string(b)
	}
	return s
}

// instantiate turns a host key of the table into a request host that it matches (most of the time).
func instantiate(r *hx.Rand, key string, isTLS bool) string {
	h := key
	port := ""
	if i := strings.LastIndex(h, ":"); i >= 0 && !strings.HasSuffix(h, "]") {
		h, port = h[:i], h[i:]
	}
	switch {
	case h == "*":
		h = r.Pick([]string{"foo.com", "a.foo.com", "b.com"})
	case strings.HasPrefix(h, "*."):
		h = r.Pick([]string{"a", "x", "b.a", "b"}) + h[1:]
	case strings.HasPrefix(h, "*"):
		h = r.Pick([]string{"", "", "a", "a."}) + h[1:]
	}
	h = strings.NewReplacer("*", "x", "?", r.Pick([]string{"a", "1"}), "{a,b}", "a", "[ab]", "b", "{foo,bar}", "foo").Replace(h)
	if h == "" {
		h = r.Pick(rqLabels)
	}
	switch r.Intn(10) {
	case 0, 1, 2, 3, 4: // keep the key's port
	case 5, 6:
		port = ""
	case 7, 8: // the default port of the connection
		if port == "" || port == ":80" || port == ":443" {
			port = ":80"
			if isTLS {
				port = ":443"
			}
		}
	default:
		port = r.Pick(rqPorts)
	}
	return recase(r, h) + port
}

func genLookup(r *hx.Rand, i int) interface{} {
	n := 1 + r.Intn(12)
	if n < 5 && r.Chance(5, 6) {
		n += 4
	}
	var in lookupIn
	malformed := r.Chance(1, 40)
	exotic := r.Chance(1, 5)
	// a family of a few host keys so that several routes share a host and several keys match one request
	fam := []string{}
	for k := 1 + r.Intn(4); k > 0; k-- {
		h := r.Pick(rtHosts)
		if exotic && r.Chance(1, 3) {
			h = r.Pick(rtHostsX)
		}
		if malformed && r.Chance(1, 3) {
			h = r.Pick(rtHostsB)
		}
		fam = append(fam, h)
	}
	var nestHosts []string
	if r.Chance(1, 5) {
		var nf []string
		nf, nestHosts = genNest(r)
		if r.Chance(1, 2) {
			fam = nf
		} else {
			fam = append(fam[:1], nf...)
		}
	}
	if r.Chance(2, 3) {
		fam = append(fam, "")
	}
	// about one third of the tables go through deletions and weight changes: half of those from the shared
	// script generator (every form of `route del` and `route weight`), half from adds with dense tags
	// followed by one to three deletions aimed at what was added (by tags, by service and tags, by service,
	// by service and prefix, by service, prefix and target)
	mode := r.Intn(6)
	if mode == 0 {
		u := rt.Universe{Services: svcs, Hosts: fam, Paths: rtPaths, Dsts: dsts, Tags: []string{"a", "b"},
			Weights: rt.Small.Weights, Opts: [][]string{{"strip", "/foo"}, {"host", "dst"}, {"proto", "https"}}}
		in.Defs = u.GenScript(r, n+6)
		if in.Defs[0].Cmd != "add" {
			in.Defs[0] = rt.Def{Cmd: "add", Service: r.Pick(svcs), Src: r.Pick(fam) + "/", Dst: r.Pick(dsts)}
			if strings.HasPrefix(in.Defs[0].Src, ":") {
				in.Defs[0].Src = strings.TrimSuffix(in.Defs[0].Src, "/")
			}
		}
		// a weight command that matches nothing fails the whole build: keep such scripts rare
		if _, err := buildTable(in.Defs, false); err != nil && r.Chance(4, 5) {
			var keep []rt.Def
			for _, d := range in.Defs {
				if d.Cmd != "weight" {
					keep = append(keep, d)
				}
			}
			in.Defs = keep
		}
	} else {
		for k := 0; k < n; k++ {
			h := r.Pick(fam)
			if k < len(fam) && r.Chance(1, 2) {
				h = fam[k] // most hosts of the family get at least one route
			}
			src := h
			if !strings.HasPrefix(h, ":") {
				src = h + r.Pick(rtPaths)
				if k < len(fam) && r.Chance(3, 4) {
					src = h + "/"
				}
			}
			d := rt.Def{Cmd: "add", Service: r.Pick(svcs), Src: src, Dst: r.Pick(dsts)}
			if r.Chance(1, 6) {
				d.WText = r.Pick([]string{"0.1", "0.5", "1"})
			}
			if r.Chance(1, 8) || (mode == 1 && r.Chance(3, 5)) {
				d.Tags = []string{r.Pick([]string{"a", "b"})}
				if r.Chance(1, 4) {
					d.Tags = append(d.Tags, r.Pick([]string{"a", "b", "c"}))
				}
			}
			d.Fill()
			in.Defs = append(in.Defs, d)
		}
		ndel := 0
		if mode == 1 {
			ndel = 1 + r.Intn(3)
		} else if r.Chance(1, 8) && len(in.Defs) > 1 {
			ndel = 1
		}
		nadd := len(in.Defs)
		for ; ndel > 0; ndel-- {
			v := in.Defs[r.Intn(nadd)]
			d := rt.Def{Cmd: "del"}
			switch r.Intn(6) {
			case 0, 1: // by tags only
				d.Tags = []string{r.Pick([]string{"a", "b"})}
				if len(v.Tags) > 0 && r.Chance(1, 2) {
					d.Tags = []string{v.Tags[0]}
				}
			case 2: // by service and tags
				d.Service = v.Service
				d.Tags = []string{r.Pick([]string{"a", "b"})}
				if len(v.Tags) > 0 && r.Chance(2, 3) {
					d.Tags = []string{v.Tags[0]}
				}
			case 3: // by service
				d.Service = v.Service
			case 4: // by service and prefix
				d.Service, d.Src = v.Service, v.Src
			default: // by service, prefix and target
				d.Service, d.Src, d.Dst = v.Service, v.Src, v.Dst
			}
			in.Defs = append(in.Defs, d)
		}
	}
	in.Text = r.Chance(1, 3)
	in.TLS = r.Chance(1, 3)
	in.Matcher = r.Pick(matchers)
	in.NoGlob = r.Chance(1, 4)
	// request: aim at one route of the table most of the time (its host key instantiated, its path extended)
	var adds []rt.Def
	for _, d := range in.Defs {
		if d.Cmd == "add" && d.Src != "" {
			adds = append(adds, d)
		}
	}
	v := adds[r.Intn(len(adds))]
	vh, vp := route.VerifHostpath(v.Src)
	if len(nestHosts) > 0 && r.Chance(3, 4) {
		in.Host = r.Pick(nestHosts)
		if r.Chance(1, 4) {
			in.Host = recase(r, in.Host)
		}
		if i := strings.LastIndex(in.Host, ":"); i < 0 && r.Chance(1, 4) {
			in.Host += ":80"
			if in.TLS {
				in.Host = strings.TrimSuffix(in.Host, ":80") + ":443"
			}
		}
	} else if r.Chance(6, 7) {
		k := vh
		if k == "" || r.Chance(1, 5) {
			k = r.Pick(fam)
		}
		in.Host = instantiate(r, k, in.TLS)
	} else {
		in.Host = r.Pick(rqLabels) + r.Pick(rqPorts)
	}
	if r.Chance(1, 5) {
		_, vp = route.VerifHostpath(adds[r.Intn(len(adds))].Src)
	}
	if r.Chance(7, 8) {
		p := strings.NewReplacer("*", "x", "?", "y").Replace(vp)
		if in.Matcher == "glob" && r.Chance(2, 3) {
			in.Path = p
		} else {
			in.Path = p + r.Pick([]string{"", "", "", "/x", "bar", "/bar", "/bar/baz", "x"})
		}
		if r.Chance(1, 4) && (in.Matcher == "iprefix" || r.Chance(1, 2)) {
			in.Path = recase(r, in.Path)
		}
	} else {
		in.Path = r.Pick([]string{"/", "/nomatch", "/foobar", "/FOO/BAR", "/foo/bar/baz", ""})
	}
	// one request in five carries headers of a proxy in front of fabio; half of those contradict the
	// connection the request arrived on (plain connection, "https" in the header and vice versa)
	if r.Chance(1, 5) {
		in.Headers = map[string]string{}
		proto, other := "http", "https"
		if in.TLS {
			proto, other = other, proto
		}
		if r.Chance(1, 2) {
			proto = other
		}
		switch r.Intn(5) {
		case 0, 1, 2:
			in.Headers["X-Forwarded-Proto"] = proto
		case 3:
			in.Headers["X-Forwarded-Proto"] = proto
			in.Headers["X-Forwarded-Port"] = map[string]string{"http": "80", "https": "443"}[proto]
			in.Headers["X-Forwarded-Host"] = r.Pick(rqLabels) + r.Pick(rqPorts)
		default:
			in.Headers["Forwarded"] = "for=1.2.3.4; proto=" + proto + "; host=" + r.Pick(rqLabels)
		}
	}
	if r.Chance(1, 10) {
		in.Trace = r.Pick([]string{"t", "trace-id-0123456", "trace-id-0123456789abcdef"})
	}
	return in
}

func init() {
	log.SetOutput(io.Discard) // tracing and the "no route" warnings log

	hx.Register(&hx.Stream{
		Name: "c03.lookup",
		Gen:  genLookup,
		Run:  runLookup,
	})
}
