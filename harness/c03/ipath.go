package main

import (
	"encoding/json"
	"fmt"
	"strings"

	"github.com/fabiolb/fabio/route"
	"verif/harness/hx"
	"verif/harness/rt"
)

// c03.ipath — the routes of ONE host with paths beyond ASCII: the order NewTableCustom leaves them in
// (Routes.Less folds with strings.ToLower) and the route Table.Lookup answers with under the prefix, iprefix
// and glob matchers (iPrefixMatcher folds with strings.ToLower as well). The shared table model folds ASCII
// only; this stream carries the per-host part with the model of unicode.ToLower (Model/C03Fold.lean) and ships
// strings.ToLower of every string it uses, so the model of the folding is compared on every case.
type ipathIn struct {
	Host    string   `json:"host"` // "" = host-less routes
	Paths   []string `json:"paths"`
	URI     string   `json:"uri"`
	Matcher string   `json:"matcher"`
	NoGlob  bool     `json:"noglob"`
}

func runIPath(raw json.RawMessage) (res interface{}, err error) {
	var in ipathIn
	if err := json.Unmarshal(raw, &in); err != nil {
		return nil, err
	}
	match := route.Matcher[in.Matcher]
	if match == nil {
		return nil, errUnknownMatcher
	}
	lower := map[string]string{in.URI: strings.ToLower(in.URI)}
	pathglob := map[string]interface{}{}
	var rds []route.RouteDef
	for i, p := range in.Paths {
		if !strings.HasPrefix(p, "/") {
			return nil, harnessErr("path without leading slash")
		}
		lower[p] = strings.ToLower(p)
		m, _ := route.VerifGlobMatch(p, in.URI)
		pathglob[p] = m
		d := rt.Def{Cmd: "add", Service: fmt.Sprintf("s%d", i), Src: in.Host + p, Dst: fmt.Sprintf("http://h%d:1/", i)}
		rds = append(rds, d.RouteDef())
	}
	out := map[string]interface{}{"lower": lower, "pathglob": pathglob}
	defer func() {
		if p := recover(); p != nil {
			res, err = map[string]interface{}{"panic": fmt.Sprint(p), "lower": lower, "pathglob": pathglob}, nil
		}
	}()
	t, err := route.NewTableCustom(&rds)
	if err != nil {
		out["error"] = errClass(err)
		return out, nil
	}
	order := []string{}
	for _, h := range skeleton(t) {
		if h.Host == strings.ToLower(in.Host) {
			for _, r := range h.Routes {
				order = append(order, r.Path)
			}
		}
	}
	out["order"] = order
	var gc *route.GlobCache
	if !in.NoGlob {
		gc = route.NewGlobCache(10)
	}
	host := in.Host
	if host == "" {
		host = "nohost.example"
	}
	tg := t.Lookup(route.VerifRequest(host, false, in.URI), "", route.Picker["rr"], match, gc, in.NoGlob)
	if tg == nil {
		out["res"] = nil
		return out, nil
	}
	_, p, ok := route.VerifRouteOf(t, tg)
	if !ok {
		p = "?not-in-table"
	}
	out["res"] = p
	return out, nil
}

// letters: every entry lists the spellings that strings.ToLower folds to the first one. ASCII, Latin-1,
// Latin Extended-A, Greek, Cyrillic, and the three runes whose lower case has another UTF-8 length
// (U+0130 -> i, U+212A Kelvin -> k, U+212B Angstrom -> å); ß, ı and ς have no other spelling.
var foldLetters = [][]string{
	{"a", "A"}, {"b", "B"}, {"f", "F"}, {"o", "O"},
	{"é", "É"}, {"ä", "Ä"}, {"ñ", "Ñ"}, {"ā", "Ā"},
	{"σ", "Σ"}, {"ω", "Ω"}, {"д", "Д"}, {"я", "Я"}, {"ё", "Ё"},
	{"i", "I", "İ"}, {"k", "K", "K"}, {"å", "Å", "Å"},
	{"ß"}, {"ı"}, {"ς"}, {"1"}, {"-"},
}

type foldWord []int // indices into foldLetters; -1 = "/"

func spell(r *hx.Rand, w foldWord, mode int) string {
	var b strings.Builder
	for _, k := range w {
		if k < 0 {
			b.WriteByte('/')
			continue
		}
		l := foldLetters[k]
		switch mode {
		case 0:
			b.WriteString(l[0])
		case 1:
			b.WriteString(l[len(l)-1])
		default:
			b.WriteString(r.Pick(l))
		}
	}
	return b.String()
}

func genIPath(r *hx.Rand, i int) interface{} {
	var in ipathIn
	// a small alphabet per case so that prefixes of one another and equal foldings are frequent
	alpha := []int{}
	ascii := r.Chance(1, 6)
	for k := 2 + r.Intn(3); k > 0; k-- {
		if ascii {
			alpha = append(alpha, r.Intn(4))
		} else {
			alpha = append(alpha, r.Intn(len(foldLetters)))
		}
	}
	word := func(n int) foldWord {
		w := foldWord{-1}
		for ; n > 0; n-- {
			if len(w) > 1 && r.Chance(1, 4) {
				w = append(w, -1)
			} else {
				w = append(w, alpha[r.Intn(len(alpha))])
			}
		}
		return w
	}
	base := word(3 + r.Intn(6))
	n := 2 + r.Intn(5)
	for k := 0; k < n; k++ {
		var w foldWord
		switch r.Intn(8) {
		case 0:
			w = word(1 + r.Intn(4)) // unrelated
		case 1:
			w = foldWord{-1}
		default:
			w = base[:1+r.Intn(len(base))] // a prefix of the request path up to case
		}
		in.Paths = append(in.Paths, spell(r, w, r.Intn(4)))
	}
	in.URI = spell(r, base, r.Intn(4)) + r.Pick([]string{"", "", "/x", "x", "/"})
	if r.Chance(1, 10) {
		in.URI = spell(r, word(2+r.Intn(4)), 2)
	}
	in.Matcher = r.Pick([]string{"iprefix", "iprefix", "iprefix", "prefix", "prefix", "glob"})
	if in.Matcher == "glob" && r.Chance(1, 2) {
		in.Paths = append(in.Paths, spell(r, base[:1+r.Intn(len(base))], r.Intn(4))+"*")
	}
	in.Host = r.Pick([]string{"", "foo.com", "foo.com", "Foo.com"})
	in.NoGlob = r.Chance(1, 4)
	return in
}

func init() {
	hx.Register(&hx.Stream{
		Name: "c03.ipath",
		Gen:  genIPath,
		Run:  runIPath,
	})
}
