package main

import (
	"encoding/json"
	"fmt"
	"strings"

	"github.com/fabiolb/fabio/route"
	"verif/harness/hx"
	"verif/harness/rt"
)

// c03.lookuphost — Table.LookupHost (TCP / TCP+SNI): exact lower-cased host key, prefix matcher on "/".
type lookupHostIn struct {
	Defs []rt.Def `json:"defs"`
	Host string   `json:"host"`
}

func runLookupHost(raw json.RawMessage) (res interface{}, err error) {
	var in lookupHostIn
	if err := json.Unmarshal(raw, &in); err != nil {
		return nil, err
	}
	for i := range in.Defs {
		in.Defs[i].Fill()
	}
	orc := rt.Oracle(in.Defs)
	globs := orc["glob"].(map[string]interface{})
	for i := range in.Defs {
		if in.Defs[i].Src != "" {
			h, _ := route.VerifHostpath(in.Defs[i].Src)
			h = strings.ToLower(h)
			globs[h] = route.VerifGlobOK(h)
		}
	}
	defer func() {
		if p := recover(); p != nil {
			res, err = map[string]interface{}{"panic": fmt.Sprint(p), "oracle": orc}, nil
		}
	}()
	t, err := buildTable(in.Defs, false)
	if err != nil {
		return map[string]interface{}{"error": errClass(err), "oracle": orc}, nil
	}
	out := map[string]interface{}{"table": skeleton(t), "oracle": orc}
	tg := t.LookupHost(in.Host, route.Picker["rr"])
	if tg == nil {
		out["res"] = nil
		return out, nil
	}
	h, p, ok := route.VerifRouteOf(t, tg)
	if !ok {
		h, p = "?not-in-table", "?"
	}
	out["res"] = map[string]interface{}{"host": h, "path": p, "service": tg.Service, "url": tg.URL.String()}
	return out, nil
}

var tcpKeys = []string{":1234", ":1234", ":443", ":8443", "foo.com/", "foo.com", "Foo.com/", "a.foo.com/", "*.foo.com/", "foo.com/foo", "foo.com:443/", "/", "/foo"}

func genLookupHost(r *hx.Rand, i int) interface{} {
	var in lookupHostIn
	n := 1 + r.Intn(8)
	for k := 0; k < n; k++ {
		d := rt.Def{Cmd: "add", Service: r.Pick(svcs), Src: r.Pick(tcpKeys), Dst: r.Pick([]string{"tcp://a:1", "tcp://b:2", "tcp://c:3"})}
		in.Defs = append(in.Defs, d)
	}
	in.Host = r.Pick([]string{":1234", ":443", ":9999", "foo.com", "FOO.com", "Foo.Com", "a.foo.com", "x.foo.com", "*.foo.com", "foo.com:443", ""})
	return in
}

// c03.reverse — ReverseHostPort on every string of a host list and sortHostsReverseHostPort on the list.
type reverseIn struct {
	Hosts []string `json:"hosts"`
}

var revAlpha = []string{"a", "b", "foo", "com", ".", ".", ":", "[", "]", "*", "*", "80", "8443", "-", "?", "1", "::1", "{a,b}", "!", "$", "(", ")", "é", "ß", "+"}

func genReverse(r *hx.Rand, i int) interface{} {
	var in reverseIn
	n := r.Intn(7)
	if r.Chance(1, 4) {
		// keys that are suffixes of one another, with and without ports (see genNest)
		in.Hosts, _ = genNest(r)
		n = r.Intn(3)
	}
	for k := 0; k < n; k++ {
		if r.Chance(2, 3) {
			h := r.Pick(rtHosts)
			if r.Chance(1, 4) {
				h = r.Pick(rtHostsX)
			}
			in.Hosts = append(in.Hosts, strings.ToLower(h))
			continue
		}
		var b strings.Builder
		for m := r.Intn(6); m > 0; m-- {
			b.WriteString(r.Pick(revAlpha))
		}
		in.Hosts = append(in.Hosts, b.String())
	}
	return in
}

func runReverse(raw json.RawMessage) (interface{}, error) {
	var in reverseIn
	if err := json.Unmarshal(raw, &in); err != nil {
		return nil, err
	}
	rev := []string{}
	for _, h := range in.Hosts {
		rev = append(rev, route.ReverseHostPort(h))
	}
	sorted := route.VerifSortHosts(in.Hosts)
	if sorted == nil {
		sorted = []string{}
	}
	return map[string]interface{}{"rev": rev, "sorted": sorted}, nil
}

// c03.glob — the fragment model of gobwas/glob (literal, '*', '?'; no separators) against the library.
type globIn struct {
	Pattern string `json:"pattern"`
	S       string `json:"s"`
}

var globAlpha = []string{"a", "b", ".", "*", "*", "?", "foo", "com", "/", ":80", "-", "1", "}", "]", ","}

func genGlob(r *hx.Rand, i int) interface{} {
	var in globIn
	if r.Chance(1, 3) {
		in.Pattern = strings.ToLower(r.Pick(append(append([]string{}, rtHosts...), rtPaths...)))
		in.S = strings.ToLower(r.Pick(rqLabels)) + r.Pick(rqPorts)
		if r.Chance(1, 2) {
			in.S = r.Pick(rtPaths) + r.Pick([]string{"", "/x", "bar"})
		}
		return in
	}
	if r.Chance(1, 2) {
		// tiny alphabet, independent subject: overlaps of literal parts are frequent
		al := []string{"a", "a", "b", "*", "*", "?", "."}
		var b, s strings.Builder
		for m := r.Intn(7); m > 0; m-- {
			b.WriteString(r.Pick(al))
		}
		for m := r.Intn(6); m > 0; m-- {
			s.WriteString(r.Pick([]string{"a", "a", "b", "."}))
		}
		in.Pattern, in.S = b.String(), s.String()
		return in
	}
	var b strings.Builder
	for m := r.Intn(6); m > 0; m-- {
		b.WriteString(r.Pick(globAlpha))
	}
	in.Pattern = b.String()
	// subject: the pattern with the metacharacters instantiated, then perturbed
	var s strings.Builder
	for _, c := range in.Pattern {
		switch c {
		case '*':
			for m := r.Intn(3); m > 0; m-- {
				s.WriteString(r.Pick([]string{"a", "b", ".", "x", "/"}))
			}
		case '?':
			if r.Chance(5, 6) {
				s.WriteString(r.Pick([]string{"a", "b", ".", "1"}))
			}
		default:
			if r.Chance(15, 16) {
				s.WriteRune(c)
			}
		}
	}
	in.S = s.String()
	if r.Chance(1, 8) {
		in.S += r.Pick([]string{"a", ".", "x"})
	}
	if r.Chance(1, 20) {
		in.Pattern += r.Pick([]string{"[ab]", "{a,b}", "\\*"})
	}
	return in
}

func runGlob(raw json.RawMessage) (interface{}, error) {
	var in globIn
	if err := json.Unmarshal(raw, &in); err != nil {
		return nil, err
	}
	m, ok := route.VerifGlobMatch(in.Pattern, in.S)
	return map[string]interface{}{"match": m, "compiled": ok}, nil
}

func init() {
	hx.Register(&hx.Stream{Name: "c03.lookuphost", Gen: genLookupHost, Run: runLookupHost})
	hx.Register(&hx.Stream{Name: "c03.reverse", Gen: genReverse, Run: runReverse,
		Corpus: []interface{}{
			reverseIn{[]string{"*.foo.com", "*.a.foo.com"}}, reverseIn{[]string{"foo.com", "*foo.com"}},
			reverseIn{[]string{":1234", "*"}}, reverseIn{[]string{"foo.com:", "*"}}, reverseIn{[]string{"[foo]:80", "*"}},
			reverseIn{[]string{"[::1]:8080", "*:8080"}}, reverseIn{[]string{"a1.com", "a?.com"}},
		}})
	hx.Register(&hx.Stream{Name: "c03.glob", Gen: genGlob, Run: runGlob})
}
