package main

// c20.capture   — the responseWriter ServeHTTP wraps around the client connection only to capture status and
//                 size for the access log: it must be transparent (the wrapped writer sees exactly the calls
//                 the handler made, informational 1xx headers followed by the final status included) and the
//                 captured values must be the last status written and the bytes accepted.
// c20.reentrant — the hand-optimised formatters are called from many request goroutines at once: every result
//                 must still equal the standard library's for the caller's OWN value (race-detector build).

import (
	"encoding/json"
	"fmt"
	"net/http"
	"sort"
	"strconv"
	"sync"

	"github.com/fabiolb/fabio/logger"
	"github.com/fabiolb/fabio/proxy"
	"github.com/fabiolb/fabio/uuid"
	"verif/harness/hx"
)

type c20Op struct {
	Op   string `json:"op"` // header | write | flush | set
	Code int    `json:"code,omitempty"`
	N    int    `json:"n,omitempty"`
	K    string `json:"k,omitempty"`
	V    string `json:"v,omitempty"`
}

type c20CaptureIn struct {
	Ops     []c20Op `json:"ops"`
	Flusher bool    `json:"flusher"`
	Short   int     `json:"short"` // > 0: the client connection accepts at most that many bytes per Write
}

// recorder is the "client connection": it records every call it receives.
type recorder struct {
	hdr   http.Header
	calls []string
	short int
}

func (r *recorder) Header() http.Header { return r.hdr }
func (r *recorder) WriteHeader(c int)   { r.calls = append(r.calls, "H"+strconv.Itoa(c)) }
func (r *recorder) Write(b []byte) (int, error) {
	n := len(b)
	if r.short > 0 && n > r.short {
		n = r.short
	}
	r.calls = append(r.calls, "W"+strconv.Itoa(len(b))+":"+strconv.Itoa(n))
	return n, nil
}

type flushRecorder struct{ *recorder }

func (r flushRecorder) Flush() { r.calls = append(r.calls, "F") }

func runCapture(in *c20CaptureIn) (interface{}, error) {
	if len(in.Ops) > 200 || in.Short < 0 {
		return nil, fmt.Errorf("script out of range")
	}
	rec := &recorder{hdr: http.Header{}, short: in.Short}
	var under http.ResponseWriter = rec
	if in.Flusher {
		under = flushRecorder{rec}
	}
	rw, captured := proxy.VerifResponseWriter(under)
	for _, op := range in.Ops {
		switch op.Op {
		case "header":
			if op.Code < 100 || op.Code > 999 {
				return nil, fmt.Errorf("status code out of range") // net/http itself panics on those
			}
			rw.WriteHeader(op.Code)
		case "write":
			if op.N < 0 || op.N > 1<<16 {
				return nil, fmt.Errorf("write size out of range")
			}
			rw.Write(make([]byte, op.N))
		case "flush":
			if f, ok := rw.(http.Flusher); ok {
				f.Flush()
			}
		case "set":
			rw.Header().Set(op.K, op.V)
			if rec.hdr.Get(op.K) == op.V {
				rec.calls = append(rec.calls, "S"+http.CanonicalHeaderKey(op.K)+"="+op.V)
			}
		default:
			return nil, fmt.Errorf("unknown op %q", op.Op)
		}
	}
	code, size := captured()
	if rec.calls == nil {
		rec.calls = []string{}
	}
	return map[string]interface{}{"calls": rec.calls, "code": code, "size": size}, nil
}

type c20ReentrantIn struct {
	Workers int `json:"workers"`
	Per     int `json:"per"`
	Salt    int `json:"salt"`
}

// the values goroutine g formats in its i-th round (the Lean driver uses the same formulas)
func c20ReVals(g, i, salt int) (u [24]byte, n16 uint16, n32 int32, n64 int64, pad int) {
	for k := range u {
		u[k] = byte((g*131 + i*31 + k*17 + salt) % 256)
	}
	n16 = uint16((g*4099 + i*257 + salt) % 65536)
	n32 = int32(int64((g*1000003+i*7919+salt*97)%4294967296) - 2147483648)
	n64 = (int64(g)*1000000007 + int64(i)*104729 + int64(salt)) * 1000003
	if (g+i)%2 == 1 {
		n64 = -n64
	}
	pad = i % 10
	return
}

func runReentrant(in *c20ReentrantIn) (interface{}, error) {
	if in.Workers < 1 || in.Workers > 64 || in.Per < 1 || in.Per > 2000 || in.Salt < 0 || in.Salt > 1<<20 {
		return nil, fmt.Errorf("workers/per/salt out of range")
	}
	type res struct {
		sum                    uint64
		bUUID, bHex, bI32, bAt int
		first                  string
		panicked               string
	}
	out := make([]res, in.Workers)
	start := make(chan struct{})
	var wg sync.WaitGroup
	for g := 0; g < in.Workers; g++ {
		wg.Add(1)
		go func(g int) {
			defer wg.Done()
			r := &out[g]
			defer func() {
				if p := recover(); p != nil {
					r.panicked = fmt.Sprint(p)
				}
			}()
			<-start
			for i := 0; i < in.Per; i++ {
				u, n16, n32, n64, pad := c20ReVals(g, i, in.Salt)
				s1 := uuid.ToString(u)
				s2 := proxy.VerifUint16Base16(n16)
				s3 := proxy.VerifI32toa(n32)
				s4 := logger.VerifAtoi(n64, pad)
				if w := fmt.Sprintf("%x-%x-%x-%x-%x", u[0:4], u[4:6], u[6:8], u[8:10], u[10:16]); s1 != w {
					r.bUUID++
					if r.first == "" {
						r.first = "uuid " + w + " -> " + s1
					}
				}
				if s2 != fmt.Sprintf("0x%04x", n16) {
					r.bHex++
				}
				if s3 != strconv.Itoa(int(n32)) {
					r.bI32++
				}
				if s4 != stdPadInt(n64, pad) {
					r.bAt++
				}
				r.sum += fnvStr(s1+"\n") + fnvStr(s2+"\n") + fnvStr(s3+"\n") + fnvStr(s4+"\n")
			}
		}(g)
	}
	close(start)
	wg.Wait()
	var sum uint64
	bu, bh, bi, ba := 0, 0, 0, 0
	first := ""
	for g := range out {
		if out[g].panicked != "" {
			panic(out[g].panicked)
		}
		sum += out[g].sum
		bu, bh, bi, ba = bu+out[g].bUUID, bh+out[g].bHex, bi+out[g].bI32, ba+out[g].bAt
		if first == "" {
			first = out[g].first
		}
	}
	return map[string]interface{}{"n": in.Workers * in.Per * 4, "bad_uuid": bu, "bad_hex": bh, "bad_i32": bi, "bad_atoi": ba,
		"first_bad": first, "sum": strconv.FormatUint(sum, 16)}, nil
}

// every field the real table knows (logger.Fields) next to the documented ones: a field added to the table
// shows up in the generated formats without anybody editing the harness
var c20AllFieldsList = func() []string {
	seen := map[string]bool{}
	var out []string
	for _, l := range [][]string{docFields, logger.Fields} {
		for _, f := range l {
			if !seen[f] {
				seen[f] = true
				out = append(out, f)
			}
		}
	}
	sort.Strings(out)
	return out
}()

func c20AllFields() []string { return c20AllFieldsList }

func init() {
	h := func(c int) c20Op { return c20Op{Op: "header", Code: c} }
	w := func(n int) c20Op { return c20Op{Op: "write", N: n} }
	hx.Register(&hx.Stream{
		Name: "c20.capture",
		Corpus: []interface{}{
			c20CaptureIn{Ops: []c20Op{h(200), w(5)}, Flusher: true},
			c20CaptureIn{Ops: []c20Op{h(103), h(404), w(9)}, Flusher: true}, // early hints, then the final status
			c20CaptureIn{Ops: []c20Op{h(100), h(102), h(500)}},
			c20CaptureIn{Ops: []c20Op{w(3)}},                 // implicit 200: nothing captured
			c20CaptureIn{Ops: []c20Op{h(502), h(200), w(1)}}, // superfluous second header is forwarded as well
			c20CaptureIn{Ops: []c20Op{}},
			c20CaptureIn{Ops: []c20Op{h(200), w(100), {Op: "flush"}, w(100)}, Flusher: true, Short: 64},
		},
		Gen: func(r *hx.Rand, i int) interface{} {
			in := c20CaptureIn{Ops: []c20Op{}, Flusher: r.Chance(3, 4)}
			if r.Chance(1, 6) {
				in.Short = 1 + r.Intn(100)
			}
			set := func() {
				if r.Chance(1, 3) {
					in.Ops = append(in.Ops, c20Op{Op: "set", K: r.Pick([]string{"Content-Type", "X-Id", "Link", "Vary"}), V: r.Pick([]string{"a", "text/plain", "</s.css>; rel=preload", ""})})
				}
			}
			set()
			if r.Chance(1, 3) { // informational responses relayed by the reverse proxy before the final one
				for k := 1 + r.Intn(2); k > 0; k-- {
					in.Ops = append(in.Ops, h(pickInt(r, []int{100, 102, 103, 103, 199})))
					set()
				}
			}
			if !r.Chance(1, 12) {
				in.Ops = append(in.Ops, h(pickInt(r, []int{200, 200, 201, 204, 301, 304, 404, 500, 502, 503, 200 + r.Intn(400)})))
			}
			for k := r.Intn(5); k > 0; k-- {
				in.Ops = append(in.Ops, w(pickInt(r, []int{0, 1, 5, 512, 4096, r.Intn(70000 / 2)})))
				if r.Chance(1, 3) {
					in.Ops = append(in.Ops, c20Op{Op: "flush"})
				}
			}
			if r.Chance(1, 15) { // a late second status (error handler after the upstream answered)
				in.Ops = append(in.Ops, h(pickInt(r, []int{502, 200, 504})))
			}
			return in
		},
		Run: func(raw json.RawMessage) (interface{}, error) {
			var in c20CaptureIn
			if err := json.Unmarshal(raw, &in); err != nil {
				return nil, err
			}
			return runCapture(&in)
		},
	})

	hx.Register(&hx.Stream{
		Name:   "c20.reentrant",
		Corpus: []interface{}{c20ReentrantIn{16, 400, 0}, c20ReentrantIn{2, 1000, 7}, c20ReentrantIn{1, 50, 1}},
		Gen: func(r *hx.Rand, i int) interface{} {
			return c20ReentrantIn{Workers: 2 + r.Intn(15), Per: 50 + r.Intn(350), Salt: r.Intn(1 << 20)}
		},
		Run: func(raw json.RawMessage) (interface{}, error) {
			var in c20ReentrantIn
			if err := json.Unmarshal(raw, &in); err != nil {
				return nil, err
			}
			return runReentrant(&in)
		},
	})
}
