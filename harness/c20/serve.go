package main

// c20.serve: whole requests through the real HTTPProxy.ServeHTTP with the real access logger behind it.
// No sockets: the "client connection" is a recording http.ResponseWriter with net/http's rules (1xx headers are
// informational, the first final status wins, an implicit 200 on Write), the upstream is an http.RoundTripper
// that answers from a script (informational responses delivered through the request's httptrace hook exactly as
// http.Transport does, body in chunks, or a transport error) and records the request it was handed.
//
// What is observed, per request:
//   lines   what the access logger wrote while the request was served
//   ev      the *logger.Event ServeHTTP handed to Logger.Log (a wrapper around the real logger records it)
//   client  final status, informational statuses, body bytes, Strict-Transport-Security as the client got them
//   up      the URL / Host / request id / Forwarded header the upstream transport received
//   twin    the same request through a second proxy WITHOUT a logger: does the client see the same response?
//   std     the standard library's rendering of the format for the recorded event (strconv, time, net/url)
//
// in = {"items": format items, "cfg": {"reqid","sts","sub","pre"}, "reqs": [request …]}
// Requests of one case share one proxy and one logger.

import (
	"context"
	"encoding/json"
	"errors"
	"fmt"
	"io"
	"log"
	"net"
	"net/http"
	"net/http/httptrace"
	"net/textproto"
	"net/url"
	"regexp"
	"sort"
	"strings"
	"time"

	"crypto/tls"

	"github.com/fabiolb/fabio/config"
	"github.com/fabiolb/fabio/logger"
	"github.com/fabiolb/fabio/proxy"
	"github.com/fabiolb/fabio/route"
	"verif/harness/hx"
)

type c20SURL struct {
	Path       string `json:"path"`
	RawPath    string `json:"rawpath"`
	Query      string `json:"query"`
	ForceQuery bool   `json:"forcequery"`
}

type c20TLS struct {
	Ver int `json:"ver"`
	CS  int `json:"cs"`
}

type c20Route struct {
	Scheme   string `json:"scheme"`
	Host     string `json:"host"`
	Query    string `json:"query"`
	Strip    string `json:"strip"`
	Prepend  string `json:"prepend"`
	HostOpt  string `json:"hostopt"`
	Svc      string `json:"svc"`
	Redirect int    `json:"redirect"`
	Auth     string `json:"auth"` // name of an auth scheme nobody registered: the request is refused
}

type c20Up struct {
	Info   []int  `json:"info"`
	Status int    `json:"status"`
	Chunks []int  `json:"chunks"`
	Err    string `json:"err"` // "" | timeout | net | eof | canceled | other
	Cut    bool   `json:"cut"` // the connection to the upstream breaks after the header and the chunks (no Content-Length)
}

type c20Times struct {
	StartSec int64 `json:"ssec"`
	StartNs  int64 `json:"sns"`
	EndSec   int64 `json:"esec"`
	EndNs    int64 `json:"ens"`
	TZ       int   `json:"tz"`
}

type c20ServeReq struct {
	Method string    `json:"method"`
	URI    string    `json:"uri"` // the request-target as sent (r.RequestURI)
	URL    c20SURL   `json:"url"` // r.URL as net/http parsed it
	Proto  string    `json:"proto"`
	Host   string    `json:"host"`
	Remote string    `json:"remote"`
	Hdr    []c20Hdr  `json:"hdr"`
	TLS    *c20TLS   `json:"tls"`
	Route  *c20Route `json:"route"`
	Up     c20Up     `json:"up"`
	T      c20Times  `json:"t"`
}

type c20SCfg struct {
	ReqID string `json:"reqid"`
	STS   int64  `json:"sts"`
	Sub   bool   `json:"sub"`
	Pre   bool   `json:"pre"`
	Gzip  bool   `json:"gzip"` // proxy.gzip.contenttype set (text/…): the handler is wrapped in the gzip handler
}

type c20ServeIn struct {
	Items []c20Item     `json:"items"`
	Cfg   c20SCfg       `json:"cfg"`
	Reqs  []c20ServeReq `json:"reqs"`
}

// ---- the client connection

type clientConn struct {
	hdr    http.Header
	status int
	infos  []int
	body   int
	sts    *string
	extra  int // WriteHeader calls after the final status
}

func (c *clientConn) Header() http.Header { return c.hdr }

func (c *clientConn) WriteHeader(code int) {
	if c.status != 0 {
		c.extra++
		return
	}
	if code >= 100 && code <= 199 && code != http.StatusSwitchingProtocols {
		c.infos = append(c.infos, code)
		return
	}
	c.status = code
	if v, ok := c.hdr["Strict-Transport-Security"]; ok && len(v) > 0 {
		s := v[0]
		c.sts = &s
	}
}

func (c *clientConn) Write(p []byte) (int, error) {
	if c.status == 0 {
		c.WriteHeader(http.StatusOK)
	}
	c.body += len(p)
	return len(p), nil
}

func (c *clientConn) Flush() {}

func (c *clientConn) view() map[string]interface{} {
	infos := c.infos
	if infos == nil {
		infos = []int{}
	}
	return map[string]interface{}{"status": c.status, "infos": infos, "body": c.body, "sts": c.sts, "extra": c.extra}
}

// ---- the upstream

type chunkBody struct {
	left []int
	cut  bool
}

func (b *chunkBody) Read(p []byte) (int, error) {
	for len(b.left) > 0 && b.left[0] == 0 {
		b.left = b.left[1:]
	}
	if len(b.left) == 0 {
		if b.cut {
			return 0, io.ErrUnexpectedEOF
		}
		return 0, io.EOF
	}
	n := b.left[0]
	if n > len(p) {
		n = len(p)
	}
	b.left[0] -= n
	for i := 0; i < n; i++ {
		p[i] = 'x'
	}
	return n, nil
}

func (b *chunkBody) Close() error { return nil }

type timeoutErr struct{}

func (timeoutErr) Error() string   { return "i/o timeout" }
func (timeoutErr) Timeout() bool   { return true }
func (timeoutErr) Temporary() bool { return true }

type upstreamSeen struct {
	called bool
	u      url.URL
	host   string
	reqid  string
	fwd    string
}

type scriptRT struct {
	up    *c20Up
	reqid string
	seen  upstreamSeen
}

func (t *scriptRT) RoundTrip(req *http.Request) (*http.Response, error) {
	t.seen = upstreamSeen{called: true, u: *req.URL, host: req.Host, fwd: req.Header.Get("Forwarded")}
	if t.reqid != "" {
		t.seen.reqid = req.Header.Get(t.reqid)
	}
	switch t.up.Err {
	case "":
	case "timeout":
		return nil, timeoutErr{}
	case "net":
		return nil, &net.OpError{Op: "dial", Net: "tcp", Err: errors.New("connection refused")}
	case "eof":
		return nil, io.EOF
	case "canceled":
		return nil, context.Canceled
	default:
		return nil, errors.New("boom")
	}
	if tr := httptrace.ContextClientTrace(req.Context()); tr != nil && tr.Got1xxResponse != nil {
		for _, c := range t.up.Info {
			if err := tr.Got1xxResponse(c, textproto.MIMEHeader{"Link": {"</style.css>; rel=preload"}}); err != nil {
				return nil, err
			}
		}
	}
	total := 0
	for _, n := range t.up.Chunks {
		total += n
	}
	cl := int64(total)
	if t.up.Cut {
		cl = -1 // a streamed (chunked) response: only the end of the connection tells the client where it ends
	}
	return &http.Response{
		StatusCode: t.up.Status, Proto: "HTTP/1.1", ProtoMajor: 1, ProtoMinor: 1,
		Header:        http.Header{"Content-Type": {"text/plain"}},
		Body:          &chunkBody{left: append([]int{}, t.up.Chunks...), cut: t.up.Cut},
		ContentLength: cl, Request: req,
	}, nil
}

// ---- the logger wrapper: records the event, then lets the real logger render it

type recLogger struct {
	inner logger.Logger
	evs   []*logger.Event
}

func (l *recLogger) Log(e *logger.Event) {
	c := *e
	l.evs = append(l.evs, &c)
	l.inner.Log(e)
}

func urlJSON(u *url.URL) interface{} {
	if u == nil {
		return nil
	}
	m := map[string]interface{}{"scheme": u.Scheme, "opaque": u.Opaque, "host": u.Host, "path": u.Path, "rawpath": u.RawPath,
		"omithost": u.OmitHost, "forcequery": u.ForceQuery, "query": u.RawQuery, "frag": u.Fragment, "rawfrag": u.RawFragment,
		"user": nil, "str": u.String(), "uri": u.RequestURI()}
	if u.User != nil {
		um := map[string]interface{}{"name": u.User.Username(), "pw": nil}
		if pw, ok := u.User.Password(); ok {
			um["pw"] = pw
		}
		m["user"] = um
	}
	return m
}

func (in *c20ServeIn) validate() error {
	if len(in.Reqs) > 8 {
		return fmt.Errorf("too many requests")
	}
	for _, it := range in.Items {
		if it.K != "text" && it.K != "field" && it.K != "header" {
			return fmt.Errorf("unknown item kind %q", it.K)
		}
	}
	for i := range in.Reqs {
		q := &in.Reqs[i]
		for _, h := range q.Hdr {
			if strings.EqualFold(h.K, "Upgrade") { // the websocket handler dials the upstream itself
				return fmt.Errorf("Upgrade header: outside this stream")
			}
		}
		if q.Up.Err == "" && (q.Up.Status < 200 || q.Up.Status > 999) {
			return fmt.Errorf("final status out of range") // net/http panics on < 100 / > 999; 1xx is never final
		}
		for _, c := range q.Up.Info {
			if c < 100 || c > 199 || c == 101 {
				return fmt.Errorf("informational status out of range")
			}
		}
		if len(q.Up.Info) > 5 || len(q.Up.Chunks) > 16 {
			return fmt.Errorf("script too long")
		}
		for _, n := range q.Up.Chunks {
			if n < 0 || n > 1<<17 {
				return fmt.Errorf("chunk size out of range")
			}
		}
		if q.T.TZ < -18*3600 || q.T.TZ > 18*3600 {
			return fmt.Errorf("zone offset out of range")
		}
		if q.TLS != nil && (q.TLS.Ver < 0 || q.TLS.Ver > 65535 || q.TLS.CS < 0 || q.TLS.CS > 65535) {
			return fmt.Errorf("tls numbers out of range")
		}
	}
	return nil
}

func (q *c20ServeReq) request() *http.Request {
	r := &http.Request{Method: q.Method, URL: &url.URL{Path: q.URL.Path, RawPath: q.URL.RawPath, RawQuery: q.URL.Query, ForceQuery: q.URL.ForceQuery},
		Proto: q.Proto, ProtoMajor: 1, ProtoMinor: 1, Header: http.Header{}, Host: q.Host, RemoteAddr: q.Remote, RequestURI: q.URI, Body: http.NoBody}
	for _, h := range q.Hdr {
		k := http.CanonicalHeaderKey(h.K)
		if _, dup := r.Header[k]; !dup {
			r.Header[k] = append([]string{}, h.V...)
		}
	}
	if q.TLS != nil {
		r.TLS = &tls.ConnectionState{Version: uint16(q.TLS.Ver), CipherSuite: uint16(q.TLS.CS)}
	}
	// as net/http's server hands it to a handler (httputil.ReverseProxy aborts the handler on a broken upstream
	// body only for requests that come from a server)
	return r.WithContext(context.WithValue(context.Background(), http.ServerContextKey, &http.Server{}))
}

// serveOnce runs one request through ServeHTTP the way net/http's server does: a panic with http.ErrAbortHandler
// means "tear the connection down" (the client sees an aborted response), any other panic is a crash.
func serveOnce(p *proxy.HTTPProxy, w http.ResponseWriter, r *http.Request) (aborted bool) {
	defer func() {
		if e := recover(); e != nil {
			if e == http.ErrAbortHandler {
				aborted = true
				return
			}
			panic(e)
		}
	}()
	p.ServeHTTP(w, r)
	return false
}

func (q *c20ServeReq) target() *route.Target {
	if q.Route == nil {
		return nil
	}
	t := &route.Target{Service: q.Route.Svc, StripPath: q.Route.Strip, PrependPath: q.Route.Prepend, Host: q.Route.HostOpt,
		URL: &url.URL{Scheme: q.Route.Scheme, Host: q.Route.Host, RawQuery: q.Route.Query}, AuthScheme: q.Route.Auth}
	if q.Route.Redirect != 0 {
		t.RedirectCode = q.Route.Redirect
		t.RedirectURL = &url.URL{Scheme: "https", Host: "elsewhere.example", Path: "/"}
	}
	return t
}

func (q *c20ServeReq) clock() func() time.Time {
	n := 0
	return func() time.Time {
		n++
		if n == 1 {
			return time.Unix(q.T.StartSec, q.T.StartNs)
		}
		end := time.Unix(q.T.EndSec, q.T.EndNs)
		if q.T.TZ == 0 {
			return end.UTC()
		}
		return end.In(time.FixedZone("Z", q.T.TZ))
	}
}

func runServe(in *c20ServeIn) (interface{}, error) {
	if err := in.validate(); err != nil {
		return nil, err
	}
	log.SetOutput(io.Discard) // the error handler reports transport errors on the process log
	w := &countingWriter{}
	inner, err := logger.New(w, c20Format(in.Items))
	if err != nil {
		return map[string]interface{}{"new_err": err.Error()}, nil
	}
	rec := &recLogger{inner: inner}
	cfg := config.Proxy{RequestID: in.Cfg.ReqID, STSHeader: config.STSHeader{MaxAge: int(in.Cfg.STS), Subdomains: in.Cfg.Sub, Preload: in.Cfg.Pre}}
	if in.Cfg.Gzip {
		cfg.GZIPContentTypes = regexp.MustCompile(`^text/`)
	}
	var cur *c20ServeReq
	rt, rtTwin := &scriptRT{reqid: in.Cfg.ReqID}, &scriptRT{reqid: in.Cfg.ReqID}
	var now func() time.Time
	p := &proxy.HTTPProxy{Config: cfg, Transport: rt, Logger: rec,
		Lookup: func(*http.Request) *route.Target { return cur.target() },
		Time:   func() time.Time { return now() }}
	var nowTwin func() time.Time
	twin := &proxy.HTTPProxy{Config: cfg, Transport: rtTwin,
		Lookup: func(*http.Request) *route.Target { return cur.target() },
		Time:   func() time.Time { return nowTwin() }}

	outs := []interface{}{}
	for i := range in.Reqs {
		cur = &in.Reqs[i]
		rt.up, rtTwin.up = &cur.Up, &cur.Up
		rt.seen, rtTwin.seen = upstreamSeen{}, upstreamSeen{}
		now, nowTwin = cur.clock(), cur.clock()
		before, evBefore, writesBefore := w.buf.Len(), len(rec.evs), w.writes

		cc := &clientConn{hdr: http.Header{}}
		r := cur.request()
		aborted := serveOnce(p, cc, r)

		ccTwin := &clientConn{hdr: http.Header{}}
		abortedTwin := serveOnce(twin, ccTwin, cur.request())

		o := map[string]interface{}{}
		text := w.buf.String()[before:]
		lines := []string{}
		for text != "" {
			n := strings.IndexByte(text, '\n')
			if n < 0 {
				lines = append(lines, text)
				break
			}
			lines = append(lines, text[:n+1])
			text = text[n+1:]
		}
		o["lines"] = lines
		o["writes"] = w.writes - writesBefore
		o["events"] = len(rec.evs) - evBefore
		o["client"] = cc.view()
		a, _ := json.Marshal(cc.view())
		bb, _ := json.Marshal(ccTwin.view())
		o["twin_same"] = string(a) == string(bb) && fmt.Sprint(cc.hdr) == fmt.Sprint(ccTwin.hdr) && aborted == abortedTwin
		o["aborted"] = aborted
		up := map[string]interface{}{"called": rt.seen.called}
		if rt.seen.called {
			up["url"] = urlJSON(&rt.seen.u)
			up["host"], up["reqid"], up["fwd"] = rt.seen.host, rt.seen.reqid, rt.seen.fwd
		}
		o["up"] = up
		o["ev"], o["env"], o["std"] = nil, nil, nil
		if len(rec.evs) > evBefore {
			e := rec.evs[len(rec.evs)-1]
			ev := map[string]interface{}{"uaddr": e.UpstreamAddr, "usvc": e.UpstreamService, "rurl": urlJSON(e.RequestURL), "uurl": urlJSON(e.UpstreamURL),
				"status": nil, "size": nil, "req": nil, "same_req": e.Request == r,
				"start_ok": e.Start.Equal(time.Unix(cur.T.StartSec, cur.T.StartNs)), "end_ok": e.End.Equal(time.Unix(cur.T.EndSec, cur.T.EndNs))}
			if e.Response != nil {
				ev["status"], ev["size"] = e.Response.StatusCode, e.Response.ContentLength
			}
			if q := e.Request; q != nil {
				hs := []c20Hdr{}
				for k, v := range q.Header {
					hs = append(hs, c20Hdr{K: k, V: v})
				}
				sort.Slice(hs, func(i, j int) bool { return hs[i].K < hs[j].K })
				ev["req"] = map[string]interface{}{"remote": q.RemoteAddr, "method": q.Method, "uri": q.RequestURI, "proto": q.Proto, "host": q.Host, "hdr": hs}
			}
			o["ev"] = ev
			u := e.End.UTC()
			o["env"] = map[string]interface{}{
				"t":        []int{u.Year(), int(u.Month()), u.Day(), u.Hour(), u.Minute(), u.Second(), u.Nanosecond()},
				"unixnano": e.End.UnixNano(), "dur": e.End.Sub(e.Start).Nanoseconds()}
			if e.Response != nil {
				var std strings.Builder
				for _, it := range in.Items {
					switch it.K {
					case "text":
						std.WriteString(it.V)
					case "header":
						if e.Request != nil && e.Request.Header != nil {
							std.WriteString(e.Request.Header.Get(it.V))
						}
					default:
						s, _ := stdField(it.V, e)
						std.WriteString(s)
					}
				}
				o["std"] = std.String()
			}
		}
		outs = append(outs, o)
	}
	return map[string]interface{}{"reqs": outs}, nil
}

// ---- generator

var c20Remotes = []string{"1.2.3.4:5678", "10.0.0.1:65535", "[::1]:5000", "[fe80::1%eth0]:443", "192.168.0.9:80", "host.example:1"}
var c20BadRemotes = []string{"1.2.3.4", "::1", "[::1]", "a:b:c", "", "[::1]:80]", "[::1"}

// header names a client sends and the proxy leaves alone (what addHeaders maintains is another property's)
var c20ClientHeaders = []string{"Referer", "User-Agent", "X-Id", "Accept", "Cookie", "x-custom", "Accept-Language"}

func genServeReq(r *hx.Rand) c20ServeReq {
	var q c20ServeReq
	wire := genWirePath(r)
	switch r.Intn(12) {
	case 0:
		if r.Chance(1, 4) {
			wire += "?" // an empty query (recorded finding upstream-url-empty-query when the route adds none)
		}
	case 1, 2, 3:
		wire += "?" + r.Pick(c20Queries[2:9])
	case 4:
		wire = "/"
	}
	q.URI = wire
	if u, err := url.ParseRequestURI(wire); err == nil {
		q.URL = c20SURL{Path: u.Path, RawPath: u.RawPath, Query: u.RawQuery, ForceQuery: u.ForceQuery}
	} else {
		q.URL = c20SURL{Path: wire}
	}
	if r.Chance(1, 30) { // a request whose URL was put together by a handler in front of the proxy
		q.URL.RawPath = r.Pick([]string{"/x%2Fy", "/%zz", q.URL.Path + "%20"})
	}
	q.Method = r.Pick([]string{"GET", "GET", "POST", "HEAD", "PROPFIND", "OPTIONS"})
	q.Proto = r.Pick([]string{"HTTP/1.1", "HTTP/1.1", "HTTP/2.0", "HTTP/1.0"})
	q.Host = r.Pick([]string{"foo.com", "foo.com:8080", "www.example.org", "[::1]:9999", "", "xn--hte-7na.example", "FOO.com"})
	q.Remote = r.Pick(c20Remotes)
	if r.Chance(1, 14) {
		q.Remote = r.Pick(c20BadRemotes)
	}
	q.Hdr = []c20Hdr{}
	for k := r.Intn(4); k > 0; k-- {
		h := c20Hdr{K: r.Pick(c20ClientHeaders), V: []string{r.Pick(c20Values)}}
		if r.Chance(1, 6) {
			h.V = append(h.V, r.Pick(c20Values))
		}
		q.Hdr = append(q.Hdr, h)
	}
	switch r.Intn(9) { // what a proxy in front of fabio says about the original scheme
	case 0:
		q.Hdr = append(q.Hdr, c20Hdr{K: "X-Forwarded-Proto", V: []string{r.Pick([]string{"https", "http", "wss", "HTTPS", ""})}})
	case 1:
		q.Hdr = append(q.Hdr, c20Hdr{K: "Forwarded", V: []string{r.Pick([]string{"for=1.2.3.4; proto=https", "proto=https; by=5.6.7.8", "for=9.9.9.9", "proto=", "for=x;proto=ws;host=h", "xproto=gopher"})}})
	case 2:
		q.Hdr = append(q.Hdr, c20Hdr{K: "X-Forwarded-Proto", V: []string{"https"}}, c20Hdr{K: "Forwarded", V: []string{"proto=http"}})
	}
	if r.Chance(1, 3) {
		q.TLS = &c20TLS{Ver: pickInt(r, []int{0x0300, 0x0301, 0x0302, 0x0303, 0x0304, 0x0304, 0, r.Intn(65536)}),
			CS: pickInt(r, []int{0x1301, 0x1302, 0xc02f, 0x009c, 0x000a, 0, r.Intn(65536)})}
	}
	if !r.Chance(1, 16) {
		rt := &c20Route{Scheme: r.Pick([]string{"http", "http", "https"}),
			Host: r.Pick([]string{"10.1.2.3:8080", "backend.internal:80", "backend", "[::1]:5000", "[fe80::1]", "127.0.0.1", "hôte:80"}),
			Svc:  r.Pick([]string{"svc", "svc-a", "", "my service", "sérvice"})}
		if r.Chance(1, 5) {
			rt.Query = r.Pick([]string{"token=1", "a=b&c=d", "x"})
		}
		if r.Chance(1, 4) { // strip a prefix of the path (mostly one that really is a prefix)
			segs := strings.Split(strings.TrimPrefix(q.URL.Path, "/"), "/")
			rt.Strip = "/" + segs[0]
			if r.Chance(1, 4) {
				rt.Strip = r.Pick([]string{"/foo", "/a b", "/caf", "/", "/a/b"})
			}
		}
		if r.Chance(1, 5) {
			rt.Prepend = r.Pick([]string{"/api", "/v 1", "api", "/é", "/a%2Fb"})
		}
		if r.Chance(1, 5) {
			rt.HostOpt = r.Pick([]string{"dst", "dst", "internal.example", "other:81"})
		}
		if r.Chance(1, 25) {
			rt.Redirect = pickInt(r, []int{301, 302, 308})
		}
		if r.Chance(1, 30) {
			rt.Auth = "nobody-registered-this"
		}
		q.Route = rt
	}
	up := c20Up{Info: []int{}, Chunks: []int{}}
	switch r.Intn(14) {
	case 0:
		up.Err = r.Pick([]string{"timeout", "net", "eof", "canceled", "other"})
	default:
		up.Status = pickInt(r, []int{200, 200, 200, 201, 204, 301, 302, 304, 400, 401, 403, 404, 404, 500, 502, 503, 200 + r.Intn(400), 600 + r.Intn(400)})
		if r.Chance(1, 5) { // early hints / continue / processing before the final answer
			for k := 1 + r.Intn(2); k > 0; k-- {
				up.Info = append(up.Info, pickInt(r, []int{103, 103, 100, 102, 199}))
			}
		}
		for k := r.Intn(4); k > 0; k-- {
			up.Chunks = append(up.Chunks, pickInt(r, []int{0, 1, 13, 512, 4096, 32768, 40000, r.Intn(70000)}))
		}
		if r.Chance(1, 9) { // the upstream dies in the middle of a streamed body
			up.Cut = true
		}
	}
	q.Up = up
	ev := genEvent(r)
	q.T = c20Times{ev.StartSec, ev.StartNs, ev.EndSec, ev.EndNs, ev.TZ}
	return q
}

func genServeItems(r *hx.Rand, reqid string) []c20Item {
	switch r.Intn(8) {
	case 0:
		return c20Common
	case 1:
		return c20Combined
	}
	n := 1 + r.Intn(6)
	items := []c20Item{}
	for k := 0; k < n; k++ {
		switch r.Intn(10) {
		case 0, 1, 2, 3, 4, 5:
			f := r.Pick(c20AllFields())
			if r.Chance(1, 2) {
				f = r.Pick([]string{"$request_url", "$upstream_request_url", "$upstream_request_uri", "$response_status", "$response_body_size",
					"$upstream_addr", "$upstream_host", "$upstream_port", "$request_host", "$request_scheme", "$request_uri", "$request_args"})
			}
			items = append(items, c20Item{"field", f})
		case 6, 7:
			h := r.Pick(c20ClientHeaders)
			if reqid != "" && r.Chance(1, 2) {
				h = reqid
			}
			items = append(items, c20Item{"header", h})
		default:
			items = append(items, c20Item{"text", r.Pick(textBits)})
		}
		if k < n-1 {
			items = append(items, c20Item{"text", r.Pick([]string{" ", "|", " - ", "\" \"", ","})})
		}
	}
	sure := false
	for _, it := range items {
		sure = sure || c20SureNonEmpty(it)
	}
	if !sure {
		items = append(items, c20Item{"text", "|"}, c20Item{"field", "$response_status"})
	}
	return items
}

func genServe(r *hx.Rand) c20ServeIn {
	var in c20ServeIn
	if r.Chance(1, 2) {
		in.Cfg.ReqID = r.Pick([]string{"X-Request-Id", "x-request-id", "X-Fabio-Rid", "Request_Id"})
	}
	if r.Chance(1, 2) {
		in.Cfg.STS = int64(pickInt(r, []int{31536000, 63072000, 1, 300, 86400, 2147483647, 2147483648, 3000000000, 4294967296 + 5, 1 << 40, r.Intn(1 << 31)}))
		in.Cfg.Sub, in.Cfg.Pre = r.Chance(1, 2), r.Chance(1, 3)
	}
	in.Items = genServeItems(r, in.Cfg.ReqID)
	in.Cfg.Gzip = r.Chance(1, 6)
	n := 1
	if r.Chance(1, 4) {
		n = 2 + r.Intn(3)
	}
	for k := 0; k < n; k++ {
		q := genServeReq(r)
		if in.Cfg.Gzip && r.Chance(3, 4) { // the client's say on compression
			q.Hdr = append(q.Hdr, c20Hdr{K: "Accept-Encoding", V: []string{r.Pick([]string{"gzip", "gzip, deflate", "br;q=1.0, gzip;q=0.5", "identity", "gzip;q=0", "deflate"})}})
		}
		in.Reqs = append(in.Reqs, q)
	}
	return in
}

func init() {
	base := c20ServeReq{Method: "GET", URI: "/", URL: c20SURL{Path: "/"}, Proto: "HTTP/1.1", Host: "foo.com", Remote: "1.2.3.4:5678", Hdr: []c20Hdr{},
		Route: &c20Route{Scheme: "http", Host: "10.1.2.3:8080", Svc: "svc"}, Up: c20Up{Info: []int{}, Status: 200, Chunks: []int{5}},
		T: c20Times{1577934245, 0, 1577934245, 1500000, 0}}
	with := func(f func(q *c20ServeReq)) c20ServeReq {
		q := base
		rt := *base.Route
		q.Route = &rt
		f(&q)
		return q
	}
	urls := splitFormatItems("$request_url", " ", "$upstream_request_url", " ", "$upstream_request_uri", " ", "$response_status", " ", "$response_body_size")
	hx.Register(&hx.Stream{
		Name: "c20.serve",
		Corpus: []interface{}{
			c20ServeIn{Items: c20Combined, Reqs: []c20ServeReq{base}},
			// early hints, then 404: the log and the client must both see the 404
			c20ServeIn{Items: urls, Reqs: []c20ServeReq{with(func(q *c20ServeReq) { q.Up = c20Up{Info: []int{103}, Status: 404, Chunks: []int{13}} })}},
			// the client's encoding of the path belongs to the request URL
			c20ServeIn{Items: urls, Reqs: []c20ServeReq{with(func(q *c20ServeReq) {
				q.URI, q.URL = "/a%2Fb?x=1", c20SURL{Path: "/a/b", RawPath: "/a%2Fb", Query: "x=1"}
			})}},
			// an empty query ("/foo?")
			c20ServeIn{Items: urls, Reqs: []c20ServeReq{with(func(q *c20ServeReq) { q.URI, q.URL = "/foo?", c20SURL{Path: "/foo", ForceQuery: true} })}},
			// HSTS max-age beyond int32
			c20ServeIn{Items: urls, Cfg: c20SCfg{STS: 3000000000, Sub: true}, Reqs: []c20ServeReq{with(func(q *c20ServeReq) { q.TLS = &c20TLS{Ver: 0x0304, CS: 0x1301} })}},
			// upstream address without a port (D24), host option, strip
			c20ServeIn{Items: splitFormatItems("$upstream_host", "|", "$upstream_port", "|", "$request_host", "|", "$upstream_request_uri"), Reqs: []c20ServeReq{with(func(q *c20ServeReq) {
				q.URI, q.URL = "/foo/bar%20baz", c20SURL{Path: "/foo/bar baz"}
				q.Route.Host, q.Route.HostOpt, q.Route.Strip = "backend", "dst", "/foo"
			})}},
			// three requests, request ids
			c20ServeIn{Items: splitFormatItems("$header.X-Request-Id", " ", "$response_status"), Cfg: c20SCfg{ReqID: "X-Request-Id"}, Reqs: []c20ServeReq{base, base, base}},
			// D26 through ServeHTTP: nothing to print, no line
			c20ServeIn{Items: []c20Item{{"header", "Referer"}}, Reqs: []c20ServeReq{base}},
			// the upstream breaks in the middle of a streamed body: the client must not get it as a complete response
			c20ServeIn{Items: urls, Reqs: []c20ServeReq{with(func(q *c20ServeReq) { q.Up = c20Up{Info: []int{}, Status: 200, Chunks: []int{33}, Cut: true} }), base}},
			// HSTS configured, early hints first: the header must be on the final response (repo fix 3162882)
			c20ServeIn{Items: urls, Cfg: c20SCfg{STS: 31536000, Sub: true}, Reqs: []c20ServeReq{with(func(q *c20ServeReq) {
				q.TLS = &c20TLS{Ver: 0x0304, CS: 0x1301}
				q.Up = c20Up{Info: []int{103}, Status: 200, Chunks: []int{13}}
			})}},
			// compression configured and asked for: status and size in the log are what the client connection got
			c20ServeIn{Items: urls, Cfg: c20SCfg{Gzip: true}, Reqs: []c20ServeReq{with(func(q *c20ServeReq) {
				q.Hdr = []c20Hdr{{K: "Accept-Encoding", V: []string{"gzip"}}}
				q.Up = c20Up{Info: []int{}, Status: 200, Chunks: []int{4096, 4096}}
			})}},
			// answered by the proxy itself: no route, bad remote address, transport error
			c20ServeIn{Items: c20Common, Reqs: []c20ServeReq{with(func(q *c20ServeReq) { q.Route = nil }), with(func(q *c20ServeReq) { q.Remote = "1.2.3.4" }),
				with(func(q *c20ServeReq) { q.Up = c20Up{Info: []int{}, Chunks: []int{}, Err: "timeout"} })}},
		},
		Gen: func(r *hx.Rand, i int) interface{} { return genServe(r) },
		Run: func(raw json.RawMessage) (interface{}, error) {
			var in c20ServeIn
			if err := json.Unmarshal(raw, &in); err != nil {
				return nil, err
			}
			return runServe(&in)
		},
	})
}
