package main

// c20.newuuid: uuid.NewUUID as ServeHTTP calls it when a request id header is configured and no id function
// is set (the wiring of main.go). It is ToString of the next value of a process-wide fastuuid generator:
// a 64-bit counter in the first eight bytes (little endian), the rest constant. n calls — from several
// goroutines at once in the race-detector build — must give n different, well-formed ids, and exactly the ids
// the model predicts from the smallest counter seen.
//
// in   = {"n": calls per worker, "workers": goroutines}
// impl = {"ids": the ids, sorted}

import (
	"encoding/json"
	"fmt"
	"sort"
	"sync"

	"github.com/fabiolb/fabio/uuid"
	"verif/harness/hx"
)

type c20NewUUIDIn struct {
	N       int `json:"n"`
	Workers int `json:"workers"`
}

func runNewUUID(in *c20NewUUIDIn) (interface{}, error) {
	if in.N < 0 || in.N > 2000 || in.Workers < 1 || in.Workers > 32 {
		return nil, fmt.Errorf("n/workers out of range")
	}
	out := make([][]string, in.Workers)
	start := make(chan struct{})
	var wg sync.WaitGroup
	for g := 0; g < in.Workers; g++ {
		wg.Add(1)
		go func(g int) {
			defer wg.Done()
			<-start
			for i := 0; i < in.N; i++ {
				out[g] = append(out[g], uuid.NewUUID())
			}
		}(g)
	}
	close(start)
	wg.Wait()
	ids := []string{}
	for _, o := range out {
		ids = append(ids, o...)
	}
	sort.Strings(ids)
	return map[string]interface{}{"ids": ids}, nil
}

func init() {
	hx.Register(&hx.Stream{
		Name:   "c20.newuuid",
		Corpus: []interface{}{c20NewUUIDIn{3, 1}, c20NewUUIDIn{300, 1}, c20NewUUIDIn{200, 8}, c20NewUUIDIn{0, 1}},
		Gen: func(r *hx.Rand, i int) interface{} {
			if r.Chance(1, 3) {
				return c20NewUUIDIn{N: 1 + r.Intn(400), Workers: 1}
			}
			return c20NewUUIDIn{N: 1 + r.Intn(200), Workers: 2 + r.Intn(15)}
		},
		Run: func(raw json.RawMessage) (interface{}, error) {
			var in c20NewUUIDIn
			if err := json.Unmarshal(raw, &in); err != nil {
				return nil, err
			}
			return runNewUUID(&in)
		},
	})
}
