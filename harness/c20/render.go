package main

// c20.render: a whole log event through the real logger.New / Logger.Log path, next to the rendering of the
// same event by the standard library (strconv, time.Format on End.UTC(), net/url, net/http).
//
// in   = {"items": [{"k": "text"|"field"|"header", "v": …}], "ev": {…}}   the format is the concatenation
//        of the item sources ("$header."+v for a header item)
// impl = {"line": bytes handed to the writer, "writes": number of Write calls, "std": stdlib rendering of
//         the items (without the newline), "mutated": the event's request was changed by Log,
//         "env": what Go's time / net/url say about the input — the UTC calendar fields of End,
//         End.UnixNano(), End.Sub(Start) (inputs of the Lean model; the calendar is not modelled) and the URL
//         strings (the Lean side computes them with its own model of net/url and fails the case when Go's
//         net/url says otherwise)}
//      | {"new_err": text}  logger.New refused the format
//      | {"panic": text}

import (
	"bytes"
	"encoding/json"
	"fmt"
	"net/http"
	"net/url"
	"reflect"
	"strconv"
	"strings"
	"time"

	"github.com/fabiolb/fabio/logger"
	"verif/harness/hx"
)

type c20Item struct {
	K string `json:"k"`
	V string `json:"v"`
}

type c20Hdr struct {
	K string   `json:"k"`
	V []string `json:"v"`
}

type c20Req struct {
	Remote string    `json:"remote"`
	Method string    `json:"method"`
	URI    string    `json:"uri"`
	Proto  string    `json:"proto"`
	Host   string    `json:"host"`
	Hdr    *[]c20Hdr `json:"hdr"` // null: nil header map
}

type c20URL struct {
	Scheme     string `json:"scheme"`
	Host       string `json:"host"`
	Path       string `json:"path"`
	RawPath    string `json:"rawpath,omitempty"`
	Query      string `json:"query"`
	ForceQuery bool   `json:"forcequery,omitempty"`
	Frag       string `json:"frag,omitempty"`
}

type c20Ev struct {
	Req      *c20Req `json:"req"`
	RURL     *c20URL `json:"rurl"`
	UURL     *c20URL `json:"uurl"`
	UAddr    string  `json:"uaddr"`
	USvc     string  `json:"usvc"`
	Status   int     `json:"status"`
	Size     int64   `json:"size"`
	StartSec int64   `json:"ssec"`
	StartNs  int64   `json:"sns"`
	EndSec   int64   `json:"esec"`
	EndNs    int64   `json:"ens"`
	TZ       int     `json:"tz"` // End's location: seconds east of UTC
}

type c20RenderIn struct {
	Items []c20Item `json:"items"`
	Ev    c20Ev     `json:"ev"`
}

func (u *c20URL) url() *url.URL {
	if u == nil {
		return nil
	}
	return &url.URL{Scheme: u.Scheme, Host: u.Host, Path: u.Path, RawPath: u.RawPath, RawQuery: u.Query, ForceQuery: u.ForceQuery, Fragment: u.Frag}
}

func c20Format(items []c20Item) string {
	var b strings.Builder
	for _, it := range items {
		if it.K == "header" {
			b.WriteString("$header.")
		}
		b.WriteString(it.V)
	}
	return b.String()
}

type countingWriter struct {
	buf    bytes.Buffer
	writes int
}

func (w *countingWriter) Write(p []byte) (int, error) { w.writes++; return w.buf.Write(p) }

func splitLast(s string) (string, string) {
	n := strings.LastIndex(s, ":")
	if n < 0 {
		return s, ""
	}
	return s[:n], s[n+1:]
}

// stdField is the standard-library rendering of one documented field.
func stdField(name string, e *logger.Event) (string, bool) {
	req := func(f func(r *http.Request) string) (string, bool) {
		if e.Request == nil {
			return "", true
		}
		return f(e.Request), true
	}
	u := func(x *url.URL, f func(u *url.URL) string) (string, bool) {
		if x == nil {
			return "", true
		}
		return f(x), true
	}
	end := e.End.UTC()
	d := e.End.Sub(e.Start).Nanoseconds()
	switch name {
	case "$remote_addr":
		return req(func(r *http.Request) string { return r.RemoteAddr })
	case "$remote_host":
		return req(func(r *http.Request) string { h, _ := splitLast(r.RemoteAddr); return h })
	case "$remote_port":
		return req(func(r *http.Request) string { _, p := splitLast(r.RemoteAddr); return p })
	case "$request":
		return req(func(r *http.Request) string { return fmt.Sprintf("%s %s %s", r.Method, r.RequestURI, r.Proto) })
	case "$request_args":
		return u(e.RequestURL, func(u *url.URL) string { return u.RawQuery })
	case "$request_host":
		return req(func(r *http.Request) string { return r.Host })
	case "$request_method":
		return req(func(r *http.Request) string { return r.Method })
	case "$request_scheme":
		return u(e.RequestURL, func(u *url.URL) string { return u.Scheme })
	case "$request_uri":
		return req(func(r *http.Request) string { return r.RequestURI })
	case "$request_url":
		return u(e.RequestURL, func(u *url.URL) string { return u.String() })
	case "$request_proto":
		return req(func(r *http.Request) string { return r.Proto })
	case "$response_body_size":
		return strconv.FormatInt(e.Response.ContentLength, 10), true
	case "$response_status":
		return strconv.Itoa(e.Response.StatusCode), true
	case "$response_time_ms":
		return stdPadInt(d/1e9, 0) + "." + stdPadInt(d%1e9/1e6, 3), true
	case "$response_time_us":
		return stdPadInt(d/1e9, 0) + "." + stdPadInt(d%1e9/1e3, 6), true
	case "$response_time_ns":
		return stdPadInt(d/1e9, 0) + "." + stdPadInt(d%1e9, 9), true
	case "$time_unix_ms":
		return strconv.FormatInt(e.End.UnixNano()/1e6, 10), true
	case "$time_unix_us":
		return strconv.FormatInt(e.End.UnixNano()/1e3, 10), true
	case "$time_unix_ns":
		return strconv.FormatInt(e.End.UnixNano(), 10), true
	case "$time_common":
		return end.Format("02/Jan/2006:15:04:05 -0700"), true
	case "$time_rfc3339":
		return end.Format("2006-01-02T15:04:05Z"), true
	case "$time_rfc3339_ms":
		return end.Format("2006-01-02T15:04:05.000Z"), true
	case "$time_rfc3339_us":
		return end.Format("2006-01-02T15:04:05.000000Z"), true
	case "$time_rfc3339_ns":
		return end.Format("2006-01-02T15:04:05.000000000Z"), true
	case "$upstream_addr":
		return e.UpstreamAddr, true
	case "$upstream_host":
		h, _ := splitLast(e.UpstreamAddr)
		return h, true
	case "$upstream_port":
		_, p := splitLast(e.UpstreamAddr)
		return p, true
	case "$upstream_request_scheme":
		return u(e.UpstreamURL, func(u *url.URL) string { return u.Scheme })
	case "$upstream_request_uri":
		return u(e.UpstreamURL, func(u *url.URL) string { return u.RequestURI() })
	case "$upstream_request_url":
		return u(e.UpstreamURL, func(u *url.URL) string { return u.String() })
	case "$upstream_service":
		return e.UpstreamService, true
	}
	return "", false
}

func urlEnv(u *url.URL) interface{} {
	if u == nil {
		return nil
	}
	return map[string]string{"scheme": u.Scheme, "q": u.RawQuery, "uri": u.RequestURI(), "str": u.String()}
}

func runRender(in *c20RenderIn) (interface{}, error) {
	if in.Ev.TZ < -18*3600 || in.Ev.TZ > 18*3600 {
		return nil, fmt.Errorf("zone offset out of range")
	}
	ev := &in.Ev
	e := &logger.Event{
		Start:           time.Unix(ev.StartSec, ev.StartNs),
		End:             time.Unix(ev.EndSec, ev.EndNs).In(time.FixedZone("Z", ev.TZ)),
		Response:        &http.Response{StatusCode: ev.Status, ContentLength: ev.Size},
		RequestURL:      ev.RURL.url(),
		UpstreamAddr:    ev.UAddr,
		UpstreamService: ev.USvc,
		UpstreamURL:     ev.UURL.url(),
	}
	if ev.TZ == 0 {
		e.End = e.End.UTC()
	}
	if ev.Req != nil {
		r := &http.Request{RemoteAddr: ev.Req.Remote, Method: ev.Req.Method, RequestURI: ev.Req.URI, Proto: ev.Req.Proto, Host: ev.Req.Host}
		if ev.Req.Hdr != nil {
			r.Header = http.Header{}
			for _, h := range *ev.Req.Hdr {
				if _, dup := r.Header[h.K]; !dup { // first entry of a key wins (the model looks up the first)
					r.Header[h.K] = append([]string{}, h.V...)
				}
			}
		}
		e.Request = r
	}
	var before *http.Request
	if e.Request != nil {
		before = e.Request.Clone(e.Request.Context())
	}
	format := c20Format(in.Items)

	w := &countingWriter{}
	l, err := logger.New(w, format)
	if err != nil {
		return map[string]interface{}{"new_err": err.Error()}, nil
	}
	l.Log(e)

	// the standard library's rendering of the intended items
	var std strings.Builder
	for _, it := range in.Items {
		switch it.K {
		case "text":
			std.WriteString(it.V)
		case "header":
			if e.Request != nil && e.Request.Header != nil {
				std.WriteString(e.Request.Header.Get(it.V))
			}
		default:
			s, _ := stdField(it.V, e)
			std.WriteString(s)
		}
	}
	u := e.End.UTC()
	mutated := false
	if before != nil {
		mutated = !reflect.DeepEqual(before.Header, e.Request.Header) || before.RemoteAddr != e.Request.RemoteAddr ||
			before.Method != e.Request.Method || before.RequestURI != e.Request.RequestURI || before.Proto != e.Request.Proto ||
			before.Host != e.Request.Host
	}
	if e.Response.StatusCode != ev.Status || e.Response.ContentLength != ev.Size || e.UpstreamAddr != ev.UAddr {
		mutated = true
	}
	return map[string]interface{}{
		"line":    w.buf.String(),
		"writes":  w.writes,
		"std":     std.String(),
		"mutated": mutated,
		"env": map[string]interface{}{
			"t":        []int{u.Year(), int(u.Month()), u.Day(), u.Hour(), u.Minute(), u.Second(), u.Nanosecond()},
			"unixnano": e.End.UnixNano(),
			"dur":      e.End.Sub(e.Start).Nanoseconds(),
			"rurl":     urlEnv(e.RequestURL),
			"uurl":     urlEnv(e.UpstreamURL),
		},
	}, nil
}

var c20Addrs = []string{"1.2.3.4:80", "10.0.0.1:65535", "[::1]:5000", "[fe80::1%eth0]:443", "::1", "backend", "backend.internal", "", ":", "h:",
	":80", "host.example:http", "hôte:80", "a:b:c", "日本", "127.0.0.1", "unix", "@", "[::1]", "x:"}

var c20Values = []string{"", "Mozilla/5.0 (X11; Linux x86_64)", "http://foo.com/?q=x", "curl/7.0", "a b", "\"quoted\"", "$remote_addr", "$header.X",
	"é", "日本語", "🙂", "\t", "\\", "%s%d", "-", "3.3.3.3, 4.4.4.4", " ", "\x00", "a:b"}

func c20SureNonEmpty(it c20Item) bool {
	switch it.K {
	case "text":
		return it.V != ""
	case "field":
		switch {
		case strings.HasPrefix(it.V, "$response_"), strings.HasPrefix(it.V, "$time_"):
			return true // "$request" is empty for an event without a request
		}
	}
	return false
}

func splitFormatItems(items ...string) []c20Item {
	var out []c20Item
	for _, s := range items {
		switch {
		case strings.HasPrefix(s, "$header."):
			out = append(out, c20Item{"header", s[len("$header."):]})
		case strings.HasPrefix(s, "$"):
			out = append(out, c20Item{"field", s})
		default:
			out = append(out, c20Item{"text", s})
		}
	}
	return out
}

var c20Common = splitFormatItems("$remote_host", " - - [", "$time_common", "] \"", "$request", "\" ", "$response_status", " ", "$response_body_size")
var c20Combined = append(append([]c20Item{}, c20Common...), splitFormatItems(" \"", "$header.Referer", "\" \"", "$header.User-Agent", "\"")...)

func genItems(r *hx.Rand) []c20Item {
	switch r.Intn(10) {
	case 0:
		return c20Common
	case 1:
		return c20Combined
	}
	n := 1 + r.Intn(7)
	var items []c20Item
	for k := 0; k < n; k++ {
		switch r.Intn(10) {
		case 0, 1, 2, 3, 4, 5:
			items = append(items, c20Item{"field", r.Pick(c20AllFields())})
		case 6:
			items = append(items, c20Item{"header", r.Pick(headerNames)})
		default:
			items = append(items, c20Item{"text", r.Pick(textBits)})
		}
		if r.Chance(2, 3) && k < n-1 {
			items = append(items, c20Item{"text", r.Pick(textBits)})
		}
	}
	if r.Chance(1, 40) { // an unknown field: logger.New must refuse
		items = append(items, c20Item{"field", "$" + r.Pick([]string{"nope", "time", "remote", "request_", "Request"})})
	}
	if r.Chance(1, 30) { // glued text: may lex differently from the intended items (class "ill-separated")
		items = append(items, c20Item{"text", r.Pick([]string{"x", ".y", "$", "_", "$z"})})
	}
	// An event whose fields all render empty writes no line at all (recorded finding, class
	// "empty-rendering"; kept as corpus cases): the main stream always has one item that cannot be empty.
	sure := false
	for _, it := range items {
		sure = sure || c20SureNonEmpty(it)
	}
	if !sure {
		items = append(items, c20Item{"text", r.Pick([]string{" ", "|", "-"})})
	}
	return items
}

func genURL(r *hx.Rand) *c20URL {
	if r.Chance(1, 10) {
		return nil
	}
	u := &c20URL{
		Scheme: r.Pick([]string{"http", "https", "", "ws", "tcp"}),
		Host:   r.Pick([]string{"foo.com", "7.8.9.0:5678", "", "[::1]:80", "hôte"}),
		Path:   r.Pick([]string{"/", "/foo", "", "/a b", "/é", "/a/b/c", "foo", "/%2F", "/a/b(1)", "a:b", "*"}),
		Query:  r.Pick([]string{"", "q=x", "a=1&b=2", "é", "q=a b", "%zz"}),
	}
	switch r.Intn(8) { // the URL as a request parser leaves it: the client's own encoding of the path, an empty query
	case 0:
		if p, err := url.ParseRequestURI(genWirePath(r)); err == nil {
			u.Path, u.RawPath = p.Path, p.RawPath
		}
	case 1:
		u.RawPath = r.Pick([]string{"/a%2Fb", "/%zz", "/a%20b", "/a b"}) // mostly not an encoding of Path: ignored by net/url
	case 2:
		u.ForceQuery = true
	case 3:
		u.Frag = r.Pick([]string{"top", "a b", "é"})
	}
	return u
}

func genEvent(r *hx.Rand) c20Ev {
	var ev c20Ev
	if !r.Chance(1, 25) {
		q := &c20Req{
			Remote: r.Pick(c20Addrs),
			Method: r.Pick([]string{"GET", "POST", "", "PROPFIND", "get", "G T"}),
			URI:    r.Pick([]string{"/", "/?q=x", "*", "", "/a b", "/é?ü", "http://foo.com/x", "/$remote_addr"}),
			Proto:  r.Pick([]string{"HTTP/1.1", "HTTP/2.0", "HTTP/1.0", ""}),
			Host:   r.Pick([]string{"foo.com", "foo.com:8080", "", "[::1]", "Ünicode"}),
		}
		if !r.Chance(1, 15) {
			hs := []c20Hdr{}
			for k := r.Intn(5); k > 0; k-- {
				name := r.Pick(headerNames)
				if r.Chance(3, 4) {
					name = http.CanonicalHeaderKey(name)
				}
				h := c20Hdr{K: name, V: []string{}}
				for j := r.Intn(3); j > 0; j-- {
					v := r.Pick(c20Values)
					if r.Chance(1, 40) {
						v += "\ninjected"
					}
					h.V = append(h.V, v)
				}
				hs = append(hs, h)
			}
			q.Hdr = &hs
		}
		ev.Req = q
	}
	ev.RURL, ev.UURL = genURL(r), genURL(r)
	ev.UAddr = r.Pick(c20Addrs)
	if r.Chance(1, 10) {
		ev.UAddr = randText(r, 10)
	}
	ev.USvc = r.Pick([]string{"svc", "", "my service", "sérvice"})
	switch r.Intn(8) {
	case 0:
		ev.Status = pickInt(r, []int{0, -1, 1 << 31, 999, 1000, 99})
	default:
		ev.Status = 100 + r.Intn(500)
	}
	switch r.Intn(6) {
	case 0:
		ev.Size = genInt64(r, 0)
	case 1:
		ev.Size = 0
	default:
		ev.Size = int64(r.Intn(1 << 20))
	}
	// End: mostly 1970..2200, sometimes anywhere in years 0..9999; any time of day, so that a zone offset
	// moves the hour and often the date
	switch r.Intn(10) {
	case 0:
		ev.EndSec = -62167219200 + int64(r.U64()%(253402300800+62167219200))
	case 1: // around midnight / month / year ends
		t := time.Date(1999+r.Intn(60), time.Month(1+r.Intn(12)), 1, 0, 0, 0, 0, time.UTC)
		ev.EndSec = t.Unix() + int64(r.Intn(7200)) - 3600
	default:
		ev.EndSec = int64(r.U64() % 7258118400)
	}
	ev.EndNs = int64(pickInt(r, []int{0, 1, 999999999, 123456789, 1000000, 999999, 500000000, r.Intn(1000000000), r.Intn(1000000000)}))
	if !r.Chance(1, 5) {
		ev.TZ = (r.Intn(113) - 56) * 900 // -14h..+14h in quarter hours
		if r.Chance(1, 10) {
			ev.TZ += r.Intn(899) + 1
		}
	}
	var dur int64
	switch r.Intn(8) {
	case 0:
		dur = 0
	case 1:
		dur = int64(r.Intn(1000))
	case 2:
		dur = int64(r.Intn(1000000000))
	case 3:
		dur = int64(r.U64() % (1 << 45))
	case 4:
		dur = int64(pickInt(r, []int{1000000, 999999, 1000000000, 999999999, 1000, 1001000, 59999999999}))
	case 5:
		if r.Chance(1, 3) {
			dur = -int64(r.Intn(2000000000)) // clock stepped back: End before Start
		} else {
			dur = int64(r.Intn(5000)) * 1000000
		}
	default:
		dur = int64(r.U64() % 60000000000)
	}
	st := time.Unix(ev.EndSec, ev.EndNs).Add(-time.Duration(dur))
	ev.StartSec, ev.StartNs = st.Unix(), int64(st.Nanosecond())
	return ev
}

func init() {
	ref := []c20Item{{"header", "Referer"}}
	noRef := c20Ev{Req: &c20Req{Remote: "1.2.3.4:5", Method: "GET", URI: "/", Proto: "HTTP/1.1", Host: "h", Hdr: &[]c20Hdr{}}, UAddr: "b:80", Status: 200, EndSec: 1577934245, StartSec: 1577934245}
	utc5 := noRef
	utc5.TZ = 5 * 3600 // 2020-01-02T03:04:05+05:00 = 2020-01-01T22:04:05Z
	utc5.EndSec, utc5.StartSec = 1577916245, 1577916245
	noPort := noRef
	noPort.UAddr = "backend"
	noPort.Req = &c20Req{Remote: "client", Method: "GET", URI: "/", Proto: "HTTP/1.1"}
	hx.Register(&hx.Stream{
		Name: "c20.render",
		Corpus: []interface{}{
			c20RenderIn{c20Common, noRef}, c20RenderIn{c20Combined, noRef},
			c20RenderIn{c20Common, utc5}, // D25
			c20RenderIn{splitFormatItems("$time_rfc3339", " ", "$time_rfc3339_ns", " ", "$time_common"), utc5},                       // D25
			c20RenderIn{splitFormatItems("$upstream_host", "|", "$upstream_port", "|", "$remote_host", "|", "$remote_port"), noPort}, // D24
			c20RenderIn{ref, noRef}, // D26: nothing is written
			c20RenderIn{splitFormatItems("$request_args", "$upstream_service"), noRef}, // D26
			c20RenderIn{[]c20Item{}, noRef},                                            // empty format: New refuses
			c20RenderIn{splitFormatItems("$nope"), noRef},
			c20RenderIn{c20Combined, c20Ev{UAddr: "x", Status: 502}}, // no request at all
		},
		Gen: func(r *hx.Rand, i int) interface{} {
			return c20RenderIn{genItems(r), genEvent(r)}
		},
		Run: func(raw json.RawMessage) (interface{}, error) {
			var in c20RenderIn
			if err := json.Unmarshal(raw, &in); err != nil {
				return nil, err
			}
			for _, it := range in.Items {
				if it.K != "text" && it.K != "field" && it.K != "header" {
					return nil, fmt.Errorf("unknown item kind %q", it.K)
				}
			}
			return runRender(&in)
		},
	})
}

func pickInt(r *hx.Rand, xs []int) int { return xs[r.Intn(len(xs))] }
