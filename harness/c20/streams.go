package main

// Correspondence streams for C20: the number / hex / UUID formatters, hostport, lex/parse.
// Every stream runs the real code (hooks in /repo/logger/verif_c20.go, /repo/proxy/verif_c20.go) and,
// next to it, the standard-library rendering of the same value. impl is the plain output when it equals
// the standard library's, otherwise {"out": …, "std": …} (which the driver reports as a spec failure).

import (
	"encoding/hex"
	"encoding/json"
	"fmt"
	"math"
	"strconv"
	"strings"
	"sync"

	"github.com/fabiolb/fabio/logger"
	"github.com/fabiolb/fabio/proxy"
	"github.com/fabiolb/fabio/uuid"
	"verif/harness/hx"
)

type c20AtoiIn struct {
	I   int64 `json:"i"`
	Pad int   `json:"pad"`
}

type c20HostportIn struct {
	S string `json:"s"`
}

type c20IntIn struct {
	N int64 `json:"n"`
}

type c20BlockIn struct {
	Blk int `json:"blk"`
}

type c20UUIDIn struct {
	U string `json:"u"` // 24 bytes, hex
}

type c20ParseIn struct {
	F string `json:"f"`
}

func outOrDiff(out, std string) interface{} {
	if out == std {
		return out
	}
	return map[string]string{"out": out, "std": std}
}

// stdPadInt is the standard-library rendering atoi stands in for: sign, then |i| in decimal, zero-padded
// to pad digits (strconv for the digits; fmt's %0*d counts the sign into the width, atoi does not).
func stdPadInt(i int64, pad int) string {
	u := uint64(i)
	sign := ""
	if i < 0 {
		u = -u
		sign = "-"
	}
	d := strconv.FormatUint(u, 10)
	if len(d) < pad {
		d = strings.Repeat("0", pad-len(d)) + d
	}
	return sign + d
}

// genInt64: small values, powers of ten / two and their neighbours (finite universes: drawn mostly among
// the first 20000 cases of a run, afterwards they would only repeat), and wide random values.
func genInt64(r *hx.Rand, i int) int64 {
	k := r.Intn(6)
	if i >= 20000 && !r.Chance(1, 20) {
		k = []int{2, 3, 5}[r.Intn(3)]
	}
	switch k {
	case 0:
		return int64(r.Intn(2000)) - 1000
	case 1: // powers of ten and neighbours
		p := int64(1)
		for k := r.Intn(19); k > 0; k-- {
			p *= 10
		}
		v := p + int64(r.Intn(3)) - 1
		if r.Chance(1, 2) {
			v = -v
		}
		return v
	case 2:
		return int64(r.U64())
	case 3:
		return int64(r.U64() >> uint(r.Intn(64)))
	case 4: // powers of two and neighbours
		v := int64(1)<<uint(r.Intn(63)) + int64(r.Intn(3)) - 1
		if r.Chance(1, 2) {
			v = -v
		}
		return v
	default:
		return -int64(r.U64() >> uint(1+r.Intn(63)))
	}
}

const fnvOff = 14695981039346656037
const fnvPrime = 1099511628211

func init() {
	hx.Register(&hx.Stream{
		Name: "c20.atoi",
		Corpus: []interface{}{
			c20AtoiIn{0, 0}, c20AtoiIn{0, 3}, c20AtoiIn{-1, 0}, c20AtoiIn{-1, 4}, c20AtoiIn{math.MaxInt64, 0},
			c20AtoiIn{math.MinInt64 + 1, 0}, c20AtoiIn{math.MinInt64, 0}, c20AtoiIn{math.MinInt64, 5}, c20AtoiIn{999, 9}, c20AtoiIn{1000, 3},
			c20AtoiIn{7, 127}, c20AtoiIn{-7, 127}, c20AtoiIn{7, 128}, c20AtoiIn{-7, 128}, c20AtoiIn{7, 129}, c20AtoiIn{math.MaxInt64, 127},
		},
		Gen: func(r *hx.Rand, i int) interface{} {
			pad := r.Pick([]string{"0", "0", "2", "3", "4", "6", "9"})
			p, _ := strconv.Atoi(pad)
			if r.Chance(1, 10) {
				p = r.Intn(25)
			}
			if r.Chance(1, 200) {
				p = 120 + r.Intn(15) // around the size of the scratch array
			}
			if r.Chance(1, 25) {
				p = r.Intn(141) // anywhere up to and just beyond it: a smaller scratch array shows
			}
			return c20AtoiIn{genInt64(r, i), p}
		},
		Run: func(raw json.RawMessage) (interface{}, error) {
			var in c20AtoiIn
			if err := json.Unmarshal(raw, &in); err != nil {
				return nil, err
			}
			if in.Pad < 0 || in.Pad > 4096 {
				return nil, fmt.Errorf("pad out of the modelled range")
			}
			out := logger.VerifAtoi(in.I, in.Pad)
			if in.I == math.MinInt64 {
				return out, nil // no standard-library counterpart claimed (see design/C20.md)
			}
			return outOrDiff(out, stdPadInt(in.I, in.Pad)), nil
		},
	})

	hx.Register(&hx.Stream{
		Name: "c20.i32toa",
		Corpus: []interface{}{
			c20IntIn{0}, c20IntIn{-1}, c20IntIn{1}, c20IntIn{9}, c20IntIn{10}, c20IntIn{-10}, c20IntIn{math.MaxInt32}, c20IntIn{math.MinInt32},
			c20IntIn{math.MinInt32 + 1}, c20IntIn{999999999}, c20IntIn{1000000000}, c20IntIn{-1000000000},
		},
		Gen: func(r *hx.Rand, i int) interface{} {
			return c20IntIn{int64(int32(genInt64(r, i)))}
		},
		Run: func(raw json.RawMessage) (interface{}, error) {
			var in c20IntIn
			if err := json.Unmarshal(raw, &in); err != nil {
				return nil, err
			}
			if in.N < math.MinInt32 || in.N > math.MaxInt32 {
				return nil, fmt.Errorf("not an int32")
			}
			return outOrDiff(proxy.VerifI32toa(int32(in.N)), strconv.Itoa(int(in.N))), nil
		},
	})

	// Exhaustive sweep of int32 in 65536 blocks of 65536 values: the i-th generated case is block
	// (i*40503) mod 65536 (an odd multiplier: a permutation), so 65536 cases cover every int32 once.
	// Per block: number of values on which i32toa differs from strconv.Itoa, and an FNV-1a checksum of all
	// outputs (each followed by '\n') that the Lean side recomputes from the model and from Nat.repr.
	hx.Register(&hx.Stream{
		Name:   "c20.i32block",
		Corpus: []interface{}{c20BlockIn{0}, c20BlockIn{32767}, c20BlockIn{32768}, c20BlockIn{65535}, c20BlockIn{47683}, c20BlockIn{17852}},
		Gen: func(r *hx.Rand, i int) interface{} {
			return c20BlockIn{int((uint64(i) * 40503) % 65536)}
		},
		Run: func(raw json.RawMessage) (interface{}, error) {
			var in c20BlockIn
			if err := json.Unmarshal(raw, &in); err != nil {
				return nil, err
			}
			if in.Blk < 0 || in.Blk > 65535 {
				return nil, fmt.Errorf("no such block")
			}
			lo := int64(math.MinInt32) + int64(in.Blk)*65536
			var sum uint64 = fnvOff
			bad := 0
			first := ""
			for v := lo; v < lo+65536; v++ {
				s := proxy.VerifI32toa(int32(v))
				if s != strconv.FormatInt(v, 10) {
					bad++
					if first == "" {
						first = strconv.FormatInt(v, 10) + " -> " + s
					}
				}
				for k := 0; k < len(s); k++ {
					sum = (sum ^ uint64(s[k])) * fnvPrime
				}
				sum = (sum ^ '\n') * fnvPrime
			}
			return map[string]interface{}{"bad": bad, "first_bad": first, "sum": strconv.FormatUint(sum, 16)}, nil
		},
	})

	// Exhaustive sweep of int32 against strconv.Itoa on the Go side: part k of 256 covers the 2^24 values from
	// MinInt32 + k*2^24; the i-th generated case is part i mod 256. The Lean side sees the mismatch count and
	// three probe values (first, middle, last) that it compares with the model and with Nat.repr.
	hx.Register(&hx.Stream{
		Name:   "c20.i32sweep",
		Corpus: []interface{}{c20BlockIn{0}, c20BlockIn{127}, c20BlockIn{128}, c20BlockIn{255}},
		Gen: func(r *hx.Rand, i int) interface{} {
			return c20BlockIn{int((uint64(i) * 101) % 256)}
		},
		Run: func(raw json.RawMessage) (interface{}, error) {
			var in c20BlockIn
			if err := json.Unmarshal(raw, &in); err != nil {
				return nil, err
			}
			if in.Blk < 0 || in.Blk > 255 {
				return nil, fmt.Errorf("no such part")
			}
			lo := int64(math.MinInt32) + int64(in.Blk)<<24
			const workers = 8
			const per = (1 << 24) / workers
			bad := make([]int, workers)
			first := make([]string, workers)
			panics := make([]string, workers)
			var wg sync.WaitGroup
			for w := 0; w < workers; w++ {
				wg.Add(1)
				go func(w int) {
					defer wg.Done()
					defer func() {
						if p := recover(); p != nil {
							panics[w] = fmt.Sprint(p)
						}
					}()
					var buf [12]byte
					for v := lo + int64(w)*per; v < lo+int64(w+1)*per; v++ {
						s := proxy.VerifI32toa(int32(v))
						if s != string(strconv.AppendInt(buf[:0], v, 10)) {
							bad[w]++
							if first[w] == "" {
								first[w] = strconv.FormatInt(v, 10) + " -> " + s
							}
						}
					}
				}(w)
			}
			wg.Wait()
			total, fb := 0, ""
			for w := 0; w < workers; w++ {
				if panics[w] != "" {
					panic(panics[w])
				}
				total += bad[w]
				if fb == "" {
					fb = first[w]
				}
			}
			probes := map[string]string{}
			for _, v := range []int64{lo, lo + 1<<23, lo + 1<<24 - 1} {
				probes[strconv.FormatInt(v, 10)] = proxy.VerifI32toa(int32(v))
			}
			return map[string]interface{}{"bad": total, "first_bad": fb, "n": 1 << 24, "probes": probes}, nil
		},
	})

	// all 65536 values: the i-th case is the value i mod 65536
	hx.Register(&hx.Stream{
		Name:   "c20.uint16",
		Corpus: []interface{}{c20IntIn{0}, c20IntIn{0xffff}, c20IntIn{0x0301}, c20IntIn{0x00f0}, c20IntIn{0x0f00}, c20IntIn{0xf000}, c20IntIn{0xabcd}},
		Gen: func(r *hx.Rand, i int) interface{} {
			return c20IntIn{int64(i % 65536)}
		},
		Run: func(raw json.RawMessage) (interface{}, error) {
			var in c20IntIn
			if err := json.Unmarshal(raw, &in); err != nil {
				return nil, err
			}
			if in.N < 0 || in.N > 65535 {
				return nil, fmt.Errorf("not a uint16")
			}
			return outOrDiff(proxy.VerifUint16Base16(uint16(in.N)), fmt.Sprintf("0x%04x", in.N)), nil
		},
	})

	hx.Register(&hx.Stream{
		Name: "c20.uuid",
		Corpus: []interface{}{
			c20UUIDIn{strings.Repeat("00", 24)}, c20UUIDIn{strings.Repeat("ff", 24)},
			c20UUIDIn{"000102030405060708090a0b0c0d0e0f1011121314151617"},
			c20UUIDIn{"0f1e2d3c4b5a69788796a5b4c3d2e1f0ffffffffffffffff"},
			c20UUIDIn{"00000000000000000000000000000000ffffffffffffffff"},
		},
		Gen: func(r *hx.Rand, i int) interface{} {
			b := r.Bytes(24)
			switch r.Intn(4) {
			case 0: // few distinct nibbles so that a swapped position table shows
				off := r.Intn(256)
				for k := range b {
					b[k] = byte(k*17 + off + 16*r.Intn(2))
				}
			case 1:
				for k := range b {
					if r.Chance(1, 2) {
						b[k] = []byte{0, 0xff, 0x0f, 0xf0, 0x9a, 0xa9}[r.Intn(6)]
					}
				}
			}
			return c20UUIDIn{hex.EncodeToString(b)}
		},
		Run: func(raw json.RawMessage) (interface{}, error) {
			var in c20UUIDIn
			if err := json.Unmarshal(raw, &in); err != nil {
				return nil, err
			}
			b, err := hex.DecodeString(in.U)
			if err != nil || len(b) != 24 {
				return nil, fmt.Errorf("need 24 hex bytes")
			}
			var u [24]byte
			copy(u[:], b)
			std := fmt.Sprintf("%x-%x-%x-%x-%x", b[0:4], b[4:6], b[6:8], b[8:10], b[10:16])
			return outOrDiff(uuid.ToString(u), std), nil
		},
	})

	hosts := []string{"", "a", "backend", "1.2.3.4", "[::1]", "::1", "host.example", "h:1:2", ":", "hôte", "日本", " ", "[fe80::1%eth0]", "a.b.c.d.e", "-"}
	hx.Register(&hx.Stream{
		Name: "c20.hostport",
		Corpus: []interface{}{c20HostportIn{""}, c20HostportIn{"1.2.3.4:80"}, c20HostportIn{"[::1]:80"}, c20HostportIn{":80"}, c20HostportIn{"h:"},
			c20HostportIn{"backend"}, c20HostportIn{":"}, c20HostportIn{"::"}, c20HostportIn{"é:é"}},
		Gen: func(r *hx.Rand, i int) interface{} {
			s := r.Pick(hosts)
			if r.Chance(3, 4) {
				s += ":" + r.Pick([]string{"80", "", "65535", "x", "8080", "http", "ü", "0"})
			}
			if r.Chance(1, 10) {
				s = randText(r, 12)
			}
			if r.Chance(2, 5) { // addresses put together from the characters that matter: colons, brackets, dots, multi-byte runes, a zone
				alpha := []string{":", ":", "[", "]", "a", "1", ".", "é", "%", "::", "日", "-", "0"}
				n := r.Intn(24)
				if r.Chance(1, 12) {
					n = 100 + r.Intn(400) // long inputs
				}
				var b strings.Builder
				for k := 0; k < n; k++ {
					b.WriteString(r.Pick(alpha))
				}
				s = b.String()
			}
			return c20HostportIn{s}
		},
		Run: func(raw json.RawMessage) (interface{}, error) {
			var in c20HostportIn
			if err := json.Unmarshal(raw, &in); err != nil {
				return nil, err
			}
			h, p := logger.VerifHostport(in.S)
			return []string{h, p}, nil
		},
	})

	hx.Register(&hx.Stream{
		Name: "c20.parse",
		Corpus: []interface{}{
			c20ParseIn{""}, c20ParseIn{logger.CommonFormat}, c20ParseIn{logger.CombinedFormat}, c20ParseIn{"$"}, c20ParseIn{"$$"}, c20ParseIn{"$$request"},
			c20ParseIn{"$header."}, c20ParseIn{"$header"}, c20ParseIn{"$header.X"}, c20ParseIn{"$header. x"}, c20ParseIn{"$header.."}, c20ParseIn{"$header.X.Y"},
			c20ParseIn{"$headers.X"}, c20ParseIn{"$request.x"}, c20ParseIn{"$request$request"}, c20ParseIn{"$requestx"}, c20ParseIn{"a$"}, c20ParseIn{"$ $"},
			c20ParseIn{"$é"}, c20ParseIn{"é$request_uri日本"}, c20ParseIn{"$header.X-Forwarded_For1 "}, c20ParseIn{"$upstream_service"}, c20ParseIn{"$Request"},
			c20ParseIn{"$header.é"}, c20ParseIn{"$header.X$header.Y"}, c20ParseIn{"x$header."},
		},
		Gen: func(r *hx.Rand, i int) interface{} { return c20ParseIn{genFormatString(r)} },
		Run: func(raw json.RawMessage) (interface{}, error) {
			var in c20ParseIn
			if err := json.Unmarshal(raw, &in); err != nil {
				return nil, err
			}
			return runParse(in.F), nil
		},
	})
}

// runParse drives the real lex the way parse does and then the real parse. If lex ever reports a length
// outside 1..len (the parse loop would then spin or panic) the case stops there and says so; parse itself
// is only called when the loop is known to terminate.
func runParse(format string) interface{} {
	s := []rune(format)
	items := [][]interface{}{}
	for guard := 0; len(s) > 0; guard++ {
		typ, n := logger.VerifLex(s)
		if n < 1 || n > len(s) || guard > 1<<20 {
			return map[string]interface{}{"items": items, "stuck": []int{typ, n}}
		}
		items = append(items, []interface{}{typ, string(s[:n])})
		s = s[n:]
	}
	n, err := logger.VerifParse(format)
	e := ""
	if err != nil {
		e = err.Error()
	}
	return map[string]interface{}{"items": items, "n": n, "err": e}
}

var docFields = []string{
	"$remote_addr", "$remote_host", "$remote_port", "$request", "$request_args", "$request_host", "$request_method",
	"$request_scheme", "$request_uri", "$request_url", "$request_proto", "$response_body_size", "$response_status",
	"$response_time_ms", "$response_time_us", "$response_time_ns", "$time_rfc3339", "$time_rfc3339_ms", "$time_rfc3339_us",
	"$time_rfc3339_ns", "$time_unix_ms", "$time_unix_us", "$time_unix_ns", "$time_common", "$upstream_addr", "$upstream_host",
	"$upstream_port", "$upstream_request_scheme", "$upstream_request_uri", "$upstream_request_url", "$upstream_service",
}

var headerNames = []string{"Referer", "User-Agent", "X-Forwarded-For", "x-request-id", "X_Under", "HOST", "a", "A-b-C", "x--y", "-", "9", "Content-Type"}

var textBits = []string{" ", " - ", "[", "]", "\"", " \"", "\" ", "|", ":", "/", "é", "日本", " x ", "?", "=", ",", "\t", "%", "{}", "\\", "'", "<>", "🙂"}

func randText(r *hx.Rand, max int) string {
	n := r.Intn(max + 1)
	var b strings.Builder
	for k := 0; k < n; k++ {
		switch r.Intn(12) {
		case 0:
			b.WriteByte('$')
		case 1:
			b.WriteByte('.')
		case 2:
			b.WriteByte(':')
		case 3:
			b.WriteString(r.Pick([]string{"é", "ß", "日", "🙂", " ", "İ"}))
		case 4:
			b.WriteByte("-_ "[r.Intn(3)])
		case 5:
			b.WriteByte(byte('0' + r.Intn(10)))
		case 6:
			b.WriteByte(byte('A' + r.Intn(26)))
		default:
			b.WriteByte(byte('a' + r.Intn(26)))
		}
	}
	return b.String()
}

// genFormatString: mostly formats over the documented fields with separators, plus stray '$', "$header."
// corner cases, unknown and misspelt fields, unicode, and fully random strings over a small alphabet.
func genFormatString(r *hx.Rand) string {
	if r.Chance(1, 8) {
		return randText(r, 16)
	}
	var b strings.Builder
	n := 1 + r.Intn(7)
	for k := 0; k < n; k++ {
		switch r.Intn(14) {
		case 0, 1, 2, 3, 4:
			b.WriteString(r.Pick(c20AllFields()))
		case 5, 6:
			b.WriteString("$header." + r.Pick(headerNames))
		case 7, 8, 9:
			b.WriteString(r.Pick(textBits))
		case 10: // unknown or misspelt field
			f := r.Pick(docFields)
			switch r.Intn(4) {
			case 0:
				f = f[:1+r.Intn(len(f)-1)]
			case 1:
				f = strings.ToUpper(f)
			case 2:
				f += r.Pick([]string{"x", "_", "-", "0", "s"})
			default:
				f = "$" + randText(r, 6)
			}
			b.WriteString(f)
		case 11:
			b.WriteString(r.Pick([]string{"$", "$$", "$ ", "$.", "$header", "$header.", "$header..", "$header.$", "$headers.x", "$header.é", ".", "$-", "$_"}))
		case 12:
			b.WriteString(randText(r, 5))
		default:
			b.WriteString(r.Pick([]string{".", ".x", "x", "_", "-", "0"})) // glued to whatever came before
		}
	}
	return b.String()
}
