package main

import (
	"encoding/json"
	"math"

	"github.com/fabiolb/fabio/logger"
	"verif/harness/hx"
)

type c20AtoiIn struct {
	I   int64 `json:"i"`
	Pad int   `json:"pad"`
}

type c20HostportIn struct {
	S string `json:"s"`
}

func init() {
	hx.Register(&hx.Stream{
		Name: "c20.atoi",
		Corpus: []interface{}{
			c20AtoiIn{0, 0}, c20AtoiIn{0, 3}, c20AtoiIn{-1, 0}, c20AtoiIn{-1, 4}, c20AtoiIn{math.MaxInt64, 0},
			c20AtoiIn{math.MinInt64 + 1, 0}, c20AtoiIn{math.MinInt64, 0}, c20AtoiIn{999, 9}, c20AtoiIn{1000, 3},
		},
		Gen: func(r *hx.Rand, i int) interface{} {
			var v int64
			switch r.Intn(5) {
			case 0:
				v = int64(r.Intn(2000)) - 1000
			case 1: // powers of ten and neighbours
				p := int64(1)
				for k := r.Intn(19); k > 0; k-- {
					p *= 10
				}
				v = p + int64(r.Intn(3)) - 1
				if r.Chance(1, 2) {
					v = -v
				}
			case 2:
				v = int64(r.U64())
			case 3:
				v = int64(r.U64() >> uint(r.Intn(64)))
			default:
				v = -int64(r.U64() >> uint(1+r.Intn(63)))
			}
			return c20AtoiIn{v, r.Intn(12)}
		},
		Run: func(raw json.RawMessage) (interface{}, error) {
			var in c20AtoiIn
			if err := json.Unmarshal(raw, &in); err != nil {
				return nil, err
			}
			return logger.VerifAtoi(in.I, in.Pad), nil
		},
	})
	hosts := []string{"", "a", "backend", "1.2.3.4", "[::1]", "::1", "host.example", "h:1:2", ":"}
	hx.Register(&hx.Stream{
		Name:   "c20.hostport",
		Corpus: []interface{}{c20HostportIn{""}, c20HostportIn{"1.2.3.4:80"}, c20HostportIn{"[::1]:80"}, c20HostportIn{":80"}, c20HostportIn{"h:"}},
		Gen: func(r *hx.Rand, i int) interface{} {
			s := r.Pick(hosts)
			if r.Chance(4, 5) {
				s += ":" + r.Pick([]string{"80", "", "65535", "x", "8080"})
			}
			return c20HostportIn{s}
		},
		Run: func(raw json.RawMessage) (interface{}, error) {
			var in c20HostportIn
			if err := json.Unmarshal(raw, &in); err != nil {
				return nil, err
			}
			h, p := logger.VerifHostport(in.S)
			return []string{h, p}, nil
		},
	})
}
