package main

// c20.url: the three URL fields of the access log ($request_url, $upstream_request_url,
// $upstream_request_uri) through the real field functions, next to net/url's own String()/RequestURI()/
// EscapedPath() for the same url.URL. The Lean side holds a model of these net/url methods (Model/C20Url.lean)
// and a decoder: what is logged must decode to the Path of the URL it was rendered from.
//
// Strings are byte strings: in the JSON every byte b travels as the rune U+00bb (Latin-1), so that any byte
// sequence can be written and ASCII stays readable ("é" = c3 a9 shows as "Ã©").
//
// in   = {"scheme","opaque","user":null|{"name","pw":null|string},"host","path","rawpath","omithost",
//         "forcequery","query","frag","rawfrag"}
// impl = {"url": $upstream_request_url, "rurl": $request_url, "uri": $upstream_request_uri, "epath": EscapedPath()}
//        | {"out": that, "std": the same from net/url directly} when the field functions and net/url differ

import (
	"encoding/json"
	"fmt"
	"net/url"
	"strings"

	"github.com/fabiolb/fabio/logger"
	"verif/harness/hx"
)

type c20User struct {
	Name string  `json:"name"`
	PW   *string `json:"pw"`
}

type c20URLIn struct {
	Scheme     string   `json:"scheme"`
	Opaque     string   `json:"opaque"`
	User       *c20User `json:"user"`
	Host       string   `json:"host"`
	Path       string   `json:"path"`
	RawPath    string   `json:"rawpath"`
	OmitHost   bool     `json:"omithost"`
	ForceQuery bool     `json:"forcequery"`
	Query      string   `json:"query"`
	Frag       string   `json:"frag"`
	RawFrag    string   `json:"rawfrag"`
}

func l1enc(s string) string {
	var b strings.Builder
	for i := 0; i < len(s); i++ {
		b.WriteRune(rune(s[i]))
	}
	return b.String()
}

func l1dec(s string) (string, error) {
	b := make([]byte, 0, len(s))
	for _, r := range s {
		if r > 255 {
			return "", fmt.Errorf("rune %U is not a byte", r)
		}
		b = append(b, byte(r))
	}
	return string(b), nil
}

func (in *c20URLIn) url() (*url.URL, error) {
	var err error
	d := func(s string) string {
		x, e := l1dec(s)
		if e != nil {
			err = e
		}
		return x
	}
	u := &url.URL{Scheme: d(in.Scheme), Opaque: d(in.Opaque), Host: d(in.Host), Path: d(in.Path), RawPath: d(in.RawPath),
		OmitHost: in.OmitHost, ForceQuery: in.ForceQuery, RawQuery: d(in.Query), Fragment: d(in.Frag), RawFragment: d(in.RawFrag)}
	if in.User != nil {
		if in.User.PW != nil {
			u.User = url.UserPassword(d(in.User.Name), d(*in.User.PW))
		} else {
			u.User = url.User(d(in.User.Name))
		}
	}
	return u, err
}

func urlInOf(u *url.URL) c20URLIn {
	in := c20URLIn{Scheme: l1enc(u.Scheme), Opaque: l1enc(u.Opaque), Host: l1enc(u.Host), Path: l1enc(u.Path), RawPath: l1enc(u.RawPath),
		OmitHost: u.OmitHost, ForceQuery: u.ForceQuery, Query: l1enc(u.RawQuery), Frag: l1enc(u.Fragment), RawFrag: l1enc(u.RawFragment)}
	if u.User != nil {
		in.User = &c20User{Name: l1enc(u.User.Username())}
		if pw, ok := u.User.Password(); ok {
			pw = l1enc(pw)
			in.User.PW = &pw
		}
	}
	return in
}

func runURL(in *c20URLIn) (interface{}, error) {
	u, err := in.url()
	if err != nil {
		return nil, err
	}
	field := func(name string, e *logger.Event) string {
		s, err := logger.VerifWrite(name, e)
		if err != nil {
			panic(err)
		}
		return l1enc(strings.TrimSuffix(s, "\n"))
	}
	up := &logger.Event{UpstreamURL: u}
	out := map[string]string{
		"url":   field("$upstream_request_url", up),
		"uri":   field("$upstream_request_uri", up),
		"rurl":  field("$request_url", &logger.Event{RequestURL: u}),
		"epath": l1enc(u.EscapedPath()),
	}
	std := map[string]string{"url": l1enc(u.String()), "uri": l1enc(u.RequestURI()), "rurl": l1enc(u.String()), "epath": l1enc(u.EscapedPath())}
	for k := range out {
		if out[k] != std[k] {
			return map[string]interface{}{"out": out, "std": std}, nil
		}
	}
	return out, nil
}

// path segments as a client could send them (already in wire form)
var c20Segs = []string{"foo", "a%20b", "caf%C3%A9", "caf%c3%a9", "a%2Fb", "x;y=1", "a,b", "a:b", "%22q%22", "%3Cb%3E", "q%3F", "h%23", "100%25",
	"~u", "a+b", "a@b", "(1)", "[1]", "!", "*", "$v", "a=b&c", "'", "%00", "%0A", "%7F", "%FF", "%E6%97%A5", ".", "..", "", "index.html", "a_b-c.d"}

var c20Hosts = []string{"foo.com", "7.8.9.0:5678", "[::1]:80", "[fe80::1%25eth0]:443", "h\xc3\xb4te", "backend", "a b", "x\"y", "<h>", "h:", "u@h", "h/p", "h?q", "\xff", "h%41"}

var c20Queries = []string{"", "", "q=x", "a=1&b=2", "\xc3\xa9", "q=a b", "%zz", "a=%20", "x#y", "\"", "?"}

// rawBits: pieces for paths that never went through a parser
var c20RawBits = []string{"/", "a", " ", "%", "%2", "%zz", "%41", "?", "#", "\"", "<", ">", "\\", "^", "`", "{", "|", "}", "\x00", "\n", "\x7f", "\x80", "\xc3\xa9", "\xff",
	":", "*", "[", "]", ";", ",", "=", "@", "&", "+", "$", "!", "'", "(", ")", "~", "_", "-", "."}

func genWirePath(r *hx.Rand) string {
	var b strings.Builder
	for k := r.Intn(4); k >= 0; k-- {
		b.WriteByte('/')
		b.WriteString(r.Pick(c20Segs))
	}
	return b.String()
}

func genRawString(r *hx.Rand, max int) string {
	var b strings.Builder
	for k := r.Intn(max + 1); k > 0; k-- {
		b.WriteString(r.Pick(c20RawBits))
	}
	return b.String()
}

// genURLStruct: mostly what the proxy logs (a parsed request path put under a scheme and a host), then URLs
// with the fields no parser would produce (inconsistent RawPath, opaque, user info, fragments, …).
func genURLStruct(r *hx.Rand) *url.URL {
	u := &url.URL{}
	wire := genWirePath(r)
	if p, err := url.ParseRequestURI(wire); err == nil {
		u.Path, u.RawPath = p.Path, p.RawPath
	} else {
		u.Path = wire
	}
	u.Scheme = r.Pick([]string{"http", "https", "http", "ws", "tcp"})
	u.Host = r.Pick(c20Hosts[:6])
	u.RawQuery = r.Pick(c20Queries)
	switch r.Intn(10) {
	case 0, 1, 2, 3, 4: // as parsed
	case 5: // the canonical encoding was chosen by hand / the upper-case one by the proxy's rewrite
		u.RawPath = (&url.URL{Path: u.Path}).EscapedPath()
		if r.Chance(1, 2) {
			u.RawPath = strings.ToLower(u.RawPath)
		}
	case 6: // RawPath of some other path
		if p, err := url.ParseRequestURI(genWirePath(r)); err == nil {
			u.RawPath = p.EscapedPath()
		}
	case 7: // no parser involved
		u.Path = genRawString(r, 6)
		if r.Chance(1, 2) {
			u.RawPath = genRawString(r, 6)
		} else {
			u.RawPath = ""
		}
	case 8: // the other fields
		if r.Chance(1, 2) {
			u.Scheme = r.Pick([]string{"", "mailto", "HTTP", "a b"})
		}
		if r.Chance(1, 2) {
			u.Host = r.Pick(c20Hosts)
		}
		if r.Chance(1, 3) {
			u.Host = ""
		}
		if r.Chance(1, 3) {
			u.Opaque = r.Pick([]string{"user@example.com", "//x/y", "/p", "a b"})
		}
		if r.Chance(1, 3) {
			if r.Chance(1, 2) {
				u.User = url.User(r.Pick([]string{"", "bob", "b:b", "a@b", "j\xc3\xb6", "a/b?"}))
			} else {
				u.User = url.UserPassword(r.Pick([]string{"", "bob", "b:b"}), r.Pick([]string{"", "secret", "p@ss:w/rd", " "}))
			}
		}
		if r.Chance(1, 3) {
			u.Fragment = r.Pick([]string{"top", "a b", "x%y", "\xc3\xa9", "!()*", "a#b", "a'b"})
			if r.Chance(1, 2) {
				u.RawFragment = r.Pick([]string{"top", "a%20b", "x%25y", "a%20B", "%zz", "!()*"})
			}
		}
		u.ForceQuery = r.Chance(1, 4)
		u.OmitHost = r.Chance(1, 4)
		if r.Chance(1, 3) {
			u.Path = r.Pick([]string{"", "rel", "a:b/c", "a/b:c", "*", "//x", "rel path"})
			u.RawPath = ""
		}
	case 9: // relative / special paths under the proxy's scheme and host
		u.Path = r.Pick([]string{"", "*", "rel", "a:b", "%2F", "/%2F", "/*"})
		u.RawPath = ""
	}
	return u
}

func init() {
	s := "x"
	hx.Register(&hx.Stream{
		Name: "c20.url",
		Corpus: []interface{}{
			c20URLIn{Scheme: "http", Host: "foo.com", Path: "/docs/annual report.pdf"},
			c20URLIn{Scheme: "http", Host: "foo.com", Path: "/a/b", RawPath: "/a%2Fb", Query: "q=1"}, // RawPath of another path: ignored
			c20URLIn{Scheme: "http", Host: "foo.com", Path: "/a/b", RawPath: "/a%2fb"},
			c20URLIn{Scheme: "http", Host: "foo.com", Path: "/a/b c", RawPath: "/a%2Fb%20c"},
			c20URLIn{Scheme: "http", Host: "7.8.9.0:5678", Path: "/search?q=1", Query: "x=y"},
			c20URLIn{Scheme: "https", Host: "hÃ´te", Path: "/cafÃ©"},
			c20URLIn{Scheme: "http", Host: "foo.com", Path: "*"},
			c20URLIn{Scheme: "http", Host: "foo.com", Path: "rel"},
			c20URLIn{Path: "a:b/c"},
			c20URLIn{Scheme: "mailto", Opaque: "user@example.com"},
			c20URLIn{Scheme: "http", Opaque: "//x/y", Query: "q"},
			c20URLIn{Scheme: "http", Host: "h", User: &c20User{Name: "a@b", PW: &s}, Path: "/", Frag: "a b", RawFrag: "a%20b"},
			c20URLIn{Scheme: "file", OmitHost: true, Path: "/etc/passwd"},
			c20URLIn{Scheme: "http", Host: "foo.com", Path: "/", ForceQuery: true},
			c20URLIn{Scheme: "http", Host: "foo.com", Path: "/ÿ\u0000\n\"", RawPath: "/%"},
			c20URLIn{},
		},
		Gen: func(r *hx.Rand, i int) interface{} { return urlInOf(genURLStruct(r)) },
		Run: func(raw json.RawMessage) (interface{}, error) {
			var in c20URLIn
			if err := json.Unmarshal(raw, &in); err != nil {
				return nil, err
			}
			return runURL(&in)
		},
	})
}
