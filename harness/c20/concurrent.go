package main

// c20.concurrent: many goroutines log through ONE real logger (logger.New) whose writer is slow at scripted
// points. Every event has field values of its own, so every line identifies the event it belongs to.
// Afterwards the sink must hold exactly one line per event, each equal to the sequential rendering of
// exactly one event: no lost, duplicated, torn or mixed lines. Built with -race (checks/C20.json:
// "race": true); a data race report makes the harness exit non-zero, which fails the stream.
//
// in   = {"items": format items (as in c20.render), "workers": W, "per": N events per worker,
//         "procs": GOMAXPROCS during the run (0 = leave), "stalls": indices of Write calls that stall:
//         the writer waits (bounded) until other goroutines have entered Log, sleeps, and only then copies
//         the bytes it was handed, like a log target blocked on I/O, "yield": every write yields first}
// impl = {"events", "lines", "writes", "ends_nl", "missing": events whose own line is not in the sink
//         exactly once, "foreign": sink lines that are no event's rendering, "dup": events written more than
//         once, "sum": commutative checksum (sum of FNV-1a of every sink line) — the Lean side recomputes it
//         from the model and from the reference rendering of the same events}
//
// Event (g, i): GET /w<g>/<x…>/<i> HTTP/1.1 from 10.0.<g>.<i mod 250>:<1000+i>, status 200+g,
// size g*1000000+i, duration (g*1000+i) µs, upstream 10.1.<g>.1:<8000+g>, service svc<g>.

import (
	"bytes"
	"encoding/json"
	"fmt"
	"net/http"
	"runtime"
	"strconv"
	"strings"
	"sync"
	"sync/atomic"
	"time"

	"github.com/fabiolb/fabio/logger"
	"verif/harness/hx"
)

type c20ConcIn struct {
	Items   []c20Item `json:"items"`
	Workers int       `json:"workers"`
	Per     int       `json:"per"`
	Procs   int       `json:"procs"`
	Stalls  []int     `json:"stalls"`
	Yield   bool      `json:"yield"`
}

func c20ConcEvent(g, i int) *logger.Event {
	end := time.Unix(1580702706, 0).UTC()
	dur := time.Duration(g*1000+i) * time.Microsecond
	return &logger.Event{
		Start: end.Add(-dur),
		End:   end,
		Request: &http.Request{
			Method:     "GET",
			RequestURI: "/w" + strconv.Itoa(g) + "/" + strings.Repeat("x", (g*7+i)%40) + "/" + strconv.Itoa(i),
			Proto:      "HTTP/1.1",
			RemoteAddr: "10.0." + strconv.Itoa(g) + "." + strconv.Itoa(i%250) + ":" + strconv.Itoa(1000+i),
			Host:       "h" + strconv.Itoa(g),
			Header:     http.Header{"X-Id": {strconv.Itoa(g) + "-" + strconv.Itoa(i)}},
		},
		Response:        &http.Response{StatusCode: 200 + g, ContentLength: int64(g*1000000 + i)},
		UpstreamAddr:    "10.1." + strconv.Itoa(g) + ".1:" + strconv.Itoa(8000+g),
		UpstreamService: "svc" + strconv.Itoa(g),
	}
}

// stallWriter is only ever called with the logger's mutex held.
type stallWriter struct {
	buf     bytes.Buffer
	writes  int
	stalls  map[int]bool
	yield   bool
	entered *int64 // Log calls entered so far (all goroutines)
}

func (w *stallWriter) Write(p []byte) (int, error) {
	k := w.writes
	w.writes++
	if w.yield {
		runtime.Gosched()
	}
	if w.stalls[k] {
		// blocked log target: let other requests finish and format their lines meanwhile
		seen := atomic.LoadInt64(w.entered)
		deadline := time.Now().Add(3 * time.Millisecond)
		for atomic.LoadInt64(w.entered) < seen+2 && time.Now().Before(deadline) {
			time.Sleep(50 * time.Microsecond)
		}
		time.Sleep(300 * time.Microsecond)
	}
	return w.buf.Write(p) // the bytes are consumed only now
}

func fnvStr(s string) uint64 {
	var h uint64 = fnvOff
	for k := 0; k < len(s); k++ {
		h = (h ^ uint64(s[k])) * fnvPrime
	}
	return h
}

func runConcurrent(in *c20ConcIn) (interface{}, error) {
	if in.Workers < 1 || in.Workers > 64 || in.Per < 1 || in.Per > 5000 || in.Procs < 0 || in.Procs > 64 {
		return nil, fmt.Errorf("workers/per/procs out of range")
	}
	for _, it := range in.Items {
		if it.K != "text" && it.K != "field" && it.K != "header" {
			return nil, fmt.Errorf("unknown item kind %q", it.K)
		}
	}
	format := c20Format(in.Items)
	// sequential rendering of every event, one at a time, through a logger of its own
	var seq bytes.Buffer
	sl, err := logger.New(&seq, format)
	if err != nil {
		return map[string]interface{}{"new_err": err.Error()}, nil
	}
	want := map[string]int{}
	events := make([][]*logger.Event, in.Workers)
	for g := range events {
		events[g] = make([]*logger.Event, in.Per)
		for i := range events[g] {
			events[g][i] = c20ConcEvent(g, i)
			seq.Reset()
			sl.Log(events[g][i])
			want[seq.String()]++
		}
	}

	if in.Procs > 0 {
		defer runtime.GOMAXPROCS(runtime.GOMAXPROCS(in.Procs))
	}
	var entered int64
	w := &stallWriter{stalls: map[int]bool{}, yield: in.Yield, entered: &entered}
	for _, k := range in.Stalls {
		w.stalls[k] = true
	}
	l, err := logger.New(w, format)
	if err != nil {
		return map[string]interface{}{"new_err": err.Error()}, nil
	}
	var wg sync.WaitGroup
	var panics int64
	for g := 0; g < in.Workers; g++ {
		wg.Add(1)
		go func(evs []*logger.Event) {
			defer wg.Done()
			defer func() {
				if recover() != nil {
					atomic.AddInt64(&panics, 1)
				}
			}()
			for _, e := range evs {
				atomic.AddInt64(&entered, 1)
				l.Log(e)
			}
		}(events[g])
	}
	wg.Wait()

	out := w.buf.String()
	lines := strings.SplitAfter(out, "\n")
	if len(lines) > 0 && lines[len(lines)-1] == "" {
		lines = lines[:len(lines)-1]
	}
	got := map[string]int{}
	var sum uint64
	for _, ln := range lines {
		got[ln]++
		sum += fnvStr(ln)
	}
	missing, dup, foreign := 0, 0, 0
	firstBad := ""
	for ln, n := range want {
		switch c := got[ln]; {
		case c < n:
			missing += n - c
		case c > n:
			dup += c - n
			if firstBad == "" {
				firstBad = "duplicated: " + ln
			}
		}
	}
	for ln, n := range got {
		if want[ln] == 0 {
			foreign += n
			if firstBad == "" || strings.HasPrefix(firstBad, "duplicated") {
				firstBad = "foreign: " + ln
			}
		}
	}
	return map[string]interface{}{
		"events": in.Workers * in.Per, "lines": len(lines), "writes": w.writes, "ends_nl": out == "" || strings.HasSuffix(out, "\n"),
		"missing": missing, "dup": dup, "foreign": foreign, "panics": panics, "first_bad": firstBad,
		"sum": strconv.FormatUint(sum, 16),
	}, nil
}

var c20ConcFormats = [][]c20Item{
	splitFormatItems("$request_method", " ", "$request_uri", " ", "$response_status", " ", "$response_body_size"),
	splitFormatItems("$remote_addr", " ", "$request_uri", " ", "$response_status", " ", "$response_body_size"),
	splitFormatItems("$remote_host", ":", "$remote_port", " \"", "$request", "\" ", "$response_status", " ", "$header.X-Id"),
	splitFormatItems("$request_uri", " ", "$response_time_us", " ", "$upstream_addr", " ", "$upstream_service", " ", "$request_host"),
	splitFormatItems("$header.X-Id", "|", "$upstream_host", "|", "$upstream_port", "|", "$response_time_ms", "|", "$request_proto"),
}

func init() {
	hx.Register(&hx.Stream{
		Name: "c20.concurrent",
		Corpus: []interface{}{
			// two requests, one P, the first Write stalls while the second request is formatted
			c20ConcIn{Items: c20ConcFormats[1], Workers: 2, Per: 1, Procs: 1, Stalls: []int{0}},
			c20ConcIn{Items: c20ConcFormats[0], Workers: 16, Per: 200, Procs: 0, Stalls: []int{}, Yield: true},
			c20ConcIn{Items: c20ConcFormats[2], Workers: 4, Per: 50, Procs: 1, Stalls: []int{0, 1, 2, 3, 10, 50, 100}, Yield: true},
		},
		Gen: func(r *hx.Rand, i int) interface{} {
			in := c20ConcIn{
				Items:   c20ConcFormats[r.Intn(len(c20ConcFormats))],
				Workers: 2 + r.Intn(15),
				Per:     20 + r.Intn(280),
				Procs:   pickInt(r, []int{0, 1, 1, 2, 4}),
				Yield:   r.Chance(2, 3),
				Stalls:  []int{},
			}
			total := in.Workers * in.Per
			for k := 2 + r.Intn(10); k > 0; k-- {
				if r.Chance(1, 2) {
					in.Stalls = append(in.Stalls, r.Intn(8)) // early: while every worker is still busy
				} else {
					in.Stalls = append(in.Stalls, r.Intn(total))
				}
			}
			return in
		},
		Run: func(raw json.RawMessage) (interface{}, error) {
			var in c20ConcIn
			if err := json.Unmarshal(raw, &in); err != nil {
				return nil, err
			}
			return runConcurrent(&in)
		},
	})
}
