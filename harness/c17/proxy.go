package main

// c17.proxy: the whole path the option travels. The value of proxy.gzip.contenttype goes through the real
// config.Load; the resulting config.Proxy configures a real proxy.HTTPProxy whose transport is built by
// transport.NewTransport (fabio's own: compression NOT disabled); a client that never touches Content-Encoding
// talks to it over a real listener; the upstream is a real server running a scripted response: 1xx responses,
// header lines, status, chunks, optionally compressing on its own when the request IT receives lists gzip (what a
// compressing upstream does) or serving a pre-compressed asset.
//
// got  = the response with the option as given; base = the same exchange with GZIPContentTypes = nil.
// Shipped besides: what the transport delivered to the reverse proxy in both runs (recorded by a RoundTripper
// around the real transport) and the Accept-Encoding/Accept lines the upstream received in both runs.

import (
	"bytes"
	stdgzip "compress/gzip"
	"encoding/json"
	"errors"
	"fmt"
	"io"
	"log"
	"net/http"
	"net/http/httptest"
	"net/http/httptrace"
	"net/textproto"
	"net/url"
	"regexp"
	"sort"
	"strconv"
	"strings"
	"sync"

	"github.com/fabiolb/fabio/config"
	"github.com/fabiolb/fabio/proxy"
	"github.com/fabiolb/fabio/route"
	"github.com/fabiolb/fabio/transport"
	"verif/harness/hx"
)

type UpInfo struct {
	Code int         `json:"code"`
	Hdr  [][2]string `json:"hdr"`
}

type UpScript struct {
	Info    []UpInfo    `json:"info"`
	Code    int         `json:"code"`
	Hdr     [][2]string `json:"hdr"`     // header lines, added in order
	Chunks  []Op        `json:"chunks"`  // "w" (as in the handler scripts) and "fl"
	Encode  string      `json:"encode"`  // "" | "accepted" (gzip when the request the upstream sees lists gzip) | "always" (pre-compressed asset)
	CL      bool        `json:"cl"`      // declare Content-Length of what is sent
	NoCT    bool        `json:"noct"`    // send no Content-Type at all (Go's server would sniff one; other servers do not)
	Trailer [][2]string `json:"trailer"` // trailer fields, announced before the status and set after the body
}

type ProxyIn struct {
	Cfg    string      `json:"cfg"`   // value of proxy.gzip.contenttype
	Via    string      `json:"via"`   // "flag" | "env"
	Flush  string      `json:"flush"` // proxy.globalflushinterval
	Method string      `json:"method"`
	Req    [][2]string `json:"req"`
	Up     UpScript    `json:"up"`
}

type TrRec struct {
	Info         []UpInfo    `json:"info"`
	Status       int         `json:"status"`
	Hdr          [][2]string `json:"hdr"`
	Body         Blob        `json:"body"`
	Uncompressed bool        `json:"uncompressed"` // the transport decoded the body on its own
}

type Seen struct {
	N  int      `json:"n"` // requests the upstream received
	AE []string `json:"ae"`
	A  []string `json:"accept"`
}

type ProxyOut struct {
	CfgErr   bool        `json:"cfgerr"`
	Compiles bool        `json:"compiles"`
	On       bool        `json:"on"` // cfg.Proxy.GZIPContentTypes != nil
	Got      Resp        `json:"got"`
	Base     Resp        `json:"base"`
	Tr       TrRec       `json:"tr"`
	TrBase   TrRec       `json:"trbase"`
	SeenGot  Seen        `json:"seengot"`
	SeenBase Seen        `json:"seenbase"`
	Match    [][2]string `json:"match"`
}

type proxyCase struct {
	in     *ProxyIn
	chunks [][]byte
	got    *proxy.HTTPProxy
	base   *proxy.HTTPProxy
	mu     sync.Mutex
	seen   map[string]*Seen  // by mode
	tr     map[string]*TrRec // by mode
	trBody map[string]*bytes.Buffer
}

type proxyEnv struct {
	up    *httptest.Server
	front *httptest.Server
	upURL *url.URL
	tr    http.RoundTripper
	cases sync.Map
}

var (
	penvOnce sync.Once
	penv     *proxyEnv
)

func listsGzip(vals []string) bool {
	for _, v := range vals {
		for _, e := range strings.Split(v, ",") {
			c, _, _ := strings.Cut(e, ";")
			if strings.EqualFold(strings.TrimSpace(c), "gzip") {
				return true
			}
		}
	}
	return false
}

func mode(r *http.Request) string {
	if strings.HasPrefix(r.URL.Path, "/w") {
		return "w"
	}
	return "b"
}

// asset compresses like a build step would, not like compress/gzip's default: other level, a file name in the header.
func asset(b []byte) []byte {
	var buf bytes.Buffer
	zw, _ := stdgzip.NewWriterLevel(&buf, stdgzip.BestSpeed)
	zw.Name = "asset"
	zw.Write(b)
	zw.Close()
	return buf.Bytes()
}

func (e *proxyEnv) upstream(w http.ResponseWriter, r *http.Request) {
	v, ok := e.cases.Load(r.Header.Get("X-Verif-Case"))
	if !ok {
		http.Error(w, "no such case", 599)
		return
	}
	c := v.(*proxyCase)
	m := mode(r)
	c.mu.Lock()
	s := c.seen[m]
	s.N++
	s.AE = append(s.AE, r.Header.Values("Accept-Encoding")...)
	s.A = append(s.A, r.Header.Values("Accept")...)
	c.mu.Unlock()
	up := &c.in.Up
	for _, i := range up.Info {
		for _, kv := range i.Hdr {
			w.Header().Add(kv[0], kv[1])
		}
		w.WriteHeader(i.Code)
		for _, kv := range i.Hdr {
			w.Header().Del(kv[0])
		}
	}
	enc := up.Encode == "always" || up.Encode == "accepted" && listsGzip(r.Header.Values("Accept-Encoding"))
	chunks := c.chunks
	if enc {
		var all []byte
		for _, b := range chunks {
			all = append(all, b...)
		}
		z := asset(all)
		// same number of writes, the compressed bytes spread over them
		out := make([][]byte, len(chunks))
		if n := len(chunks); n > 0 {
			per := len(z)/n + 1
			for i := range out {
				lo, hi := i*per, (i+1)*per
				if lo > len(z) {
					lo = len(z)
				}
				if hi > len(z) || i == n-1 {
					hi = len(z)
				}
				out[i] = z[lo:hi]
			}
		}
		chunks = out
	}
	for _, kv := range up.Hdr {
		w.Header().Add(kv[0], kv[1])
	}
	if enc {
		w.Header().Set("Content-Encoding", "gzip")
		w.Header().Add("Vary", "Accept-Encoding")
	}
	if up.NoCT {
		w.Header()["Content-Type"] = nil
	}
	for _, kv := range up.Trailer {
		w.Header().Add("Trailer", kv[0])
	}
	if up.CL {
		total := 0
		for _, b := range chunks {
			total += len(b)
		}
		w.Header().Set("Content-Length", strconv.Itoa(total))
	}
	w.WriteHeader(up.Code)
	ci := 0
	for _, o := range up.Chunks {
		switch o.Op {
		case "fl":
			if f, ok := w.(http.Flusher); ok {
				f.Flush()
			}
		case "w":
			w.Write(chunks[ci])
			ci++
		}
	}
	for _, kv := range up.Trailer {
		w.Header().Set(kv[0], kv[1])
	}
}

// recTransport records what the real transport hands to the reverse proxy.
type recTransport struct {
	inner http.RoundTripper
	env   *proxyEnv
}

type teeBody struct {
	io.ReadCloser
	buf *bytes.Buffer
	mu  *sync.Mutex
}

func (t *teeBody) Read(p []byte) (int, error) {
	n, err := t.ReadCloser.Read(p)
	t.mu.Lock()
	t.buf.Write(p[:n])
	t.mu.Unlock()
	return n, err
}

func sortedLines(h map[string][]string) [][2]string {
	out := canonHdr(http.Header(h))
	return out
}

func (t *recTransport) RoundTrip(req *http.Request) (*http.Response, error) {
	v, ok := t.env.cases.Load(req.Header.Get("X-Verif-Case"))
	if !ok {
		return t.inner.RoundTrip(req)
	}
	c := v.(*proxyCase)
	m := mode(req)
	rec := c.tr[m]
	trace := &httptrace.ClientTrace{Got1xxResponse: func(code int, header textproto.MIMEHeader) error {
		c.mu.Lock()
		rec.Info = append(rec.Info, UpInfo{Code: code, Hdr: sortedLines(header)})
		c.mu.Unlock()
		return nil
	}}
	req = req.WithContext(httptrace.WithClientTrace(req.Context(), trace))
	res, err := t.inner.RoundTrip(req)
	if err != nil {
		return res, err
	}
	c.mu.Lock()
	rec.Status = res.StatusCode
	rec.Hdr = canonHdr(res.Header)
	rec.Uncompressed = res.Uncompressed
	c.mu.Unlock()
	res.Body = &teeBody{ReadCloser: res.Body, buf: c.trBody[m], mu: &c.mu}
	return res, nil
}

func getProxyEnv() *proxyEnv {
	penvOnce.Do(func() {
		e := &proxyEnv{}
		e.up = httptest.NewUnstartedServer(http.HandlerFunc(e.upstream))
		e.up.Config.ErrorLog = log.New(io.Discard, "", 0)
		e.up.Start()
		e.upURL, _ = url.Parse(e.up.URL)
		e.tr = &recTransport{inner: transport.NewTransport(nil), env: e} // what main.go wires: transport.NewTransport(nil)
		e.front = httptest.NewUnstartedServer(http.HandlerFunc(func(w http.ResponseWriter, r *http.Request) {
			v, ok := e.cases.Load(r.Header.Get("X-Verif-Case"))
			if !ok {
				http.Error(w, "no such case", 599)
				return
			}
			c := v.(*proxyCase)
			if mode(r) == "w" {
				c.got.ServeHTTP(w, r)
			} else {
				c.base.ServeHTTP(w, r)
			}
		}))
		e.front.Config.ErrorLog = log.New(io.Discard, "", 0)
		e.front.Start()
		log.SetOutput(io.Discard) // fabio's error handler logs through the standard logger
		penv = e
	})
	return penv
}

func loadProxyConfig(in *ProxyIn) (*config.Config, error) {
	args := []string{"fabio"}
	var env []string
	switch in.Via {
	case "", "flag":
		args = append(args, "-proxy.gzip.contenttype="+in.Cfg)
	case "env":
		env = append(env, "FABIO_PROXY_GZIP_CONTENTTYPE="+in.Cfg)
	default:
		return nil, fmt.Errorf("via %q", in.Via)
	}
	if in.Flush != "" {
		args = append(args, "-proxy.globalflushinterval="+in.Flush)
	}
	return config.Load(args, env)
}

var errNonsense = errors.New("input cannot be sent over HTTP")

func runProxy(raw json.RawMessage) (interface{}, error) {
	var in ProxyIn
	if err := json.Unmarshal(raw, &in); err != nil {
		return nil, err
	}
	switch in.Flush {
	case "", "0s", "-1s", "2ms":
	default:
		return nil, fmt.Errorf("flush %q", in.Flush)
	}
	if strings.ContainsAny(in.Cfg, "\x00\n\r") {
		return nil, errNonsense
	}
	up := &in.Up
	if !(up.Code >= 200 && up.Code <= 599) || up.Encode != "" && up.Encode != "accepted" && up.Encode != "always" {
		return nil, fmt.Errorf("upstream script")
	}
	for _, i := range up.Info {
		if i.Code != 102 && i.Code != 103 {
			return nil, fmt.Errorf("informational %d", i.Code)
		}
		for _, kv := range i.Hdr {
			if !validToken(kv[0]) || !validValue(kv[1]) {
				return nil, errNonsense
			}
		}
	}
	for _, kv := range up.Trailer {
		if !validToken(kv[0]) || !validValue(kv[1]) || !strings.HasPrefix(http.CanonicalHeaderKey(kv[0]), "X-") {
			return nil, errNonsense
		}
	}
	if len(up.Trailer) > 0 && up.CL {
		return nil, fmt.Errorf("trailers need chunked framing")
	}
	for _, kv := range up.Hdr {
		if !validToken(kv[0]) || !validValue(kv[1]) {
			return nil, errNonsense
		}
		switch http.CanonicalHeaderKey(kv[0]) {
		case "Content-Length", "Transfer-Encoding", "Connection", "Trailer", "Upgrade", "Keep-Alive", "Te", "Date":
			return nil, fmt.Errorf("header %q is the server's", kv[0])
		}
	}
	c := &proxyCase{in: &in, seen: map[string]*Seen{"w": {AE: []string{}, A: []string{}}, "b": {AE: []string{}, A: []string{}}},
		tr: map[string]*TrRec{"w": {}, "b": {}}, trBody: map[string]*bytes.Buffer{"w": {}, "b": {}}}
	total := 0
	for _, o := range up.Chunks {
		switch o.Op {
		case "fl":
		case "w":
			b, err := chunkBytes(o)
			if err != nil {
				return nil, err
			}
			total += len(b)
			if total > 4<<20 {
				return nil, fmt.Errorf("body too large")
			}
			c.chunks = append(c.chunks, b)
		default:
			return nil, fmt.Errorf("op %q", o.Op)
		}
	}
	out := &ProxyOut{Match: [][2]string{}, Got: Resp{Hdr: [][2]string{}}, Base: Resp{Hdr: [][2]string{}}}
	_, cerr := regexp.Compile(in.Cfg)
	out.Compiles = cerr == nil
	cfg, err := loadProxyConfig(&in)
	if err != nil {
		out.CfgErr = true
		return out, nil
	}
	if cfg == nil {
		return nil, fmt.Errorf("no config")
	}
	out.On = cfg.Proxy.GZIPContentTypes != nil
	e := getProxyEnv()
	lookup := func(*http.Request) *route.Target { return &route.Target{URL: e.upURL, Service: "up"} }
	c.got = &proxy.HTTPProxy{Config: cfg.Proxy, Transport: e.tr, Lookup: lookup}
	basecfg := cfg.Proxy
	basecfg.GZIPContentTypes = nil
	c.base = &proxy.HTTPProxy{Config: basecfg, Transport: e.tr, Lookup: lookup}
	id := "p" + strconv.FormatUint(caseSeq.Add(1), 10)
	e.cases.Store(id, c)
	defer e.cases.Delete(id)
	rin := &In{Method: in.Method, Req: in.Req}
	out.Got = doVia(rin, e.front.URL+"/w", id)
	out.Base = doVia(rin, e.front.URL+"/b", id)
	if out.Base.Err != "" {
		return nil, fmt.Errorf("transport: base=%q got=%q", out.Base.Err, out.Got.Err)
	}
	c.mu.Lock()
	defer c.mu.Unlock()
	c.tr["w"].Body, c.tr["b"].Body = blob(c.trBody["w"].Bytes()), blob(c.trBody["b"].Bytes())
	fix := func(t *TrRec) TrRec {
		if t.Info == nil {
			t.Info = []UpInfo{}
		}
		if t.Hdr == nil {
			t.Hdr = [][2]string{}
		}
		return *t
	}
	out.Tr, out.TrBase = fix(c.tr["w"]), fix(c.tr["b"])
	out.SeenGot, out.SeenBase = *c.seen["w"], *c.seen["b"]
	// oracle: the configured expression on every content type that occurs
	if re := cfg.Proxy.GZIPContentTypes; re != nil {
		cands := map[string]bool{"": true}
		for _, t := range []*TrRec{&out.Tr, &out.TrBase} {
			for _, kv := range t.Hdr {
				if kv[0] == "Content-Type" {
					cands[kv[1]] = true
				}
			}
		}
		var cs []string
		for k := range cands {
			cs = append(cs, k)
		}
		sort.Strings(cs)
		for _, k := range cs {
			m := "0"
			if re.MatchString(k) {
				m = "1"
			}
			out.Match = append(out.Match, [2]string{k, m})
		}
	}
	return out, nil
}

func doVia(in *In, url, id string) Resp {
	r, err := mkReq(in, url)
	if err != nil {
		return Resp{Err: err.Error(), Hdr: [][2]string{}}
	}
	r.Header.Set("X-Verif-Case", id)
	resp, err := theClient().Do(r)
	if err != nil {
		return Resp{Err: "client: " + err.Error(), Hdr: [][2]string{}}
	}
	defer resp.Body.Close()
	body, err := io.ReadAll(resp.Body)
	out := finish(resp.StatusCode, resp.Header, body)
	if err != nil {
		out.Err = "read: " + err.Error()
	}
	if len(resp.Trailer) > 0 {
		out.Trailer = canonHdr(resp.Trailer)
	}
	return out
}

var (
	cfgValues = []string{DocPattern, DocPattern, DocPattern, DocPattern, `^text/`, `.*`, `^text/plain$`, `json`, `^(text/.*)(;.*)?$`}
	upTypes   = []string{"text/html", "text/html; charset=utf-8", "text/plain", "application/json", "application/json; charset=utf-8",
		"image/png", "application/octet-stream", "text/css", "application/vnd.api+json", "text/event-stream", "TEXT/HTML"}
)

func genProxy(r *hx.Rand, i int) interface{} {
	in := ProxyIn{Cfg: r.Pick(cfgValues), Via: "flag", Flush: r.Pick([]string{"0s", "0s", "-1s", "2ms"}), Method: "GET", Req: [][2]string{}}
	switch k := r.Intn(20); {
	case k < 3:
		in.Cfg = "" // compression not configured
	case k < 4:
		in.Cfg = r.Pick([]string{"(", "[a-", "*", `\`, "(?P<x", "a{2,1}"}) // does not compile: Load must refuse
	}
	if r.Chance(1, 4) {
		in.Via = "env"
	}
	if r.Chance(1, 12) {
		in.Method = r.Pick([]string{"HEAD", "POST"})
	}
	switch k := r.Intn(20); {
	case k < 13:
		in.Req = append(in.Req, [2]string{r.Pick([]string{"Accept-Encoding", "accept-encoding"}), r.Pick(aeAccept)})
	case k < 16:
		in.Req = append(in.Req, [2]string{"Accept-Encoding", r.Pick(aeReject)})
	case k < 17:
		in.Req = append(in.Req, [2]string{"Accept-Encoding", r.Pick(aeRefused)})
	default: // none: the transport asks for gzip on its own and decodes what it gets
	}
	if r.Chance(1, 5) {
		a := r.Pick(accepts)
		if r.Chance(1, 4) {
			a = "text/event-stream"
		}
		in.Req = append(in.Req, [2]string{"Accept", a})
	}
	up := &in.Up
	up.Code = codesBody[r.Intn(len(codesBody))]
	if up.Code == 301 || up.Code == 206 {
		up.Code = 200
	}
	if r.Chance(1, 12) {
		up.Code = codesNone[r.Intn(len(codesNone))]
	}
	if r.Chance(9, 10) {
		up.Hdr = append(up.Hdr, [2]string{r.Pick(ctKeys), r.Pick(upTypes)})
	}
	for k := r.Intn(3); k > 0; k-- {
		j := r.Intn(len(hdrNames))
		up.Hdr = append(up.Hdr, [2]string{hdrNames[j], hdrVals[r.Intn(len(hdrVals))]})
	}
	// how the upstream treats encodings: mostly a compressing upstream or a plain one, sometimes pre-encoded content
	switch k := r.Intn(20); {
	case k < 7:
		up.Encode = "accepted"
	case k < 9:
		up.Encode = "always"
	case k < 11:
		up.Hdr = append(up.Hdr, [2]string{"Content-Encoding", r.Pick([]string{"br", "deflate", "identity", "zstd"})})
	}
	up.CL = r.Chance(1, 2)
	if r.Chance(1, 10) {
		inf := UpInfo{Code: []int{103, 103, 102}[r.Intn(3)], Hdr: [][2]string{}}
		if r.Chance(2, 3) {
			inf.Hdr = append(inf.Hdr, [2]string{"Link", "</style.css>; rel=preload"})
		}
		up.Info = append(up.Info, inf)
	}
	bodiless := up.Code == 204 || up.Code == 304
	if !bodiless && r.Chance(1, 10) { // trailer fields: announced, sent after the body (chunked framing)
		up.CL = false
		up.Trailer = append(up.Trailer, [2]string{"X-Checksum", r.Pick([]string{"abc", "0", "sha=1"})})
		if r.Chance(1, 3) {
			up.Trailer = append(up.Trailer, [2]string{"X-Rows", "12"})
		}
	}
	ws := genChunks(r, false, !r.Chance(1, 8))
	if len(ws) == 0 && !bodiless && r.Chance(3, 4) {
		ws = []Op{{Op: "w", Hex: hexOf("<html><body>fabio</body></html>")}}
	}
	if bodiless {
		ws = nil
	}
	for k, w := range ws {
		if k > 0 && !up.CL && r.Chance(1, 4) {
			up.Chunks = append(up.Chunks, Op{Op: "fl"})
		}
		up.Chunks = append(up.Chunks, w)
	}
	// A response that reaches the front server without a Content-Type is sniffed there by net/http from whatever its
	// first flush carries — nothing, when a flush precedes the first byte (a race between ReverseProxy's flush timer
	// and its first write), and always the buffered prefix behind the gzip writer, which swallows the flushes: the
	// recorded class sniffed-type-differs. Go's own upstream server declares a sniffed type unless the response is
	// encoded or its header is flushed before the first byte; those responses declare theirs here.
	hasCT, hasCE := false, up.Encode != ""
	for _, kv := range up.Hdr {
		hasCT = hasCT || http.CanonicalHeaderKey(kv[0]) == "Content-Type"
		hasCE = hasCE || http.CanonicalHeaderKey(kv[0]) == "Content-Encoding"
	}
	firstData := false
	if len(up.Chunks) > 0 && up.Chunks[0].Op == "w" {
		b, _ := chunkBytes(up.Chunks[0])
		firstData = len(b) > 0
	}
	if !hasCT && (hasCE || !firstData || len(up.Info) > 0) {
		up.Hdr = append(up.Hdr, [2]string{"Content-Type", r.Pick(upTypes)})
	}
	if up.Chunks == nil {
		up.Chunks = []Op{}
	}
	if up.Info == nil {
		up.Info = []UpInfo{}
	}
	if up.Hdr == nil {
		up.Hdr = [][2]string{}
	}
	if up.Trailer == nil {
		up.Trailer = [][2]string{}
	}
	return in
}

func init() {
	pin := func(cfg, ae, ct, encode string, body string) ProxyIn {
		in := ProxyIn{Cfg: cfg, Via: "flag", Flush: "0s", Method: "GET", Req: [][2]string{},
			Up: UpScript{Info: []UpInfo{}, Trailer: [][2]string{}, Code: 200, Hdr: [][2]string{{"Content-Type", ct}}, Encode: encode, CL: true,
				Chunks: []Op{{Op: "w", Hex: hexOf(body)}}}}
		if ae != "-" {
			in.Req = append(in.Req, [2]string{"Accept-Encoding", ae})
		}
		return in
	}
	noct := func(in ProxyIn) ProxyIn { in.Up.Hdr = [][2]string{}; in.Up.NoCT = true; return in }
	html := strings.Repeat("<p>fabio</p>", 20)
	corpus := []interface{}{
		pin(DocPattern, "gzip", "text/html", "", html),
		pin(DocPattern, "gzip", "image/png", "", "\x89PNG\r\n\x1a\n"),
		pin(DocPattern, "-", "text/html", "", html),
		pin("", "gzip", "text/html", "", html),
		pin("(", "gzip", "text/html", "", html),
		// a compressing upstream, and a pre-compressed asset: already encoded, must pass byte for byte
		pin(DocPattern, "gzip", "text/html", "accepted", html),
		pin(DocPattern, "gzip", "image/png", "accepted", html),
		pin(DocPattern, "gzip, br", "text/css", "always", html),
		pin(DocPattern, "-", "text/html", "accepted", html),
		pin(DocPattern, "br", "text/html", "accepted", html),
		noct(pin(".*", "gzip", "-", "", html)),
		noct(pin(DocPattern, "gzip", "-", "", html)),
	}
	hx.Register(&hx.Stream{Name: "c17.proxy", Corpus: corpus, Gen: genProxy, Run: runProxy})
}
