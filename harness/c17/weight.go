package main

// c17.weight: "the client accepts gzip" on its own. Accept-Encoding values whose gzip element carries a weight
// parameter drawn from the whole grammar strconv.ParseFloat reads (signs, points, decimal exponents, hexadecimal
// mantissas with binary exponents, values around half the smallest subnormal where the result rounds to zero,
// overflows, inf/nan) plus malformed text. Observed: does the real NewGzipHandler hand the wrapped handler a
// *GzipResponseWriter (engaged) or the bare writer. Model: acceptsGzip. Spec: engaged only if the request lists
// gzip (or *) with a weight that is not a well-formed zero.

import (
	"encoding/json"
	"fmt"
	"net/http"
	"net/http/httptest"
	"strings"

	"github.com/fabiolb/fabio/proxy/gzip"
	"verif/harness/hx"
)

type WeightIn struct {
	Method string      `json:"method"`
	Req    [][2]string `json:"req"`
}

type WeightOut struct {
	Engaged bool   `json:"engaged"`
	Vary    string `json:"vary"`
}

func runWeight(raw json.RawMessage) (interface{}, error) {
	var in WeightIn
	if err := json.Unmarshal(raw, &in); err != nil {
		return nil, err
	}
	r, err := mkReq(&In{Method: in.Method, Req: in.Req}, "http://fabio.test/")
	if err != nil {
		return nil, err
	}
	re, _ := compilePattern(".*")
	out := &WeightOut{}
	h := gzip.NewGzipHandler(http.HandlerFunc(func(w http.ResponseWriter, r *http.Request) {
		_, out.Engaged = w.(*gzip.GzipResponseWriter)
	}), re)
	rec := httptest.NewRecorder()
	h.ServeHTTP(rec, r)
	out.Vary = strings.Join(rec.Header().Values("Vary"), ",")
	return out, nil
}

func genLiteral(r *hx.Rand) string {
	digits := func(n int, zero bool) string {
		b := make([]byte, n)
		for i := range b {
			if zero {
				b[i] = '0'
			} else {
				b[i] = "0123456789"[r.Intn(10)]
			}
		}
		return string(b)
	}
	sign := r.Pick([]string{"", "", "", "+", "-"})
	switch r.Intn(13) {
	case 0, 1: // plain decimals
		return sign + r.Pick([]string{"0", "0.0", "0.000", "0.", ".0", "00", "1", "1.0", "0.5", "0.001", "0.8", "1.000", "0.0001", "000.000"})
	case 2: // zero mantissa with an exponent
		return sign + r.Pick([]string{"0", "0.0", ".0", "0."}) + r.Pick([]string{"e", "E"}) + r.Pick([]string{"", "+", "-"}) + digits(r.Range(1, 6), false)
	case 3: // decimal with exponent, any size
		return sign + digits(r.Range(1, 4), false) + r.Pick([]string{"", ".", "." + digits(r.Range(1, 3), false)}) + r.Pick([]string{"e", "E"}) +
			r.Pick([]string{"", "+", "-", "-", "-"}) + r.Pick([]string{"0", "1", "5", "300", "322", "323", "324", "325", "330", "400", "4000", "99999", "123456789"})
	case 4: // around 2^-1075 = 2.4703282292062327208…e-324 (ties and neighbours)
		return r.Pick([]string{"2.4703282292062327208e-324", "2.4703282292062327209e-324", "24703282292062327208e-343", "24703282292062327209e-343",
			"2.47e-324", "2.48e-324", "2e-324", "3e-324", "4.9e-324", "5e-324", "0.00024703282292062327208e-320", "247032822920623272090000e-347",
			"2.4703282292062327e-324", "1e-323", "0.1e-323", "0.2e-323", "0.3e-323"})
	case 5: // hexadecimal mantissa, binary exponent
		return sign + r.Pick([]string{"0x", "0X"}) + r.Pick([]string{"0", "1", "1.8", "1.0", "0.0", ".8", "f", "A.b", "1.00000000000001", "0.000001", "10"}) +
			r.Pick([]string{"p", "P"}) + r.Pick([]string{"0", "-1", "-2", "+3", "-1073", "-1074", "-1075", "-1076", "-1077", "-1080", "-2000", "1024", "-99999"})
	case 6: // hexadecimal without the mandatory exponent, or with a decimal one
		return r.Pick([]string{"0x0", "0x1", "0x", "0x.p1", "0x0e0", "0xp0", "0x0p", "0x0p+", "0x1p-", "0X0P0"})
	case 7: // special names
		return sign + r.Pick([]string{"inf", "Inf", "INF", "infinity", "nan", "NaN", "infinit", "in"})
	case 8: // overflow
		return r.Pick([]string{"1e309", "1e400", "2e308", "1.8e308", "0x1p1024", "0x1p1023", "9e99999"})
	case 9: // malformed
		return r.Pick([]string{"", "abc", "0.0.0", "0 0", "0e", "0e+", "e5", ".", "+", "-", "0,0", "0x", "0e0e0", "--0", "0-", "q", "=0", "0="})
	case 10: // underscores: skipped where digits are read, then checked by underscoreOK
		if r.Chance(1, 2) {
			return r.Pick([]string{"0_0", "1_0", "0_0.0_0", "0.0_0", "1_000e-4_00", "0e0_0", "0x_0p0", "0x0_0p-1_0", "_0", "0_", "0__0", "0_x0p0", "0_.0",
				"0._0", "0e_0", "0_e0", "+_0", "0x0p_0", "0x0_p0", "0b0_0", "0o0", "1_0e-4_00", "0_0e5"})
		}
		fallthrough
	case 11: // long zero mantissas
		return sign + digits(r.Range(1, 30), true) + "." + digits(r.Range(0, 30), true) + r.Pick([]string{"", "e5", "e-5", "E99999"})
	default: // long non-zero mantissas with a large negative exponent
		return digits(r.Range(1, 25), false) + r.Pick([]string{"", "." + digits(r.Range(1, 10), false)}) + "e-" + r.Pick([]string{"320", "330", "340", "345", "350", "360", "400"})
	}
}

func init() {
	wi := func(ae string) WeightIn { return WeightIn{Method: "GET", Req: [][2]string{{"Accept-Encoding", ae}}} }
	corpus := []interface{}{
		wi("gzip"), wi("gzip;q=0"), wi("gzip;q=0.0"), wi("gzip;q=1"), wi("gzip;q"), wi("gzip;q="), wi("gzip;q=0.0.0"),
		wi("gzip;q=0e0"), wi("gzip;q=1e-400"), wi("gzip;q=2e-324"), wi("gzip;q=3e-324"), wi("gzip;q=0x0p0"), wi("gzip;q=0x1p-1075"),
		wi("gzip;q=0x1p-1074"), wi("gzip;q=0x1.8p-1075"), wi("gzip;q=inf"), wi("gzip;q=nan"), wi("gzip;q=1e400"), wi("gzip;q=-0"),
		wi("gzip;q=0;q=1"), wi("gzip;q=1;q=0"), wi("gzip;level=9;q=0"), wi("br, gzip ; Q = 0.000 , deflate"), wi("gzip0;q=1"),
		wi("gzip;q=24703282292062327208e-343"), wi("gzip;q=24703282292062327209e-343"),
	}
	hx.Register(&hx.Stream{
		Name:   "c17.weight",
		Corpus: corpus,
		Gen: func(r *hx.Rand, i int) interface{} {
			lit := genLiteral(r)
			name := r.Pick([]string{"q", "q", "q", "Q", " q", "q ", "qs", "level"})
			el := "gzip" + r.Pick([]string{"", "", " "}) + ";" + r.Pick([]string{"", "", " "}) + name + r.Pick([]string{"=", "=", "=", " =", "= "}) + lit
			if r.Chance(1, 8) { // a second parameter: the first one named q decides
				el += ";" + r.Pick([]string{"q=0", "q=1", "level=1", "q=" + genLiteral(r)})
			}
			var es []string
			for k := r.Intn(3); k > 0; k-- {
				es = append(es, r.Pick([]string{"br", "deflate;q=0.5", "identity;q=0", "*;q=0.1", "x-gzip", "gzipx;q=1"}))
			}
			es = append(es, el)
			if r.Chance(1, 4) {
				es = append(es, r.Pick([]string{"br", "*", "gzip;q=1", "gzip;q=0"}))
			}
			ae := strings.Join(es, r.Pick([]string{",", ", ", " , "}))
			if !validValue(ae) {
				ae = "gzip;q=" + fmt.Sprint(r.Intn(2))
			}
			in := wi(ae)
			if r.Chance(1, 20) {
				in.Method = "HEAD"
			}
			if r.Chance(1, 15) {
				in.Req = append(in.Req, [2]string{"Accept", r.Pick([]string{"text/html", "text/event-stream"})})
			}
			return in
		},
		Run: runWeight,
	})
}
