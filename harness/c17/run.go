package main

// Running one scripted response through the REAL gzip handler (proxy/gzip.NewGzipHandler) and, for
// reference, through the bare scripted handler, either against an httptest.ResponseRecorder ("rec") or over
// a real httptest.Server and an http.Client that does not touch Content-Encoding ("srv").

import (
	"bytes"
	stdgzip "compress/gzip"
	"crypto/sha256"
	"encoding/hex"
	"fmt"
	"io"
	"log"
	"net/http"
	"net/http/httptest"
	"regexp"
	"sort"
	"strconv"
	"sync"
	"sync/atomic"
	"time"

	"github.com/fabiolb/fabio/proxy/gzip"
	"verif/harness/hx"
)

// Op is one action of the scripted upstream handler.
//
//	set/add/del  header operation on w.Header()
//	nil          w.Header()[CanonicalHeaderKey(K)] = nil: the key present with no value (suppresses an automatic header)
//	wh           w.WriteHeader(Code)
//	w            w.Write(bytes): Hex when given, otherwise Len bytes derived from Seed (Kind 0 random, 1 text)
//	fl           if f, ok := w.(http.Flusher); ok { f.Flush() } — whatever writer the handler was given
//	rc           http.NewResponseController(w).Flush() — how httputil.ReverseProxy flushes (follows Unwrap())
type Op struct {
	Op   string `json:"op"`
	K    string `json:"k,omitempty"`
	V    string `json:"v,omitempty"`
	Code int    `json:"code,omitempty"`
	Hex  string `json:"hex,omitempty"`
	Seed uint64 `json:"seed,omitempty"`
	Len  int    `json:"len,omitempty"`
	Kind int    `json:"kind,omitempty"`
}

type In struct {
	Layer   string      `json:"layer"` // "rec" | "srv"
	Method  string      `json:"method"`
	Pattern string      `json:"pattern"`
	Req     [][2]string `json:"req"` // request headers, in order
	Ops     []Op        `json:"ops"`
	// Gone (stream c17.pool only): before this exchange is served and judged, the same exchange is served once to a
	// client whose connection takes *Gone body bytes and then fails (traffic that loses its client, concurrently
	// with everything else; its own response is not judged)
	Gone *int `json:"gone,omitempty"`
}

const maxHex = 512 // bodies up to this many bytes are shipped to the Lean side in hex

type Blob struct {
	Len int    `json:"len"`
	Sha string `json:"sha"`
	Hex string `json:"hex"` // "" when Len > maxHex
	Big bool   `json:"big"`
}

func blob(b []byte) Blob {
	s := sha256.Sum256(b)
	o := Blob{Len: len(b), Sha: hex.EncodeToString(s[:8])}
	if len(b) <= maxHex {
		o.Hex = hex.EncodeToString(b)
	} else {
		o.Big = true
	}
	return o
}

type Gunzip struct {
	Ok  bool   `json:"ok"`
	Err string `json:"err,omitempty"`
	Blob
}

type Resp struct {
	Status  int         `json:"status"`
	Hdr     [][2]string `json:"hdr"` // canonical name, value; sorted by name, values in wire order; Date dropped
	Body    Blob        `json:"body"`
	Gunzip  *Gunzip     `json:"gunzip"`            // set when the response says Content-Encoding: gzip
	Trailer [][2]string `json:"trailer,omitempty"` // trailer fields the client received after the body
	Err     string      `json:"err,omitempty"`
}

type Oracle struct {
	Sniff string      `json:"sniff"` // http.DetectContentType(first written chunk)
	Match [][2]string `json:"match"` // content type ↦ "1"/"0": the configured regexp on every candidate value
	Up    Blob        `json:"up"`    // everything the scripted handler passed to Write, concatenated
	NW    int         `json:"nw"`    // number of Write calls
	// CanFlush: the writer handed to the scripted handler behind NewGzipHandler implemented http.Flusher (only
	// meaningful when the script has a flush op; the bare reference run flushes exactly when this is true, so
	// that both runs are the same handler behaviour)
	CanFlush bool `json:"canflush"`
}

type Out struct {
	Got    Resp   `json:"got"`
	Base   Resp   `json:"base"`
	Oracle Oracle `json:"oracle"`
}

func chunkBytes(o Op) ([]byte, error) {
	if o.Hex != "" {
		return hex.DecodeString(o.Hex)
	}
	if o.Len < 0 || o.Len > 8<<20 {
		return nil, fmt.Errorf("chunk length %d", o.Len)
	}
	if o.Len == 0 {
		return []byte{}, nil
	}
	r := hx.NewRand(o.Seed, "c17.chunk")
	if o.Kind == 0 {
		return r.Bytes(o.Len), nil
	}
	// compressible text
	words := []string{"<p>", "fabio ", "route ", "{\"k\":", "lorem ", "ipsum ", "0123456789", "\n", "</p>", "  "}
	b := make([]byte, 0, o.Len+16)
	for len(b) < o.Len {
		b = append(b, words[r.Intn(len(words))]...)
	}
	return b[:o.Len], nil
}

func validCode(c int, layer string) bool {
	// 1xx (informational, then a final status) only over the real server: the recorder takes the first code as final
	return c >= 200 && c <= 599 || layer == "srv" && (c == 102 || c == 103)
}

// script builds the upstream handler; up receives every byte passed to Write. A flush op flushes when the
// writer offers http.Flusher (probe != nil: record whether it did) or, for the reference run (probe == nil),
// exactly when mirror says the probed run could.
func script(in *In, chunks [][]byte, up *bytes.Buffer, nw *int, probe *bool, mirror bool) http.Handler {
	return http.HandlerFunc(func(w http.ResponseWriter, r *http.Request) {
		ci := 0
		for _, o := range in.Ops {
			switch o.Op {
			case "set":
				w.Header().Set(o.K, o.V)
			case "add":
				w.Header().Add(o.K, o.V)
			case "del":
				w.Header().Del(o.K)
			case "nil":
				w.Header()[http.CanonicalHeaderKey(o.K)] = nil
			case "wh":
				w.WriteHeader(o.Code)
			case "fl":
				f, ok := w.(http.Flusher)
				if probe != nil {
					*probe = ok
				} else {
					ok = ok && mirror
				}
				if ok {
					f.Flush()
				}
			case "rc":
				var err error
				if probe != nil {
					err = http.NewResponseController(w).Flush()
					*probe = err == nil
				} else if mirror {
					http.NewResponseController(w).Flush()
				}
			case "w":
				b := chunks[ci]
				ci++
				if up != nil {
					up.Write(b)
					*nw++
				}
				w.Write(b)
			}
		}
	})
}

func canonHdr(h http.Header) [][2]string {
	var ks []string
	for k := range h {
		if k == "Date" {
			continue
		}
		ks = append(ks, k)
	}
	sort.Strings(ks)
	out := [][2]string{}
	for _, k := range ks {
		for _, v := range h[k] {
			out = append(out, [2]string{k, v})
		}
	}
	return out
}

func finish(status int, h http.Header, body []byte) Resp {
	r := Resp{Status: status, Hdr: canonHdr(h), Body: blob(body)}
	if ce := h["Content-Encoding"]; len(ce) == 1 && ce[0] == "gzip" {
		g := &Gunzip{}
		zr, err := stdgzip.NewReader(bytes.NewReader(body))
		if err == nil {
			var dec []byte
			dec, err = io.ReadAll(zr)
			if err == nil {
				g.Ok = true
				g.Blob = blob(dec)
			}
		}
		if err != nil {
			g.Err = err.Error()
		}
		r.Gunzip = g
	}
	return r
}

// ---- real server ----

var (
	srvOnce sync.Once
	srv     *httptest.Server
	client  *http.Client
	cases   sync.Map // id -> *srvCase
	caseSeq atomic.Uint64
)

type srvCase struct {
	wrapped http.Handler
	bare    http.Handler
}

func server() *httptest.Server {
	srvOnce.Do(func() {
		srv = httptest.NewUnstartedServer(http.HandlerFunc(func(w http.ResponseWriter, r *http.Request) {
			id := r.Header.Get("X-Verif-Case")
			r.Header.Del("X-Verif-Case")
			v, ok := cases.Load(id)
			if !ok {
				http.Error(w, "no such case", 599)
				return
			}
			c := v.(*srvCase)
			if r.URL.Path == "/w" {
				c.wrapped.ServeHTTP(w, r)
			} else {
				c.bare.ServeHTTP(w, r)
			}
		}))
		srv.Config.ErrorLog = log.New(io.Discard, "", 0) // "superfluous WriteHeader" is part of the scripts
		srv.Start()
	})
	return srv
}

var clientOnce sync.Once

// theClient never touches Content-Encoding and keeps its connections (few sockets, reused).
func theClient() *http.Client {
	clientOnce.Do(func() {
		tr := &http.Transport{DisableCompression: true, MaxIdleConnsPerHost: 128}
		client = &http.Client{Transport: tr, CheckRedirect: func(*http.Request, []*http.Request) error { return http.ErrUseLastResponse }}
	})
	return client
}

func mkReq(in *In, url string) (*http.Request, error) {
	m := in.Method
	if m == "" {
		m = "GET"
	}
	if m != "GET" && m != "HEAD" && m != "POST" {
		return nil, fmt.Errorf("method %q", m)
	}
	r, err := http.NewRequest(m, url, nil)
	if err != nil {
		return nil, err
	}
	for _, kv := range in.Req {
		if !validToken(kv[0]) || !validValue(kv[1]) {
			return nil, fmt.Errorf("request header %q", kv)
		}
		r.Header.Add(kv[0], kv[1])
	}
	return r, nil
}

func validToken(s string) bool {
	if s == "" {
		return false
	}
	for _, c := range []byte(s) {
		if !(c >= 'a' && c <= 'z' || c >= 'A' && c <= 'Z' || c >= '0' && c <= '9' || c == '-') {
			return false
		}
	}
	return true
}

func validValue(s string) bool {
	for _, c := range []byte(s) {
		if (c < 0x20 && c != '\t') || c >= 0x7f {
			return false
		}
	}
	return len(s) == 0 || (s[0] != ' ' && s[len(s)-1] != ' ' && s[0] != '\t' && s[len(s)-1] != '\t')
}

func doSrv(in *In, path string, id string) Resp {
	r, err := mkReq(in, server().URL+path)
	if err != nil {
		return Resp{Err: err.Error(), Hdr: [][2]string{}}
	}
	r.Header.Set("X-Verif-Case", id)
	resp, err := theClient().Do(r)
	if err != nil {
		return Resp{Err: "client: " + err.Error(), Hdr: [][2]string{}}
	}
	defer resp.Body.Close()
	body, err := io.ReadAll(resp.Body)
	out := finish(resp.StatusCode, resp.Header, body)
	if err != nil {
		out.Err = "read: " + err.Error()
	}
	return out
}

// signalDone closes done when h has returned (or panicked) for the first time.
func signalDone(h http.Handler, done chan struct{}) http.Handler {
	var once sync.Once
	return http.HandlerFunc(func(w http.ResponseWriter, r *http.Request) {
		defer once.Do(func() { close(done) })
		h.ServeHTTP(w, r)
	})
}

// waitDone: the request may never have reached the handler (a refused request): do not wait for ever.
func waitDone(done chan struct{}, failed bool) {
	d := 5 * time.Second
	if failed {
		d = 100 * time.Millisecond
	}
	select {
	case <-done:
	case <-time.After(d):
	}
}

func doRec(in *In, h http.Handler) Resp {
	r, err := mkReq(in, "http://fabio.test/")
	if err != nil {
		return Resp{Err: err.Error(), Hdr: [][2]string{}}
	}
	rec := httptest.NewRecorder()
	h.ServeHTTP(rec, r)
	res := rec.Result()
	return finish(res.StatusCode, res.Header, rec.Body.Bytes())
}

// compilePattern: a fresh *regexp.Regexp per case, so that a case never depends on what earlier cases left behind
// in anything keyed on the expression (a replay must reproduce on its own).
func compilePattern(p string) (*regexp.Regexp, error) { return regexp.Compile(p) }

func runCase(in *In) (*Out, error) {
	re, err := compilePattern(in.Pattern)
	if err != nil {
		return nil, err
	}
	return runCaseWith(in, re, func(inner http.Handler) http.Handler { return gzip.NewGzipHandler(inner, re) })
}

// runCaseWith: wrap builds the handler under test around the scripted upstream handler (a new NewGzipHandler per
// case, or one long-lived handler whose inner handler is swapped — stream c17.seq).
func runCaseWith(in *In, re *regexp.Regexp, wrap func(inner http.Handler) http.Handler) (*Out, error) {
	chunks, err := prepare(in)
	if err != nil {
		return nil, err
	}
	var up bytes.Buffer
	nw := 0
	canFlush := false
	out := &Out{}
	switch in.Layer {
	case "rec":
		out.Got = doRec(in, wrap(script(in, chunks, nil, nil, &canFlush, false)))
		out.Base = doRec(in, script(in, chunks, &up, &nw, nil, canFlush))
	case "srv":
		// the client has the whole response of a HEAD request (or of a flushed one) before the handler has returned:
		// wait for the handler itself before reading what it recorded (probe, up, nw)
		id := strconv.FormatUint(caseSeq.Add(1), 10)
		gotDone, baseDone := make(chan struct{}), make(chan struct{})
		c := &srvCase{wrapped: signalDone(wrap(script(in, chunks, nil, nil, &canFlush, false)), gotDone)}
		cases.Store(id, c)
		defer cases.Delete(id)
		out.Got = doSrv(in, "/w", id)
		waitDone(gotDone, out.Got.Err != "")
		cases.Store(id, &srvCase{wrapped: c.wrapped, bare: signalDone(script(in, chunks, &up, &nw, nil, canFlush), baseDone)})
		out.Base = doSrv(in, "/b", id)
		waitDone(baseDone, out.Base.Err != "")
	default:
		return nil, fmt.Errorf("layer %q", in.Layer)
	}
	if out.Base.Err != "" {
		// the reference run itself failed: the script is not a well-formed response (e.g. a wrong declared length)
		return nil, fmt.Errorf("transport: base=%q got=%q", out.Base.Err, out.Got.Err)
	}
	// a failure of the wrapped run only (truncated body, protocol error) is an observable: Got.Err is shipped
	fillOracle(in, chunks, re, out, up.Bytes(), nw, canFlush)
	return out, nil
}

// prepare validates the script and materialises its chunks.
func prepare(in *In) ([][]byte, error) {
	var chunks [][]byte
	total := 0
	for _, o := range in.Ops {
		switch o.Op {
		case "set", "add", "del", "nil":
			if !validToken(o.K) || !validValue(o.V) {
				return nil, fmt.Errorf("header op %q %q", o.K, o.V)
			}
		case "fl", "rc":
		case "wh":
			if !validCode(o.Code, in.Layer) {
				return nil, fmt.Errorf("status %d", o.Code)
			}
		case "w":
			b, err := chunkBytes(o)
			if err != nil {
				return nil, err
			}
			total += len(b)
			if total > 16<<20 {
				return nil, fmt.Errorf("body too large")
			}
			chunks = append(chunks, b)
		default:
			return nil, fmt.Errorf("op %q", o.Op)
		}
	}
	return chunks, nil
}

// fillOracle: sniffing and the regexp are Go library behaviour the model takes as parameters
func fillOracle(in *In, chunks [][]byte, re *regexp.Regexp, out *Out, up []byte, nw int, canFlush bool) {
	out.Oracle.Up = blob(up)
	out.Oracle.NW = nw
	out.Oracle.CanFlush = canFlush
	if len(chunks) > 0 {
		out.Oracle.Sniff = http.DetectContentType(chunks[0])
	}
	cands := map[string]bool{"": true, out.Oracle.Sniff: true}
	for _, o := range in.Ops {
		if o.Op == "set" || o.Op == "add" {
			cands[o.V] = true
		}
	}
	var cs []string
	for c := range cands {
		cs = append(cs, c)
	}
	sort.Strings(cs)
	out.Oracle.Match = [][2]string{}
	for _, c := range cs {
		m := "0"
		if re.MatchString(c) {
			m = "1"
		}
		out.Oracle.Match = append(out.Oracle.Match, [2]string{c, m})
	}
}
