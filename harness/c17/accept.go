package main

// c17.accept: the Accept header's part of "the client accepts gzip". The handler leaves consumers of server-sent
// events alone: a client whose Accept list names text/event-stream never gets the writer machine. Observed like
// c17.weight: does the real NewGzipHandler hand the wrapped handler a *GzipResponseWriter. Model: acceptsGzip (a
// substring search over the first Accept line). Spec (independent of the coded test): engaged only if gzip is
// accepted in the RFC reading AND no element of the Accept list — split at ",", parameters cut at ";", optional
// white space trimmed — is exactly text/event-stream. Lists with the type in every position, with and without
// white space and parameters, near misses (longer types that contain the name, other case), and lists without it.

import (
	"strings"

	"verif/harness/hx"
)

var (
	otherTypes = []string{"text/html", "application/json", "*/*", "text/*", "application/xhtml+xml", "image/webp", "text/plain", "application/xml"}
	esNear     = []string{"text/event-streams", "x-text/event-stream", "text/event-stream2", "TEXT/EVENT-STREAM", "Text/Event-Stream",
		"text/event_stream", "text/eventstream", "text /event-stream", "event-stream", "text/event-strea"}
	mtParams = []string{"", "", "", ";q=0.9", "; q=0.5", ";charset=utf-8", " ;q=1", ";q=0", "; level=1;q=0.3"}
)

func genAcceptList(r *hx.Rand) string {
	var es []string
	n := r.Range(1, 4)
	pos := r.Intn(n)
	kind := r.Intn(10) // 0..5: listed, 6,7: near miss, 8,9: not listed
	for k := 0; k < n; k++ {
		t := r.Pick(otherTypes)
		if k == pos {
			switch {
			case kind <= 5:
				t = "text/event-stream"
			case kind <= 7:
				t = r.Pick(esNear)
			}
		}
		es = append(es, r.Pick([]string{"", "", " ", "\t", "  "})+t+r.Pick(mtParams))
	}
	if kind <= 5 && r.Chance(1, 6) { // listed twice
		es = append(es, r.Pick([]string{"", " "})+"text/event-stream"+r.Pick(mtParams))
	}
	s := strings.Join(es, r.Pick([]string{",", ",", ", ", " , "}))
	return strings.TrimSpace(s) // net/http trims the value of a header line
}

func init() {
	ai := func(accept string) WeightIn {
		return WeightIn{Method: "GET", Req: [][2]string{{"Accept-Encoding", "gzip"}, {"Accept", accept}}}
	}
	corpus := []interface{}{
		ai("text/event-stream"), ai("text/html, text/event-stream"), ai("text/html,text/event-stream"),
		ai("application/json, text/event-stream;q=0.5"), ai("text/event-stream ;q=1, */*"), ai("text/html,\ttext/event-stream"),
		ai("text/html, */*"), ai("text/event-streams"), ai("TEXT/EVENT-STREAM"), ai("text/html;x=text/event-stream"), ai(""),
		WeightIn{Method: "GET", Req: [][2]string{{"Accept-Encoding", "gzip"}}},
		WeightIn{Method: "GET", Req: [][2]string{{"Accept", "text/html, text/event-stream"}}},
	}
	hx.Register(&hx.Stream{
		Name:   "c17.accept",
		Corpus: corpus,
		Gen: func(r *hx.Rand, i int) interface{} {
			a := genAcceptList(r)
			if !validValue(a) {
				a = "text/html, text/event-stream"
			}
			in := WeightIn{Method: "GET", Req: [][2]string{}}
			switch k := r.Intn(10); {
			case k < 7:
				in.Req = append(in.Req, [2]string{r.Pick([]string{"Accept-Encoding", "accept-encoding"}), r.Pick(aeAccept)})
			case k < 8:
				in.Req = append(in.Req, [2]string{"Accept-Encoding", r.Pick(aeRefused)})
			case k < 9:
				in.Req = append(in.Req, [2]string{"Accept-Encoding", r.Pick(aeReject)})
			}
			in.Req = append(in.Req, [2]string{r.Pick([]string{"Accept", "Accept", "accept", "ACCEPT"}), a})
			if r.Chance(1, 2) && len(in.Req) == 2 {
				in.Req[0], in.Req[1] = in.Req[1], in.Req[0]
			}
			if r.Chance(1, 20) {
				in.Method = "HEAD"
			}
			return in
		},
		Run: runWeight,
	})
}
