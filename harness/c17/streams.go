package main

import (
	"encoding/hex"
	"encoding/json"
	"fmt"
	"net/http"
	"strconv"
	"sync"

	"verif/harness/hx"
)

// DocPattern is the expression fabio documents for proxy.gzip.contenttype (fabio.properties, docs/content/ref);
// config/default.go leaves the option empty (compression off), so this is the "default when switched on".
const DocPattern = `^(text/.*|application/(javascript|json|font-woff|xml)|.*\+(json|xml))(;.*)?$`

var (
	patterns = []string{DocPattern, DocPattern, DocPattern, `^text/plain(;.*)?$`, `.*`, `^$`, `^text/`, `json`, `^text/plain$`, `charset=utf-8`}
	ctypes   = []string{"text/html", "text/html; charset=utf-8", "text/plain", "text/plain; charset=utf-8", "application/json",
		"application/javascript", "image/png", "application/octet-stream", "application/vnd.api+json", "application/font-woff",
		"TEXT/HTML", "", "text/event-stream", "application/gzip", "application/xml;q", "text/css"}
	// Accept-Encoding values on which "contains gzip" and "lists gzip with a non-zero weight" coincide
	aeAccept = []string{"gzip", "gzip", "gzip", "gzip, deflate", "gzip, deflate, br", "deflate, gzip;q=0.5", "gzip;q=1.0",
		"br;q=1.0, gzip;q=0.8, *;q=0.1", "gzip ;q=0.001", "x-gzip, gzip", "identity;q=0, gzip"}
	aeReject = []string{"br", "identity", "", "deflate", "GZIP", "Gzip", "*", "compress, br;q=0.9", "gzi, p"}
	// the weight says "not acceptable" although the name occurs
	aeRefused = []string{"gzip;q=0", "gzip;q=0.0", "deflate, gzip;q=0.000", "gzip; q=0", "br, gzip ;q=0", "identity, gzip;Q=0"}
	aeOdd     = []string{"gzip;q", "gzip;q=", "gzip;q=0.0.0", "gzip;q=0e0", "gzip;q=1e-400", "gzip;q=3e-324", "gzip;q=0x0p0", "gzip;q=inf", "gzip;q=-0",
		"gzip;q=0_0", "gzip;q=1e400", "br, gzip;q=0E-7"}
	accepts   = []string{"text/html", "*/*", "text/html,application/xhtml+xml;q=0.9,*/*;q=0.8", "application/json"}
	codesBody = []int{200, 200, 200, 201, 404, 500, 206, 203, 301}
	codesNone = []int{204, 304}
	encodings = []string{"gzip", "br", "identity", "deflate", "compress"}
	hdrNames  = []string{"X-Foo", "Cache-Control", "Etag", "Set-Cookie", "x-lower", "Vary", "Last-Modified"}
	hdrVals   = []string{"bar", "no-cache", `"abc"`, "a=b", "Origin", "x", "Mon, 01 Jan 2001 00:00:00 GMT"}
	ctKeys    = []string{"Content-Type", "Content-Type", "content-type", "CONTENT-TYPE"}
)

type genOpt struct {
	bodiless bool     // allow HEAD/204/304 (class D28)
	refused  bool     // allow Accept-Encoding values that list gzip with q=0
	sniffy   bool     // allow implicit writes whose first chunk sniffs differently from the body prefix (srv layer)
	ctypes   []string // content type universe (nil: the general one)
	patterns []string // expression universe (nil: the general one)
	small    bool     // bodies of a few hundred bytes at most
}

func (o genOpt) ct(r *hx.Rand) string {
	if o.ctypes != nil {
		return r.Pick(o.ctypes)
	}
	return r.Pick(ctypes)
}

// expressions that look at the parameters of the content type (no `(;.*)?` tail, or selecting on charset), and
// content types that share the media type and differ in parameters, case or spacing
var (
	patternsParam = []string{`^text/plain$`, `^(text/plain|application/json; charset=utf-8)$`, `charset=utf-8`,
		`^text/html; charset=utf-8$`, `^text/[a-z]+$`, `^application/json(; charset=utf-8)?$`, `^[a-z/]+$`}
	ctypesParam = []string{"text/plain", "text/plain; charset=iso-8859-1", "text/plain; charset=utf-8", "text/plain;charset=utf-8",
		"text/html", "text/html; charset=utf-8", "text/html; charset=UTF-8", "application/json", "application/json; charset=utf-8",
		"application/json; charset=latin1", "TEXT/PLAIN", "text/plain ;x=1", "image/png"}
)

func genChunks(r *hx.Rand, thorough, small bool) []Op {
	var ops []Op
	n := 0
	switch r.Intn(10) {
	case 0:
		n = 0
	case 1, 2, 3:
		n = 1
	default:
		n = r.Range(2, 6)
	}
	big := r.Intn(40) // 0: up to 1 MiB, 1,2: up to 64 KiB
	if small {
		big = 3 + r.Intn(37)
	}
	for i := 0; i < n; i++ {
		var o Op
		o.Op = "w"
		sz := 0
		switch {
		case r.Chance(1, 6):
			sz = 0
		case big == 0 && r.Chance(1, 2):
			sz = r.Range(1, 1<<20)
			if thorough && r.Chance(1, 4) {
				sz = r.Range(1<<20, 4<<20)
			}
		case big <= 2:
			sz = r.Range(1, 1<<16)
		case r.Chance(1, 2):
			sz = r.Range(1, 40)
		default:
			sz = r.Range(1, 300)
		}
		if sz <= 120 && r.Chance(3, 4) {
			switch r.Intn(4) {
			case 0:
				o.Hex = hex.EncodeToString(r.Bytes(sz))
			case 1:
				o.Hex = hex.EncodeToString([]byte(("<html><body>hello fabio</body></html>" + "                                                                                          ")[:sz]))
			case 2:
				o.Hex = hex.EncodeToString([]byte((`{"routes":[{"service":"svc","host":"a.com","path":"/"}],"n":12345678901234567890123456789012345678901234567890123456789012345678901234567890}` + "                                                                                          ")[:sz]))
			default:
				b := make([]byte, sz)
				for j := range b {
					b[j] = "ab\n"[r.Intn(3)]
				}
				o.Hex = hex.EncodeToString(b)
			}
			if sz == 0 {
				o.Hex = ""
			}
		} else {
			o.Seed = r.U64() % 1000
			o.Len = sz
			o.Kind = r.Intn(2)
		}
		ops = append(ops, o)
	}
	return ops
}

func totalLen(ops []Op) int {
	t := 0
	for _, o := range ops {
		if o.Op == "w" {
			if o.Hex != "" {
				t += len(o.Hex) / 2
			} else {
				t += o.Len
			}
		}
	}
	return t
}

func genCase(r *hx.Rand, layer string, opt genOpt, thorough bool) In {
	in := In{Layer: layer, Method: "GET", Pattern: r.Pick(patterns), Req: [][2]string{}}
	if opt.patterns != nil {
		in.Pattern = r.Pick(opt.patterns)
	}
	if r.Chance(1, 10) {
		in.Method = "POST"
	}
	// a third of the cases is steered towards the compress branch (documented expression, a matching type, gzip
	// accepted, no encoding): otherwise the refusals, of which there are many kinds, crowd it out
	favour := opt.patterns == nil && opt.ctypes == nil && r.Chance(1, 3)
	if favour {
		in.Pattern = DocPattern
		opt.ctypes = []string{"text/html", "text/html; charset=utf-8", "text/plain", "application/json", "application/javascript",
			"application/vnd.api+json", "text/css", "application/xml;q"}
	}
	// request headers
	aeKey := r.Pick([]string{"Accept-Encoding", "Accept-Encoding", "accept-encoding", "ACCEPT-ENCODING"})
	switch k := r.Intn(20); {
	case k < 12 || favour:
		in.Req = append(in.Req, [2]string{aeKey, r.Pick(aeAccept)})
	case k < 16:
		in.Req = append(in.Req, [2]string{aeKey, r.Pick(aeReject)})
	case k < 17: // two header lines: only the first one is looked at
		in.Req = append(in.Req, [2]string{aeKey, r.Pick([]string{"br", "gzip", "deflate"})}, [2]string{"Accept-Encoding", r.Pick([]string{"gzip", "br"})})
	case k < 18 && opt.refused:
		in.Req = append(in.Req, [2]string{aeKey, r.Pick(aeRefused)})
	case k < 19: // weights outside the RFC's grammar (the code reads them with strconv.ParseFloat); see c17.weight
		in.Req = append(in.Req, [2]string{aeKey, r.Pick(aeOdd)})
	default: // absent
	}
	if r.Chance(1, 4) {
		a := r.Pick(accepts)
		if r.Chance(1, 5) {
			a = r.Pick([]string{"text/event-stream", "text/html, text/event-stream", "TEXT/EVENT-STREAM"})
			if r.Chance(1, 2) { // the event-stream type anywhere in a list, near misses (stream c17.accept has the grammar)
				a = genAcceptList(r)
				if !validValue(a) {
					a = "text/html,text/event-stream"
				}
			}
		}
		in.Req = append(in.Req, [2]string{r.Pick([]string{"Accept", "accept"}), a})
	}
	if r.Chance(1, 3) {
		in.Req = append(in.Req, [2]string{"User-Agent", "verif"})
	}
	if r.Chance(1, 2) { // request header order must not matter
		for i := len(in.Req) - 1; i > 0; i-- {
			j := r.Intn(i + 1)
			in.Req[i], in.Req[j] = in.Req[j], in.Req[i]
		}
	}

	writes := genChunks(r, thorough, opt.small)
	total := totalLen(writes)
	var ops []Op
	if r.Chance(17, 20) {
		ops = append(ops, Op{Op: r.Pick([]string{"set", "set", "add"}), K: r.Pick(ctKeys), V: opt.ct(r)})
	} else if r.Chance(1, 2) && !favour {
		// the type suppressed on purpose: the key present with no value (nobody sniffs), or with the empty value
		if r.Chance(2, 3) {
			ops = append(ops, Op{Op: "nil", K: r.Pick(ctKeys)})
		} else {
			ops = append(ops, Op{Op: "set", K: r.Pick(ctKeys), V: ""})
		}
	}
	for k := r.Intn(3); k > 0; k-- {
		i := r.Intn(len(hdrNames))
		ops = append(ops, Op{Op: r.Pick([]string{"set", "add", "add"}), K: hdrNames[i], V: hdrVals[r.Intn(len(hdrVals))]})
	}
	if r.Chance(3, 20) && !favour {
		ops = append(ops, Op{Op: "set", K: r.Pick([]string{"Content-Encoding", "content-encoding"}), V: r.Pick(encodings)})
	}
	if r.Chance(1, 3) {
		cl := total
		if layer == "rec" && r.Chance(1, 4) {
			cl = r.Intn(5000) // a stale value: only the recorder tolerates a wrong length
		}
		ops = append(ops, Op{Op: "set", K: "Content-Length", V: strconv.Itoa(cl)})
	}
	if r.Chance(1, 12) && len(ops) > 0 {
		ops = append(ops, Op{Op: "del", K: ops[r.Intn(len(ops))].K})
	}
	for i := len(ops) - 1; i > 0; i-- { // order of the header calls
		if r.Chance(1, 3) {
			j := r.Intn(i + 1)
			ops[i], ops[j] = ops[j], ops[i]
		}
	}
	hasCT, hasCE := ctPresent(ops), cePresent(ops)

	// an informational response first (real server only), possibly with more header calls before the final status:
	// the decision must wait for the final header map, status and bytes must be the final ones
	if layer == "srv" && r.Chance(1, 10) {
		if r.Chance(1, 2) {
			ops = append(ops, Op{Op: "add", K: "Link", V: "</style.css>; rel=preload"})
		}
		ops = append(ops, Op{Op: "wh", Code: []int{103, 103, 102}[r.Intn(3)]})
		if r.Chance(1, 3) {
			ops = append(ops, Op{Op: "wh", Code: 103})
		}
		switch r.Intn(4) {
		case 0:
			ops = append(ops, Op{Op: "set", K: "Content-Type", V: opt.ct(r)})
		case 1: // what httputil.ReverseProxy does after relaying a 1xx: the header map is cleared and filled again
			for _, k := range []string{"Content-Encoding", "Content-Type", "Link", "Vary"} {
				ops = append(ops, Op{Op: "del", K: k})
			}
			ops = append(ops, Op{Op: "set", K: "Content-Type", V: opt.ct(r)})
		case 2:
			ops = append(ops, Op{Op: "set", K: "Content-Encoding", V: r.Pick(encodings)})
		}
	}
	// one way of flushing per script: the Flusher assertion, or http.NewResponseController (what ReverseProxy uses)
	fl := "fl"
	if r.Chance(1, 3) {
		fl = "rc"
	}
	if r.Chance(1, 8) { // flush before anything is written
		ops = append(ops, Op{Op: fl})
	}
	explicit := r.Chance(3, 5)
	code := 200
	if explicit {
		code = codesBody[r.Intn(len(codesBody))]
		if opt.bodiless && r.Chance(1, 5) {
			code = codesNone[r.Intn(len(codesNone))]
		}
		ops = append(ops, Op{Op: "wh", Code: code})
	}
	if opt.bodiless && r.Chance(1, 8) {
		in.Method = "HEAD"
	}
	hasCT, hasCE = ctPresent(ops), cePresent(ops) // the 1xx block may have changed them
	if !explicit && layer == "srv" && !opt.sniffy && len(writes) > 0 && (!hasCT) {
		// net/http sniffs the buffered prefix, the gzip wrapper the first chunk; keep the two equal in the main stream
		first, _ := chunkBytes(writes[0])
		var all []byte
		for _, w := range writes {
			b, _ := chunkBytes(w)
			all = append(all, b...)
			if len(all) > 600 {
				break
			}
		}
		if hasCE || len(first) == 0 || http.DetectContentType(first) != http.DetectContentType(all) {
			ops = append(ops, Op{Op: "set", K: "Content-Type", V: opt.ct(r)}) // last header call: nothing deletes it again
		}
	}
	// writes, with late calls mixed in (they must not change anything that was decided)
	late := func() {
		switch r.Intn(5) {
		case 0:
			ops = append(ops, Op{Op: "wh", Code: codesBody[r.Intn(len(codesBody))]})
		case 1:
			ops = append(ops, Op{Op: "set", K: "Content-Type", V: opt.ct(r)})
		case 2:
			ops = append(ops, Op{Op: "set", K: "Content-Encoding", V: r.Pick(encodings)})
		case 3:
			ops = append(ops, Op{Op: "del", K: r.Pick([]string{"Content-Encoding", "Content-Type", "Vary"})})
		default:
			ops = append(ops, Op{Op: "set", K: "Content-Length", V: "7"})
		}
	}
	decided := explicit
	for i, w := range writes {
		if decided && r.Chance(1, 10) {
			late()
		}
		if r.Chance(1, 10) && (i > 0 || explicit) {
			ops = append(ops, Op{Op: fl})
		}
		ops = append(ops, w)
		decided = true
	}
	if r.Chance(1, 8) {
		ops = append(ops, Op{Op: fl})
	}
	if decided && r.Chance(1, 10) {
		late()
	}
	in.Ops = ops
	return in
}

func ctPresent(ops []Op) bool { return present(ops, "Content-Type") }
func cePresent(ops []Op) bool { return present(ops, "Content-Encoding") }
func present(ops []Op, key string) bool {
	p := false
	for _, o := range ops {
		if http.CanonicalHeaderKey(o.K) != key {
			continue
		}
		switch o.Op {
		case "set", "add", "nil":
			p = true
		case "del":
			p = false
		}
	}
	return p
}

func hexOf(s string) string { return hex.EncodeToString([]byte(s)) }

func runOne(raw json.RawMessage) (interface{}, error) {
	var in In
	if err := json.Unmarshal(raw, &in); err != nil {
		return nil, err
	}
	return runCase(&in)
}

type PoolIn struct {
	Reqs []In `json:"reqs"`
}

func init() {
	get := func(ae, ct string, ops ...Op) In {
		in := In{Layer: "rec", Method: "GET", Pattern: DocPattern, Req: [][2]string{}}
		if ae != "-" {
			in.Req = append(in.Req, [2]string{"Accept-Encoding", ae})
		}
		if ct != "-" {
			in.Ops = append(in.Ops, Op{Op: "set", K: "Content-Type", V: ct})
		}
		in.Ops = append(in.Ops, ops...)
		return in
	}
	srv := func(in In, method string) In { in.Layer = "srv"; in.Method = method; return in }
	w := func(s string) Op { return Op{Op: "w", Hex: hexOf(s)} }
	wh := func(c int) Op { return Op{Op: "wh", Code: c} }
	corpus := []interface{}{
		get("gzip", "text/html", wh(200), w("<html>"), w("</html>")),
		get("gzip", "text/html", w("<html>"), w(""), w("</html>")),
		get("gzip", "text/html", wh(200)),
		get("gzip", "text/html"),
		get("gzip", "-", w("<html><body>x</body></html>")),
		get("gzip", "image/png", wh(200), w("\x89PNG\r\n\x1a\n")),
		get("br", "text/html", wh(200), w("abc")),
		get("-", "text/html", wh(404), w("abc")),
		get("gzip", "text/html", Op{Op: "set", K: "Content-Encoding", V: "gzip"}, wh(200), w("\x1f\x8b")),
		get("gzip", "text/html", Op{Op: "set", K: "Content-Length", V: "3"}, wh(500), w("abc")),
		get("gzip", "text/html", wh(201), w("a"), wh(500), Op{Op: "set", K: "Content-Type", V: "image/png"}, w("b")),
		get("gzip", "image/png", wh(200), Op{Op: "set", K: "Content-Type", V: "text/html"}, w("b")),
		srv(get("gzip", "text/html", wh(200), w("<html>"), w("</html>")), "GET"),
		srv(get("gzip", "text/html", Op{Op: "w", Seed: 7, Len: 300000, Kind: 1}, Op{Op: "w", Seed: 8, Len: 70000}), "GET"),
		srv(get("gzip", "application/json", Op{Op: "set", K: "Content-Length", V: "2"}, wh(200), w("{}")), "GET"),
		srv(get("identity", "text/html", wh(200), w("<html>")), "GET"),
		// Accept-Encoding lists gzip with weight zero
		get("gzip;q=0", "text/html", wh(200), w("<html>")),
		srv(get("identity, gzip;q=0.0", "text/plain", w("hello")), "GET"),
		// bodiless responses (D28)
		srv(get("gzip", "text/html", wh(304)), "GET"),
		srv(get("gzip", "text/html", wh(204)), "GET"),
		srv(get("gzip", "text/html", Op{Op: "set", K: "Content-Length", V: "6"}, wh(200), w("<html>")), "HEAD"),
		srv(get("gzip", "text/html", Op{Op: "set", K: "Content-Length", V: "6"}, wh(200)), "HEAD"),
		srv(get("gzip", "text/html", Op{Op: "set", K: "Etag", V: `"x"`}, wh(304)), "GET"),
		get("gzip", "text/html", wh(304)),
		// Flush through whatever Flusher the handler is offered: first, between chunks, last
		get("gzip", "text/html", Op{Op: "fl"}, w("<html>"), w("</html>")),
		srv(get("gzip", "text/html", Op{Op: "set", K: "Content-Length", V: "13"}, Op{Op: "fl"}, w("<html>"), Op{Op: "fl"}, w("</html>"), Op{Op: "fl"}), "GET"),
		srv(get("gzip", "text/html", Op{Op: "fl"}, wh(404), w("gone")), "GET"),
		srv(get("br", "text/html", Op{Op: "fl"}, wh(404), w("gone")), "GET"),
		get("identity", "text/html", Op{Op: "fl"}, w("<html>"), Op{Op: "fl"}),
		// 1xx, then the final response
		srv(get("gzip", "-", Op{Op: "add", K: "Link", V: "</a.css>; rel=preload"}, wh(103), Op{Op: "set", K: "Content-Type", V: "text/html"}, wh(200), w("<html>")), "GET"),
		srv(get("gzip", "text/html", wh(103), Op{Op: "del", K: "Content-Encoding"}, Op{Op: "del", K: "Content-Type"}, Op{Op: "set", K: "Content-Type", V: "text/html"}, Op{Op: "set", K: "Content-Length", V: "6"}, wh(404), w("<html>")), "GET"),
		srv(get("gzip", "text/html", wh(103), Op{Op: "set", K: "Content-Encoding", V: "br"}, wh(200), w("\x0b\x02\x80abc\x03")), "GET"),
		srv(get("gzip", "text/html", wh(102), wh(103), w("<html>")), "GET"),
		// first chunk sniffs differently from the whole body
		srv(get("gzip", "-", w("<ht"), w("ml><body></body></html>")), "GET"),
		srv(get("gzip", "-", w(""), w("\x89PNG\r\n\x1a\n")), "GET"),
		srv(get("gzip", "-", Op{Op: "set", K: "Content-Encoding", V: "br"}, w("abc")), "GET"),
		// the Content-Type suppressed: key present, no value — nobody sniffs; the empty type does not match
		get("gzip", "-", Op{Op: "nil", K: "Content-Type"}, w("{\"a\": 1, \"b\": [1,2,3]}")),
		srv(get("gzip", "-", Op{Op: "nil", K: "content-type"}, w("<html><body>hello</body></html>")), "GET"),
		get("gzip", "text/html", Op{Op: "nil", K: "Content-Type"}, wh(200), w("<html>")),
		get("gzip", "-", Op{Op: "nil", K: "Content-Encoding"}, Op{Op: "set", K: "Content-Type", V: "text/html"}, w("<html>")),
	}
	main := func(opt genOpt, thorough bool) func(r *hx.Rand, i int) interface{} {
		return func(r *hx.Rand, i int) interface{} {
			layer := "rec"
			if i%4 == 3 {
				layer = "srv"
			}
			return genCase(r, layer, opt, thorough)
		}
	}
	hx.Register(&hx.Stream{Name: "c17.resp", Corpus: corpus, Gen: main(genOpt{bodiless: true, refused: true}, false), Run: runOne})
	hx.Register(&hx.Stream{Name: "c17.resp.wide", Gen: func(r *hx.Rand, i int) interface{} {
		layer := "rec"
		if i%2 == 1 {
			layer = "srv"
		}
		return genCase(r, layer, genOpt{bodiless: true, refused: true}, true)
	}, Run: runOne})
	hx.Register(&hx.Stream{
		Name: "c17.pool",
		Gen: func(r *hx.Rand, i int) interface{} {
			layer := "rec"
			if i%2 == 1 {
				layer = "srv"
			}
			p := PoolIn{}
			for k := 0; k < 64; k++ {
				in := In{Layer: layer, Method: "GET", Pattern: DocPattern, Req: [][2]string{}}
				if r.Chance(5, 6) {
					in.Req = append(in.Req, [2]string{"Accept-Encoding", r.Pick(aeAccept)})
				}
				in.Ops = append(in.Ops, Op{Op: "set", K: "Content-Type", V: r.Pick([]string{"text/html", "application/json", "text/plain", "image/png"})})
				if r.Chance(1, 2) {
					in.Ops = append(in.Ops, Op{Op: "wh", Code: codesBody[r.Intn(len(codesBody))]})
				}
				for n := r.Range(1, 5); n > 0; n-- {
					in.Ops = append(in.Ops, Op{Op: "w", Seed: r.U64() % 1000, Len: r.Range(0, 20000), Kind: r.Intn(2)})
				}
				if r.Chance(1, 5) { // this handler's first client goes away
					g := []int{0, 5, 10, 11, r.Intn(200), r.Intn(20000)}[r.Intn(6)]
					in.Gone = &g
				}
				p.Reqs = append(p.Reqs, in)
			}
			return p
		},
		Run: func(raw json.RawMessage) (interface{}, error) {
			var p PoolIn
			if err := json.Unmarshal(raw, &p); err != nil {
				return nil, err
			}
			if len(p.Reqs) > 256 {
				return nil, fmt.Errorf("too many handlers")
			}
			outs := make([]*Out, len(p.Reqs))
			errs := make([]error, len(p.Reqs))
			var wg sync.WaitGroup
			start := make(chan struct{})
			for k := range p.Reqs {
				wg.Add(1)
				go func(k int) {
					defer wg.Done()
					<-start
					o, err := hx.SafeRun(func() (interface{}, error) {
						if g := p.Reqs[k].Gone; g != nil && *g >= 0 {
							if err := serveGone(&p.Reqs[k], *g, k%2 == 0); err != nil {
								return nil, err
							}
						}
						return runCase(&p.Reqs[k])
					})
					if err != nil {
						errs[k] = err
						return
					}
					if oo, ok := o.(*Out); ok {
						outs[k] = oo
					} else {
						errs[k] = fmt.Errorf("panic: %v", o)
					}
				}(k)
			}
			close(start)
			wg.Wait()
			for _, e := range errs {
				if e != nil {
					return nil, e
				}
			}
			return outs, nil
		},
	})
}
