package main

// c17.fault: clients that go away in the middle of a response, and responses that are in flight at the same time
// under an EXPLICIT schedule — both over ONE handler value and the one package-level writer pool.
//
// A schedule is a list of exchanges. A top-level exchange is served after the previous one has finished; an
// exchange with a parent is served, completely, from inside the parent's handler after the parent has done `at`
// of its Write calls (on the same goroutine: the interleaving "A writes, B is served, A writes on" is exactly
// what two concurrent requests can do, without depending on the Go scheduler or on what sync.Pool does across
// Ps). An exchange with cap >= 0 talks to a client whose connection takes cap more body bytes and then fails
// every Write (a short write first); with stop the handler returns at the first failed Write (what the copy loop
// of httputil.ReverseProxy does), otherwise it ignores errors.
//
// What is judged: every exchange whose client stays is judged like a c17.resp case (the model says: a response
// depends neither on what was served before nor on what is in flight — Props.C17Fault). An exchange whose client
// went away is compared with a reference run of the same exchange with a patient client: same status, same header
// map, the bytes received are the first min(cap, length) bytes of the reference body — and the reference run is
// itself judged like a c17.resp case.

import (
	"bytes"
	"context"
	"encoding/json"
	"errors"
	"fmt"
	"net/http"
	"net/http/httptest"
	"runtime"
	"runtime/debug"
	"sync"

	"github.com/fabiolb/fabio/proxy/gzip"
	"verif/harness/hx"
)

type FItem struct {
	In
	Cap    int  `json:"cap"`    // -1: the client stays
	Stop   bool `json:"stop"`   // return from the handler at the first failed Write
	Parent int  `json:"parent"` // -1: top level
	At     int  `json:"at"`     // served after that many Write calls of the parent (clamped to their number)
	// Closes: when the handler is done it calls Close on the writer itself that many times, if the writer has such a
	// method (the deferred Close of NewGzipHandler follows). Close is exported; calling it again must be harmless.
	Closes int `json:"closes,omitempty"`
}

type FaultIn struct {
	Pattern string  `json:"pattern"`
	Items   []FItem `json:"items"`
}

type FaultObs struct {
	Cap    int         `json:"cap"`
	Status int         `json:"status"`
	Hdr    [][2]string `json:"hdr"`
	Body   Blob        `json:"body"`
	Prefix bool        `json:"prefix"` // the bytes received are a prefix of the reference run's body
	NErr   int         `json:"nerr"`   // Write calls of the scripted handler that returned an error
}

type FOut struct {
	Out
	Fault *FaultObs `json:"fault"`
}

type FaultRes struct {
	Outs []*FOut `json:"outs"`
	Pool struct {
		N     int  `json:"n"`
		Twice bool `json:"twice"`
	} `json:"pool"`
}

var faultOnce sync.Once

var errGone = errors.New("write: broken pipe")

// failWriter is the ResponseWriter of a client that goes away: header calls and the status line behave like the
// recorder's, the body takes room more bytes. A Write that does not fit delivers what fits and fails.
type failWriter struct {
	rec   *httptest.ResponseRecorder
	room  int
	wrote bool // the status line is out (explicitly, by a Flush, or by a Write)
}

func (w *failWriter) Header() http.Header { return w.rec.Header() }
func (w *failWriter) WriteHeader(c int)   { w.wrote = true; w.rec.WriteHeader(c) }
func (w *failWriter) Flush()              { w.wrote = true; w.rec.Flush() }
func (w *failWriter) Write(b []byte) (int, error) {
	if len(b) <= w.room {
		w.room -= len(b)
		w.wrote = true
		return w.rec.Write(b)
	}
	// the implicit status line and the sniffed type are those of the whole chunk, as for a patient client: what
	// ResponseRecorder.Write does before the first byte (status 200, Content-Type sniffed from the chunk when
	// the map has none), done here with the whole chunk
	if !w.wrote {
		h := w.rec.Header()
		if _, ok := h["Content-Type"]; !ok && h.Get("Transfer-Encoding") == "" {
			h.Set("Content-Type", http.DetectContentType(b))
		}
		w.WriteHeader(200)
	}
	n, _ := w.rec.Write(b[:w.room])
	w.room = 0
	return n, errGone
}

type itemKey struct{}

func recFinish(rec *httptest.ResponseRecorder) (Resp, []byte) {
	res := rec.Result()
	body := rec.Body.Bytes()
	return finish(res.StatusCode, res.Header, body), body
}

// scriptF: the scripted upstream handler of script() plus a hook that runs before every Write (k = Write calls
// done so far) and once at the end, and the stop-at-first-error policy.
func scriptF(in *In, chunks [][]byte, probe *bool, stop bool, nerr *int, hook func(k int)) http.Handler {
	return scriptFC(in, chunks, probe, stop, nerr, hook, 0)
}

func scriptFC(in *In, chunks [][]byte, probe *bool, stop bool, nerr *int, hook func(k int), closes int) http.Handler {
	return http.HandlerFunc(func(w http.ResponseWriter, r *http.Request) {
		defer func() {
			if c, ok := w.(interface{ Close() }); ok {
				for k := 0; k < closes && k < 4; k++ {
					c.Close()
				}
			}
		}()
		ci := 0
		for _, o := range in.Ops {
			switch o.Op {
			case "set":
				w.Header().Set(o.K, o.V)
			case "add":
				w.Header().Add(o.K, o.V)
			case "del":
				w.Header().Del(o.K)
			case "nil":
				w.Header()[http.CanonicalHeaderKey(o.K)] = nil
			case "wh":
				w.WriteHeader(o.Code)
			case "fl":
				f, ok := w.(http.Flusher)
				*probe = ok
				if ok {
					f.Flush()
				}
			case "rc":
				*probe = http.NewResponseController(w).Flush() == nil
			case "w":
				hook(ci)
				b := chunks[ci]
				ci++
				if _, err := w.Write(b); err != nil {
					*nerr++
					if stop {
						return
					}
				}
			}
		}
		hook(ci)
	})
}

func runFault(raw json.RawMessage) (interface{}, error) {
	var in FaultIn
	if err := json.Unmarshal(raw, &in); err != nil {
		return nil, err
	}
	n := len(in.Items)
	if n > 32 {
		return nil, fmt.Errorf("too many exchanges")
	}
	re, err := compilePattern(in.Pattern)
	if err != nil {
		return nil, err
	}
	kids := make([][]int, n)
	depth := make([]int, n)
	nws := make([]int, n)
	chunks := make([][][]byte, n)
	for i := range in.Items {
		it := &in.Items[i]
		it.Layer, it.Pattern = "rec", in.Pattern
		if it.Parent >= i || it.Parent < -1 {
			return nil, fmt.Errorf("parent %d of item %d", it.Parent, i)
		}
		if it.Parent >= 0 {
			depth[i] = depth[it.Parent] + 1
			if depth[i] > 3 {
				return nil, fmt.Errorf("nesting too deep")
			}
			kids[it.Parent] = append(kids[it.Parent], i)
		}
		if it.Closes < 0 || it.Closes > 4 {
			return nil, fmt.Errorf("closes %d", it.Closes)
		}
		if it.Cap < -1 {
			return nil, fmt.Errorf("cap %d", it.Cap)
		}
		if chunks[i], err = prepare(&it.In); err != nil {
			return nil, err
		}
		nws[i] = len(chunks[i])
		if _, err := mkReq(&it.In, "http://fabio.test/"); err != nil {
			return nil, err
		}
	}
	// the one handler value; the request's context says which script is the upstream
	gz := gzip.NewGzipHandler(http.HandlerFunc(func(w http.ResponseWriter, r *http.Request) {
		r.Context().Value(itemKey{}).(http.Handler).ServeHTTP(w, r)
	}), re)
	outs := make([]*FOut, n)
	probes := make([]bool, n)
	// sync.Pool keeps its items per P and gives them up to the garbage collector: with one P and no collection
	// while the schedule runs, what it holds is exactly what was put in and not taken out — the model's pool
	faultOnce.Do(func() { runtime.GOMAXPROCS(1) })
	gcOld := debug.SetGCPercent(-1)
	gcRestored := false
	restoreGC := func() {
		if !gcRestored {
			gcRestored = true
			debug.SetGCPercent(gcOld)
		}
	}
	defer restoreGC()
	// the schedule starts from an empty pool (a case does not depend on what earlier cases left behind)
	gzip.VerifDrainPool(1 << 16)
	var serve func(i int)
	serve = func(i int) {
		it := &in.Items[i]
		rec := httptest.NewRecorder()
		var w http.ResponseWriter = rec
		if it.Cap >= 0 {
			w = &failWriter{rec: rec, room: it.Cap}
		}
		nerr := 0
		h := scriptFC(&it.In, chunks[i], &probes[i], it.Stop, &nerr, func(k int) {
			for _, c := range kids[i] {
				at := in.Items[c].At
				if at < 0 {
					at = 0
				}
				if at > nws[i] {
					at = nws[i]
				}
				if at == k && outs[c] == nil {
					serve(c)
				}
			}
		}, it.Closes)
		req, _ := mkReq(&it.In, "http://fabio.test/")
		outs[i] = &FOut{} // marks the exchange as started: a child is served once
		gz.ServeHTTP(w, req.WithContext(context.WithValue(req.Context(), itemKey{}, h)))
		resp, body := recFinish(rec)
		if it.Cap >= 0 {
			outs[i].Fault = &FaultObs{Cap: it.Cap, Status: resp.Status, Hdr: resp.Hdr, Body: blob(body), NErr: nerr}
		} else {
			outs[i].Got = resp
		}
	}
	for i := range in.Items {
		if in.Items[i].Parent < 0 {
			serve(i)
		}
	}
	// what the schedule left in the pool: how many writers, and is one of them in there twice
	res := &FaultRes{Outs: outs}
	res.Pool.N, res.Pool.Twice = gzip.VerifDrainPool(1 << 16)
	restoreGC()
	// reference runs, after the schedule
	for i := range in.Items {
		it := &in.Items[i]
		o := outs[i]
		if o == nil {
			return nil, fmt.Errorf("item %d was not served", i)
		}
		canFlush := probes[i]
		if o.Fault != nil {
			// the same exchange with a patient client, through the same handler value
			rec := httptest.NewRecorder()
			req, _ := mkReq(&it.In, "http://fabio.test/")
			h := script(&it.In, chunks[i], nil, nil, &canFlush, false)
			gz.ServeHTTP(rec, req.WithContext(context.WithValue(req.Context(), itemKey{}, h)))
			var wire []byte
			o.Got, wire = recFinish(rec)
			o.Fault.Prefix = received(o.Fault, wire)
		}
		var up bytes.Buffer
		nw := 0
		o.Base = doRec(&it.In, script(&it.In, chunks[i], &up, &nw, nil, canFlush))
		if o.Base.Err != "" {
			return nil, fmt.Errorf("base: %s", o.Base.Err)
		}
		fillOracle(&it.In, chunks[i], re, &o.Out, up.Bytes(), nw, canFlush)
	}
	return res, nil
}

// received: the body the departed client got is a prefix of the reference body (compared by length + digest of
// the prefix, the bytes themselves are not kept in the observation)
func received(f *FaultObs, wire []byte) bool {
	if f.Body.Len > len(wire) {
		return false
	}
	return sameBlobGo(f.Body, blob(wire[:f.Body.Len]))
}

func sameBlobGo(a, b Blob) bool { return a.Len == b.Len && a.Sha == b.Sha && a.Hex == b.Hex }

func closing(f FItem, n int) FItem { f.Closes = n; return f }

func fItem(in In, capN int, stop bool, parent, at int) FItem {
	in.Layer = "rec"
	in.Pattern = ""
	return FItem{In: in, Cap: capN, Stop: stop, Parent: parent, At: at}
}


func nWrites(in In) int {
	n := 0
	for _, o := range in.Ops {
		if o.Op == "w" {
			n++
		}
	}
	return n
}

func genFault(r *hx.Rand, i int) interface{} {
	s := FaultIn{Pattern: DocPattern}
	if r.Chance(1, 6) {
		s.Pattern = r.Pick(patterns)
	}
	opt := genOpt{bodiless: true, refused: true, small: true, patterns: []string{DocPattern},
		ctypes: []string{"text/html", "text/plain", "application/json", "text/html; charset=utf-8", "text/css", "image/png", ""}}
	item := func(parent, at int) FItem {
		o := opt
		o.small = !r.Chance(1, 5) // bodies beyond the compressor's own buffers now and then
		in := genCase(r, "rec", o, false)
		if r.Chance(2, 3) { // mostly the writer machine is engaged
			in.Method = "GET"
			in.Req = [][2]string{{"Accept-Encoding", r.Pick(aeAccept)}}
		}
		capN := -1
		if r.Chance(2, 5) {
			total := totalLen(in.Ops)
			switch r.Intn(6) {
			case 0:
				capN = 0
			case 1: // inside or right after the 10-byte gzip header
				capN = []int{1, 5, 9, 10, 11, 18}[r.Intn(6)]
			case 2:
				capN = r.Intn(40)
			case 3, 4:
				capN = r.Intn(total + 1)
			default: // the client takes everything: nothing fails
				capN = total + 64 + r.Intn(1000)
			}
		}
		f := fItem(in, capN, r.Chance(1, 2), parent, at)
		if r.Chance(1, 6) {
			f.Closes = r.Range(1, 2)
		}
		return f
	}
	for top := r.Range(2, 4); top > 0; top-- {
		p := len(s.Items)
		s.Items = append(s.Items, item(-1, 0))
		if r.Chance(3, 5) { // exchanges in flight at the same time
			for k := r.Range(1, 2); k > 0; k-- {
				c := len(s.Items)
				s.Items[p].Stop = false // a handler that returns early serves nobody from inside
				s.Items = append(s.Items, item(p, r.Intn(nWrites(s.Items[p].In)+2)))
				if r.Chance(1, 4) {
					s.Items[c].Stop = false
					s.Items = append(s.Items, item(c, r.Intn(nWrites(s.Items[c].In)+2)))
				}
			}
		}
	}
	return s
}

func init() {
	it := func(ae, ct string, ops ...Op) In {
		in := In{Layer: "rec", Method: "GET", Req: [][2]string{{"Accept-Encoding", ae}}}
		in.Ops = append([]Op{{Op: "set", K: "Content-Type", V: ct}}, ops...)
		return in
	}
	w := func(s string) Op { return Op{Op: "w", Hex: hexOf(s)} }
	big := func(seed uint64, n int) Op { return Op{Op: "w", Seed: seed, Len: n, Kind: 1} }
	corpus := []interface{}{
		// a client that is gone from the first byte (the handler stops at the first error), then two responses in flight
		FaultIn{Pattern: DocPattern, Items: []FItem{
			fItem(it("gzip", "text/plain", w("some text for a client which is gone"), w("more"), w("more")), 0, true, -1, 0),
			fItem(it("gzip", "text/plain", big(1, 7000), big(2, 7000)), -1, false, -1, 0),
			fItem(it("gzip", "text/plain", big(3, 9000)), -1, false, 1, 1)}},
		// the same with a handler that ignores the errors, the client leaving inside the gzip header
		FaultIn{Pattern: DocPattern, Items: []FItem{
			fItem(it("gzip", "text/html", w("<html>"), w("</html>")), 5, false, -1, 0),
			fItem(it("gzip", "text/html", w("<html>"), w("<body>"), w("</html>")), -1, false, -1, 0),
			fItem(it("gzip", "application/json", w("{}")), -1, false, 1, 0),
			fItem(it("gzip", "application/json", w("[1,2,3]")), -1, false, 1, 2)}},
		// the client leaves while another response is in flight; uncompressed and unwrapped responses lose clients too
		FaultIn{Pattern: DocPattern, Items: []FItem{
			fItem(it("gzip", "text/plain", big(4, 100000), big(5, 100000)), -1, false, -1, 0),
			fItem(it("gzip", "text/plain", big(6, 200000), big(7, 1000)), 30000, true, 0, 1),
			fItem(it("gzip", "image/png", w("\x89PNG\r\n\x1a\n....")), 3, false, 0, 1),
			fItem(it("br", "text/plain", w("hello"), w("world")), 7, true, -1, 0),
			fItem(it("gzip", "text/plain", w("hello"), w("world")), -1, false, -1, 0)}},
		// the handler closes the writer itself, NewGzipHandler's deferred Close follows; then two responses in flight
		FaultIn{Pattern: DocPattern, Items: []FItem{
			closing(fItem(it("gzip", "text/plain", w("hello "), w("world")), -1, false, -1, 0), 1),
			fItem(it("gzip", "text/plain", big(8, 5000), big(9, 5000)), -1, false, -1, 0),
			fItem(it("gzip", "text/plain", big(10, 6000)), -1, false, 1, 1)}},
		// three deep
		FaultIn{Pattern: DocPattern, Items: []FItem{
			fItem(it("gzip", "text/plain", w("aaaa"), w("bbbb")), -1, false, -1, 0),
			fItem(it("gzip", "text/plain", w("cccc"), w("dddd")), 12, false, 0, 1),
			fItem(it("gzip", "text/plain", w("eeee"), w("ffff")), -1, false, 1, 1)}},
	}
	hx.Register(&hx.Stream{Name: "c17.fault", Corpus: corpus, Gen: genFault, Run: runFault})
}

// serveGone serves the exchange once, through a fresh NewGzipHandler value over the shared pool, to a client that
// goes away after room body bytes.
func serveGone(in *In, room int, stop bool) error {
	re, err := compilePattern(in.Pattern)
	if err != nil {
		return err
	}
	chunks, err := prepare(in)
	if err != nil {
		return err
	}
	req, err := mkReq(in, "http://fabio.test/")
	if err != nil {
		return err
	}
	probe, nerr := false, 0
	h := gzip.NewGzipHandler(scriptF(in, chunks, &probe, stop, &nerr, func(int) {}), re)
	h.ServeHTTP(&failWriter{rec: httptest.NewRecorder(), room: room}, req)
	return nil
}
