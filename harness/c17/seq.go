package main

// c17.seq: ONE handler value — one gzip.NewGzipHandler call with one compiled expression, as fabio holds it for
// the life of the process — serves a sequence of responses one after the other. Every exchange is judged on its
// own (model: Fabio.Props.C17Proxy.history_independent — a response does not depend on what was served before;
// the package keeps no state but the writer pool). The expressions look at content type parameters and the
// content types share media types, so that anything remembered per media type, per expression or per writer shows.

import (
	"encoding/json"
	"fmt"
	"net/http"
	"regexp"
	"strings"

	"github.com/fabiolb/fabio/proxy/gzip"
	"verif/harness/hx"
)

type SeqIn struct {
	Pattern string `json:"pattern"`
	Items   []In   `json:"items"`
}

type switchHandler struct{ cur http.Handler }

func (s *switchHandler) ServeHTTP(w http.ResponseWriter, r *http.Request) { s.cur.ServeHTTP(w, r) }

func runSeq(raw json.RawMessage) (interface{}, error) {
	var in SeqIn
	if err := json.Unmarshal(raw, &in); err != nil {
		return nil, err
	}
	if len(in.Items) > 64 {
		return nil, fmt.Errorf("too many exchanges")
	}
	re, err := compilePattern(in.Pattern)
	if err != nil {
		return nil, err
	}
	sw := &switchHandler{}
	gz := gzip.NewGzipHandler(sw, re) // the one handler value
	outs := make([]*Out, 0, len(in.Items))
	for i := range in.Items {
		it := &in.Items[i]
		it.Pattern = in.Pattern
		o, err := runCaseWith(it, re, func(inner http.Handler) http.Handler { sw.cur = inner; return gz })
		if err != nil {
			return nil, err
		}
		outs = append(outs, o)
	}
	return outs, nil
}

func init() {
	opt := genOpt{bodiless: true, refused: true, ctypes: ctypesParam, patterns: patternsParam, small: true}
	item := func(ae, ct string, ops ...Op) In {
		in := In{Layer: "rec", Method: "GET", Req: [][2]string{{"Accept-Encoding", ae}}}
		in.Ops = append([]Op{{Op: "set", K: "Content-Type", V: ct}}, ops...)
		return in
	}
	w := func(s string) Op { return Op{Op: "w", Hex: hexOf(s)} }
	corpus := []interface{}{
		// same media type, the matching one first, then one whose parameters do not match
		SeqIn{Pattern: `^text/plain$`, Items: []In{
			item("gzip", "text/plain", w("hello hello hello")),
			item("gzip", "text/plain; charset=iso-8859-1", w("hello hello hello")),
			item("gzip", "text/plain", Op{Op: "wh", Code: 404}, w("gone"))}},
		// the other way round
		SeqIn{Pattern: `charset=utf-8`, Items: []In{
			item("gzip", "text/html", w("<html>")),
			item("gzip", "text/html; charset=utf-8", w("<html>")),
			item("br", "text/html; charset=utf-8", w("<html>")),
			item("gzip", "text/html; charset=utf-8", Op{Op: "w", Seed: 3, Len: 70000, Kind: 1})}},
	}
	hx.Register(&hx.Stream{
		Name:   "c17.seq",
		Corpus: corpus,
		Gen: func(r *hx.Rand, i int) interface{} {
			s := SeqIn{Pattern: r.Pick(patternsParam)}
			if r.Chance(1, 5) {
				s.Pattern = DocPattern
			}
			layer := "rec"
			if i%4 == 3 {
				layer = "srv"
			}
			// a small content type universe per sequence: repeats and near-repeats are frequent
			u := []string{r.Pick(ctypesParam), r.Pick(ctypesParam), r.Pick(ctypesParam)}
			// … in which, mostly, one type matches the expression and another shares its media type
			if re, err := regexp.Compile(s.Pattern); err == nil && r.Chance(9, 10) {
				var ms []string
				for _, c := range ctypesParam {
					if re.MatchString(c) {
						ms = append(ms, c)
					}
				}
				if len(ms) > 0 {
					u[0] = r.Pick(ms)
					media, _, _ := strings.Cut(u[0], ";")
					var sib []string
					for _, c := range ctypesParam {
						m, _, _ := strings.Cut(c, ";")
						if c != u[0] && strings.EqualFold(strings.TrimSpace(m), strings.TrimSpace(media)) {
							sib = append(sib, c)
						}
					}
					if len(sib) > 0 {
						u[1] = r.Pick(sib)
					}
				}
			}
			o := opt
			o.ctypes = u
			for n := r.Range(3, 8); n > 0; n-- {
				it := genCase(r, layer, o, false)
				it.Pattern = ""
				s.Items = append(s.Items, it)
			}
			return s
		},
		Run: runSeq,
	})
}
