package main

import (
	"bytes"
	"crypto/tls"
	"crypto/x509"
	"encoding/json"
	"errors"
	"fmt"
	"runtime"
	"strconv"
	"strings"
	"sync"
	"time"

	"github.com/fabiolb/fabio/cert"
	"verif/harness/hx"
)

// Streams c11.watch and c11.watch_gap drive the real watch loop with a scripted loader.
//
// A material is a map file name -> PEM bytes described abstractly: every file holds the certificate with id C
// (if C >= 0) and the private key with id K (if K >= 0); a file with neither holds garbage. Certificate c is
// issued for key c, so a pair (cert file, key file) is usable iff certFile.C == keyFile.K >= 0.
// The loader returns script[min(i, len-1)] on its i-th invocation (a file or HTTP source keeps delivering the
// same material until somebody changes it).
//
// There is no clock to inject in watch (it calls time.Sleep directly), so c11.watch observes the loop up to
// its first sleep: the watcher goroutine is polled until the runtime reports it in state "sleep", until watch
// returned, or until the loader was invoked more than len(script)+64 times ("spin"). c11.watch_gap measures
// real time between consecutive loader invocations for a handful of scripts.

type wFile struct {
	Name string `json:"name"`
	C    int    `json:"c"`
	K    int    `json:"k"`
	// chain variant of the certificate in this file (certs.go): 0 = the leaf alone, v = followed by intermediate v-1.
	// It changes the bytes of the file (and what is presented), not which key fits.
	Ch int `json:"ch"`
}

type wMat struct {
	Nil   bool    `json:"nil"` // a nil map (loadPath("") / loadURL(""))
	Files []wFile `json:"files"`
}

type wStep struct {
	Err bool `json:"err"`
	Mat int  `json:"mat"`
}

type watchIn struct {
	RefreshMs int     `json:"refresh_ms"`
	Mats      []wMat  `json:"mats"`
	Script    []wStep `json:"script"`
}

type watchOut struct {
	Calls    int     `json:"calls"` // loader invocations up to the first sleep; -1 = spinning
	Pubs     [][]int `json:"pubs"`  // published sets, each the certificate ids in order
	Returned bool    `json:"returned"`
}

const spinSlack = 64

func fileBytes(f wFile) ([]byte, error) {
	var b bytes.Buffer
	if f.C >= 0 {
		if f.C >= nKeys || f.Ch < 0 || f.Ch > nChains {
			return nil, fmt.Errorf("certificate id out of range")
		}
		l, err := leaf(f.C, "c"+strconv.Itoa(f.C)+".test", nil)
		if err != nil {
			return nil, err
		}
		for _, der := range withChain(l, f.Ch).Certificate {
			b.Write(certPEM(tls.Certificate{Certificate: [][]byte{der}}))
		}
	}
	if f.K >= 0 {
		if f.K >= nKeys {
			return nil, fmt.Errorf("key id out of range")
		}
		b.Write(keyPEMOf(f.K))
	}
	if f.C < 0 && f.K < 0 {
		b.WriteString("-----BEGIN GARBAGE-----\nnot pem at all\n")
	}
	return b.Bytes(), nil
}

func buildMat(m wMat) (map[string][]byte, error) {
	if m.Nil {
		if len(m.Files) > 0 {
			return nil, fmt.Errorf("nil material with files")
		}
		return nil, nil
	}
	out := map[string][]byte{}
	for _, f := range m.Files {
		if _, dup := out[f.Name]; dup {
			return nil, fmt.Errorf("duplicate file name")
		}
		b, err := fileBytes(f)
		if err != nil {
			return nil, err
		}
		out[f.Name] = b
	}
	return out, nil
}

func copyMat(m map[string][]byte) map[string][]byte {
	if m == nil {
		return nil
	}
	out := make(map[string][]byte, len(m))
	for k, v := range m {
		out[k] = append([]byte(nil), v...)
	}
	return out
}

func certIDs(cs []tls.Certificate) []int {
	ids := []int{}
	for _, c := range cs {
		id := -1
		if len(c.Certificate) > 0 {
			if p, err := x509.ParseCertificate(c.Certificate[0]); err == nil {
				cn := p.Subject.CommonName
				if strings.HasPrefix(cn, "c") && strings.HasSuffix(cn, ".test") {
					if n, err := strconv.Atoi(cn[1 : len(cn)-5]); err == nil {
						id = n
						// what follows the leaf is part of the certificate's identity
						if v := chainOf(c.Certificate); v > 0 {
							id += 10 * v
						} else if v < 0 {
							id = -3
						}
					}
				}
			}
		}
		ids = append(ids, id)
	}
	return ids
}

type watcher struct {
	mu     sync.Mutex
	calls  int
	times  []time.Time // time of every loader invocation
	ends   []time.Time // time at which every loader invocation returned
	pubsAt [][]int     // what was published between invocation i-1 and i (nil: nothing); taken by the loader itself
	stop   bool
	stopCh chan struct{}
	done   chan struct{}
	gid    chan string
	ch     chan []tls.Certificate
	pubs   [][]int
	limit  int
}

func startWatch(in watchIn, mats []map[string][]byte, limit int) *watcher {
	return startWatchFn(in.RefreshMs, limit, func(i int) (map[string][]byte, error) {
		if i >= len(in.Script) {
			i = len(in.Script) - 1
		}
		st := in.Script[i]
		if st.Err {
			return nil, errors.New("scripted load error")
		}
		return copyMat(mats[st.Mat]), nil
	})
}

// startWatchFn runs the real watch with a loader that answers its i-th invocation with step(i).
func startWatchFn(refreshMs int, limit int, step func(i int) (map[string][]byte, error)) *watcher {
	w := &watcher{stopCh: make(chan struct{}), done: make(chan struct{}), gid: make(chan string, 1),
		ch: make(chan []tls.Certificate, 1), limit: limit, pubs: [][]int{}}
	loader := func(path string) (map[string][]byte, error) {
		w.mu.Lock()
		if w.stop {
			w.mu.Unlock()
			runtime.Goexit()
		}
		i := w.calls
		w.calls++
		w.times = append(w.times, time.Now())
		// this runs on the watcher's goroutine: what it published since its previous invocation is in the channel
		select {
		case cs := <-w.ch:
			w.pubsAt = append(w.pubsAt, certIDs(cs))
		default:
			w.pubsAt = append(w.pubsAt, nil)
		}
		w.mu.Unlock()
		if i >= limit {
			<-w.stopCh
			runtime.Goexit()
		}
		defer func() {
			w.mu.Lock()
			w.ends = append(w.ends, time.Now())
			w.mu.Unlock()
		}()
		return step(i)
	}
	go func() {
		defer close(w.done)
		var buf [64]byte
		n := runtime.Stack(buf[:], false)
		hdr := string(buf[:n]) // "goroutine 123 [running]:..."
		if f := strings.Fields(hdr); len(f) >= 2 {
			w.gid <- f[1]
		} else {
			w.gid <- ""
		}
		cert.VerifWatch(w.ch, time.Duration(refreshMs)*time.Millisecond, "scripted", loader)
	}()
	return w
}

func (w *watcher) drain() {
	for {
		select {
		case cs := <-w.ch:
			w.mu.Lock()
			w.pubs = append(w.pubs, certIDs(cs))
			w.mu.Unlock()
		default:
			return
		}
	}
}

func (w *watcher) finish() {
	w.mu.Lock()
	w.stop = true
	w.mu.Unlock()
	close(w.stopCh)
	// keep the channel drained until the goroutine is gone so that it can never block on a send
	go func() {
		for {
			select {
			case <-w.ch:
			case <-w.done:
				return
			}
		}
	}()
}

var stackBuf = make([]byte, 1<<20)
var stackMu sync.Mutex

func goroutineSleeping(gid string) bool {
	stackMu.Lock()
	defer stackMu.Unlock()
	n := runtime.Stack(stackBuf, true)
	return bytes.Contains(stackBuf[:n], []byte("goroutine "+gid+" [sleep]:")) ||
		bytes.Contains(stackBuf[:n], []byte("goroutine "+gid+" [sleep,"))
}

func checkWatchIn(in watchIn) ([]map[string][]byte, error) {
	if len(in.Script) == 0 || len(in.Script) > 64 {
		return nil, fmt.Errorf("script length")
	}
	mats := make([]map[string][]byte, len(in.Mats))
	for i, m := range in.Mats {
		b, err := buildMat(m)
		if err != nil {
			return nil, err
		}
		mats[i] = b
	}
	for _, s := range in.Script {
		if !s.Err && (s.Mat < 0 || s.Mat >= len(mats)) {
			return nil, fmt.Errorf("material index out of range")
		}
	}
	return mats, nil
}

func runWatch(raw json.RawMessage) (interface{}, error) {
	var in watchIn
	if err := json.Unmarshal(raw, &in); err != nil {
		return nil, err
	}
	mats, err := checkWatchIn(in)
	if err != nil {
		return nil, err
	}
	limit := len(in.Script) + spinSlack
	return observeWatchRetry(func() *watcher { return startWatch(in, mats, limit) }, limit)
}

// observeWatchRetry observes a fresh watcher; when the timing of that run was ambiguous (see observeWatch) the run
// is repeated with another fresh watcher, three times at most. The last observation stands.
func observeWatchRetry(start func() *watcher, limit int) (interface{}, error) {
	var res interface{}
	var err error
	for try := 0; try < 3; try++ {
		var ambiguous bool
		res, ambiguous, err = observeWatch(start(), limit)
		if err != nil || !ambiguous {
			return res, err
		}
	}
	return res, err
}

// observeWatch follows a started watcher up to its first sleep, its return, or a spin. ambiguous: a pause of
// 900 ms or more lies between two loader invocations of the record - either a sleep this polling loop missed
// (it was starved for more than a second) or the watcher itself was kept from running that long without sleeping;
// wall-clock time cannot tell the two apart, so the caller repeats the run. Without such a pause the record is
// exact: every sleep lasts at least a second.
func observeWatch(w *watcher, limit int) (interface{}, bool, error) {
	gid := <-w.gid
	out := watchOut{}
	deadline := time.Now().Add(60 * time.Second)
	for {
		// no draining here: during the run only the loader (on the watcher's goroutine) takes publications, so
		// their order and their pairing with the invocations is exact; the loop drains once at the end
		w.mu.Lock()
		calls := w.calls
		w.mu.Unlock()
		returned := false
		select {
		case <-w.done:
			returned = true
		default:
		}
		if returned {
			w.drain()
			out.Returned = true
			break
		}
		if calls > limit {
			out.Calls = -1
			break
		}
		if goroutineSleeping(gid) {
			w.drain()
			break
		}
		if time.Now().After(deadline) {
			w.finish()
			return nil, false, fmt.Errorf("watcher neither slept nor returned nor spun within 60s")
		}
		time.Sleep(100 * time.Microsecond)
	}
	w.mu.Lock()
	// "up to the first sleep": if this polling loop was starved long enough for the watcher to wake up again,
	// cut the observation at the first pause of >= 900 ms between the return of one invocation and the start of
	// the next (a sleep lasts >= 1 s; what watch does itself between two loads - compare, loadCertificates, send -
	// takes about a millisecond; the duration of the load is not counted: a real loader of c11.source makes HTTP
	// requests, which can take long on a loaded machine). pubsAt[j] is what was published after invocation j-1.
	n := len(w.times)
	cut := n
	for j := 1; j < n && j-1 < len(w.ends); j++ {
		if w.times[j].Sub(w.ends[j-1]) >= 900*time.Millisecond {
			cut = j
			break
		}
	}
	pubs := [][]int{}
	for j := 1; j < n && j <= cut; j++ {
		if w.pubsAt[j] != nil {
			pubs = append(pubs, w.pubsAt[j])
		}
	}
	if cut == n {
		pubs = append(pubs, w.pubs...) // published after the last invocation, drained by the loop above
	}
	if out.Calls != -1 {
		out.Calls = cut
	}
	out.Pubs = pubs
	w.mu.Unlock()
	w.finish()
	return out, cut < n, nil
}

// ---- generator ----

func shuffleFiles(r *hx.Rand, fs []wFile) {
	for i := len(fs) - 1; i > 0; i-- {
		j := r.Intn(i + 1)
		fs[i], fs[j] = fs[j], fs[i]
	}
}

var wNames = []string{"a", "b", "c", "m", "z", "B", "a0", "sub/a", "sub/z"}

func genGoodFiles(r *hx.Rand, n int) []wFile {
	var fs []wFile
	used := map[string]bool{}
	for len(fs) < 2*n && len(used) < n {
		base := r.Pick(wNames)
		if used[base] {
			continue
		}
		used[base] = true
		c := r.Intn(nKeys)
		ch := 0
		if r.Chance(1, 4) {
			ch = r.Range(1, nChains)
		}
		if r.Chance(1, 2) {
			fs = append(fs, wFile{base + "-cert.pem", c, -1, ch}, wFile{base + "-key.pem", -1, c, 0})
		} else {
			fs = append(fs, wFile{base + ".pem", c, c, ch})
		}
	}
	return fs
}

func genMat(r *hx.Rand, good bool) wMat {
	if good {
		switch x := r.Intn(20); {
		case x == 0:
			return wMat{Files: []wFile{}}
		case x == 1:
			return wMat{Files: []wFile{{"readme.txt", -1, -1, 0}}}
		}
		fs := genGoodFiles(r, r.Range(1, 4))
		if r.Chance(1, 6) {
			fs = append(fs, wFile{"notes.txt", -1, -1, 0})
		}
		shuffleFiles(r, fs)
		return wMat{Files: fs}
	}
	fs := genGoodFiles(r, r.Intn(3))
	switch r.Intn(6) {
	case 0: // garbage instead of the key
		fs = append(fs, wFile{"q-cert.pem", 1, -1, 0}, wFile{"q-key.pem", -1, -1, 0})
	case 1: // key of another certificate
		fs = append(fs, wFile{"q-cert.pem", 1, -1, 0}, wFile{"q-key.pem", -1, 2, 0})
	case 2: // key file missing
		fs = append(fs, wFile{"q-cert.pem", 1, -1, 0})
	case 3: // certificate file missing
		fs = append(fs, wFile{"q-key.pem", -1, 1, 0})
	case 4: // single file without a key
		fs = append(fs, wFile{"q.pem", 2, -1, 0})
	default: // single file that is not PEM
		fs = append(fs, wFile{"q.pem", -1, -1, 0})
	}
	shuffleFiles(r, fs)
	return wMat{Files: fs}
}

func genWatchIn(r *hx.Rand, maxLen int) watchIn {
	in := watchIn{RefreshMs: []int{0, -5, 1, 500, 1000, 3000}[r.Intn(6)]}
	nm := r.Range(2, 5)
	goodIdx, badIdx := []int{}, []int{}
	for i := 0; i < nm; i++ {
		good := r.Chance(3, 5)
		if i == 0 {
			good = true
		}
		if i > 0 && len(goodIdx) > 0 && r.Chance(1, 5) {
			// a renewal: the same file names as an earlier usable material, other certificates and keys
			src := in.Mats[goodIdx[r.Intn(len(goodIdx))]]
			if !src.Nil && len(src.Files) > 0 {
				d := r.Range(1, nKeys-1)
				chainOnly := r.Chance(1, 2) // the same leaves and keys, other certificates after the leaf
				ren := wMat{}
				for changed := false; !changed; {
					ren.Files = nil
					for _, f := range src.Files {
						if chainOnly {
							if f.C >= 0 && r.Chance(2, 3) {
								f.Ch = (f.Ch + r.Range(1, nChains)) % (nChains + 1)
								changed = true
							}
						} else {
							changed = true
							if f.C >= 0 {
								f.C = (f.C + d) % nKeys
							}
							if f.K >= 0 {
								f.K = (f.K + d) % nKeys
							}
						}
						ren.Files = append(ren.Files, f)
					}
					hasCert := false
					for _, f := range src.Files {
						hasCert = hasCert || f.C >= 0
					}
					if !hasCert {
						break
					}
				}
				in.Mats = append(in.Mats, ren)
				goodIdx = append(goodIdx, i)
				continue
			}
		}
		in.Mats = append(in.Mats, genMat(r, good))
		if good {
			goodIdx = append(goodIdx, i)
		} else {
			badIdx = append(badIdx, i)
		}
	}
	if r.Chance(1, 6) {
		in.Mats = append(in.Mats, wMat{Nil: true})
		goodIdx = append(goodIdx, len(in.Mats)-1)
	}
	n := r.Range(1, maxLen)
	for i := 0; i < n; i++ {
		switch x := r.Intn(10); {
		case x == 0:
			in.Script = append(in.Script, wStep{Err: true})
		case x <= 2 && len(badIdx) > 0:
			in.Script = append(in.Script, wStep{Mat: badIdx[r.Intn(len(badIdx))]})
		case x == 3 && i > 0 && !in.Script[i-1].Err:
			in.Script = append(in.Script, in.Script[i-1]) // unchanged
		default:
			in.Script = append(in.Script, wStep{Mat: goodIdx[r.Intn(len(goodIdx))]})
		}
	}
	return in
}

func init() {
	g1 := wMat{Files: []wFile{{"a-cert.pem", 0, -1, 0}, {"a-key.pem", -1, 0, 0}}}
	g2 := wMat{Files: []wFile{{"z.pem", 1, 1, 0}, {"a-cert.pem", 0, -1, 0}, {"a-key.pem", -1, 0, 0}, {"B.pem", 2, 2, 0}}}
	bad := wMat{Files: []wFile{{"a-cert.pem", 0, -1, 0}, {"a-key.pem", -1, -1, 0}}}
	partly := wMat{Files: []wFile{{"a-cert.pem", 0, -1, 0}, {"a-key.pem", -1, 0, 0}, {"b-cert.pem", 1, -1, 0}, {"b-key.pem", -1, 2, 0}}}
	empty := wMat{Files: []wFile{}}
	hx.Register(&hx.Stream{
		Name: "c11.watch",
		Corpus: []interface{}{
			watchIn{RefreshMs: 1000, Mats: []wMat{g1}, Script: []wStep{{Mat: 0}}},
			watchIn{RefreshMs: 0, Mats: []wMat{g1}, Script: []wStep{{Mat: 0}}},
			watchIn{RefreshMs: 1, Mats: []wMat{g1, g2, empty}, Script: []wStep{{Mat: 0}, {Mat: 1}, {Mat: 0}, {Mat: 2}, {Err: true}}},
			// D15: unusable material (before the repair the loop spins here)
			watchIn{RefreshMs: 1000, Mats: []wMat{bad}, Script: []wStep{{Mat: 0}}},
			watchIn{RefreshMs: 0, Mats: []wMat{g1, bad}, Script: []wStep{{Mat: 1}}},
			watchIn{RefreshMs: 500, Mats: []wMat{g1, partly}, Script: []wStep{{Mat: 0}, {Mat: 1}}},
			watchIn{RefreshMs: 500, Mats: []wMat{g1, {Nil: true}}, Script: []wStep{{Mat: 1}}},
			watchIn{RefreshMs: 500, Mats: []wMat{g1, {Nil: true}}, Script: []wStep{{Mat: 0}, {Mat: 1}}},
		},
		Gen: func(r *hx.Rand, i int) interface{} { return genWatchIn(r, 7) },
		Run: runWatch,
	})
}
