package main

import (
	"crypto/tls"
	"encoding/json"
	"fmt"
	"strings"

	"github.com/fabiolb/fabio/cert"
	"verif/harness/hx"
)

// Stream c11.select: a certificate set given as name lists (CN + SANs as the certificate spells them) and a
// list of requested server names, through the real Store.SetCertificates / getCertificate on real leaf
// certificates. Observable: for every request the position of the returned certificate in the set (-1 = no
// certificate) and the error class.

type selCert struct {
	CN   string   `json:"cn"`
	SANs []string `json:"sans"`
	Bad  bool     `json:"bad"` // leaf that x509.ParseCertificate rejects
	// chain variant (certs.go): 0 = the leaf alone, v = the same leaf followed by intermediate v-1. Selection
	// does not look at it; what is presented does.
	Chain int `json:"chain"`
}

type selIn struct {
	Certs  []selCert `json:"certs"`
	Set    bool      `json:"set"` // false: the store as NewStore leaves it (SetCertificates never called)
	Reqs   []string  `json:"reqs"`
	Strict bool      `json:"strict"`
}

type selOut struct {
	I int    `json:"i"`
	E string `json:"e"`
}

func errClass(err error) string {
	switch err {
	case nil:
		return ""
	case cert.ErrNoCertsStored:
		return "nocerts"
	}
	return "other"
}

func buildSet(cs []selCert) ([]tls.Certificate, error) {
	var out []tls.Certificate
	for i, c := range cs {
		if c.Bad {
			out = append(out, unparsable())
			continue
		}
		for _, s := range c.SANs {
			for _, ch := range []byte(s) {
				if ch >= 0x80 {
					return nil, fmt.Errorf("non-ASCII SAN")
				}
			}
		}
		l, err := leaf(i, c.CN, c.SANs)
		if err != nil {
			return nil, err
		}
		if c.Chain < 0 || c.Chain > nChains {
			return nil, fmt.Errorf("chain variant out of range")
		}
		out = append(out, withChain(l, c.Chain))
	}
	return out, nil
}

var selBases = []string{"example.com", "a.example.com", "b.a.example.com", "foo.test", "x.foo.test", "localhost", "com", "wild.example", "a.wild.example"}
var selSubs = []string{"a", "b", "x", "www", "deep"}

func mangleCase(r *hx.Rand, s string) string {
	b := []byte(s)
	switch r.Intn(3) {
	case 0:
		return strings.ToUpper(s)
	case 1:
		if len(b) > 0 && b[0] >= 'a' && b[0] <= 'z' {
			b[0] -= 32
		}
		for i := 1; i < len(b); i++ {
			if b[i-1] == '.' && b[i] >= 'a' && b[i] <= 'z' && r.Chance(1, 2) {
				b[i] -= 32
			}
		}
		return string(b)
	}
	for i := range b {
		if b[i] >= 'a' && b[i] <= 'z' && r.Chance(1, 3) {
			b[i] -= 32
		}
	}
	return string(b)
}

func wildcardOf(r *hx.Rand, s string) string {
	ls := strings.Split(s, ".")
	k := 1
	if len(ls) > 2 && r.Chance(1, 4) {
		k = 2
	}
	if len(ls) > 1 && r.Chance(1, 25) {
		k = len(ls)
	}
	for i := 0; i < k && i < len(ls); i++ {
		ls[i] = "*"
	}
	return strings.Join(ls, ".")
}

func genCertName(r *hx.Rand) string {
	b := r.Pick(selBases)
	var s string
	switch x := r.Intn(100); {
	case x < 42:
		s = b
	case x < 72:
		s = wildcardOf(r, b)
	case x < 84:
		s = "*." + b
	case x < 90:
		s = r.Pick(selSubs) + "." + b
	case x < 93:
		s = "*"
	case x < 96:
		s = b + "."
	case x < 98:
		s = "*.*." + b
	default:
		s = "*." + r.Pick(selSubs) + "." + r.Pick(selSubs) + "." + b
	}
	if r.Chance(3, 10) {
		s = mangleCase(r, s)
	}
	return s
}

// odd requested names: what a ClientHello can carry is not limited to well-formed host names
var selOdd = []string{"127.0.0.1", "::1", "a..example.com", ".example.com", "-", "*", "*.*", "*.*.example.com", "example.com.x",
	"xexample.com", "a.example.comx", "com.", "..", "a.b.c.d.e.f.g.h", strings.Repeat("a", 63) + ".example.com",
	strings.Repeat("abcdefg.", 30) + "example.com", "a.EXAMPLE.com", "foo.test.example.com"}

func genReqName(r *hx.Rand) string {
	var s string
	switch x := r.Intn(108); {
	case x >= 104:
		return r.Pick(selOdd)
	case x >= 100:
		// deep names: four to six labels in front of a base
		s = r.Pick(selBases)
		for n := r.Range(3, 5); n > 0; n-- {
			s = r.Pick(selSubs) + "." + s
		}
	case x < 8:
		s = ""
	case x < 11:
		return strings.Repeat(".", r.Range(1, 3))
	case x < 14:
		s = "*." + r.Pick(selBases)
	case x < 18:
		s = "nomatch.invalid"
	case x < 50:
		s = r.Pick(selBases)
	case x < 85:
		s = r.Pick(selSubs) + "." + r.Pick(selBases)
	default:
		s = r.Pick(selSubs) + "." + r.Pick(selSubs) + "." + r.Pick(selBases)
	}
	if r.Chance(2, 5) {
		s = mangleCase(r, s)
	}
	if r.Chance(3, 10) {
		s += strings.Repeat(".", r.Range(1, 3))
	}
	return s
}

func genSelCert(r *hx.Rand) selCert {
	var c selCert
	if r.Chance(1, 20) {
		c.Bad = true
		return c
	}
	if r.Chance(3, 4) {
		c.CN = genCertName(r)
	}
	for n := r.Intn(4); n > 0; n-- {
		c.SANs = append(c.SANs, genCertName(r))
	}
	if r.Chance(1, 4) {
		c.Chain = r.Range(1, nChains)
	}
	return c
}

func genSel(r *hx.Rand, i int) interface{} {
	in := selIn{Set: !r.Chance(1, 40), Strict: r.Chance(1, 2)}
	n := r.Intn(6)
	if r.Chance(1, 10) {
		n = 1
	}
	for ; n > 0; n-- {
		in.Certs = append(in.Certs, genSelCert(r))
	}
	for n := r.Range(3, 7); n > 0; n-- {
		in.Reqs = append(in.Reqs, genReqName(r))
	}
	// make hits frequent: a share of the requests is derived from a name some certificate carries
	var names []string
	for _, c := range in.Certs {
		if c.CN != "" {
			names = append(names, c.CN)
		}
		names = append(names, c.SANs...)
	}
	if len(names) > 0 {
		for k := range in.Reqs {
			if r.Chance(1, 3) {
				s := r.Pick(names)
				if strings.HasPrefix(s, "*.") && r.Chance(4, 5) {
					s = r.Pick(selSubs) + s[1:]
				}
				if r.Chance(1, 2) {
					s = mangleCase(r, s)
				}
				if r.Chance(1, 4) {
					s += "."
				}
				in.Reqs[k] = s
			}
		}
	}
	return in
}

func runSel(raw json.RawMessage) (interface{}, error) {
	var in selIn
	if err := json.Unmarshal(raw, &in); err != nil {
		return nil, err
	}
	certs, err := buildSet(in.Certs)
	if err != nil {
		return nil, err
	}
	ans := cert.VerifSelect(certs, in.Set, in.Reqs, in.Strict)
	out := make([]selOut, len(ans))
	for i, a := range ans {
		out[i] = selOut{I: a.Index, E: errClass(a.Err)}
	}
	return out, nil
}

func init() {
	hx.Register(&hx.Stream{
		Name: "c11.select",
		Corpus: []interface{}{
			selIn{Set: true, Reqs: []string{"example.com", ""}, Strict: false},
			selIn{Set: false, Certs: []selCert{{CN: "example.com"}}, Reqs: []string{"example.com"}, Strict: true},
			selIn{Set: true, Certs: []selCert{{CN: "example.com"}, {CN: "*.example.com", SANs: []string{"example.com"}}},
				Reqs: []string{"example.com", "EXAMPLE.com..", "a.example.com", "b.a.example.com", "", "other.test"}, Strict: true},
			selIn{Set: true, Certs: []selCert{{CN: "example.com"}, {CN: "*.example.com", SANs: []string{"example.com"}}},
				Reqs: []string{"example.com", "EXAMPLE.com..", "a.example.com", "b.a.example.com", "", "other.test"}, Strict: false},
			selIn{Set: true, Certs: []selCert{{CN: "first.test"}, {SANs: []string{"*.*.example.com", "*.a.example.com"}}, {CN: "*"}},
				Reqs: []string{"b.a.example.com", "x.y.example.com", "localhost", "", "a.b"}, Strict: true},
			selIn{Set: true, Certs: []selCert{{CN: "only.test"}}, Reqs: []string{"other.test", "only.test"}, Strict: false},
			selIn{Set: true, Certs: []selCert{{CN: "only.test"}}, Reqs: []string{"other.test", "only.test"}, Strict: true},
			selIn{Set: true, Certs: []selCert{{Bad: true}, {CN: "good.test"}}, Reqs: []string{"good.test", "x.test"}, Strict: false},
		},
		Gen: genSel,
		Run: runSel,
	})
}
