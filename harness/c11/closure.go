package main

import (
	"crypto/tls"
	"encoding/json"
	"errors"
	"fmt"
	"sync"

	"github.com/fabiolb/fabio/cert"
	"verif/harness/hx"
)

// Stream c11.closure: the GetCertificate closure that cert.TLSConfig builds, with the three kinds of source it
// distinguishes: a source that cannot issue certificates, one whose Issue succeeds and one whose Issue fails
// (cert.Issuer, implemented by the vault-pki source). The set is put in force through the source's channel (sent
// twice on an unbuffered channel: when the second send completes the first has been applied), then every
// requested name is asked once. Observable per request: what came back - element i of the set (by pointer), the
// issued certificate (by pointer), nothing, ErrNoCertsStored or another error - and the arguments of the Issue
// calls that request caused.

type closIn struct {
	Strict bool      `json:"strict"`
	Certs  []selCert `json:"certs"`
	Set    bool      `json:"set"`    // false: nothing is ever published (the store as NewStore leaves it)
	Issuer string    `json:"issuer"` // "none" | "ok" | "fail"
	Reqs   []string  `json:"reqs"`
}

type closAns struct {
	Kind  string   `json:"kind"` // "cert" | "issued" | "none" | "nocerts" | "err" | "foreign"
	I     int      `json:"i"`    // cert: position in the set
	Calls []string `json:"calls"`
}

type issuingSource struct {
	scriptedSource
	mu     sync.Mutex
	calls  []string
	issued *tls.Certificate
	fail   bool
}

var errIssue = errors.New("issuer: cannot issue")

func (s *issuingSource) Issue(commonName string) (*tls.Certificate, error) {
	s.mu.Lock()
	s.calls = append(s.calls, commonName)
	s.mu.Unlock()
	if s.fail {
		return nil, errIssue
	}
	return s.issued, nil
}

func (s *issuingSource) take() []string {
	s.mu.Lock()
	defer s.mu.Unlock()
	c := s.calls
	s.calls = nil
	if c == nil {
		c = []string{}
	}
	return c
}

func runClosure(raw json.RawMessage) (interface{}, error) {
	var in closIn
	if err := json.Unmarshal(raw, &in); err != nil {
		return nil, err
	}
	if len(in.Certs) > nKeys || len(in.Reqs) > 16 {
		return nil, fmt.Errorf("bad closure case")
	}
	set, err := buildSet(in.Certs)
	if err != nil {
		return nil, err
	}
	set = append([]tls.Certificate{}, set...)
	ch := make(chan []tls.Certificate)
	var src cert.Source
	var iss *issuingSource
	switch in.Issuer {
	case "none":
		src = scriptedSource{ch: ch}
	case "ok", "fail":
		l, err := leaf(0, "issued.test", nil)
		if err != nil {
			return nil, err
		}
		iss = &issuingSource{scriptedSource: scriptedSource{ch: ch}, issued: &l, fail: in.Issuer == "fail"}
		src = iss
	default:
		return nil, fmt.Errorf("unknown issuer kind %q", in.Issuer)
	}
	cfg, err := cert.TLSConfig(src, in.Strict, 0, 0, nil)
	if err != nil {
		return nil, err
	}
	defer close(ch)
	if in.Set {
		ch <- set
		ch <- set
	}
	out := []closAns{}
	for _, name := range in.Reqs {
		c, err := cfg.GetCertificate(&tls.ClientHelloInfo{ServerName: name})
		a := closAns{I: -1, Calls: []string{}}
		if iss != nil {
			a.Calls = iss.take()
		}
		switch {
		case c != nil && err != nil:
			a.Kind = "foreign" // a certificate together with an error
		case c != nil:
			a.Kind = "foreign"
			if iss != nil && c == iss.issued {
				a.Kind = "issued"
			}
			for i := range set {
				if c == &set[i] {
					a.Kind, a.I = "cert", i
				}
			}
		case err == nil:
			a.Kind = "none"
		case err == cert.ErrNoCertsStored:
			a.Kind = "nocerts"
		default:
			a.Kind = "err"
		}
		out = append(out, a)
	}
	return out, nil
}

func init() {
	two := []selCert{{CN: "example.com"}, {CN: "*.example.com", SANs: []string{"b.test"}}}
	hx.Register(&hx.Stream{
		Name: "c11.closure",
		Corpus: []interface{}{
			closIn{Strict: true, Certs: two, Set: true, Issuer: "none", Reqs: []string{"example.com", "a.example.com", "zzz.test", ""}},
			closIn{Strict: true, Certs: two, Set: true, Issuer: "ok", Reqs: []string{"example.com", "A.Example.Com.", "ZZZ.test.", ""}},
			closIn{Strict: true, Certs: two, Set: true, Issuer: "fail", Reqs: []string{"b.test", "zzz.test"}},
			closIn{Strict: false, Certs: two, Set: true, Issuer: "ok", Reqs: []string{"zzz.test", ""}},
			closIn{Strict: false, Certs: two, Set: false, Issuer: "ok", Reqs: []string{"example.com"}},
			closIn{Strict: true, Certs: []selCert{}, Set: true, Issuer: "fail", Reqs: []string{"example.com"}},
			closIn{Strict: false, Certs: two, Set: false, Issuer: "none", Reqs: []string{"example.com"}},
		},
		Gen: func(r *hx.Rand, i int) interface{} {
			in := closIn{Strict: r.Chance(2, 3), Set: !r.Chance(1, 12), Issuer: []string{"none", "ok", "ok", "fail"}[r.Intn(4)], Certs: []selCert{}}
			n := r.Range(2, nKeys)
			if r.Chance(1, 6) {
				n = r.Intn(2)
			}
			for ; n > 0; n-- {
				in.Certs = append(in.Certs, genSelCert(r))
			}
			for n := r.Range(3, 6); n > 0; n-- {
				in.Reqs = append(in.Reqs, genReqName(r))
			}
			var names []string
			for _, c := range in.Certs {
				if c.CN != "" {
					names = append(names, c.CN)
				}
				names = append(names, c.SANs...)
			}
			if len(names) > 0 {
				for k := range in.Reqs {
					if r.Chance(1, 3) {
						s := r.Pick(names)
						if len(s) > 2 && s[:2] == "*." {
							s = r.Pick(selSubs) + s[1:]
						}
						if r.Chance(1, 2) {
							s = mangleCase(r, s)
						}
						in.Reqs[k] = s
					}
				}
			}
			return in
		},
		Run: runClosure,
	})
}
