package main

import (
	"bytes"
	"crypto/ecdsa"
	"crypto/elliptic"
	"crypto/rand"
	"crypto/tls"
	"crypto/x509"
	"crypto/x509/pkix"
	"encoding/pem"
	"fmt"
	"io"
	"log"
	"math/big"
	"strings"
	"sync"
	"time"
)

// Real leaf certificates for the streams. Keys are generated once per process (nKeys of them); certificates
// are cached by (key, CN, SANs), so a run signs each distinct name list once. The key material itself plays
// no part in what is compared (certificate identity is the position in the set / a small integer id).

const nKeys = 4

var (
	factMu   sync.Mutex
	keys     [nKeys]*ecdsa.PrivateKey
	keyPEM   [nKeys][]byte
	leafMemo = map[string]tls.Certificate{}
	serial   int64
)

func init() { log.SetOutput(io.Discard) } // SetCertificates and watch log every call

func key(i int) *ecdsa.PrivateKey {
	i = ((i % nKeys) + nKeys) % nKeys
	if keys[i] == nil {
		k, err := ecdsa.GenerateKey(elliptic.P256(), rand.Reader)
		if err != nil {
			panic(err)
		}
		keys[i] = k
		der, err := x509.MarshalECPrivateKey(k)
		if err != nil {
			panic(err)
		}
		keyPEM[i] = pem.EncodeToMemory(&pem.Block{Type: "EC PRIVATE KEY", Bytes: der})
	}
	return keys[i]
}

// leaf returns a self-signed certificate whose subject CN and DNS SANs are exactly the given strings.
func leaf(keyIdx int, cn string, sans []string) (tls.Certificate, error) {
	factMu.Lock()
	defer factMu.Unlock()
	keyIdx = ((keyIdx % nKeys) + nKeys) % nKeys
	memo := fmt.Sprintf("%d\x00%s\x00%s", keyIdx, cn, strings.Join(sans, "\x01"))
	if c, ok := leafMemo[memo]; ok {
		return c, nil
	}
	k := key(keyIdx)
	serial++
	tmpl := &x509.Certificate{
		SerialNumber: big.NewInt(serial),
		Subject:      pkix.Name{CommonName: cn},
		DNSNames:     sans,
		NotBefore:    time.Unix(1700000000, 0),
		NotAfter:     time.Unix(4000000000, 0),
		KeyUsage:     x509.KeyUsageDigitalSignature,
		ExtKeyUsage:  []x509.ExtKeyUsage{x509.ExtKeyUsageServerAuth},
	}
	der, err := x509.CreateCertificate(rand.Reader, tmpl, tmpl, &k.PublicKey, k)
	if err != nil {
		return tls.Certificate{}, fmt.Errorf("create certificate: %v", err)
	}
	// the abstraction "a certificate = the names it spells" rests on x509 handing the names back unchanged
	p, err := x509.ParseCertificate(der)
	if err != nil {
		return tls.Certificate{}, fmt.Errorf("parse certificate: %v", err)
	}
	if p.Subject.CommonName != cn || strings.Join(p.DNSNames, "\x01") != strings.Join(sans, "\x01") {
		return tls.Certificate{}, fmt.Errorf("x509 round trip changed the names: %q %q", p.Subject.CommonName, p.DNSNames)
	}
	c := tls.Certificate{Certificate: [][]byte{der}, PrivateKey: k}
	leafMemo[memo] = c
	return c, nil
}

// unparsable is a certificate whose leaf x509.ParseCertificate rejects (BuildNameToCertificate skips it, it
// still occupies its position in the set).
func unparsable() tls.Certificate {
	return tls.Certificate{Certificate: [][]byte{[]byte("not a certificate")}, PrivateKey: key(0)}
}

// Intermediates: a few further certificates that can follow a leaf in a certificate file / in
// tls.Certificate.Certificate (tls.X509KeyPair takes every CERTIFICATE block of the file; nothing verifies that
// they sign the leaf). A chain variant v > 0 of a certificate is the same leaf followed by intermediate v-1:
// "the operator appended the missing intermediate", "the CA's intermediate was exchanged".
const nChains = 3

var (
	interMu  sync.Mutex
	interDER [nChains][]byte
)

func intermediate(v int) []byte {
	interMu.Lock()
	defer interMu.Unlock()
	v = ((v % nChains) + nChains) % nChains
	if interDER[v] == nil {
		factMu.Lock()
		k := key(v)
		factMu.Unlock()
		tmpl := &x509.Certificate{
			SerialNumber:          big.NewInt(int64(900 + v)),
			Subject:               pkix.Name{CommonName: fmt.Sprintf("intermediate-%d", v)},
			NotBefore:             time.Unix(1700000000, 0),
			NotAfter:              time.Unix(4000000000, 0),
			IsCA:                  true,
			BasicConstraintsValid: true,
			KeyUsage:              x509.KeyUsageCertSign,
		}
		der, err := x509.CreateCertificate(rand.Reader, tmpl, tmpl, &k.PublicKey, k)
		if err != nil {
			panic(err)
		}
		interDER[v] = der
	}
	return interDER[v]
}

// withChain returns the certificate with chain variant v (0: the leaf alone).
func withChain(c tls.Certificate, v int) tls.Certificate {
	if v <= 0 || len(c.Certificate) == 0 {
		return c
	}
	out := c
	out.Certificate = [][]byte{c.Certificate[0], intermediate(v - 1)}
	return out
}

// chainOf says which chain variant a certificate (or a presented chain) is: 0 leaf alone, v = leaf followed by
// intermediate v-1, -1 anything else.
func chainOf(ders [][]byte) int {
	switch len(ders) {
	case 1:
		return 0
	case 2:
		for v := 0; v < nChains; v++ {
			if bytes.Equal(ders[1], intermediate(v)) {
				return v + 1
			}
		}
	}
	return -1
}

func sameChain(a, b [][]byte) bool {
	if len(a) != len(b) {
		return false
	}
	for i := range a {
		if !bytes.Equal(a[i], b[i]) {
			return false
		}
	}
	return true
}

func certPEM(c tls.Certificate) []byte {
	return pem.EncodeToMemory(&pem.Block{Type: "CERTIFICATE", Bytes: c.Certificate[0]})
}

func keyPEMOf(i int) []byte {
	factMu.Lock()
	defer factMu.Unlock()
	key(i)
	return keyPEM[((i%nKeys)+nKeys)%nKeys]
}

func sameLeaf(a, b tls.Certificate) bool {
	return len(a.Certificate) > 0 && len(b.Certificate) > 0 && bytes.Equal(a.Certificate[0], b.Certificate[0])
}
