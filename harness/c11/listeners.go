package main

import (
	"bytes"
	"crypto/sha256"
	"crypto/tls"
	"encoding/hex"
	"encoding/json"
	"fmt"
	"net"
	"net/http"
	"os"
	"os/exec"
	"path/filepath"
	"strconv"
	"strings"
	"sync"
	"syscall"
	"time"

	"verif/harness/hx"
)

// Stream c11.listeners: the whole way from the command line to the certificate a client is presented. Every
// scenario starts the real fabio executable (built from the tree under test, no build tag) with one to three
// certificate sources (-proxy.cs: type path, http or file) and two to four TLS listeners (-proxy.addr with
// proto https / grpcs / prometheus / tcp / https+tcp+sni, optionally -ui.addr with a certificate source), several listeners on one
// source and with different strictmatch settings, and then performs real TLS handshakes against every listener
// for a list of server names (also without SNI). A path source may go through a second epoch while the process
// runs (the configured path runs through a symbolic link that is re-pointed; the new directory holds new
// certificates or the same leaves followed by other intermediates).
//
// Observable: per epoch, listener and requested name the certificate presented - its position in the description
// of the listener's source, identified by everything the server sent (leaf and the certificates after it);
// -1 = the handshake failed (no certificate), -2 = something that is no certificate of that source and epoch.
//
// What this ties in that no other stream executes: config.parseListen / parseCertSources (cs=, strictmatch=,
// proto=), main.makeTLSConfig (one cert.NewSource and one cert.TLSConfig per listener, with that listener's
// strictness), cert.NewSource's mapping of the options, FileSource, and the listeners handing the tls.Config to
// crypto/tls.

type lsnCert struct {
	File  string   `json:"file"` // base name: File+".pem" (combined) or File+"-cert.pem" / File+"-key.pem"
	Pair  bool     `json:"pair"`
	CN    string   `json:"cn"`
	SANs  []string `json:"sans"`
	Chain int      `json:"chain"`
}

type lsnSrc struct {
	Type   string    `json:"type"` // "path" | "http" | "file"
	Certs  []lsnCert `json:"certs"`
	Epoch2 []lsnCert `json:"epoch2"` // path only, optional: what the source holds after the link is re-pointed
}

type lsnL struct {
	Src    int    `json:"src"`
	Strict string `json:"strict"` // value of strictmatch=; "" = option absent
	Proto  string `json:"proto"`  // "" (https implied by cs=) | "https" | "grpcs" | "prometheus" | "tcp" (TLS-terminating TCP proxy; the harness adds a route for the port) | "https+tcp+sni" (no route matches: the https side answers)
	UI     bool   `json:"ui"`     // the listener of -ui.addr
	Order  int    `json:"order"`  // in which order the options are written
}

type lsnScn struct {
	Sources   []lsnSrc `json:"sources"`
	Listeners []lsnL   `json:"listeners"`
	Reqs      []string `json:"reqs"`
}

type lsnIn struct {
	Scns []lsnScn `json:"scns"`
}

type lsnScnOut struct {
	// Answers[epoch][listener][req]
	Answers [][][]int `json:"answers"`
	Ready   bool      `json:"ready"` // every listener completed a handshake for ready.test in time
}

const lsnReady = "ready.test"

func lsnCertFile(c lsnCert) string {
	if c.Pair {
		return c.File + "-cert.pem"
	}
	return c.File + ".pem"
}

func lsnBaseOK(s string) bool {
	if s == "" || len(s) > 12 || strings.HasSuffix(s, "-cert") || strings.HasSuffix(s, "-key") || strings.HasPrefix(s, ".") {
		return false
	}
	for _, c := range []byte(s) {
		if !(c >= 'a' && c <= 'z' || c >= 'A' && c <= 'Z' || c >= '0' && c <= '9' || c == '-' || c == '_') {
			return false
		}
	}
	return true
}

// lsnBuild makes the certificates of one epoch of a source: tls.Certificate per description and the files.
func lsnBuild(cs []lsnCert) ([]tls.Certificate, map[string][]byte, error) {
	if len(cs) == 0 || len(cs) > nKeys {
		return nil, nil, fmt.Errorf("a source of this stream holds 1..%d certificates", nKeys)
	}
	files := map[string][]byte{}
	var out []tls.Certificate
	for i, c := range cs {
		if !lsnBaseOK(c.File) || c.Chain < 0 || c.Chain > nChains {
			return nil, nil, fmt.Errorf("bad certificate description")
		}
		for _, n := range append([]string{c.CN}, c.SANs...) {
			for _, ch := range []byte(n) {
				if ch >= 0x80 || ch < 0x21 {
					return nil, nil, fmt.Errorf("bad name")
				}
			}
		}
		l, err := leaf(i, c.CN, c.SANs)
		if err != nil {
			return nil, nil, err
		}
		l = withChain(l, c.Chain)
		out = append(out, l)
		var cb bytes.Buffer
		for _, der := range l.Certificate {
			cb.Write(certPEM(tls.Certificate{Certificate: [][]byte{der}}))
		}
		if c.Pair {
			if _, dup := files[c.File+"-cert.pem"]; dup {
				return nil, nil, fmt.Errorf("duplicate file")
			}
			if _, dup := files[c.File+"-key.pem"]; dup {
				return nil, nil, fmt.Errorf("duplicate file")
			}
			files[c.File+"-cert.pem"] = cb.Bytes()
			files[c.File+"-key.pem"] = keyPEMOf(i)
		} else {
			if _, dup := files[c.File+".pem"]; dup {
				return nil, nil, fmt.Errorf("duplicate file")
			}
			cb.Write(keyPEMOf(i))
			files[c.File+".pem"] = cb.Bytes()
		}
	}
	return out, files, nil
}

// ---- the executable ------------------------------------------------------------------------------------------

var (
	lsnBinOnce sync.Once
	lsnBin     string
	lsnBinErr  error
)

func lsnRepo() string {
	if r := os.Getenv("VERIF_REPO"); r != "" {
		return r
	}
	return "/repo"
}

func lsnVerifDir() string {
	if d := os.Getenv("VERIF_DIR"); d != "" {
		return d
	}
	if exe, err := os.Executable(); err == nil {
		if d := filepath.Dir(filepath.Dir(exe)); fileExists(filepath.Join(d, "properties.jsonl")) {
			return d
		}
	}
	return "/verif"
}

func fileExists(p string) bool {
	_, err := os.Stat(p)
	return err == nil
}

// lsnTreeStamp identifies the content of the tree: HEAD plus the uncommitted difference. Equal stamps share one
// executable, which is never rewritten once it exists.
func lsnTreeStamp(repo string) string {
	head, err1 := exec.Command("git", "-C", repo, "rev-parse", "HEAD").Output()
	diff, err2 := exec.Command("git", "-C", repo, "diff", "HEAD").Output()
	if err1 != nil || err2 != nil {
		return fmt.Sprintf("pid%d", os.Getpid())
	}
	h := sha256.New()
	h.Write([]byte(repo))
	h.Write(head)
	h.Write(diff)
	return hex.EncodeToString(h.Sum(nil))[:16]
}

func lsnFabio() (string, error) {
	lsnBinOnce.Do(func() {
		repo := lsnRepo()
		dir := filepath.Join(lsnVerifDir(), ".work", "c11-fabio")
		if lsnBinErr = os.MkdirAll(dir, 0o755); lsnBinErr != nil {
			return
		}
		lock, err := os.OpenFile(filepath.Join(dir, "build.lock"), os.O_CREATE|os.O_RDWR, 0o644)
		if err != nil {
			lsnBinErr = err
			return
		}
		defer lock.Close()
		if lsnBinErr = syscall.Flock(int(lock.Fd()), syscall.LOCK_EX); lsnBinErr != nil {
			return
		}
		defer syscall.Flock(int(lock.Fd()), syscall.LOCK_UN)
		if ents, err := os.ReadDir(dir); err == nil {
			for _, e := range ents {
				if fi, err := e.Info(); err == nil && strings.HasPrefix(e.Name(), "fabio-") && time.Since(fi.ModTime()) > 45*time.Minute {
					os.Remove(filepath.Join(dir, e.Name()))
				}
			}
		}
		out := filepath.Join(dir, "fabio-"+lsnTreeStamp(repo))
		if fileExists(out) {
			now := time.Now()
			os.Chtimes(out, now, now)
			lsnBin = out
			return
		}
		tmp := out + ".tmp"
		cmd := exec.Command("go", "build", "-o", tmp, ".")
		cmd.Dir = repo
		if b, err := cmd.CombinedOutput(); err != nil {
			lsnBinErr = fmt.Errorf("go build %s: %v: %s", repo, err, b)
			return
		}
		if lsnBinErr = os.Rename(tmp, out); lsnBinErr != nil {
			return
		}
		lsnBin = out
	})
	return lsnBin, lsnBinErr
}

// ---- one scenario ----------------------------------------------------------------------------------------------

func lsnHandshake(addr, serverName string, grpc bool) ([][]byte, error) {
	c, err := net.DialTimeout("tcp", addr, 3*time.Second)
	if err != nil {
		return nil, err
	}
	defer c.Close()
	c.SetDeadline(time.Now().Add(8 * time.Second))
	cfg := &tls.Config{ServerName: serverName, InsecureSkipVerify: true, NextProtos: []string{"h2", "http/1.1"}}
	if grpc {
		cfg.NextProtos = []string{"h2"}
	}
	tc := tls.Client(c, cfg)
	if err := tc.Handshake(); err != nil {
		return nil, err
	}
	var ders [][]byte
	for _, p := range tc.ConnectionState().PeerCertificates {
		ders = append(ders, p.Raw)
	}
	if len(ders) == 0 {
		return nil, fmt.Errorf("no peer certificate")
	}
	return ders, nil
}

// lsnDialable: a failed handshake must be the server's refusal, not a listener that is gone.
func lsnDialable(addr string) bool {
	c, err := net.DialTimeout("tcp", addr, 3*time.Second)
	if err != nil {
		return false
	}
	c.Close()
	return true
}

func lsnStrictOK(s string) bool {
	switch s {
	case "", "true", "false":
		return true
	}
	return false
}

func lsnListenerArg(addr string, l lsnL, src string) string {
	opts := []string{"cs=" + src}
	if l.Strict != "" {
		opts = append(opts, "strictmatch="+l.Strict)
	}
	if l.Proto != "" {
		opts = append(opts, "proto="+l.Proto)
	}
	// the options are a set for the parser; write them in different orders
	k := ((l.Order % len(opts)) + len(opts)) % len(opts)
	opts = append(opts[k:], opts[:k]...)
	return addr + ";" + strings.Join(opts, ";")
}

// lsnCheck says whether a scenario is one this stream can stage (the shrinker produces others).
func lsnCheck(sc lsnScn) error {
	if len(sc.Sources) == 0 || len(sc.Sources) > 3 || len(sc.Listeners) == 0 || len(sc.Listeners) > 5 || len(sc.Reqs) == 0 || len(sc.Reqs) > 8 {
		return fmt.Errorf("bad listeners scenario")
	}
	nUI := 0
	for _, l := range sc.Listeners {
		if l.Src < 0 || l.Src >= len(sc.Sources) || !lsnStrictOK(l.Strict) {
			return fmt.Errorf("bad listener")
		}
		switch l.Proto {
		case "", "https", "grpcs", "prometheus", "tcp", "https+tcp+sni":
		default:
			return fmt.Errorf("bad proto")
		}
		if l.UI {
			nUI++
			if l.Proto != "" && l.Proto != "https" {
				return fmt.Errorf("the UI listener speaks https")
			}
		}
	}
	if nUI > 1 || nUI == len(sc.Listeners) {
		return fmt.Errorf("one UI listener at most, one proxy listener at least")
	}
	for _, r := range sc.Reqs {
		if r != "" && !sniOK(r) {
			return fmt.Errorf("name cannot travel as SNI")
		}
	}
	for _, s := range sc.Sources {
		if _, _, err := lsnBuild(s.Certs); err != nil {
			return err
		}
		if len(s.Epoch2) > 0 {
			if s.Type != "path" {
				return fmt.Errorf("only a path source goes through a second epoch here")
			}
			if _, _, err := lsnBuild(s.Epoch2); err != nil {
				return err
			}
		}
		switch s.Type {
		case "path", "http":
		case "file":
			if len(s.Certs) != 1 {
				return fmt.Errorf("a file source holds one certificate")
			}
		default:
			return fmt.Errorf("unknown source type %q", s.Type)
		}
	}
	return nil
}

func runLsnScn(sc lsnScn, srv *ldServer, prefix, backend string, lastTry bool) (lsnScnOut, error) {
	out := lsnScnOut{Answers: [][][]int{}}
	if err := lsnCheck(sc); err != nil {
		return out, err
	}
	bin, err := lsnFabio()
	if err != nil {
		return out, err
	}
	tmp, err := os.MkdirTemp("", "c11l")
	if err != nil {
		return out, err
	}
	defer os.RemoveAll(tmp)

	// the sources
	sets := make([][][]tls.Certificate, len(sc.Sources)) // [source][epoch]
	var csArgs []string
	epochs := 1
	type swap struct {
		src                int
		link, next, target string
		w                  *dirWatch
	}
	var swaps []swap
	table := map[string]ldResp{}
	for j, s := range sc.Sources {
		certs, files, err := lsnBuild(s.Certs)
		if err != nil {
			return out, err
		}
		sets[j] = append(sets[j], certs)
		name := "s" + strconv.Itoa(j)
		if len(s.Epoch2) > 0 && s.Type != "path" {
			return out, fmt.Errorf("only a path source goes through a second epoch here")
		}
		switch s.Type {
		case "path":
			root := filepath.Join(tmp, name)
			rel0 := filepath.Join(root, "rel-0", "certs")
			if err := os.MkdirAll(rel0, 0o755); err != nil {
				return out, err
			}
			for n, b := range files {
				if err := os.WriteFile(filepath.Join(rel0, n), b, 0o644); err != nil {
					return out, err
				}
			}
			link := filepath.Join(root, "current")
			if err := os.Symlink("rel-0", link); err != nil {
				return out, err
			}
			if len(s.Epoch2) > 0 {
				certs2, files2, err := lsnBuild(s.Epoch2)
				if err != nil {
					return out, err
				}
				sets[j] = append(sets[j], certs2)
				rel1 := filepath.Join(root, "rel-1", "certs")
				if err := os.MkdirAll(rel1, 0o755); err != nil {
					return out, err
				}
				for n, b := range files2 {
					if err := os.WriteFile(filepath.Join(rel1, n), b, 0o644); err != nil {
						return out, err
					}
				}
				w := watchDir(rel1)
				defer w.close()
				swaps = append(swaps, swap{src: j, link: link, next: filepath.Join(root, "next"), target: "rel-1", w: w})
				epochs = 2
			}
			// the configured path runs through the link (filepath.Walk does not follow a root that is itself a link)
			csArgs = append(csArgs, "cs="+name+";type=path;cert="+filepath.Join(link, "certs")+";refresh=1s")
		case "http":
			uri := "/" + prefix + name + "/list"
			body := ""
			for n, b := range files {
				body += "/" + n + "\n"
				table["/"+prefix+name+"/"+n] = ldResp{St: 200, Body: string(b)}
			}
			table[uri] = ldResp{St: 200, Body: body}
			csArgs = append(csArgs, "cs="+name+";type=http;cert="+srv.origin+uri+";refresh=1s")
		case "file":
			if len(s.Certs) != 1 {
				return out, fmt.Errorf("a file source holds one certificate")
			}
			dir := filepath.Join(tmp, name)
			if err := os.MkdirAll(dir, 0o755); err != nil {
				return out, err
			}
			for n, b := range files {
				if err := os.WriteFile(filepath.Join(dir, n), b, 0o644); err != nil {
					return out, err
				}
			}
			a := "cs=" + name + ";type=file;cert=" + filepath.Join(dir, lsnCertFile(s.Certs[0]))
			if s.Certs[0].Pair {
				a += ";key=" + filepath.Join(dir, s.Certs[0].File+"-key.pem")
			}
			csArgs = append(csArgs, a)
		default:
			return out, fmt.Errorf("unknown source type %q", s.Type)
		}
	}
	srv.add(table)

	// the process; a reserved port may be taken by somebody else between the reservation and fabio's bind
	var addrs []string
	var cmd *exec.Cmd
	var exited chan struct{}
	var logb *bytes.Buffer
	for attempt := 0; ; attempt++ {
		addrs = nil
		var held []net.Listener
		for range sc.Listeners {
			l, err := listenLoopback()
			if err != nil {
				return out, err
			}
			held = append(held, l)
			addrs = append(addrs, l.Addr().String())
		}
		uiPlain, err := listenLoopback()
		if err != nil {
			return out, err
		}
		held = append(held, uiPlain)
		var proxy []string
		routes := ""
		ui := uiPlain.Addr().String()
		for i, l := range sc.Listeners {
			a := lsnListenerArg(addrs[i], l, "s"+strconv.Itoa(l.Src))
			if l.UI {
				ui = a
			} else {
				proxy = append(proxy, a)
			}
			if l.Proto == "tcp" {
				// the TCP proxy looks its target up by the port of the listener
				_, port, _ := net.SplitHostPort(addrs[i])
				routes += fmt.Sprintf("route add tcp%d :%s tcp://%s\n", i, port, backend)
			}
		}
		for _, l := range held {
			l.Close()
		}
		args := []string{"-insecure", "-registry.backend", "static", "-registry.static.routes", routes,
			"-proxy.addr", strings.Join(proxy, ","), "-ui.addr", ui, "-proxy.cs", strings.Join(csArgs, ","),
			"-log.level", "WARN"}
		cmd = exec.Command(bin, args...)
		cmd.Dir = tmp
		cmd.SysProcAttr = &syscall.SysProcAttr{Pdeathsig: syscall.SIGKILL}
		logb = &bytes.Buffer{}
		cmd.Stdout, cmd.Stderr = logb, logb
		if err := cmd.Start(); err != nil {
			return out, err
		}
		exited = make(chan struct{})
		go func(cmd *exec.Cmd, ch chan struct{}) { cmd.Wait(); close(ch) }(cmd, exited)
		// up: every listener accepts connections
		up := true
		for _, a := range addrs {
			ok := false
			for dl := time.Now().Add(30 * time.Second); !ok && time.Now().Before(dl); {
				select {
				case <-exited:
					dl = time.Now()
				default:
					if ok = lsnDialable(a); !ok {
						time.Sleep(25 * time.Millisecond)
					}
				}
			}
			if !ok {
				up = false
				break
			}
		}
		if up {
			break
		}
		cmd.Process.Kill()
		<-exited
		if attempt < 4 && strings.Contains(logb.String(), "address already in use") {
			continue
		}
		return out, fmt.Errorf("fabio did not come up: %s", tailStr(logb.String(), 600))
	}
	defer func() {
		cmd.Process.Kill()
		<-exited
	}()

	// ready: the first set of every listener's source is in force (a handshake for a name every source spells
	// succeeds). A listener that never gets there is reported through its answers.
	out.Ready = true
	for i, a := range addrs {
		ok := false
		for dl := time.Now().Add(20 * time.Second); time.Now().Before(dl); time.Sleep(25 * time.Millisecond) {
			if _, err := lsnHandshake(a, lsnReady, sc.Listeners[i].Proto == "grpcs"); err == nil {
				ok = true
				break
			}
		}
		out.Ready = out.Ready && ok
	}
	if !out.Ready && !lastTry {
		// most likely the machine: start the scenario again; the last attempt reports what it sees
		return out, fmt.Errorf("a listener did not present the first set of its source within 20 s: %s", tailStr(logb.String(), 300))
	}

	ask := func(epoch int) ([][]int, error) {
		res := make([][]int, len(sc.Listeners))
		for i, l := range sc.Listeners {
			set := sets[l.Src][0]
			if epoch < len(sets[l.Src]) {
				set = sets[l.Src][epoch]
			}
			for _, name := range sc.Reqs {
				// "no certificate" is the server's alert; anything else (a timeout or a reset on a machine that runs
				// twenty checks at once) says nothing about the certificate and is tried again
				var ders [][]byte
				var err error
				for try := 0; try < 5; try++ {
					ders, err = lsnHandshake(addrs[i], name, l.Proto == "grpcs")
					if err == nil || strings.Contains(err.Error(), "remote error: tls:") {
						break
					}
					time.Sleep(time.Duration(300*(try+1)) * time.Millisecond)
				}
				v := -1
				if err != nil {
					if !lsnDialable(addrs[i]) {
						return nil, fmt.Errorf("listener %d is gone: %s", i, tailStr(logb.String(), 400))
					}
				} else {
					v = -2
					for k := range set {
						if sameChain(set[k].Certificate, ders) {
							v = k
							break
						}
					}
				}
				res[i] = append(res[i], v)
			}
		}
		return res, nil
	}
	a0, err := ask(0)
	if err != nil {
		return out, err
	}
	out.Answers = append(out.Answers, a0)
	if epochs == 2 {
		for _, s := range swaps {
			os.Remove(s.next)
			if err := os.Symlink(s.target, s.next); err != nil {
				return out, err
			}
			if err := os.Rename(s.next, s.link); err != nil {
				return out, err
			}
		}
		// every listener on such a source has a watcher of its own: when the new directory has been opened three
		// times per watcher, every watcher has sent the new set at least one refresh period (1 s) ago, which is the
		// margin its update goroutine gets on a loaded machine
		for j := range swaps {
			watchers := 0
			for _, l := range sc.Listeners {
				if l.Src == swaps[j].src {
					watchers++
				}
			}
			swaps[j].w.waitOpens(3*watchers, 25*time.Second)
		}
		time.Sleep(100 * time.Millisecond)
		a1, err := ask(1)
		if err != nil {
			return out, err
		}
		// the update goroutines may still be applying what the watchers sent: look again for a while if nothing changed
		for dl := time.Now().Add(2 * time.Second); fmt.Sprint(a1) == fmt.Sprint(a0) && time.Now().Before(dl); {
			time.Sleep(100 * time.Millisecond)
			if a1, err = ask(1); err != nil {
				return out, err
			}
		}
		out.Answers = append(out.Answers, a1)
	}
	select {
	case <-exited:
		return out, fmt.Errorf("fabio exited during the scenario: %s", tailStr(logb.String(), 600))
	default:
	}
	return out, nil
}

func tailStr(s string, n int) string {
	if len(s) > n {
		return s[len(s)-n:]
	}
	return s
}

// add merges entries into the server's table (scenarios of one case share the server).
func (s *ldServer) add(t map[string]ldResp) {
	s.mu.Lock()
	m := make(map[string]ldResp, len(s.table)+len(t))
	for k, v := range s.table {
		m[k] = v
	}
	for k, v := range t {
		m[k] = v
	}
	s.table = m
	s.mu.Unlock()
}

var lsnReplays int

func runLsn(raw json.RawMessage) (interface{}, error) {
	if len(os.Args) > 1 && os.Args[1] == "replay" {
		lsnReplays++
		if lsnReplays > 4 {
			return nil, fmt.Errorf("c11.listeners: replay budget of this process exhausted (candidate not run)")
		}
	}
	var in lsnIn
	if err := json.Unmarshal(raw, &in); err != nil {
		return nil, err
	}
	if len(in.Scns) == 0 || len(in.Scns) > 12 {
		return nil, fmt.Errorf("bad listeners case")
	}
	for _, sc := range in.Scns {
		if err := lsnCheck(sc); err != nil {
			return nil, err
		}
	}
	if _, err := lsnFabio(); err != nil {
		return nil, err
	}
	srv, err := newLdServerListen()
	if err != nil {
		return nil, err
	}
	defer srv.ln.Close()
	go (&http.Server{Handler: srv}).Serve(srv.ln)
	// what the TCP proxy listeners forward to: accepts and holds the connection until the case is over
	bl, err := listenLoopback()
	if err != nil {
		return nil, err
	}
	defer bl.Close()
	var held []net.Conn
	var heldMu sync.Mutex
	defer func() {
		heldMu.Lock()
		for _, c := range held {
			c.Close()
		}
		heldMu.Unlock()
	}()
	go func() {
		for {
			c, err := bl.Accept()
			if err != nil {
				return
			}
			heldMu.Lock()
			held = append(held, c)
			heldMu.Unlock()
		}
	}()
	outs := make([]lsnScnOut, len(in.Scns))
	errs := make([]error, len(in.Scns))
	var wg sync.WaitGroup
	for i := range in.Scns {
		wg.Add(1)
		go func(i int) {
			defer wg.Done()
			// a scenario that is well-formed (checked above) can only fail for reasons of the environment - the child
			// did not come up in time, a reserved port was taken, a listener could not be reached on a machine that
			// runs many checks at once: it is started again, three times at most
			for try := 0; try < 3; try++ {
				outs[i], errs[i] = runLsnScn(in.Scns[i], srv, "c"+strconv.Itoa(i)+"t"+strconv.Itoa(try)+"-", bl.Addr().String(), try == 2)
				if errs[i] == nil {
					break
				}
				time.Sleep(time.Duration(try+1) * time.Second)
			}
		}(i)
	}
	wg.Wait()
	for _, e := range errs {
		if e != nil {
			return nil, e
		}
	}
	return outs, nil
}

// ---- generator -------------------------------------------------------------------------------------------------

var lsnBases = []string{"a", "B", "b", "z", "0", "a-b", "A", "m_1", "Z9"}
var lsnNames = []string{"example.com", "a.example.com", "*.example.com", "*.a.example.com", "foo.test", "*.foo.test", "x.foo.test",
	"Example.COM", "*.*.example.com", "localhost", "*"}
var lsnReqs = []string{"example.com", "a.example.com", "b.example.com", "x.a.example.com", "foo.test", "x.foo.test", "y.x.foo.test",
	"EXAMPLE.com", "A.Example.Com", "localhost", "nomatch.invalid", "", "zzz.test"}

func genLsnCerts(r *hx.Rand, n int) []lsnCert {
	var cs []lsnCert
	used := map[string]bool{}
	for len(cs) < n {
		b := r.Pick(lsnBases)
		if used[b] {
			continue
		}
		used[b] = true
		c := lsnCert{File: b, Pair: r.Chance(1, 2), SANs: []string{}}
		if r.Chance(2, 3) {
			c.CN = r.Pick(lsnNames)
		}
		for k := r.Intn(3); k > 0; k-- {
			c.SANs = append(c.SANs, r.Pick(lsnNames))
		}
		if r.Chance(1, 4) {
			c.Chain = r.Range(1, nChains)
		}
		cs = append(cs, c)
	}
	j := r.Intn(len(cs))
	cs[j].SANs = append(cs[j].SANs, lsnReady)
	return cs
}

func genLsnScn(r *hx.Rand) lsnScn {
	sc := lsnScn{}
	for n := r.Range(1, 2); n > 0; n-- {
		s := lsnSrc{Type: []string{"path", "path", "http", "file"}[r.Intn(4)], Epoch2: []lsnCert{}}
		if s.Type == "file" {
			s.Certs = genLsnCerts(r, 1)
		} else {
			s.Certs = genLsnCerts(r, r.Range(2, 3))
		}
		if s.Type == "path" && r.Chance(1, 2) {
			if r.Chance(1, 2) {
				// the same leaves in the same files, other certificates after them
				s.Epoch2 = append(s.Epoch2, s.Certs...)
				for changed := false; !changed; {
					for j := range s.Epoch2 {
						if r.Chance(1, 2) {
							v := (s.Epoch2[j].Chain + r.Range(1, nChains)) % (nChains + 1)
							changed = changed || v != s.Epoch2[j].Chain
							s.Epoch2[j].Chain = v
						}
					}
				}
			} else {
				s.Epoch2 = genLsnCerts(r, r.Range(1, 3))
			}
		}
		sc.Sources = append(sc.Sources, s)
	}
	// listeners: most of the time several on one source, with different strictness
	n := r.Range(2, 4)
	ui := -1
	if r.Chance(1, 3) {
		ui = r.Intn(n)
		if n == 1 {
			ui = -1
		}
	}
	for i := 0; i < n; i++ {
		l := lsnL{Src: r.Intn(len(sc.Sources)), Strict: []string{"", "true", "true", "false"}[r.Intn(4)], Order: r.Intn(3)}
		if i > 0 && r.Chance(1, 2) {
			l.Src = sc.Listeners[i-1].Src
			if sc.Listeners[i-1].Strict == "true" {
				l.Strict = []string{"", "false"}[r.Intn(2)]
			} else {
				l.Strict = "true"
			}
		}
		if i == ui {
			l.UI = true
			l.Proto = []string{"", "https"}[r.Intn(2)]
		} else {
			l.Proto = []string{"", "https", "https", "grpcs", "prometheus", "tcp", "https+tcp+sni"}[r.Intn(7)]
		}
		sc.Listeners = append(sc.Listeners, l)
	}
	for k := r.Range(4, 6); k > 0; k-- {
		sc.Reqs = append(sc.Reqs, r.Pick(lsnReqs))
	}
	return sc
}

func init() {
	two := []lsnCert{{File: "a", Pair: true, CN: "a.example.com", SANs: []string{lsnReady}}, {File: "b", CN: "b.example.com", SANs: []string{}}}
	fixed := []lsnScn{
		// two listeners on one source, one strict and one not, in both orders of creation; the UI listener on the same source
		{Sources: []lsnSrc{{Type: "path", Certs: two, Epoch2: []lsnCert{}}},
			Listeners: []lsnL{{Src: 0, Strict: "true"}, {Src: 0, Strict: ""}, {Src: 0, Strict: "false", UI: true}},
			Reqs:      []string{"a.example.com", "b.example.com", "unknown.example.com", ""}},
		{Sources: []lsnSrc{{Type: "http", Certs: two, Epoch2: []lsnCert{}}},
			Listeners: []lsnL{{Src: 0, Strict: "false", Proto: "https"}, {Src: 0, Strict: "true", Proto: "grpcs", Order: 1},
				{Src: 0, Strict: "true", Proto: "tcp", Order: 2}, {Src: 0, Strict: "", Proto: "https+tcp+sni"}},
			Reqs:      []string{"A.Example.Com", "unknown.example.com", ""}},
		// the forgotten intermediate is appended while the process runs
		{Sources: []lsnSrc{{Type: "path", Certs: []lsnCert{{File: "www", Pair: true, CN: "www.example.com", SANs: []string{lsnReady}}},
			Epoch2: []lsnCert{{File: "www", Pair: true, CN: "www.example.com", SANs: []string{lsnReady}, Chain: 1}}}},
			Listeners: []lsnL{{Src: 0, Strict: ""}, {Src: 0, Strict: "true", Order: 2}},
			Reqs:      []string{"www.example.com", "other.test"}},
		// a file source and a path source side by side
		{Sources: []lsnSrc{{Type: "file", Certs: []lsnCert{{File: "one", Pair: true, CN: "one.test", SANs: []string{lsnReady}, Chain: 2}}, Epoch2: []lsnCert{}},
			{Type: "path", Certs: two, Epoch2: []lsnCert{}}},
			Listeners: []lsnL{{Src: 0, Strict: "true"}, {Src: 1, Strict: "true", Proto: "prometheus"}, {Src: 0, Strict: ""}},
			Reqs:      []string{"one.test", "a.example.com", "b.example.com", "zzz.test", ""}},
	}
	hx.Register(&hx.Stream{
		Name: "c11.listeners",
		Gen: func(r *hx.Rand, i int) interface{} {
			in := lsnIn{}
			if i == 0 {
				in.Scns = append(in.Scns, fixed...)
			}
			for len(in.Scns) < 8 {
				in.Scns = append(in.Scns, genLsnScn(r))
			}
			return in
		},
		Run: runLsn,
	})
}
