package main

import (
	"crypto/tls"
	"crypto/x509"
	"encoding/json"
	"fmt"
	"net"
	"runtime"
	"sync"
	"sync/atomic"
	"time"

	"github.com/fabiolb/fabio/cert"
	"verif/harness/hx"
)

// Stream c11.race (built with -race): the real cert.TLSConfig with a scripted Source. A publisher sends the
// sets one after the other while handshake threads call tls.Config.GetCertificate concurrently. Every returned
// *tls.Certificate is identified by pointer as element i of published set k (the store keeps the slice it
// was handed, so &sets[k][i] is the identity). For every call the harness records the window [lo, hi] of sets
// that can have been current (lo: all sends but the last completed one are applied for sure; hi: sends
// started). Set 0 is the empty store TLSConfig starts with. After the last set is in force, real TLS handshakes
// (tls.Client against tls.Server over net.Pipe) report the certificate actually presented.

type raceIn struct {
	Strict  bool        `json:"strict"`
	Sets    [][]selCert `json:"sets"`
	Reqs    []string    `json:"reqs"`
	Threads int         `json:"threads"`
	Per     int         `json:"per"`
}

type raceOut struct {
	// [thread, req, k, i, e, lo, hi]; k = -1 when no certificate came back; e: 0 nil, 1 ErrNoCertsStored, 2 other
	Calls [][7]int `json:"calls"`
	// [req, i]: the certificate presented in a real handshake against the final set (-1: handshake failed, -2:
	// what was presented - leaf and the certificates after it - is no certificate of the final set)
	Handshakes [][2]int `json:"handshakes"`
}

type scriptedSource struct{ ch chan []tls.Certificate }

func (s scriptedSource) LoadClientCAs() (*x509.CertPool, error) { return nil, nil }
func (s scriptedSource) Certificates() chan []tls.Certificate   { return s.ch }

func sniOK(s string) bool {
	if s == "" || s[len(s)-1] == '.' || net.ParseIP(s) != nil {
		return false
	}
	for _, c := range []byte(s) {
		if !(c >= 'a' && c <= 'z' || c >= 'A' && c <= 'Z' || c >= '0' && c <= '9' || c == '.' || c == '-') {
			return false
		}
	}
	return true
}

func realHandshake(cfg *tls.Config, serverName string) ([]byte, error) {
	ders, err := realHandshakeChain(cfg, serverName)
	if err != nil {
		return nil, err
	}
	return ders[0], nil
}

// realHandshakeChain returns everything the server presented: the leaf and what follows it.
func realHandshakeChain(cfg *tls.Config, serverName string) ([][]byte, error) {
	cc, sc := net.Pipe()
	defer cc.Close()
	defer sc.Close()
	dl := time.Now().Add(5 * time.Second)
	cc.SetDeadline(dl)
	sc.SetDeadline(dl)
	srv := tls.Server(sc, cfg)
	go func() {
		srv.Handshake()
		sc.Close()
	}()
	cli := tls.Client(cc, &tls.Config{ServerName: serverName, InsecureSkipVerify: true})
	if err := cli.Handshake(); err != nil {
		return nil, err
	}
	st := cli.ConnectionState()
	if len(st.PeerCertificates) == 0 {
		return nil, fmt.Errorf("no peer certificate")
	}
	var ders [][]byte
	for _, p := range st.PeerCertificates {
		ders = append(ders, p.Raw)
	}
	return ders, nil
}

func runRace(raw json.RawMessage) (interface{}, error) {
	var in raceIn
	if err := json.Unmarshal(raw, &in); err != nil {
		return nil, err
	}
	if in.Threads < 1 || in.Threads > 16 || in.Per < 1 || in.Per > 500 || len(in.Reqs) == 0 || len(in.Sets) == 0 || len(in.Sets) > 16 {
		return nil, fmt.Errorf("bad race case")
	}
	sets := make([][]tls.Certificate, len(in.Sets)+1) // sets[0]: the initial empty store
	type ki struct{ k, i int }
	ident := map[*tls.Certificate]ki{}
	for k, s := range in.Sets {
		if len(s) > nKeys {
			return nil, fmt.Errorf("set too large")
		}
		cs, err := buildSet(s)
		if err != nil {
			return nil, err
		}
		// a private copy per set: the same certificate in two sets must remain distinguishable by pointer
		cp := append([]tls.Certificate(nil), cs...)
		sets[k+1] = cp
		for i := range cp {
			ident[&cp[i]] = ki{k + 1, i}
		}
	}
	src := scriptedSource{ch: make(chan []tls.Certificate)}
	cfg, err := cert.TLSConfig(src, in.Strict, 0, 0, nil)
	if err != nil {
		return nil, err
	}
	var started, completed, ncalls atomic.Int64
	var finished atomic.Bool
	var wg sync.WaitGroup
	recs := make([][][7]int, in.Threads)
	begin := make(chan struct{})
	quota := in.Per/(len(sets)+1) + 1 // recorded calls per thread and window; threads keep calling until the end
	for t := 0; t < in.Threads; t++ {
		wg.Add(1)
		go func(t int) {
			defer wg.Done()
			<-begin
			seen := map[[2]int]int{}
			for n := 0; ; n++ {
				fin := finished.Load()
				r := (t*7 + n) % len(in.Reqs)
				lo := int(completed.Load()) - 1
				if lo < 0 {
					lo = 0
				}
				c, err := cfg.GetCertificate(&tls.ClientHelloInfo{ServerName: in.Reqs[r]})
				hi := int(started.Load())
				ncalls.Add(1)
				w := [2]int{lo, hi}
				if seen[w] < quota {
					seen[w]++
					rec := [7]int{t, r, -1, -1, 0, lo, hi}
					if c != nil {
						if id, ok := ident[c]; ok {
							rec[2], rec[3] = id.k, id.i
						} else {
							rec[2], rec[3] = -2, -2 // a certificate that belongs to no published set
						}
					}
					switch err {
					case nil:
					case cert.ErrNoCertsStored:
						rec[4] = 1
					default:
						rec[4] = 2
					}
					recs[t] = append(recs[t], rec)
				}
				if fin {
					return
				}
				if n%16 == 15 {
					runtime.Gosched()
				}
			}
		}(t)
	}
	close(begin)
	waitCalls := func(n int64) {
		target := ncalls.Load() + n
		time.Sleep(200 * time.Microsecond) // let the update goroutine apply what it was handed
		dl := time.Now().Add(50 * time.Millisecond)
		for ncalls.Load() < target && time.Now().Before(dl) {
			runtime.Gosched()
		}
	}
	waitCalls(int64(4 * in.Threads))
	for k := 1; k < len(sets); k++ {
		started.Store(int64(k))
		src.ch <- sets[k]
		waitCalls(int64(2 * in.Threads)) // calls that overlap the application of set k
		completed.Store(int64(k))
		waitCalls(int64(4 * in.Threads))
	}
	finished.Store(true)
	wg.Wait()
	// the last set once more: when this send completes the first copy has been applied
	last := len(sets) - 1
	src.ch <- sets[last]
	out := raceOut{Calls: [][7]int{}, Handshakes: [][2]int{}}
	for _, rs := range recs {
		out.Calls = append(out.Calls, rs...)
	}
	// the final set is in force for certain now: one more call per request, window [last, last]
	for r := range in.Reqs {
		c, err := cfg.GetCertificate(&tls.ClientHelloInfo{ServerName: in.Reqs[r]})
		rec := [7]int{in.Threads, r, -1, -1, 0, last, last}
		if c != nil {
			if id, ok := ident[c]; ok {
				rec[2], rec[3] = id.k, id.i
			} else {
				rec[2], rec[3] = -2, -2
			}
		}
		switch err {
		case nil:
		case cert.ErrNoCertsStored:
			rec[4] = 1
		default:
			rec[4] = 2
		}
		out.Calls = append(out.Calls, rec)
	}
	for r, name := range in.Reqs {
		if !sniOK(name) {
			continue
		}
		ders, err := realHandshakeChain(cfg, name)
		i := -1
		if err == nil {
			i = -2
			for j := range sets[last] {
				if sameChain(sets[last][j].Certificate, ders) {
					i = j
					break
				}
			}
		}
		out.Handshakes = append(out.Handshakes, [2]int{r, i})
	}
	close(src.ch)
	return out, nil
}

func init() {
	hx.Register(&hx.Stream{
		Name: "c11.race",
		Corpus: []interface{}{
			raceIn{Strict: true, Threads: 4, Per: 40, Reqs: []string{"a.example.com", "EXAMPLE.com.", "zzz.test", ""},
				Sets: [][]selCert{
					{{CN: "example.com"}, {CN: "*.example.com"}},
					{{CN: "*.example.com"}, {CN: "example.com"}, {CN: "a.example.com"}},
					{},
					{{CN: "a.example.com", SANs: []string{"Example.COM"}}},
				}},
			// the leaves stay, what follows them changes (intermediate added, exchanged, removed); the last set is
			// what a handshake must present, certificates after the leaf included
			raceIn{Strict: false, Threads: 3, Per: 30, Reqs: []string{"www.example.com", "zzz.test", ""},
				Sets: [][]selCert{
					{{CN: "www.example.com"}},
					{{CN: "www.example.com", Chain: 1}},
					{{CN: "www.example.com", Chain: 2}},
					{{CN: "www.example.com"}, {CN: "b.example.com", Chain: 1}},
					{{CN: "www.example.com", Chain: 3}, {CN: "b.example.com", Chain: 1}},
				}},
		},
		Gen: func(r *hx.Rand, i int) interface{} {
			in := raceIn{Strict: r.Chance(1, 2), Threads: r.Range(2, 6), Per: r.Range(20, 60)}
			for n := r.Range(2, 6); n > 0; n-- {
				var s []selCert
				prev := []selCert(nil)
				if len(in.Sets) > 0 {
					prev = in.Sets[len(in.Sets)-1]
				}
				switch x := r.Intn(6); {
				case x < 2 && len(prev) > 0:
					// the same certificates published again with something other than the leaves changed: the
					// certificates that follow the leaf (an intermediate added, removed, exchanged)
					s = append(s, prev...)
					for changed := false; !changed; {
						for j := range s {
							if r.Chance(1, 2) {
								v := (s[j].Chain + r.Range(1, nChains)) % (nChains + 1)
								changed = changed || v != s[j].Chain
								s[j].Chain = v
							}
						}
					}
				case x == 2 && len(prev) > 1:
					// the same names in another order (other default; other keys, so other leaves)
					k := r.Range(1, len(prev)-1)
					s = append(append(s, prev[k:]...), prev[:k]...)
				default:
					for m := r.Intn(nKeys + 1); m > 0; m-- {
						c := genSelCert(r)
						c.Bad = false
						s = append(s, c)
					}
				}
				in.Sets = append(in.Sets, s)
			}
			for n := r.Range(3, 6); n > 0; n-- {
				in.Reqs = append(in.Reqs, genReqName(r))
			}
			return in
		},
		Run: runRace,
	})
}
