package main

import (
	"crypto/tls"
	"crypto/x509"
	"encoding/json"
	"fmt"
	"net/http"
	"os"
	"path/filepath"
	"strconv"
	"strings"
	"sync"
	"syscall"
	"time"
	"unsafe"

	"github.com/fabiolb/fabio/cert"
	"verif/harness/hx"
)

// Stream c11.e2e: the real sources, end to end and in real time. Every scenario builds a real
// cert.HTTPSource or cert.PathSource, hands it to the real cert.TLSConfig and then asks the resulting
// tls.Config.GetCertificate (and, at the end, a real TLS handshake) which certificate is presented while the
// source goes through its epochs:
//
//   url:  an in-process HTTP server per scenario. A new epoch is put in force by the server itself at the next
//         request for the list, i.e. at the start of a load, so no load sees two epochs. After an epoch has been
//         requested the harness waits for two more list requests (one full load has certainly ended), then asks.
//   path: the configured path runs through a symbolic link (<tmp>/current -> rel-<j>); every epoch is a release
//         directory of its own whose file names carry the epoch number, and is published by renaming a new link
//         over `current` (atomic; a load that straddles the swap finds names that do not exist and fails). After
//         the swap the harness waits until the new directory has been opened twice (inotify: the ReadDir of two
//         loads, so one full load of the new state has ended; 15 s at most), then asks.
//
// The scenarios of a case run concurrently; a scenario costs about 2.5 s per epoch after the first.

type e2eScn struct {
	Kind     string     `json:"kind"` // "url" | "path"
	Strict   bool       `json:"strict"`
	CertPath string     `json:"cert_path"` // path: PathSource.CertPath ("" = the default child "cert")
	Epochs   []srcEpoch `json:"epochs"`
}

type e2eIn struct {
	Scns []e2eScn `json:"scns"`
}

type e2eScnOut struct {
	// per epoch, per requested name (c0.test … c3.test, zzz.test): the id of the certificate GetCertificate
	// returned, -1 = none, -2 = ErrNoCertsStored, -3 = another error
	Answers [][]int `json:"answers"`
	// a real handshake for zzz.test against the final state: certificate id, -1 = handshake failed
	Handshake int     `json:"handshake"`
	Base      *string `json:"base"`
}

var e2eReqs = []string{"c0.test", "c1.test", "c2.test", "c3.test", "zzz.test"}

func idOfCert(c *tls.Certificate) int {
	if c == nil {
		return -1
	}
	ids := certIDs([]tls.Certificate{*c})
	return ids[0]
}

func askAll(cfg *tls.Config) []int {
	out := make([]int, len(e2eReqs))
	for i, n := range e2eReqs {
		c, err := cfg.GetCertificate(&tls.ClientHelloInfo{ServerName: n})
		switch {
		case err == cert.ErrNoCertsStored:
			out[i] = -2
		case err != nil:
			out[i] = -3
		default:
			out[i] = idOfCert(c)
		}
	}
	return out
}

// e2eServer serves one scenario: tables per epoch, the switch happens when the list is requested.
type e2eServer struct {
	*ldServer
	mu2      sync.Mutex
	tables   []map[string]ldResp
	listURI  string
	want     int // epoch requested by the harness
	cur      int
	listReqs int // requests for the list since the last switch
}

func (s *e2eServer) ServeHTTP(w http.ResponseWriter, r *http.Request) {
	if r.RequestURI == s.listURI {
		s.mu2.Lock()
		if s.cur != s.want {
			s.cur = s.want
			s.listReqs = 0
			s.ldServer.set(s.tables[s.cur])
		}
		s.listReqs++
		s.mu2.Unlock()
	}
	s.ldServer.ServeHTTP(w, r)
}

func epochFiles(e srcEpoch) (map[string][]byte, error) {
	m := map[string][]byte{}
	for _, f := range e.Files {
		if err := srcFileOK(f); err != nil {
			return nil, err
		}
		if _, dup := m[f.Name]; dup {
			return nil, fmt.Errorf("duplicate file name")
		}
		b, err := fileBytes(wFile{f.Name, f.C, f.K, f.Ch})
		if err != nil {
			return nil, err
		}
		m[f.Name] = b
	}
	return m, nil
}

// looksUsable: nothing in the description of the epoch says that the load must fail.
func looksUsable(e srcEpoch) bool {
	if st200(e.ListSt) != 200 || e.ListMode != "" || e.RootErr != "" {
		return false
	}
	for _, f := range e.Files {
		if st200(f.St) != 200 || f.Mode != "" || f.Dangling {
			return false
		}
	}
	return true
}

const e2eRefresh = time.Second

func runE2EScn(sc e2eScn) (e2eScnOut, error) {
	out := e2eScnOut{Answers: [][]int{}, Handshake: -1}
	if len(sc.Epochs) == 0 || len(sc.Epochs) > 4 {
		return out, fmt.Errorf("epochs")
	}
	files := make([]map[string][]byte, len(sc.Epochs))
	for i, e := range sc.Epochs {
		m, err := epochFiles(e)
		if err != nil {
			return out, err
		}
		files[i] = m
		for _, l := range e.Lines {
			if l != "" && !safeName(l) {
				return out, fmt.Errorf("bad line")
			}
		}
	}
	var src cert.Source
	var advance func(j int) error
	var settled func(j int)
	switch sc.Kind {
	case "url":
		ls, err := newLdServerListen() // the scenario installs its own handler
		if err != nil {
			return out, err
		}
		defer ls.ln.Close()
		s := &e2eServer{ldServer: ls, listURI: "/list"}
		go (&http.Server{Handler: s}).Serve(ls.ln)
		listReal := ls.origin + "/list"
		baseReal, err := cert.VerifBase(listReal)
		if err != nil {
			return out, err
		}
		c := ls.canon(baseReal)
		out.Base = &c
		for i, e := range sc.Epochs {
			var fs []ldFile
			for _, f := range e.Files {
				fs = append(fs, ldFile{f.Name, ldResp{St: st200(f.St), Body: string(files[i][f.Name]), Mode: f.Mode}})
			}
			body := ""
			for _, l := range e.Lines {
				body += l + "\n"
			}
			t, err := buildTable(listReal, ldResp{St: st200(e.ListSt), Body: body, Mode: e.ListMode}, baseReal, true, fs)
			if err != nil {
				return out, err
			}
			s.tables = append(s.tables, t)
		}
		ls.set(s.tables[0])
		src = cert.HTTPSource{CertURL: listReal, Refresh: e2eRefresh}
		advance = func(j int) error {
			s.mu2.Lock()
			s.want = j
			s.mu2.Unlock()
			return nil
		}
		settled = func(j int) {
			// the switch happened and two further requests for the list have arrived: the load that started with
			// the switch has ended
			dl := time.Now().Add(15 * time.Second)
			for time.Now().Before(dl) {
				s.mu2.Lock()
				ok := s.cur == j && s.listReqs >= 2
				s.mu2.Unlock()
				if ok {
					time.Sleep(30 * time.Millisecond) // the update goroutine of TLSConfig applies what was sent
					return
				}
				time.Sleep(5 * time.Millisecond)
			}
		}
	case "path":
		if sc.CertPath != "" && !okEntryName(sc.CertPath) {
			return out, fmt.Errorf("bad cert path")
		}
		tmp, err := os.MkdirTemp("", "c11e")
		if err != nil {
			return out, err
		}
		defer os.RemoveAll(tmp)
		child := sc.CertPath
		if child == "" {
			child = cert.DefaultCertPath
		}
		for i, e := range sc.Epochs {
			rel := filepath.Join(tmp, "rel-"+strconv.Itoa(i))
			if e.RootErr == "notdir" {
				// the release is a file: the certificate directory cannot be reached (ENOTDIR)
				if err := os.WriteFile(rel, []byte("a file where a directory is expected"), 0o644); err != nil {
					return out, err
				}
				continue
			}
			if e.RootErr != "" {
				return out, fmt.Errorf("root error %q cannot be staged for a real source", e.RootErr)
			}
			if e.Missing {
				if err := os.MkdirAll(rel, 0o755); err != nil { // the release has no certificate directory
					return out, err
				}
				continue
			}
			dir := filepath.Join(rel, child)
			if err := os.MkdirAll(dir, 0o755); err != nil {
				return out, err
			}
			for _, f := range e.Files {
				p := filepath.Join(dir, filepath.FromSlash(f.Name))
				if err := os.MkdirAll(filepath.Dir(p), 0o755); err != nil {
					return out, err
				}
				if f.Dangling {
					if err := os.Symlink("nowhere", p); err != nil {
						return out, err
					}
				} else if err := os.WriteFile(p, files[i][f.Name], 0o644); err != nil {
					return out, err
				}
			}
		}
		link := filepath.Join(tmp, "current")
		if err := os.Symlink("rel-0", link); err != nil {
			return out, err
		}
		src = cert.PathSource{Path: link, CertPath: sc.CertPath, Refresh: e2eRefresh}
		advance = func(j int) error {
			nl := filepath.Join(tmp, "next")
			os.Remove(nl)
			if err := os.Symlink("rel-"+strconv.Itoa(j), nl); err != nil {
				return err
			}
			return os.Rename(nl, link)
		}
		// event-based: the directory of epoch j has been opened twice (ReadDir of two loads) since it was watched,
		// so one full load of the new state has ended; a release without certificate directory has nothing to
		// watch and is given 2.5 refresh periods
		watches := make([]*dirWatch, len(sc.Epochs))
		for i, e := range sc.Epochs {
			if !e.Missing && e.RootErr == "" {
				watches[i] = watchDir(filepath.Join(tmp, "rel-"+strconv.Itoa(i), child))
				defer watches[i].close()
			}
		}
		settled = func(j int) {
			if watches[j] == nil {
				time.Sleep(5 * e2eRefresh / 2)
				return
			}
			watches[j].waitOpens(2, 15*time.Second)
			time.Sleep(30 * time.Millisecond)
		}
	default:
		return out, fmt.Errorf("unknown kind %q", sc.Kind)
	}
	cfg, err := cert.TLSConfig(src, sc.Strict, 0, 0, nil)
	if err != nil {
		return out, err
	}
	// epoch 0: the first load is immediate
	var prev []int
	for j := range sc.Epochs {
		if j > 0 {
			if err := advance(j); err != nil {
				return out, err
			}
		}
		settled(j)
		got := askAll(cfg)
		if sameInts(got, prev) {
			// the update goroutine of TLSConfig may still be applying what the watcher sent: an epoch in which
			// nothing is visibly wrong is given up to 2 s to show, any other 300 ms (the verdict is the driver's;
			// this only decides how long to look)
			wait := 300 * time.Millisecond
			if looksUsable(sc.Epochs[j]) {
				wait = 2 * time.Second
			}
			for dl := time.Now().Add(wait); sameInts(got, prev) && time.Now().Before(dl); {
				time.Sleep(20 * time.Millisecond)
				got = askAll(cfg)
			}
		}
		out.Answers = append(out.Answers, got)
		prev = got
	}
	if ders, err := realHandshakeChain(cfg, "zzz.test"); err == nil {
		if _, err := x509.ParseCertificate(ders[0]); err == nil {
			out.Handshake = idOfCert(&tls.Certificate{Certificate: ders}) // the whole presented chain
		}
	}
	return out, nil
}

// dirWatch counts how often a directory is opened (inotify IN_OPEN on the directory itself).
type dirWatch struct {
	fd    int
	opens int
}

func watchDir(dir string) *dirWatch {
	fd, err := syscall.InotifyInit1(syscall.IN_NONBLOCK | syscall.IN_CLOEXEC)
	if err != nil {
		return &dirWatch{fd: -1}
	}
	if _, err := syscall.InotifyAddWatch(fd, dir, syscall.IN_OPEN); err != nil {
		syscall.Close(fd)
		return &dirWatch{fd: -1}
	}
	return &dirWatch{fd: fd}
}

func (w *dirWatch) close() {
	if w.fd >= 0 {
		syscall.Close(w.fd)
	}
}

func (w *dirWatch) poll() {
	var buf [4096]byte
	for {
		n, err := syscall.Read(w.fd, buf[:])
		if err != nil || n <= 0 {
			return
		}
		for off := 0; off+syscall.SizeofInotifyEvent <= n; {
			ev := (*syscall.InotifyEvent)(unsafe.Pointer(&buf[off]))
			if ev.Len == 0 && ev.Mask&syscall.IN_OPEN != 0 {
				w.opens++
			}
			off += syscall.SizeofInotifyEvent + int(ev.Len)
		}
	}
}

// waitOpens waits until the directory has been opened n times since it is watched (or for the time limit;
// without inotify: 2.5 s). Every epoch has a directory of its own, which nobody opens before it is published.
func (w *dirWatch) waitOpens(n int, limit time.Duration) {
	if w.fd < 0 {
		time.Sleep(5 * e2eRefresh / 2)
		return
	}
	w.poll()
	dl := time.Now().Add(limit)
	for w.opens < n && time.Now().Before(dl) {
		time.Sleep(5 * time.Millisecond)
		w.poll()
	}
}

func sameInts(a, b []int) bool {
	if len(a) != len(b) {
		return false
	}
	for i := range a {
		if a[i] != b[i] {
			return false
		}
	}
	return true
}

var e2eReplays int

func runE2E(raw json.RawMessage) (interface{}, error) {
	if len(os.Args) > 1 && os.Args[1] == "replay" {
		e2eReplays++
		if e2eReplays > 2 {
			return nil, fmt.Errorf("c11.e2e: replay budget of this process exhausted (candidate not run)")
		}
	}
	var in e2eIn
	if err := json.Unmarshal(raw, &in); err != nil {
		return nil, err
	}
	if len(in.Scns) == 0 || len(in.Scns) > 16 {
		return nil, fmt.Errorf("bad e2e case")
	}
	outs := make([]e2eScnOut, len(in.Scns))
	errs := make([]error, len(in.Scns))
	var wg sync.WaitGroup
	for i := range in.Scns {
		wg.Add(1)
		go func(i int) {
			defer wg.Done()
			outs[i], errs[i] = runE2EScn(in.Scns[i])
		}(i)
	}
	wg.Wait()
	for _, e := range errs {
		if e != nil {
			return nil, e
		}
	}
	return outs, nil
}

// ---- generator -----------------------------------------------------------------------------------------------

// epochNames gives every file of the epoch a name that belongs to this epoch only.
func epochNames(e srcEpoch, j int) srcEpoch {
	p := "e" + strconv.Itoa(j) + "-"
	c := srcEpoch{ListSt: e.ListSt, ListMode: e.ListMode, Missing: e.Missing, RootErr: e.RootErr, Files: []srcFile{}, Lines: []string{}}
	re := func(n string) string {
		if i := strings.LastIndex(n, "/"); i >= 0 {
			return n[:i+1] + p + n[i+1:]
		}
		return p + n
	}
	for _, f := range e.Files {
		f.Name = re(f.Name)
		c.Files = append(c.Files, f)
	}
	for _, l := range e.Lines {
		if l != "" {
			l = re(l)
		}
		c.Lines = append(c.Lines, l)
	}
	return c
}

func idSet(e srcEpoch) [nKeys]bool {
	var s [nKeys]bool
	for _, f := range e.Files {
		if f.C >= 0 && f.C < nKeys {
			s[f.C] = true
		}
	}
	return s
}

func hasCertFile(e srcEpoch) bool {
	for _, f := range e.Files {
		if f.C >= 0 {
			return true
		}
	}
	return false
}

func genE2EScn(r *hx.Rand, kind string) e2eScn {
	sc := e2eScn{Kind: kind, Strict: r.Chance(1, 3)}
	if kind == "path" {
		sc.CertPath = []string{"", "certs", "tls"}[r.Intn(3)]
	}
	good := genGoodEpoch(r, kind)
	sc.Epochs = append(sc.Epochs, epochNames(good, 0))
	n := r.Range(2, 3)
	for j := 1; j < n; j++ {
		var e srcEpoch
		if r.Chance(1, 2) {
			e = breakEpoch(r, kind, good)
			if e.RootErr == "locked" {
				e.RootErr = "notdir" // the real watcher runs with this process' identity
			}
		} else if hasCertFile(good) && r.Chance(1, 3) {
			// the same leaves and keys, other certificates after the leaves (an intermediate added / exchanged / removed)
			e = srcEpoch{ListSt: good.ListSt, ListMode: good.ListMode, Lines: append([]string{}, good.Lines...), Files: append([]srcFile{}, good.Files...)}
			for changed := false; !changed; {
				for k := range e.Files {
					if e.Files[k].C >= 0 && r.Chance(2, 3) {
						e.Files[k].Ch = (e.Files[k].Ch + r.Range(1, nChains)) % (nChains + 1)
						changed = true
					}
				}
			}
			good = e
		} else {
			// a usable epoch that presents other certificates than the one before (the harness waits for the change)
			for k := 0; k < 20; k++ {
				e = genGoodEpoch(r, kind)
				if idSet(e) != idSet(good) {
					break
				}
			}
			good = e
		}
		sc.Epochs = append(sc.Epochs, epochNames(e, j))
	}
	return sc
}

func init() {
	g0 := srcEpoch{Lines: []string{"a-cert.pem", "a-key.pem"}, Files: []srcFile{{Name: "a-cert.pem", C: 0, K: -1}, {Name: "a-key.pem", C: -1, K: 0}}}
	g1 := srcEpoch{Lines: []string{"z.pem", "B.pem"}, Files: []srcFile{{Name: "z.pem", C: 1, K: 1}, {Name: "B.pem", C: 2, K: 2}}}
	with := func(e srcEpoch, f func(*srcEpoch)) srcEpoch {
		c := srcEpoch{Lines: append([]string{}, e.Lines...), Files: append([]srcFile{}, e.Files...)}
		f(&c)
		return c
	}
	fixed := []e2eScn{
		// ea73618: a good set, then the server answers 503 to everything / 404 for one file; then a new good set
		{Kind: "url", Epochs: []srcEpoch{g0, with(g0, func(e *srcEpoch) { e.ListSt = 503 }), g1}},
		{Kind: "url", Strict: true, Epochs: []srcEpoch{g0, with(g0, func(e *srcEpoch) { e.Files[1].St = 404 })}},
		// a body-less 204 for the list is no list
		{Kind: "url", Epochs: []srcEpoch{g0, with(g0, func(e *srcEpoch) { e.ListSt = 204 })}},
		// publication by re-pointing a link on the configured path
		{Kind: "path", CertPath: "certs", Epochs: []srcEpoch{epochNames(g0, 0), epochNames(g1, 1)}},
		{Kind: "path", CertPath: "", Epochs: []srcEpoch{epochNames(g0, 0), epochNames(with(g0, func(e *srcEpoch) { e.Files[1].Dangling = true }), 1), epochNames(g1, 2)}},
		// the forgotten intermediate is appended to the certificate file; later it is exchanged
		{Kind: "path", CertPath: "certs", Epochs: []srcEpoch{epochNames(g0, 0),
			epochNames(with(g0, func(e *srcEpoch) { e.Files[0].Ch = 1 }), 1), epochNames(with(g0, func(e *srcEpoch) { e.Files[0].Ch = 2 }), 2)}},
		{Kind: "url", Strict: true, Epochs: []srcEpoch{g1, with(g1, func(e *srcEpoch) { e.Files[0].Ch = 3 })}},
		// the certificate directory can no longer be reached
		{Kind: "path", CertPath: "certs", Epochs: []srcEpoch{epochNames(g0, 0), {RootErr: "notdir", Files: []srcFile{}, Lines: []string{}}}},
	}
	hx.Register(&hx.Stream{
		Name: "c11.e2e",
		Gen: func(r *hx.Rand, i int) interface{} {
			in := e2eIn{}
			if i == 0 {
				in.Scns = append(in.Scns, fixed...)
			}
			for len(in.Scns) < 10 {
				kind := "url"
				if r.Chance(1, 2) {
					kind = "path"
				}
				in.Scns = append(in.Scns, genE2EScn(r, kind))
			}
			return in
		},
		Run: runE2E,
	})
}
