package main

import (
	"encoding/json"
	"fmt"
	"io"
	"net"
	"net/http"
	"net/url"
	"os"
	"path/filepath"
	"runtime"
	"sort"
	"strconv"
	"strings"
	"sync"
	"syscall"
	"time"

	"github.com/fabiolb/fabio/cert"
	"verif/harness/hx"
)

// Stream c11.loaders drives the two loaders a certificate source hands to watch:
//
//   kind "url":  the real loadURL against an in-process HTTP server whose answers are scripted per request URI
//                (status, body, connection dropped before the answer, body shorter than announced); the list body
//                is arbitrary text (empty lines, duplicates, names that are not served, names that are no URL path)
//   kind "path": the real loadPath against a directory tree built under a fresh temporary directory (files with
//                and without the .pem extension, dot-files, sub-directories, sparse files around MaxSize, symbolic
//                links to files / to directories / to nothing, files and directories without permission - those
//                run with the file-system uid of `nobody` on a locked OS thread, since root ignores modes)
//
// Keys are canonicalised: the server's origin becomes "S", the temporary directory "T".

type ldResp struct {
	St   int    `json:"st"`
	Body string `json:"body"`
	Mode string `json:"mode"` // "" | "drop" (connection closed without an answer) | "trunc" (body shorter than Content-Length)
}

type ldFile struct {
	Name string `json:"name"`
	ldResp
}

type ldNode struct {
	N      string   `json:"n"`
	T      string   `json:"t"`      // "f" file, "d" directory, "l" symbolic link
	Size   int      `json:"size"`   // f: -1 = the content C; >= 0 = a sparse file of this size (all zero bytes)
	C      string   `json:"c"`      // f: content
	Kids   []ldNode `json:"kids"`   // d
	To     string   `json:"to"`     // l: target (a sibling's name or a name that does not exist)
	Locked bool     `json:"locked"` // f, d: mode 000
}

type loadersIn struct {
	Kind  string   `json:"kind"`
	URL   string   `json:"url"` // "S" stands for the server's origin
	List  ldResp   `json:"list"`
	Files []ldFile `json:"files"`
	// path
	Root       string   `json:"root"` // "dir" | "empty" | "missing" | "file" | "underfile" | "link"
	RootLocked bool     `json:"root_locked"`
	Tree       []ldNode `json:"tree"` // dir: the entries of the root; file, link: Tree[0] is the root itself
}

type ldProbe struct {
	Fail bool   `json:"fail"`
	St   int    `json:"st"`
	Body string `json:"body"`
}

type loadersOut struct {
	Err      bool               `json:"err"`
	Nil      bool               `json:"nil"`
	Blocks   [][2]string        `json:"blocks"`   // sorted by key
	Base     *string            `json:"base"`     // url: what base(listURL) returns (oracle for the model); null = error
	Requests []string           `json:"requests"` // url: request URIs the server saw, in order
	Probe    map[string]ldProbe `json:"probe"`    // url: what a GET of base+line yields for lines that are not served names
	MaxSize  int                `json:"max_size"` // path: cert.MaxSize
	Unpriv   bool               `json:"unpriv"`   // path: executed with the fs uid of nobody
}

// ---- HTTP server ---------------------------------------------------------------------------------------------

type ldServer struct {
	mu     sync.Mutex
	table  map[string]ldResp // request URI -> answer
	log    []string
	drops  []bool // log[i] was answered by closing the connection
	ln     net.Listener
	origin string
}

func (s *ldServer) ServeHTTP(w http.ResponseWriter, r *http.Request) {
	s.mu.Lock()
	resp, ok := s.table[r.RequestURI]
	s.log = append(s.log, r.RequestURI)
	s.drops = append(s.drops, ok && resp.Mode == "drop")
	s.mu.Unlock()
	if !ok {
		resp = ldResp{St: 404, Body: "nf"}
	}
	switch resp.Mode {
	case "drop":
		if hj, ok := w.(http.Hijacker); ok {
			if c, _, err := hj.Hijack(); err == nil {
				c.Close()
				return
			}
		}
		panic(http.ErrAbortHandler)
	case "trunc":
		w.Header().Set("Content-Length", strconv.Itoa(len(resp.Body)+10))
		w.WriteHeader(resp.St)
		io.WriteString(w, resp.Body)
		return // the server closes the connection: the client's ReadAll ends in ErrUnexpectedEOF
	}
	w.Header().Set("Content-Type", "text/plain")
	w.WriteHeader(resp.St)
	if resp.St != 204 && resp.St != 304 {
		io.WriteString(w, resp.Body)
	}
}

// listenLoopback opens a loopback listener on a port of the system's choice. On a machine that runs many checks at
// once the ephemeral ports can be used up for a moment ("bind: address already in use" for port 0): that says
// nothing about the code under test, so the harness waits for a port instead of failing the case.
func listenLoopback() (net.Listener, error) {
	var ln net.Listener
	var err error
	for dl := time.Now().Add(60 * time.Second); ; {
		if ln, err = net.Listen("tcp", "127.0.0.1:0"); err == nil || time.Now().After(dl) {
			return ln, err
		}
		time.Sleep(200 * time.Millisecond)
	}
}

func newLdServerListen() (*ldServer, error) {
	ln, err := listenLoopback()
	if err != nil {
		return nil, err
	}
	return &ldServer{ln: ln, origin: "http://" + ln.Addr().String(), table: map[string]ldResp{}}, nil
}

func newLdServer() (*ldServer, error) {
	s, err := newLdServerListen()
	if err != nil {
		return nil, err
	}
	go (&http.Server{Handler: s}).Serve(s.ln)
	return s, nil
}

func (s *ldServer) set(t map[string]ldResp) {
	s.mu.Lock()
	s.table = t
	s.log, s.drops = nil, nil
	s.mu.Unlock()
}

func (s *ldServer) takeLog() []string {
	s.mu.Lock()
	defer s.mu.Unlock()
	// net/http repeats a GET once when a reused connection is closed before any byte of the answer arrived; the
	// loader stops at the first failed fetch, so two consecutive dropped requests for one URI are one fetch
	l := []string{}
	for i, u := range s.log {
		if i > 0 && s.drops[i] && s.drops[i-1] && s.log[i-1] == u {
			continue
		}
		l = append(l, u)
	}
	s.log, s.drops = nil, nil
	return l
}

var (
	sharedSrv   *ldServer
	sharedSrvMu sync.Mutex
)

// theServer is the one HTTP server of the process; a failure to open it is not remembered (the next case tries again).
func theServer() (*ldServer, error) {
	sharedSrvMu.Lock()
	defer sharedSrvMu.Unlock()
	if sharedSrv == nil {
		s, err := newLdServer()
		if err != nil {
			return nil, err
		}
		sharedSrv = s
	}
	return sharedSrv, nil
}

func (s *ldServer) real(u string) string {
	if strings.HasPrefix(u, "S") {
		return s.origin + u[1:]
	}
	return u
}

func (s *ldServer) canon(u string) string {
	if strings.HasPrefix(u, s.origin) {
		return "S" + u[len(s.origin):]
	}
	return u
}

func safeName(p string) bool {
	if p == "" {
		return false
	}
	for _, c := range []byte(p) {
		if !(c >= 'a' && c <= 'z' || c >= 'A' && c <= 'Z' || c >= '0' && c <= '9' || c == '.' || c == '-' || c == '_' || c == '/') {
			return false
		}
	}
	return true
}

func okStatus(st int) bool { return st >= 200 && st <= 599 && st != 205 }

func okResp(r ldResp) error {
	if !okStatus(r.St) {
		return fmt.Errorf("status out of range")
	}
	if r.Mode != "" && r.Mode != "drop" && r.Mode != "trunc" {
		return fmt.Errorf("unknown mode")
	}
	if len(r.Body) > 4096 {
		return fmt.Errorf("body too long")
	}
	for _, c := range []byte(r.Body) {
		if c >= 0x80 {
			return fmt.Errorf("non-ASCII body")
		}
	}
	return nil
}

// buildTable maps the list and the served files to request URIs. baseReal is what base() returned.
func buildTable(listReal string, list ldResp, baseReal string, baseOK bool, files []ldFile) (map[string]ldResp, error) {
	t := map[string]ldResp{}
	if u, err := url.Parse(listReal); err == nil && u.Host != "" {
		t[u.RequestURI()] = list
	}
	if baseOK {
		for _, f := range files {
			if !safeName(f.Name) {
				return nil, fmt.Errorf("served name %q is not a plain path", f.Name)
			}
			u, err := url.Parse(baseReal + f.Name)
			if err != nil {
				return nil, err
			}
			if _, dup := t[u.RequestURI()]; !dup {
				t[u.RequestURI()] = f.ldResp
			}
		}
	}
	return t, nil
}

func probeGet(u string) ldProbe {
	resp, err := http.Get(u)
	if err != nil {
		return ldProbe{Fail: true}
	}
	defer resp.Body.Close()
	b, err := io.ReadAll(resp.Body)
	if err != nil {
		return ldProbe{Fail: true}
	}
	return ldProbe{St: resp.StatusCode, Body: string(b)}
}

func canonBlocks(m map[string][]byte, canonKey func(string) string) [][2]string {
	out := [][2]string{}
	for k, v := range m {
		out = append(out, [2]string{canonKey(k), canonContent(v)})
	}
	sort.Slice(out, func(i, j int) bool { return out[i][0] < out[j][0] })
	return out
}

func canonContent(b []byte) string {
	if len(b) > 4096 {
		zero := true
		for _, c := range b {
			if c != 0 {
				zero = false
				break
			}
		}
		if zero {
			return "#zeros:" + strconv.Itoa(len(b))
		}
		return "#big:" + strconv.Itoa(len(b))
	}
	return string(b)
}

func runLoadURL(in loadersIn) (interface{}, error) {
	if err := okResp(in.List); err != nil {
		return nil, err
	}
	if len(in.Files) > 32 || len(in.URL) > 200 {
		return nil, fmt.Errorf("case too large")
	}
	for _, f := range in.Files {
		if err := okResp(f.ldResp); err != nil {
			return nil, err
		}
	}
	s, err := theServer()
	if err != nil {
		return nil, err
	}
	listReal := s.real(in.URL)
	out := loadersOut{Probe: map[string]ldProbe{}}
	baseReal, berr := cert.VerifBase(listReal)
	if berr == nil {
		c := s.canon(baseReal)
		out.Base = &c
	}
	table, err := buildTable(listReal, in.List, baseReal, berr == nil, in.Files)
	if err != nil {
		return nil, err
	}
	s.set(table)
	m, lerr := cert.VerifLoadURL(listReal)
	out.Requests = s.takeLog()
	if out.Requests == nil {
		out.Requests = []string{}
	}
	out.Err = lerr != nil
	out.Nil = lerr == nil && m == nil
	out.Blocks = canonBlocks(m, s.canon)
	// oracle for the lines of the list that are not served names: what a GET of base+line yields
	if berr == nil && listReal != "" {
		served := map[string]bool{}
		for _, f := range in.Files {
			served[f.Name] = true
		}
		for _, p := range strings.Split(in.List.Body, "\n") {
			if p == "" || served[p] {
				continue
			}
			key := s.canon(baseReal + p)
			if _, done := out.Probe[key]; !done {
				out.Probe[key] = probeGet(baseReal + p)
			}
		}
		s.takeLog()
	}
	return out, nil
}

// ---- directory trees -----------------------------------------------------------------------------------------

var (
	unprivOnce sync.Once
	unprivOK   bool
)

const nobodyUID = 65534

// asNobody runs f with the file-system uid and gid of nobody on a locked OS thread (setfsuid is per thread and
// drops the capabilities that let root ignore file modes; everything loadPath does is synchronous file I/O on
// the calling goroutine). Reports whether the switch happened.
func asNobody(f func()) bool {
	runtime.LockOSThread()
	defer runtime.UnlockOSThread()
	syscall.RawSyscall(syscall.SYS_SETFSGID, nobodyUID, 0, 0)
	syscall.RawSyscall(syscall.SYS_SETFSUID, nobodyUID, 0, 0)
	cur, _, _ := syscall.RawSyscall(syscall.SYS_SETFSUID, nobodyUID, 0, 0) // returns the previous value
	defer func() {
		syscall.RawSyscall(syscall.SYS_SETFSUID, 0, 0, 0)
		syscall.RawSyscall(syscall.SYS_SETFSGID, 0, 0, 0)
	}()
	if int(cur) != nobodyUID {
		return false
	}
	f()
	return true
}

func unprivAvailable() bool {
	unprivOnce.Do(func() {
		if os.Geteuid() != 0 {
			// not root: modes are honoured as they are
			unprivOK = false
			return
		}
		d, err := os.MkdirTemp("", "c11u")
		if err != nil {
			return
		}
		defer os.RemoveAll(d)
		os.Chmod(d, 0o755)
		l := filepath.Join(d, "locked")
		os.Mkdir(l, 0o000)
		denied := false
		ok := asNobody(func() {
			_, err := os.ReadDir(l)
			denied = os.IsPermission(err)
		})
		_, err = os.ReadDir(l) // and root is root again
		unprivOK = ok && denied && err == nil
	})
	return unprivOK
}

func hasLocked(ns []ldNode) bool {
	for _, n := range ns {
		if n.Locked || hasLocked(n.Kids) {
			return true
		}
	}
	return false
}

func okEntryName(n string) bool {
	return n != "" && n != "." && n != ".." && len(n) < 64 && !strings.ContainsAny(n, "/\x00") && safeName(n)
}

func buildTree(dir string, ns []ldNode, depth int) error {
	if depth > 4 || len(ns) > 24 {
		return fmt.Errorf("tree too large")
	}
	seen := map[string]bool{}
	for _, n := range ns {
		if !okEntryName(n.N) || seen[n.N] {
			return fmt.Errorf("bad or duplicate entry name %q", n.N)
		}
		seen[n.N] = true
	}
	for _, n := range ns {
		p := filepath.Join(dir, n.N)
		switch n.T {
		case "f":
			if n.Size >= 0 {
				if n.Size > 4<<20 {
					return fmt.Errorf("sparse file too large")
				}
				f, err := os.Create(p)
				if err != nil {
					return err
				}
				if err := f.Truncate(int64(n.Size)); err != nil {
					f.Close()
					return err
				}
				f.Close()
			} else {
				if len(n.C) > 1024 {
					return fmt.Errorf("content too long")
				}
				if err := os.WriteFile(p, []byte(n.C), 0o644); err != nil {
					return err
				}
			}
		case "d":
			if err := os.Mkdir(p, 0o755); err != nil {
				return err
			}
			if err := buildTree(p, n.Kids, depth+1); err != nil {
				return err
			}
		case "l":
			if !okEntryName(n.To) {
				return fmt.Errorf("bad link target")
			}
			if err := os.Symlink(n.To, p); err != nil {
				return err
			}
		default:
			return fmt.Errorf("unknown node type %q", n.T)
		}
	}
	// modes last (a locked directory must be filled first); links cannot be locked
	for _, n := range ns {
		if n.Locked {
			if n.T == "l" {
				return fmt.Errorf("a link has no mode")
			}
			if err := os.Chmod(filepath.Join(dir, n.N), 0); err != nil {
				return err
			}
		}
	}
	return nil
}

func unlockTree(dir string) {
	filepath.Walk(dir, func(p string, info os.FileInfo, err error) error {
		if info != nil && info.Mode()&os.ModeSymlink == 0 {
			if info.IsDir() {
				os.Chmod(p, 0o755)
			}
		}
		return nil
	})
}

func runLoadPath(in loadersIn) (interface{}, error) {
	out := loadersOut{MaxSize: cert.VerifMaxSize}
	if in.Root == "empty" {
		m, err := cert.VerifLoadPath("")
		out.Err, out.Nil, out.Blocks = err != nil, err == nil && m == nil, canonBlocks(m, func(s string) string { return s })
		return out, nil
	}
	needUnpriv := in.RootLocked || hasLocked(in.Tree)
	if needUnpriv && !unprivAvailable() {
		return nil, fmt.Errorf("modes cannot be exercised here (no unprivileged file-system identity)")
	}
	tmp, err := os.MkdirTemp("", "c11p")
	if err != nil {
		return nil, err
	}
	defer func() {
		unlockTree(tmp)
		os.RemoveAll(tmp)
	}()
	os.Chmod(tmp, 0o755)
	var root string
	switch in.Root {
	case "dir":
		root = filepath.Join(tmp, "root")
		if err := os.Mkdir(root, 0o755); err != nil {
			return nil, err
		}
		if err := buildTree(root, in.Tree, 0); err != nil {
			return nil, err
		}
		if in.RootLocked {
			os.Chmod(root, 0)
		}
	case "missing":
		root = filepath.Join(tmp, "root")
	case "underfile":
		if err := os.WriteFile(filepath.Join(tmp, "root"), []byte("a file where a directory is expected"), 0o644); err != nil {
			return nil, err
		}
		root = filepath.Join(tmp, "root", "certs")
	case "file", "link":
		if len(in.Tree) != 1 || in.Tree[0].T == "d" || (in.Root == "link") != (in.Tree[0].T == "l") {
			return nil, fmt.Errorf("root %q needs exactly one matching node", in.Root)
		}
		if in.Root == "link" {
			// the link points to a directory that holds a certificate
			if err := os.Mkdir(filepath.Join(tmp, in.Tree[0].To), 0o755); err != nil {
				return nil, err
			}
			os.WriteFile(filepath.Join(tmp, in.Tree[0].To, "a.pem"), []byte("c0"), 0o644)
		}
		if err := buildTree(tmp, in.Tree, 0); err != nil {
			return nil, err
		}
		root = filepath.Join(tmp, in.Tree[0].N)
	default:
		return nil, fmt.Errorf("unknown root kind %q", in.Root)
	}
	var m map[string][]byte
	var lerr error
	call := func() { m, lerr = cert.VerifLoadPath(root) }
	if needUnpriv {
		if !asNobody(call) {
			return nil, fmt.Errorf("could not switch the file-system identity")
		}
		out.Unpriv = true
	} else {
		call()
	}
	out.Err, out.Nil = lerr != nil, lerr == nil && m == nil
	out.Blocks = canonBlocks(m, func(k string) string {
		if strings.HasPrefix(k, tmp) {
			return "T" + k[len(tmp):]
		}
		return k
	})
	return out, nil
}

func runLoaders(raw json.RawMessage) (interface{}, error) {
	var in loadersIn
	if err := json.Unmarshal(raw, &in); err != nil {
		return nil, err
	}
	switch in.Kind {
	case "url":
		return runLoadURL(in)
	case "path":
		return runLoadPath(in)
	}
	return nil, fmt.Errorf("unknown kind %q", in.Kind)
}

// ---- generators ----------------------------------------------------------------------------------------------

var ldErrStatuses = []int{201, 202, 204, 206, 301, 302, 304, 400, 401, 403, 404, 404, 429, 500, 502, 503, 503}

func genResp(r *hx.Rand, body string, pBad int) ldResp {
	resp := ldResp{St: 200, Body: body}
	if r.Intn(100) < pBad {
		switch r.Intn(10) {
		case 0:
			resp.Mode = "drop"
		case 1:
			resp.Mode = "trunc"
		default:
			resp.St = ldErrStatuses[r.Intn(len(ldErrStatuses))]
			if r.Chance(1, 2) {
				resp.Body = []string{"Service Unavailable\n", "404 page not found\n", "<html><body>error</body></html>", "", "oops.pem\n"}[r.Intn(5)]
			}
		}
	}
	return resp
}

var ldNames = []string{"a.pem", "b.pem", "a-cert.pem", "a-key.pem", "z.pem", "sub/c.pem", "notes.txt", "/a.pem", "/sub/z.pem", "x", "B.pem"}
var ldOddLines = []string{"a.pem\r", " a.pem", "a b.pem", "%zz.pem", "a.pem?x=1", "#frag", "../a.pem", "a.pem ", "\t", "nowhere.pem", "http://other/x.pem", "%41.pem"}

func genURLCase(r *hx.Rand) loadersIn {
	in := loadersIn{Kind: "url"}
	switch x := r.Intn(100); {
	case x < 45:
		in.URL = "S/list"
	case x < 63:
		in.URL = "S/certs/list"
	case x < 68:
		in.URL = "S/"
	case x < 71:
		in.URL = "S"
	case x < 76:
		in.URL = ""
	case x < 84:
		in.URL = "S/a/b/list.txt"
	case x < 88:
		in.URL = "S/a/../list"
	default:
		in.URL = []string{"http://[::1", "nohost/list", "%zz", "http://127.0.0.1:1/list", "S/li st"}[r.Intn(5)]
	}
	n := r.Range(0, 5)
	used := map[string]bool{}
	for len(in.Files) < n {
		name := r.Pick(ldNames)
		if used[name] {
			n--
			continue
		}
		used[name] = true
		in.Files = append(in.Files, ldFile{Name: name, ldResp: genResp(r, "body-of-"+name+"-"+strconv.Itoa(r.Intn(3)), 8)})
	}
	var lines []string
	for _, f := range in.Files {
		if r.Chance(9, 10) {
			lines = append(lines, f.Name)
		}
	}
	for i := len(lines) - 1; i > 0; i-- {
		j := r.Intn(i + 1)
		lines[i], lines[j] = lines[j], lines[i]
	}
	insert := func(x string) {
		k := r.Intn(len(lines) + 1)
		lines = append(lines[:k:k], append([]string{x}, lines[k:]...)...)
	}
	if r.Chance(1, 4) {
		insert("")
	}
	if len(lines) > 0 && r.Chance(1, 6) {
		lines = append(lines, lines[r.Intn(len(lines))]) // a name listed twice
	}
	if r.Chance(1, 12) {
		lines = append(lines, r.Pick(ldNames)) // possibly a name that is not served
	}
	if r.Chance(1, 14) {
		insert(r.Pick(ldOddLines))
	}
	body := strings.Join(lines, "\n")
	if r.Chance(3, 4) && len(lines) > 0 {
		body += "\n"
	}
	in.List = genResp(r, body, 12)
	return in
}

var ldEntryNames = []string{"a.pem", "b.pem", "a-cert.pem", "a-key.pem", "z.pem", ".hidden.pem", ".pem", "notes.txt", "a.PEM", "c.pem.bak", "pem", "x.pemx", "B.pem"}
var ldDirNames = []string{"sub", ".git", "d.pem", "old"}
var ldLinkNames = []string{"l.pem", "ln.pem", "link", ".l.pem"}

func genEntries(r *hx.Rand, depth int, perm bool) []ldNode {
	var ns []ldNode
	used := map[string]bool{}
	pick := func(pool []string) (string, bool) {
		n := r.Pick(pool)
		if used[n] {
			return "", false
		}
		used[n] = true
		return n, true
	}
	for k := r.Range(0, 6); k > 0; k-- {
		switch x := r.Intn(100); {
		case x < 66:
			name, ok := pick(ldEntryNames)
			if !ok {
				continue
			}
			n := ldNode{N: name, T: "f", Size: -1, C: "c" + strconv.Itoa(r.Intn(4))}
			if r.Chance(1, 16) {
				n.Size = cert.VerifMaxSize + []int{-1, 0, 1, 1 << 20}[r.Intn(4)]
				n.C = ""
			}
			if r.Chance(1, 30) {
				n.C = ""
			}
			if perm && r.Chance(1, 8) {
				n.Locked = true
			}
			ns = append(ns, n)
		case x < 82 && depth < 2:
			name, ok := pick(ldDirNames)
			if !ok {
				continue
			}
			n := ldNode{N: name, T: "d", Size: -1, Kids: genEntries(r, depth+1, perm)}
			if perm && r.Chance(1, 3) {
				n.Locked = true
			}
			ns = append(ns, n)
		default:
			name, ok := pick(ldLinkNames)
			if !ok {
				continue
			}
			to := "nowhere"
			if len(ns) > 0 && r.Chance(3, 4) {
				to = ns[r.Intn(len(ns))].N
				for _, s := range ns {
					if s.N == to && s.T == "l" {
						to = "nowhere" // no chains of links
					}
				}
			}
			ns = append(ns, ldNode{N: name, T: "l", Size: -1, To: to})
		}
	}
	return ns
}

func genPathCase(r *hx.Rand) loadersIn {
	in := loadersIn{Kind: "path"}
	perm := unprivAvailable() && r.Chance(1, 4)
	switch x := r.Intn(100); {
	case x < 74:
		in.Root = "dir"
		in.Tree = genEntries(r, 0, perm)
		if perm && r.Chance(1, 4) {
			in.RootLocked = true
		}
	case x < 80:
		in.Root = "missing"
	case x < 84:
		in.Root = "empty"
	case x < 90:
		in.Root = "file"
		in.Tree = []ldNode{{N: r.Pick([]string{"one.pem", "one.txt", ".one.pem"}), T: "f", Size: -1, C: "c1", Locked: perm && r.Chance(1, 2)}}
	case x < 95:
		in.Root = "underfile"
	default:
		in.Root = "link"
		in.Tree = []ldNode{{N: r.Pick([]string{"certs", "certs.pem"}), T: "l", Size: -1, To: "realdir"}}
	}
	return in
}

func init() {
	ok := func(b string) ldResp { return ldResp{St: 200, Body: b} }
	hx.Register(&hx.Stream{
		Name: "c11.loaders",
		Corpus: []interface{}{
			loadersIn{Kind: "url", URL: "S/list", List: ok("a-cert.pem\na-key.pem\n"), Files: []ldFile{{"a-cert.pem", ok("C")}, {"a-key.pem", ok("K")}}},
			loadersIn{Kind: "url", URL: "S/certs/list", List: ok("/a.pem\n\n/b.pem"), Files: []ldFile{{"/a.pem", ok("A")}, {"/b.pem", ok("B")}}},
			// ea73618: an error page for the list / for a listed file must fail the load
			loadersIn{Kind: "url", URL: "S/list", List: ldResp{St: 503, Body: "Service Unavailable\n"}, Files: []ldFile{{"a.pem", ok("A")}}},
			loadersIn{Kind: "url", URL: "S/list", List: ok("a.pem\nb.pem\n"), Files: []ldFile{{"a.pem", ok("A")}, {"b.pem", ldResp{St: 404, Body: "404 page not found\n"}}}},
			loadersIn{Kind: "url", URL: "S/list", List: ok("a.pem\nnotes.txt\n"), Files: []ldFile{{"a.pem", ok("A")}, {"notes.txt", ldResp{St: 500, Body: "boom"}}}},
			loadersIn{Kind: "url", URL: "S/list", List: ok("a.pem\n"), Files: []ldFile{{"a.pem", ldResp{St: 200, Body: "A", Mode: "trunc"}}}},
			loadersIn{Kind: "url", URL: "S/list", List: ldResp{St: 200, Body: "a.pem\n", Mode: "drop"}, Files: []ldFile{{"a.pem", ok("A")}}},
			loadersIn{Kind: "url", URL: "", List: ok(""), Files: nil},
			loadersIn{Kind: "url", URL: "http://[::1", List: ok(""), Files: nil},
			loadersIn{Kind: "url", URL: "S/list", List: ok("a.pem\r\nb.pem\r\n"), Files: []ldFile{{"a.pem", ok("A")}, {"b.pem", ok("B")}}},
			loadersIn{Kind: "path", Root: "dir", Tree: []ldNode{
				{N: "a.pem", T: "f", Size: -1, C: "A"}, {N: ".hidden.pem", T: "f", Size: -1, C: "H"}, {N: "notes.txt", T: "f", Size: -1, C: "N"},
				{N: "big.pem", T: "f", Size: cert.VerifMaxSize + 1}, {N: "max.pem", T: "f", Size: cert.VerifMaxSize},
				{N: "sub", T: "d", Size: -1, Kids: []ldNode{{N: "z.pem", T: "f", Size: -1, C: "Z"}, {N: "a.PEM", T: "f", Size: -1, C: "U"}}},
				{N: ".git", T: "d", Size: -1, Kids: []ldNode{{N: "k.pem", T: "f", Size: -1, C: "K"}}},
				{N: "l.pem", T: "l", Size: -1, To: "a.pem"}}},
			loadersIn{Kind: "path", Root: "dir", Tree: []ldNode{{N: "a.pem", T: "f", Size: -1, C: "A"}, {N: "dangling.pem", T: "l", Size: -1, To: "nowhere"}}},
			loadersIn{Kind: "path", Root: "dir", Tree: []ldNode{{N: "a.pem", T: "f", Size: -1, C: "A"}, {N: "sub", T: "d", Size: -1}, {N: "l.pem", T: "l", Size: -1, To: "sub"}}},
			loadersIn{Kind: "path", Root: "missing"},
			loadersIn{Kind: "path", Root: "empty"},
			loadersIn{Kind: "path", Root: "file", Tree: []ldNode{{N: "one.pem", T: "f", Size: -1, C: "A"}}},
		},
		Gen: func(r *hx.Rand, i int) interface{} {
			if r.Chance(3, 5) {
				return genURLCase(r)
			}
			return genPathCase(r)
		},
		Run: runLoaders,
	})
}
