package main

import (
	"crypto/tls"
	"encoding/json"
	"errors"
	"fmt"
	"os"
	"runtime"
	"sync"
	"time"

	"github.com/fabiolb/fabio/cert"
	"verif/harness/hx"
)

// Stream c11.watch_gap: real time between consecutive loader invocations. Every case holds several scripts that
// run concurrently (each costs up to (upto-1) sleeps of max(refresh, 1s)). The loader itself, which runs on
// the watcher's goroutine, takes the publication (if any) out of the channel before it answers, so "what was
// published between invocation i and i+1" is exact. For every gap the harness reports whether it lasted at
// least max(refresh, 1s) and which set was published in it.

type gapIn struct {
	Scripts []watchIn `json:"scripts"`
	Upto    int       `json:"upto"` // observe this many loader invocations
}

type gapRec struct {
	Slept bool  `json:"slept"`
	Pub   []int `json:"pub"` // nil: nothing published in this gap
}

type gapOut struct {
	Gaps     []gapRec `json:"gaps"`
	Returned bool     `json:"returned"`
}

func effMs(refreshMs int) int {
	if refreshMs < 1000 {
		return 1000
	}
	return refreshMs
}

func runGapOne(in watchIn, upto int) (gapOut, error) {
	mats, err := checkWatchIn(in)
	if err != nil {
		return gapOut{}, err
	}
	ch := make(chan []tls.Certificate, 1)
	done := make(chan struct{})
	var mu sync.Mutex
	var times []time.Time
	var pubs [][]int // pubs[i]: published between invocation i-1 and i (nil if none)
	take := func() []int {
		select {
		case cs := <-ch:
			return certIDs(cs)
		default:
			return nil
		}
	}
	loader := func(path string) (map[string][]byte, error) {
		mu.Lock()
		i := len(times)
		times = append(times, time.Now())
		pubs = append(pubs, take())
		mu.Unlock()
		if i+1 >= upto {
			runtime.Goexit()
		}
		if i >= len(in.Script) {
			i = len(in.Script) - 1
		}
		st := in.Script[i]
		if st.Err {
			return nil, errors.New("scripted load error")
		}
		return copyMat(mats[st.Mat]), nil
	}
	go func() {
		defer close(done)
		cert.VerifWatch(ch, time.Duration(in.RefreshMs)*time.Millisecond, "scripted", loader)
	}()
	select {
	case <-done:
	case <-time.After(time.Duration(upto*effMs(in.RefreshMs)+5000) * time.Millisecond):
		return gapOut{}, fmt.Errorf("watcher did not reach %d loader invocations in time", upto)
	}
	mu.Lock()
	defer mu.Unlock()
	out := gapOut{Gaps: []gapRec{}}
	eff := time.Duration(effMs(in.RefreshMs)) * time.Millisecond
	for i := 1; i < len(times); i++ {
		out.Gaps = append(out.Gaps, gapRec{Slept: times[i].Sub(times[i-1]) >= eff, Pub: pubs[i]})
	}
	if len(times) < upto { // watch returned by itself (once): what it published last is still in the channel
		out.Returned = true
		out.Gaps = append(out.Gaps, gapRec{Slept: false, Pub: take()})
	}
	return out, nil
}

// A gap case costs seconds of real time. The orchestrator's shrinker replays up to 120 candidates per round in
// one `replay` process; only the first gapReplayBudget of them are executed (the first candidates are the
// halves of the script list, which is where the useful reduction is), the others are refused, so that
// minimising a failing case stays within seconds. `./check --replay` sends one case and is not affected.
var gapReplays int

const gapReplayBudget = 2

func runGap(raw json.RawMessage) (interface{}, error) {
	if len(os.Args) > 1 && os.Args[1] == "replay" {
		gapReplays++
		if gapReplays > gapReplayBudget {
			return nil, fmt.Errorf("c11.watch_gap: replay budget of this process exhausted (candidate not run)")
		}
	}
	var in gapIn
	if err := json.Unmarshal(raw, &in); err != nil {
		return nil, err
	}
	if in.Upto < 2 || in.Upto > 4 || len(in.Scripts) == 0 || len(in.Scripts) > 16 {
		return nil, fmt.Errorf("bad gap case")
	}
	for _, s := range in.Scripts {
		if s.RefreshMs > 1500 {
			return nil, fmt.Errorf("refresh too long for the gap stream")
		}
	}
	outs := make([]gapOut, len(in.Scripts))
	errs := make([]error, len(in.Scripts))
	var wg sync.WaitGroup
	for i := range in.Scripts {
		wg.Add(1)
		go func(i int) {
			defer wg.Done()
			outs[i], errs[i] = runGapOne(in.Scripts[i], in.Upto)
		}(i)
	}
	wg.Wait()
	for _, e := range errs {
		if e != nil {
			return nil, e
		}
	}
	return outs, nil
}

func init() {
	g1 := wMat{Files: []wFile{{"a-cert.pem", 0, -1, 0}, {"a-key.pem", -1, 0, 0}}}
	g2 := wMat{Files: []wFile{{"z.pem", 1, 1, 0}, {"a.pem", 2, 2, 0}}}
	bad := wMat{Files: []wFile{{"a-cert.pem", 0, -1, 0}, {"a-key.pem", -1, -1, 0}}}
	hx.Register(&hx.Stream{
		Name: "c11.watch_gap",
		Corpus: []interface{}{
			gapIn{Upto: 3, Scripts: []watchIn{
				{RefreshMs: 1, Mats: []wMat{g1, bad}, Script: []wStep{{Mat: 1}, {Mat: 1}, {Mat: 0}}},        // D15: bad, bad, good
				{RefreshMs: 1200, Mats: []wMat{g1, g2}, Script: []wStep{{Mat: 0}, {Mat: 0}, {Mat: 1}}},      // refresh above the floor
				{RefreshMs: 300, Mats: []wMat{g1, g2}, Script: []wStep{{Err: true}, {Mat: 0}, {Mat: 1}}},    // floor applies
				{RefreshMs: 0, Mats: []wMat{g1, bad}, Script: []wStep{{Mat: 1}, {Mat: 0}}},                  // once: bad first, then delivered, returns
				{RefreshMs: 1000, Mats: []wMat{g1, g2}, Script: []wStep{{Mat: 0}, {Mat: 1}, {Mat: 0}}},      // chain of publications, no sleep
			}},
		},
		Gen: func(r *hx.Rand, i int) interface{} {
			in := gapIn{Upto: 3}
			for n := 8; n > 0; n-- {
				w := genWatchIn(r, 4)
				w.RefreshMs = []int{0, -5, 1, 700, 1000, 1300}[r.Intn(6)]
				in.Scripts = append(in.Scripts, w)
			}
			// every case observes at least one failing load (the stream's non-triviality rule)
			in.Scripts[0].Script[0] = wStep{Err: true}
			return in
		},
		Run: runGap,
	})
}
