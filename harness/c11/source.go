package main

import (
	"encoding/json"
	"fmt"
	"os"
	"path/filepath"
	"strings"

	"github.com/fabiolb/fabio/cert"
	"verif/harness/hx"
)

// Stream c11.source: the real watch loop fed by the real loaders. The source goes through a list of epochs; the
// loader's i-th invocation puts epoch min(i, len-1) in force (answers of the HTTP server / contents of the
// directory) and then calls the real loadURL / loadPath. Observed like c11.watch: up to the first sleep. This is
// the scenario "the source was good, a set is published, then the server answers 503 / 404 / drops the
// connection / a key no longer matches / a file cannot be read": nothing may be published after the good set.

type srcFile struct {
	Name     string `json:"name"`
	C        int    `json:"c"`
	K        int    `json:"k"`
	St       int    `json:"st"`       // url: status of the answer (0 = 200)
	Mode     string `json:"mode"`     // url: "" | "drop" | "trunc"
	Dangling bool   `json:"dangling"` // path: a symbolic link to nothing
	Ch       int    `json:"ch"`       // chain variant of the certificate in this file (see wFile)
}

type srcEpoch struct {
	ListSt   int       `json:"list_st"`   // url (0 = 200)
	ListMode string    `json:"list_mode"` // url
	Lines    []string  `json:"lines"`     // url: the lines of the list
	Files    []srcFile `json:"files"`
	Missing  bool      `json:"missing"`  // path: the root directory does not exist
	RootErr  string    `json:"root_err"` // path: "" | "notdir" (the root's parent is a file) | "locked" (the root may not be listed)
}

type sourceIn struct {
	Kind      string     `json:"kind"` // "url" | "path"
	RefreshMs int        `json:"refresh_ms"`
	URL       string     `json:"url"` // url: "S/list", "S/certs/list", …
	Epochs    []srcEpoch `json:"epochs"`
}

type sourceOut struct {
	watchOut
	Base *string `json:"base"`
}

func st200(st int) int {
	if st == 0 {
		return 200
	}
	return st
}

func srcFileOK(f srcFile) error {
	if !safeName(f.Name) || strings.HasPrefix(f.Name, "/") || strings.Contains(f.Name, "..") || strings.Contains(f.Name, "//") ||
		strings.HasSuffix(f.Name, "/") || strings.Count(f.Name, "/") > 1 || len(f.Name) > 64 {
		return fmt.Errorf("bad file name %q", f.Name)
	}
	if !okStatus(st200(f.St)) || (f.Mode != "" && f.Mode != "drop" && f.Mode != "trunc") {
		return fmt.Errorf("bad answer")
	}
	return nil
}

func runSource(raw json.RawMessage) (interface{}, error) {
	var in sourceIn
	if err := json.Unmarshal(raw, &in); err != nil {
		return nil, err
	}
	if len(in.Epochs) == 0 || len(in.Epochs) > 16 {
		return nil, fmt.Errorf("epochs")
	}
	bodies := make([]map[string][]byte, len(in.Epochs))
	for i, e := range in.Epochs {
		if len(e.Files) > 16 || len(e.Lines) > 32 {
			return nil, fmt.Errorf("epoch too large")
		}
		if !okStatus(st200(e.ListSt)) || (e.ListMode != "" && e.ListMode != "drop" && e.ListMode != "trunc") {
			return nil, fmt.Errorf("bad list answer")
		}
		bodies[i] = map[string][]byte{}
		for _, f := range e.Files {
			if err := srcFileOK(f); err != nil {
				return nil, err
			}
			if _, dup := bodies[i][f.Name]; dup {
				return nil, fmt.Errorf("duplicate file name")
			}
			b, err := fileBytes(wFile{f.Name, f.C, f.K, f.Ch})
			if err != nil {
				return nil, err
			}
			bodies[i][f.Name] = b
		}
		for _, l := range e.Lines {
			if l != "" && !safeName(l) {
				return nil, fmt.Errorf("bad line")
			}
		}
	}
	limit := len(in.Epochs) + spinSlack
	out := sourceOut{}
	var step func(i int) (map[string][]byte, error)
	switch in.Kind {
	case "url":
		if !strings.HasPrefix(in.URL, "S/") || !safeName(in.URL) {
			return nil, fmt.Errorf("bad url")
		}
		s, err := theServer()
		if err != nil {
			return nil, err
		}
		listReal := s.real(in.URL)
		baseReal, err := cert.VerifBase(listReal)
		if err != nil {
			return nil, err
		}
		c := s.canon(baseReal)
		out.Base = &c
		step = func(i int) (map[string][]byte, error) {
			if i >= len(in.Epochs) {
				i = len(in.Epochs) - 1
			}
			e := in.Epochs[i]
			var files []ldFile
			for _, f := range e.Files {
				files = append(files, ldFile{f.Name, ldResp{St: st200(f.St), Body: string(bodies[i][f.Name]), Mode: f.Mode}})
			}
			body := ""
			for _, l := range e.Lines {
				body += l + "\n"
			}
			t, err := buildTable(listReal, ldResp{St: st200(e.ListSt), Body: body, Mode: e.ListMode}, baseReal, true, files)
			if err != nil {
				return nil, err
			}
			s.set(t)
			return cert.VerifLoadURL(listReal)
		}
	case "path":
		tmp, err := os.MkdirTemp("", "c11s")
		if err != nil {
			return nil, err
		}
		defer os.RemoveAll(tmp)
		os.Chmod(tmp, 0o755)
		top := filepath.Join(tmp, "root")
		root := filepath.Join(top, "certs")
		defer os.Chmod(root, 0o755)
		for _, e := range in.Epochs {
			if e.RootErr == "locked" && !unprivAvailable() {
				return nil, fmt.Errorf("modes cannot be exercised here (no unprivileged file-system identity)")
			}
			if e.RootErr != "" && e.RootErr != "locked" && e.RootErr != "notdir" {
				return nil, fmt.Errorf("unknown root error")
			}
		}
		step = func(i int) (map[string][]byte, error) {
			if i >= len(in.Epochs) {
				i = len(in.Epochs) - 1
			}
			e := in.Epochs[i]
			os.Chmod(root, 0o755)
			if err := os.RemoveAll(top); err != nil {
				return nil, err
			}
			if e.RootErr == "notdir" {
				if err := os.WriteFile(top, []byte("a file where a directory is expected"), 0o644); err != nil {
					return nil, err
				}
			} else if !e.Missing {
				if err := os.MkdirAll(root, 0o755); err != nil {
					return nil, err
				}
				for _, f := range e.Files {
					p := filepath.Join(root, filepath.FromSlash(f.Name))
					if err := os.MkdirAll(filepath.Dir(p), 0o755); err != nil {
						return nil, err
					}
					if f.Dangling {
						if err := os.Symlink("nowhere", p); err != nil {
							return nil, err
						}
					} else if err := os.WriteFile(p, bodies[i][f.Name], 0o644); err != nil {
						return nil, err
					}
				}
			}
			if e.RootErr == "locked" {
				os.Chmod(root, 0)
				var m map[string][]byte
				var err error
				if !asNobody(func() { m, err = cert.VerifLoadPath(root) }) {
					return nil, fmt.Errorf("could not switch the file-system identity")
				}
				return m, err
			}
			m, err := cert.VerifLoadPath(root)
			if m != nil {
				// keys relative to the temporary directory, as the model has them
				c := make(map[string][]byte, len(m))
				for k, v := range m {
					c["T"+strings.TrimPrefix(k, tmp)] = v
				}
				m = c
			}
			return m, err
		}
	default:
		return nil, fmt.Errorf("unknown kind %q", in.Kind)
	}
	res, err := observeWatchRetry(func() *watcher { return startWatchFn(in.RefreshMs, limit, step) }, limit)
	if err != nil {
		return nil, err
	}
	out.watchOut = res.(watchOut)
	return out, nil
}

// ---- generator -----------------------------------------------------------------------------------------------

func toSrcFiles(fs []wFile) []srcFile {
	out := []srcFile{}
	for _, f := range fs {
		out = append(out, srcFile{Name: f.Name, C: f.C, K: f.K, Ch: f.Ch})
	}
	return out
}

func linesOf(fs []srcFile) []string {
	ls := []string{}
	for _, f := range fs {
		ls = append(ls, f.Name)
	}
	return ls
}

func genGoodEpoch(r *hx.Rand, kind string) srcEpoch {
	fs := genGoodFiles(r, r.Range(1, 3))
	if r.Chance(1, 8) {
		fs = append(fs, wFile{"notes.txt", -1, -1, 0})
	}
	shuffleFiles(r, fs)
	e := srcEpoch{Files: toSrcFiles(fs)}
	if kind == "url" {
		e.Lines = linesOf(e.Files)
		if r.Chance(1, 6) {
			e.Lines = append(e.Lines, "")
		}
	}
	if r.Chance(1, 25) {
		e.Files, e.Lines = []srcFile{}, []string{}
	}
	return e
}

var srcBadStatuses = []int{503, 503, 404, 404, 500, 502, 403, 401, 429, 204, 301}

func breakEpoch(r *hx.Rand, kind string, e srcEpoch) srcEpoch {
	// deep copy
	c := srcEpoch{Lines: append([]string{}, e.Lines...), Files: append([]srcFile{}, e.Files...)}
	pem := []int{}
	for i, f := range c.Files {
		if strings.HasSuffix(f.Name, ".pem") {
			pem = append(pem, i)
		}
	}
	spoilPair := func() {
		if len(pem) == 0 {
			c.Files = append(c.Files, srcFile{Name: "q.pem", C: 1, K: -1})
			if kind == "url" {
				c.Lines = append(c.Lines, "q.pem")
			}
			return
		}
		i := pem[r.Intn(len(pem))]
		f := &c.Files[i]
		switch {
		case f.K >= 0 && r.Chance(1, 2):
			f.K = (f.K + 1) % nKeys // key of another certificate
		case f.K >= 0:
			f.K = -1 // no key
			if f.C < 0 {
				f.C = -1
			}
		default:
			f.C = -1 // no certificate
		}
	}
	if kind == "url" {
		switch x := r.Intn(10); {
		case x < 4:
			switch r.Intn(5) {
			case 0:
				c.ListMode = "drop"
			case 1:
				c.ListMode = "trunc"
			default:
				c.ListSt = srcBadStatuses[r.Intn(len(srcBadStatuses))]
			}
		case x < 8 && len(c.Files) > 0:
			f := &c.Files[r.Intn(len(c.Files))]
			switch r.Intn(6) {
			case 0:
				f.Mode = "drop"
			case 1:
				f.Mode = "trunc"
			default:
				f.St = srcBadStatuses[r.Intn(len(srcBadStatuses))]
			}
		case x < 9:
			c.Lines = append(c.Lines, "gone.pem") // listed, not served: 404
		default:
			spoilPair()
		}
		return c
	}
	switch x := r.Intn(10); {
	case x < 4 && len(pem) > 0:
		c.Files[pem[r.Intn(len(pem))]].Dangling = true
	case x < 5:
		c.Files = append(c.Files, srcFile{Name: "sub/dangling.pem", C: -1, K: -1, Dangling: true})
	case x < 6:
		c.Missing = true
		c.Files = []srcFile{}
	case x < 8:
		c.RootErr = "notdir"
		if unprivAvailable() && r.Chance(1, 2) {
			c.RootErr = "locked"
		}
	default:
		spoilPair()
	}
	return c
}

func genSourceIn(r *hx.Rand) sourceIn {
	in := sourceIn{Kind: "url", RefreshMs: []int{0, -5, 1, 500, 1000, 3000}[r.Intn(6)]}
	if r.Chance(2, 5) {
		in.Kind = "path"
	} else {
		in.URL = []string{"S/list", "S/list", "S/list", "S/x/list", "S/certs.txt"}[r.Intn(5)]
	}
	n := r.Range(1, 5)
	var lastGood srcEpoch
	for i := 0; i < n; i++ {
		var e srcEpoch
		switch x := r.Intn(100); {
		case i == 0 && x < 85, i > 0 && x < 40:
			e = genGoodEpoch(r, in.Kind)
			lastGood = e
		case i > 0 && x < 55:
			e = in.Epochs[i-1] // unchanged
		default:
			if lastGood.Files == nil {
				lastGood = genGoodEpoch(r, in.Kind)
			}
			e = breakEpoch(r, in.Kind, lastGood)
		}
		in.Epochs = append(in.Epochs, e)
	}
	return in
}

func init() {
	good := srcEpoch{Lines: []string{"a-cert.pem", "a-key.pem"}, Files: []srcFile{{Name: "a-cert.pem", C: 0, K: -1}, {Name: "a-key.pem", C: -1, K: 0}}}
	good2 := srcEpoch{Lines: []string{"z.pem", "B.pem"}, Files: []srcFile{{Name: "z.pem", C: 1, K: 1}, {Name: "B.pem", C: 2, K: 2}}}
	list503 := srcEpoch{ListSt: 503, Lines: good.Lines, Files: good.Files}
	list404 := srcEpoch{ListSt: 404, Lines: good.Lines, Files: good.Files}
	file404 := srcEpoch{Lines: good.Lines, Files: []srcFile{{Name: "a-cert.pem", C: 0, K: -1}, {Name: "a-key.pem", C: -1, K: 0, St: 404}}}
	txt500 := srcEpoch{Lines: []string{"a-cert.pem", "a-key.pem", "notes.txt"}, Files: append(append([]srcFile{}, good.Files...), srcFile{Name: "notes.txt", C: -1, K: -1, St: 500})}
	dropped := srcEpoch{ListMode: "drop", Lines: good.Lines, Files: good.Files}
	dangling := srcEpoch{Files: []srcFile{{Name: "a-cert.pem", C: 0, K: -1}, {Name: "a-key.pem", C: -1, K: 0, Dangling: true}}}
	hx.Register(&hx.Stream{
		Name: "c11.source",
		Corpus: []interface{}{
			// ea73618: a good set, then the server answers error pages
			sourceIn{Kind: "url", RefreshMs: 1000, URL: "S/list", Epochs: []srcEpoch{good, list503}},
			sourceIn{Kind: "url", RefreshMs: 1000, URL: "S/list", Epochs: []srcEpoch{good, list404}},
			sourceIn{Kind: "url", RefreshMs: 1000, URL: "S/list", Epochs: []srcEpoch{good, file404}},
			sourceIn{Kind: "url", RefreshMs: 500, URL: "S/list", Epochs: []srcEpoch{good, txt500}},
			sourceIn{Kind: "url", RefreshMs: 0, URL: "S/list", Epochs: []srcEpoch{list503, good}},
			sourceIn{Kind: "url", RefreshMs: 1000, URL: "S/list", Epochs: []srcEpoch{good, good2, dropped}},
			sourceIn{Kind: "path", RefreshMs: 1000, Epochs: []srcEpoch{{Files: good.Files}, dangling}},
			sourceIn{Kind: "path", RefreshMs: 1000, Epochs: []srcEpoch{{Files: good.Files}, {Files: good2.Files}, {Files: good2.Files}}},
			sourceIn{Kind: "path", RefreshMs: 1000, Epochs: []srcEpoch{{Files: good.Files}, {Missing: true, Files: []srcFile{}}}},
			// the directory can no longer be reached: the working set must stay
			sourceIn{Kind: "path", RefreshMs: 1000, Epochs: []srcEpoch{{Files: good.Files}, {RootErr: "notdir", Files: good.Files}}},
		},
		Gen: func(r *hx.Rand, i int) interface{} { return genSourceIn(r) },
		Run: runSource,
	})
}
