// Package rt holds what the route-table streams share: a JSON form of route definitions, the oracles the Lean
// model takes as parameters (url.Parse+String, glob.Compile), and generators over small universes engineered
// so that collisions (same host in different case, nested paths, shared tags, equal weights) are frequent.
package rt

import (
	"strconv"
	"strings"

	"github.com/fabiolb/fabio/route"
	"verif/harness/hx"
)

// Def is one route command in structured form. Weight is the decimal text that appears in the command;
// WeightRat is the exact rational of the float64 that strconv.ParseFloat yields for it.
type Def struct {
	Cmd       string     `json:"cmd"` // add | del | weight
	Service   string     `json:"service,omitempty"`
	Src       string     `json:"src,omitempty"`
	Dst       string     `json:"dst,omitempty"`
	WText     string     `json:"wtext,omitempty"`
	WeightRat string     `json:"weight,omitempty"`
	Tags      []string   `json:"tags,omitempty"`
	Opts      [][]string `json:"opts,omitempty"`
}

func (d *Def) Weight() float64 {
	if d.WText == "" {
		return 0
	}
	f, _ := strconv.ParseFloat(d.WText, 64)
	return f
}

// Fill computes WeightRat from WText.
func (d *Def) Fill() {
	if d.WText != "" {
		d.WeightRat = route.VerifRat(d.Weight())
	} else {
		d.WeightRat = ""
	}
}

// RouteDef converts to the repo's type (as the custom backend would deliver it).
func (d *Def) RouteDef() route.RouteDef {
	rd := route.RouteDef{Service: d.Service, Src: d.Src, Dst: d.Dst, Weight: d.Weight()}
	switch d.Cmd {
	case "add":
		rd.Cmd = route.RouteAddCmd
	case "del":
		rd.Cmd = route.RouteDelCmd
	case "weight":
		rd.Cmd = route.RouteWeightCmd
	default:
		rd.Cmd = route.Cmd(d.Cmd)
	}
	if len(d.Tags) > 0 {
		rd.Tags = append([]string(nil), d.Tags...)
	}
	if len(d.Opts) > 0 {
		rd.Opts = map[string]string{}
		for _, kv := range d.Opts {
			if len(kv) == 2 {
				rd.Opts[kv[0]] = kv[1]
			}
		}
	}
	return rd
}

// Line renders the definition in the command language (the text a config source would carry).
func (d *Def) Line() string {
	var b strings.Builder
	switch d.Cmd {
	case "add":
		b.WriteString("route add " + d.Service + " " + d.Src + " " + d.Dst)
		if d.WText != "" {
			b.WriteString(" weight " + d.WText)
		}
		if len(d.Tags) > 0 {
			b.WriteString(` tags "` + strings.Join(d.Tags, ",") + `"`)
		}
		if len(d.Opts) > 0 {
			var kv []string
			for _, o := range d.Opts {
				if o[1] == "" {
					kv = append(kv, o[0])
				} else {
					kv = append(kv, o[0]+"="+o[1])
				}
			}
			b.WriteString(` opts "` + strings.Join(kv, " ") + `"`)
		}
	case "del":
		b.WriteString("route del")
		if d.Service != "" {
			b.WriteString(" " + d.Service)
		}
		if len(d.Tags) > 0 {
			b.WriteString(` tags "` + strings.Join(d.Tags, ",") + `"`)
		} else {
			if d.Src != "" {
				b.WriteString(" " + d.Src)
			}
			if d.Dst != "" {
				b.WriteString(" " + d.Dst)
			}
		}
	case "weight":
		b.WriteString("route weight")
		if d.Service != "" {
			b.WriteString(" " + d.Service)
		}
		b.WriteString(" " + d.Src + " weight " + d.WText)
		if len(d.Tags) > 0 {
			b.WriteString(` tags "` + strings.Join(d.Tags, ",") + `"`)
		}
	default:
		b.WriteString(d.Cmd)
	}
	return b.String()
}

// Oracle evaluates the model's external parameters on every string that can reach them.
func Oracle(defs []Def) map[string]interface{} {
	urls := map[string]interface{}{}
	globs := map[string]interface{}{}
	for i := range defs {
		d := &defs[i]
		if d.Dst != "" {
			if n, ok := route.VerifNormURL(d.Dst); ok {
				urls[d.Dst] = n
			} else {
				urls[d.Dst] = nil
			}
		}
		if d.Src != "" {
			h, p := route.VerifHostpath(d.Src)
			globs[p] = route.VerifGlobOK(p)
			h = strings.ToLower(h) // addRoute compiles the lower-cased host of a new host (repair of D03)
			globs[h] = route.VerifGlobOK(h)
		}
	}
	return map[string]interface{}{"url": urls, "glob": globs}
}

// Universe is the vocabulary a generator draws from.
type Universe struct {
	Services, Hosts, Paths, Dsts, Tags, Weights []string
	Opts                                       [][]string
}

// Small is the default universe: few names, many collisions.
var Small = Universe{
	Services: []string{"svc-a", "svc-b", "svc-c"},
	Hosts:    []string{"", "", "foo.com", "Foo.com", "FOO.COM", "a.foo.com", "*.foo.com", "*.a.foo.com", "bar.com", "bar.com:8443", ":1234"},
	Paths:    []string{"/", "/foo", "/foo/bar", "/foo/", "/FOO", "/fo", "/bar", "/f*"},
	Dsts:     []string{"http://a:1/", "http://a:1", "http://b:2/", "https://c:3/x", "http://a:1/?q=1", "tcp://d:4", "http://[::1]:5/"},
	Tags:     []string{"a", "b", "c"},
	Weights:  []string{"", "", "0", "0.1", "0.25", "0.5", "0.5", "1", "2", "-1", "0.0001", "0.3333"},
	Opts:     [][]string{{"strip", "/foo"}, {"prepend", "/x"}, {"host", "dst"}, {"proto", "https"}, {"tlsskipverify", "true"}, {"redirect", "301"}, {"auth", "basic"}, {"flag", ""}},
}

func (u *Universe) src(r *hx.Rand) string {
	h := r.Pick(u.Hosts)
	if strings.HasPrefix(h, ":") {
		return h
	}
	return h + r.Pick(u.Paths)
}

func (u *Universe) tags(r *hx.Rand, max int) []string {
	n := r.Intn(max + 1)
	var ts []string
	for i := 0; i < n; i++ {
		ts = append(ts, r.Pick(u.Tags))
	}
	return ts
}

func (u *Universe) opts(r *hx.Rand) [][]string {
	n := 0
	if r.Chance(1, 3) {
		n = 1 + r.Intn(2)
	}
	seen := map[string]bool{}
	var os [][]string
	for i := 0; i < n; i++ {
		o := u.Opts[r.Intn(len(u.Opts))]
		if seen[o[0]] {
			continue
		}
		seen[o[0]] = true
		os = append(os, []string{o[0], o[1]})
	}
	return os
}

// GenDef draws one well-formed command. `have` lists sources already added so that del/weight commands hit
// existing routes most of the time.
func (u *Universe) GenDef(r *hx.Rand, have []Def) Def {
	var d Def
	k := r.Intn(10)
	pickHave := func() (Def, bool) {
		var adds []Def
		for _, h := range have {
			if h.Cmd == "add" {
				adds = append(adds, h)
			}
		}
		if len(adds) == 0 {
			return Def{}, false
		}
		return adds[r.Intn(len(adds))], true
	}
	recase := func(s string) string {
		if r.Chance(1, 4) {
			return strings.ToUpper(s[:len(s)/2]) + s[len(s)/2:]
		}
		return s
	}
	switch {
	case k < 6 || len(have) == 0:
		d = Def{Cmd: "add", Service: r.Pick(u.Services), Src: u.src(r), Dst: r.Pick(u.Dsts), WText: r.Pick(u.Weights), Tags: u.tags(r, 2), Opts: u.opts(r)}
	case k < 8:
		d = Def{Cmd: "del"}
		h, ok := pickHave()
		switch r.Intn(5) {
		case 0: // by service
			d.Service = r.Pick(u.Services)
		case 1: // service + src
			d.Service = r.Pick(u.Services)
			d.Src = u.src(r)
			if ok && r.Chance(3, 4) {
				d.Service, d.Src = h.Service, recase(h.Src)
			}
		case 2: // service + src + dst
			d.Service, d.Src, d.Dst = r.Pick(u.Services), u.src(r), r.Pick(u.Dsts)
			if ok && r.Chance(3, 4) {
				d.Service, d.Src, d.Dst = h.Service, recase(h.Src), h.Dst
			}
		case 3: // tags only
			d.Tags = u.tags(r, 2)
			if len(d.Tags) == 0 {
				d.Tags = []string{r.Pick(u.Tags)}
			}
		default: // service + tags
			d.Service = r.Pick(u.Services)
			d.Tags = []string{r.Pick(u.Tags)}
		}
	default:
		d = Def{Cmd: "weight", Src: u.src(r), WText: r.Pick(u.Weights[2:])}
		h, ok := pickHave()
		if ok && r.Chance(9, 10) {
			// aim at an existing route so that most weight commands match
			d.Src = recase(h.Src)
			switch r.Intn(4) {
			case 0:
				d.Service = h.Service
			case 1:
				d.Service = h.Service
				if len(h.Tags) > 0 {
					d.Tags = []string{h.Tags[r.Intn(len(h.Tags))]}
				}
			case 2:
				if len(h.Tags) > 0 {
					d.Tags = []string{h.Tags[r.Intn(len(h.Tags))]}
				} else {
					d.Service = h.Service
				}
			default:
				d.Service = r.Pick(u.Services)
			}
		} else if r.Chance(2, 3) {
			d.Service = r.Pick(u.Services)
			if r.Chance(1, 3) {
				d.Tags = []string{r.Pick(u.Tags)}
			}
		} else {
			d.Tags = []string{r.Pick(u.Tags)} // the src-only form requires tags
		}
	}
	d.Fill()
	return d
}

// GenScript draws a command script of the given length.
func (u *Universe) GenScript(r *hx.Rand, n int) []Def {
	var ds []Def
	for i := 0; i < n; i++ {
		ds = append(ds, u.GenDef(r, ds))
	}
	return ds
}

// Text joins the script into configuration text.
func Text(ds []Def) string {
	ls := make([]string, len(ds))
	for i := range ds {
		ls[i] = ds[i].Line()
	}
	return strings.Join(ls, "\n")
}
