#!/bin/sh
# MANIFEST.setup_cmd — build the framework offline from files on disk only.
set -e
cd "$(dirname "$0")"
export GOFLAGS=-mod=mod GOPROXY=off
unset GOSUMDB GOTOOLCHAIN 2>/dev/null || true
mkdir -p bin .work evidence replays lean/Fabio/Generated
(cd tools/factgen && go build -o ../../bin/factgen .)
for p in $(./bin/factgen -prop list); do
  rm -f lean/Fabio/Generated/$p.lean
  ./bin/factgen -repo /repo -prop $p -out lean/Fabio/Generated/$p.lean || echo "setup: factgen $p failed (reported by the check of $p)" >&2
done
python3 tools/mkgomod.py /repo harness/go.mod
cp /repo/go.sum harness/go.sum
props=$(ls checks | grep -v findings | sed "s/\.json$//")
for p in $props; do
  pl=$(echo $p | tr A-Z a-z)
  (cd harness && go build -tags verif -o ../bin/fvh-$pl ./$pl) || echo "setup: harness build for $p failed (reported by its check)" >&2
done
mods=""
for f in lean/Fabio/Props/*.lean; do mods="$mods Fabio.Props.$(basename $f .lean)"; done
exes=""
for p in $props; do exes="$exes fabio_model_$(echo $p | tr A-Z a-z)"; done
(cd lean && lake build Fabio $mods $exes) || echo "setup: lake build reported errors (reported by the checks)" >&2
echo "setup done"
